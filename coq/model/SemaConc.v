(** Small-step model of SlidingWindowSemaphore with blocked acquirers:
    mirrors the use of threading.Condition in s3transfer/utils.py:697-755.

    Every acquire/release body runs under the condition's lock, so each is one
    atomic step on the sequential state (model/Sema.v).  A blocking acquirer
    that finds [_count == 0] enters [condition.wait()]: it is *waiting* (in the
    condition's waiter list, asleep).  [condition.notify()] -- called exactly
    once, in the lowest-sequence branch of release, however many permits the
    pop loop frees -- moves one waiting thread (any one; CPython takes the
    oldest) to *notified*: woken, but not yet holding the lock again.  A
    notified thread, when it runs, re-tests [while self._count == 0] and either
    goes back to waiting or takes a token; in between any other thread may run
    (and take the permit).  Spurious wake-ups are allowed.

    Labels carry every nondeterministic choice, so [cstep] is a function and
    the model is executable. Definitions only. *)
From Coq Require Import ZArith List Bool.
From S3V Require Import model.Sema.
Import ListNotations.
Open Scope Z_scope.

(** waiters: (thread id, tag it wants) *)
Record cstate := mkC { c_sw : sw; c_wait : list (Z * Z); c_noti : list (Z * Z) }.

Definition cinit (cap : Z) : cstate := mkC (sw_init cap) [] [].

Inductive clabel :=
| LAcq (tid tag : Z) (blocking : bool)   (* a thread not inside acquire calls acquire(tag, blocking) *)
| LWake (tid : Z)                        (* a notified thread gets the lock back and re-tests the loop *)
| LSpurious (tid : Z)                    (* a waiting thread wakes without notify *)
| LRel (tag k : Z) (woken : option Z).   (* release(tag, k); [woken]: the waiter notify() picked *)

Fixpoint find_tid (tid : Z) (l : list (Z * Z)) : option Z :=
  match l with
  | [] => None
  | (i, t) :: r => if i =? tid then Some t else find_tid tid r
  end.

Fixpoint remove_tid (tid : Z) (l : list (Z * Z)) : list (Z * Z) :=
  match l with
  | [] => []
  | (i, t) :: r => if i =? tid then r else (i, t) :: remove_tid tid r
  end.

Definition has_tid (tid : Z) (l : list (Z * Z)) : bool :=
  match find_tid tid l with Some _ => true | None => false end.

Definition is_nil {A} (l : list A) : bool := match l with [] => true | _ => false end.

(** One step; [None] = the label is not enabled in this state.  The second
    component is the sequential operation the step performs (for the
    projection of a concurrent run to a history of model/Sema.v). *)
Definition cstep (c : cstate) (l : clabel) : option (cstate * option op) :=
  match l with
  | LAcq tid t b =>
      if has_tid tid (c_wait c) || has_tid tid (c_noti c) then None else
      let (x, s') := sw_acquire (c_sw c) t b in
      match x with
      | RWouldBlock => Some (mkC s' ((tid, t) :: c_wait c) (c_noti c), Some (OAcq t b))
      | _ => Some (mkC s' (c_wait c) (c_noti c), Some (OAcq t b))
      end
  | LWake tid =>
      match find_tid tid (c_noti c) with
      | None => None
      | Some t =>
          let (x, s') := sw_acquire (c_sw c) t true in
          match x with
          | RWouldBlock =>
              Some (mkC s' ((tid, t) :: c_wait c) (remove_tid tid (c_noti c)), Some (OAcq t true))
          | _ => Some (mkC s' (c_wait c) (remove_tid tid (c_noti c)), Some (OAcq t true))
          end
      end
  | LSpurious tid =>
      match find_tid tid (c_wait c) with
      | None => None
      | Some t => Some (mkC (c_sw c) (remove_tid tid (c_wait c)) ((tid, t) :: c_noti c), None)
      end
  | LRel t k w =>
      let (x, s') := sw_release (c_sw c) t k in
      match rel_branch (c_sw c) t k with
      | BLowest =>                       (* self._condition.notify() *)
          match w with
          | None => if is_nil (c_wait c)
                    then Some (mkC s' (c_wait c) (c_noti c), Some (ORel t k)) else None
          | Some tid =>
              match find_tid tid (c_wait c) with
              | None => None
              | Some tg => Some (mkC s' (remove_tid tid (c_wait c)) ((tid, tg) :: c_noti c),
                                 Some (ORel t k))
              end
          end
      | _ =>                             (* no notify on the other branches *)
          match w with
          | None => Some (mkC s' (c_wait c) (c_noti c), Some (ORel t k))
          | Some _ => None
          end
      end
  end.

Definition opt_list {A} (o : option A) : list A := match o with Some x => [x] | None => [] end.

(** Run a schedule; returns the final state and the sequential history. *)
Fixpoint crun (c : cstate) (ls : list clabel) : option (cstate * list op) :=
  match ls with
  | [] => Some (c, [])
  | l :: r =>
      match cstep c l with
      | None => None
      | Some (c', o) =>
          match crun c' r with
          | None => None
          | Some (c'', os) => Some (c'', opt_list o ++ os)
          end
      end
  end.
