(** Routing of extra arguments (property C15).

    Mirrors, as they are in /repo now:
      s3transfer/utils.py     get_filtered_dict, set_default_checksum_algorithm
      s3transfer/manager.py   upload/download/copy/delete, _validate_all_known_args,
                              _add_operation_defaults
      s3transfer/upload.py    _submit_upload_request, _submit_multipart_request
                              (in-place rewrite of extra_args), _extra_*_args
      s3transfer/copies.py    _submit (head mapping), _submit_copy_request,
                              _submit_multipart_request
      s3transfer/download.py  _submit, _submit_download_request,
                              _submit_ranged_download_request
      s3transfer/delete.py    _submit
      s3transfer/__init__.py  S3Transfer.upload_file/download_file,
                              MultipartUploader, MultipartDownloader
      s3transfer/processpool.py  ProcessPoolDownloader.download_file,
                              GetObjectSubmitter, GetObjectWorker

    A user's extra-args dictionary is an association list name |-> value id.
    What is sent is a list of (operation, keyword arguments).  Definitions
    only; proofs are in proofs/RouteProofs.v. *)
From Coq Require Import ZArith List Bool String Ascii.
From S3V Require Import gen.Tables gen.Shapes.
Import ListNotations.
Open Scope string_scope.
Open Scope list_scope.

(** * Values and dictionaries *)

(** A keyword-argument value: a value taken from the user's dictionary
    (identified by its id), a literal chosen by the library, or a structural /
    planned value (Bucket, Key, Body, UploadId, PartNumber, MultipartUpload,
    CopySource, Range, CopySourceRange -- their content is C14's and C01's
    business, here only their names matter). *)
Inductive val := U (id : Z) | L (s : string) | P.

Definition dict := list (string * Z).
Definition kwargs := list (string * val).

Definition mem (a : string) (l : list string) : bool := existsb (String.eqb a) l.

Fixpoint assoc {V : Type} (k : string) (d : list (string * V)) : option V :=
  match d with
  | [] => None
  | (k', v) :: r => if String.eqb k' k then Some v else assoc k r
  end.

Definition has {V : Type} (k : string) (d : list (string * V)) : bool :=
  match assoc k d with Some _ => true | None => false end.

Definition keys {V : Type} (d : list (string * V)) : list string := map fst d.

(** [d[k] = v]: replaces in place, appends when the key is new. *)
Fixpoint dset {V : Type} (k : string) (v : V) (d : list (string * V)) : list (string * V) :=
  match d with
  | [] => [(k, v)]
  | (k', v') :: r => if String.eqb k' k then (k', v) :: r else (k', v') :: dset k v r
  end.

(** [d.setdefault(k, v)] *)
Definition setdefault {V : Type} (k : string) (v : V) (d : list (string * V)) :=
  if has k d then d else dset k v d.

(** [a.update(b)] *)
Definition update {V : Type} (a b : list (string * V)) : list (string * V) :=
  fold_left (fun acc kv => dset (fst kv) (snd kv) acc) b a.

(** utils.get_filtered_dict(original, whitelisted_keys=None, blocklisted_keys=None):
    [(wl and key in wl) or (bl and key not in bl)] -- an empty list is falsy,
    exactly like None. *)
Definition truthy (l : option (list string)) : bool :=
  match l with Some (_ :: _) => true | _ => false end.
Definition in_opt (a : string) (l : option (list string)) : bool :=
  match l with Some l => mem a l | None => false end.
Definition pass (wl bl : option (list string)) (k : string) : bool :=
  (truthy wl && in_opt k wl) || (truthy bl && negb (in_opt k bl)).
Definition filtered_dict {V : Type} (d : list (string * V)) (wl bl : option (list string))
  : list (string * V) :=
  filter (fun kv => pass wl bl (fst kv)) d.

(** The user's dictionary as keyword arguments. *)
Definition inject (d : dict) : kwargs := map (fun kv => (fst kv, U (snd kv))) d.

(** _validate_all_known_args: every key must be in the allow-list, otherwise
    ValueError is raised before anything else happens. *)
Definition validate (d : dict) (allowed : list string) : bool :=
  forallb (fun kv => mem (fst kv) allowed) d.

(** [s.replace(pat, "")] for a non-empty [pat]: leftmost, non-overlapping. *)
Fixpoint sdrop (n : nat) (s : string) : string :=
  match n, s with
  | O, _ => s
  | S k, String _ r => sdrop k r
  | S _, EmptyString => EmptyString
  end.
Fixpoint remove_all_fuel (fuel : nat) (pat s : string) : string :=
  match fuel with
  | O => s
  | S f =>
      match s with
      | EmptyString => EmptyString
      | String c r =>
          if prefix pat s then remove_all_fuel f pat (sdrop (length pat) s)
          else String c (remove_all_fuel f pat r)
      end
  end.
Definition remove_all (pat s : string) : string := remove_all_fuel (S (length s)) pat s.

(** * Checksum handling of uploads *)

(** utils.set_default_checksum_algorithm *)
Definition set_default_checksum_algorithm (e : kwargs) : kwargs :=
  if existsb (fun c => has c e) FULL_OBJECT_CHECKSUM_ARGS then e
  else setdefault "ChecksumAlgorithm" (L DEFAULT_CHECKSUM_ALGORITHM) e.

(** upload.py _submit_multipart_request: for checksum in FULL_OBJECT_CHECKSUM_ARGS:
      if checksum in extra_args:
          extra_args["ChecksumType"] = "FULL_OBJECT"
          extra_args["ChecksumAlgorithm"] = checksum.replace("Checksum", "")   *)
Definition rewrite_step (e : kwargs) (c : string) : kwargs :=
  if has c e
  then dset "ChecksumAlgorithm" (L (remove_all "Checksum" c))
            (dset "ChecksumType" (L "FULL_OBJECT") e)
  else e.
Definition full_object_rewrite (e : kwargs) : kwargs :=
  fold_left rewrite_step FULL_OBJECT_CHECKSUM_ARGS e.

(** The extra_args dictionary the upload submission task works with:
    manager.upload copies the user's, adds the default when the client's
    request_checksum_calculation is "when_supported" ([ws]); the multipart
    path ([mp]) then rewrites it in place. *)
Definition eff_upload (ws mp : bool) (d : dict) : kwargs :=
  let e0 := inject d in
  let e1 := if ws then set_default_checksum_algorithm e0 else e0 in
  if mp then full_object_rewrite e1 else e1.

(** * Operations, modes, plans *)

Inductive op :=
| PutObject | CreateMultipartUpload | UploadPart | CompleteMultipartUpload
| HeadObject | GetObject | CopyObject | UploadPartCopy | DeleteObject.

Definition op_name (o : op) : string :=
  match o with
  | PutObject => "PutObject" | CreateMultipartUpload => "CreateMultipartUpload"
  | UploadPart => "UploadPart" | CompleteMultipartUpload => "CompleteMultipartUpload"
  | HeadObject => "HeadObject" | GetObject => "GetObject" | CopyObject => "CopyObject"
  | UploadPartCopy => "UploadPartCopy" | DeleteObject => "DeleteObject"
  end.

(** Input shape of the installed botocore (gen/Shapes.v). *)
Definition SHAPE (o : op) : list string :=
  match o with
  | PutObject => SHAPE_PutObject | CreateMultipartUpload => SHAPE_CreateMultipartUpload
  | UploadPart => SHAPE_UploadPart | CompleteMultipartUpload => SHAPE_CompleteMultipartUpload
  | HeadObject => SHAPE_HeadObject | GetObject => SHAPE_GetObject | CopyObject => SHAPE_CopyObject
  | UploadPartCopy => SHAPE_UploadPartCopy | DeleteObject => SHAPE_DeleteObject
  end.

(** front-end x method x mode.
    [ws]: client config request_checksum_calculation = "when_supported";
    [mp]/[ranged]: size >= multipart_threshold; [known]: the size was provided
    (no HeadObject); [sv]: the copy source dictionary carries a VersionId. *)
Inductive mode :=
| TMUpload (ws mp : bool)
| TMDownload (known ranged : bool)
| TMCopy (known mp sv : bool)
| TMDelete
| LegUpload (mp : bool)
| LegDownload (ranged : bool)
| PoolDownload (known ranged : bool).

Definition allowed_of (m : mode) : list string :=
  match m with
  | TMUpload _ _ => TM_ALLOWED_UPLOAD_ARGS
  | TMDownload _ _ => TM_ALLOWED_DOWNLOAD_ARGS
  | TMCopy _ _ _ => TM_ALLOWED_COPY_ARGS
  | TMDelete => TM_ALLOWED_DELETE_ARGS
  | LegUpload _ => LEGACY_ALLOWED_UPLOAD_ARGS
  | LegDownload _ => LEGACY_ALLOWED_DOWNLOAD_ARGS
  | PoolDownload _ _ => ALLOWED_DOWNLOAD_ARGS
  end.

(** The operations a transfer with [n] parts issues, in submission order
    (AbortMultipartUpload is a failure cleanup with Bucket/Key/UploadId only
    and is not part of this table). *)
Definition multipart_ops (part : op) (n : nat) : list op :=
  CreateMultipartUpload :: repeat part n ++ [CompleteMultipartUpload].
Definition get_ops (ranged : bool) (n : nat) : list op :=
  if ranged then repeat GetObject n else [GetObject].
Definition head_ops (known : bool) : list op := if known then [] else [HeadObject].

Definition plan (m : mode) (n : nat) : list op :=
  match m with
  | TMUpload _ mp => if mp then multipart_ops UploadPart n else [PutObject]
  | TMDownload known ranged => head_ops known ++ get_ops ranged n
  | TMCopy known mp _ =>
      head_ops known ++ (if mp then multipart_ops UploadPartCopy n else [CopyObject])
  | TMDelete => [DeleteObject]
  | LegUpload mp => if mp then multipart_ops UploadPart n else [PutObject]
  | LegDownload ranged => HeadObject :: get_ops ranged n
  | PoolDownload known ranged => head_ops known ++ get_ops ranged n
  end.

Definition ops_of (m : mode) : list op := plan m 1.

(** Keyword arguments every call of [o] carries besides the extra arguments. *)
Definition struct_names (m : mode) (o : op) : list string :=
  match o with
  | PutObject => ["Bucket"; "Key"; "Body"]
  | CreateMultipartUpload => ["Bucket"; "Key"]
  | UploadPart => ["Bucket"; "Key"; "UploadId"; "PartNumber"; "Body"]
  | CompleteMultipartUpload => ["Bucket"; "Key"; "UploadId"; "MultipartUpload"]
  | HeadObject =>
      match m with
      | TMCopy _ _ true => ["Bucket"; "Key"; "VersionId"]   (* copy.copy(copy_source) *)
      | _ => ["Bucket"; "Key"]
      end
  | GetObject => ["Bucket"; "Key"]
  | CopyObject => ["CopySource"; "Bucket"; "Key"]
  | UploadPartCopy => ["CopySource"; "Bucket"; "Key"; "UploadId"; "PartNumber"]
  | DeleteObject => ["Bucket"; "Key"]
  end.
Definition S_ (names : list string) : kwargs := map (fun k => (k, P)) names.

(** copies.py _submit: for param, value in extra_args.items():
      if param in MAPPING: head_object_request[MAPPING[param]] = value *)
Definition head_map_step (req : kwargs) (kv : string * val) : kwargs :=
  match assoc (fst kv) CP_HEAD_MAPPING with
  | Some t => dset t (snd kv) req
  | None => req
  end.

(** * The keyword arguments of each call *)
Definition kwargs_of (m : mode) (o : op) (d : dict) : kwargs :=
  let st := S_ (struct_names m o) in
  match m, o with
  (* upload.py: PutObjectTask / CreateMultipartUploadTask / UploadPartTask /
     CompleteMultipartUploadTask with the four _extra_*_args filters *)
  | TMUpload ws mp, PutObject =>
      st ++ filtered_dict (eff_upload ws mp d) None (Some UP_PUT_OBJECT_BLOCKLIST)
  | TMUpload ws mp, CreateMultipartUpload =>
      st ++ filtered_dict (eff_upload ws mp d) None (Some UP_CREATE_MULTIPART_BLOCKLIST)
  | TMUpload ws mp, UploadPart =>
      st ++ filtered_dict (eff_upload ws mp d) (Some UP_UPLOAD_PART_ARGS) None
  | TMUpload ws mp, CompleteMultipartUpload =>
      st ++ filtered_dict (eff_upload ws mp d) (Some UP_COMPLETE_MULTIPART_ARGS) None
  (* download.py: head_object(Bucket, Key, **extra_args);
     get_object(Bucket, Key, **extra_args) resp. with
     extra_args = {'Range': r}; extra_args.update(call_args.extra_args) *)
  | TMDownload _ _, HeadObject => st ++ inject d
  | TMDownload _ ranged, GetObject =>
      st ++ (if ranged then update [("Range", P)] (inject d) else inject d)
  (* copies.py *)
  | TMCopy _ _ _, HeadObject => fold_left head_map_step (inject d) st
  | TMCopy _ _ _, CopyObject => st ++ inject d
  | TMCopy _ _ _, CreateMultipartUpload =>
      st ++ filter (fun kv => negb (mem (fst kv) CP_CREATE_MULTIPART_BLACKLIST)) (inject d)
  | TMCopy _ _ _, UploadPartCopy =>
      st ++ dset "CopySourceRange" P
              (filtered_dict (inject d) (Some CP_UPLOAD_PART_COPY_ARGS) None)
  | TMCopy _ _ _, CompleteMultipartUpload =>
      st ++ filtered_dict (inject d) (Some CP_COMPLETE_MULTIPART_ARGS) None
  (* delete.py *)
  | TMDelete, DeleteObject => st ++ inject d
  (* legacy S3Transfer / MultipartUploader / MultipartDownloader *)
  | LegUpload _, PutObject => st ++ inject d
  | LegUpload _, CreateMultipartUpload => st ++ inject d
  | LegUpload _, UploadPart =>
      st ++ filter (fun kv => mem (fst kv) LEGACY_UPLOAD_PART_ARGS) (inject d)
  | LegUpload _, CompleteMultipartUpload => st
  | LegDownload _, HeadObject => st ++ inject d
  | LegDownload ranged, GetObject =>
      st ++ (if ranged then S_ ["Range"] else []) ++ inject d
  (* processpool.py *)
  | PoolDownload _ _, HeadObject => st ++ inject d
  | PoolDownload _ ranged, GetObject =>
      st ++ (if ranged then update [("Range", P)] (inject d) else inject d)
  | _, _ => []
  end.

(** The whole transfer: [None] = ValueError from the validation, before any
    request; otherwise the calls in submission order. *)
Definition route (m : mode) (n : nat) (d : dict) : option (list (op * kwargs)) :=
  if validate d (allowed_of m)
  then Some (map (fun o => (o, kwargs_of m o d)) (plan m n))
  else None.

(** Consecutive transfers on one front-end object.  [route] has no input besides
    the mode, the part count and the dictionary of the CURRENT call: no state is
    carried from one transfer to the next, the caller's objects (copy_source,
    extra_args, subscribers) are only read, and the CopySource value of
    CopyObject / UploadPartCopy is the caller's (structural value [P]).  So the
    calls of the i-th transfer of a sequence are [route] of its own arguments;
    the tie checks exactly this on sequences of transfers that share the
    caller-owned objects (harness/props/c15.py, stream "sequences"). *)
Definition route_seq (steps : list (mode * nat * dict)) : list (option (list (op * kwargs))) :=
  map (fun s => route (fst (fst s)) (snd (fst s)) (snd s)) steps.

(** * The same routing, one keyword argument at a time *)

(** What a single keyword-argument slot of a call holds. *)
Inductive res := RAbsent | RUser | RLit (s : string) | RPlanned.

Definition interp (r : res) (x : option Z) : option val :=
  match r with
  | RAbsent => None
  | RUser => option_map U x
  | RLit s => Some (L s)
  | RPlanned => Some P
  end.

(** The finite summary of a dictionary the checksum handling depends on: the
    last name of FULL_OBJECT_CHECKSUM_ARGS (in that list's order) it binds. *)
Definition last_full {V : Type} (d : list (string * V)) : option string :=
  find (fun c => has c d) (rev FULL_OBJECT_CHECKSUM_ARGS).

Definition LFS : list (option string) := None :: map Some FULL_OBJECT_CHECKSUM_ARGS.

(** Slot [t] of the upload's effective dictionary, given whether the user
    bound [t] and the summary. *)
Definition eff_res (ws mp : bool) (lf : option string) (t : string) (present : bool) : res :=
  let user := if present then RUser else RAbsent in
  if String.eqb t "ChecksumType" then
    match lf with
    | Some _ => if mp then RLit "FULL_OBJECT" else user
    | None => user
    end
  else if String.eqb t "ChecksumAlgorithm" then
    match lf with
    | Some c => if mp then RLit (remove_all "Checksum" c) else user
    | None => if present then RUser
              else if ws then RLit DEFAULT_CHECKSUM_ALGORITHM else RAbsent
    end
  else user.

Inductive recipe :=
| RcNone                                        (* no such call in this mode *)
| RcPass (p : string -> bool)                   (* struct ++ filter p (user's dict) *)
| RcUpload (ws mp : bool) (p : string -> bool)  (* struct ++ filter p (effective dict) *)
| RcHeadMap.                                    (* copy: head mapping *)

Definition all_names (_ : string) : bool := true.

Definition recipe_of (m : mode) (o : op) : recipe :=
  match m, o with
  | TMUpload ws mp, PutObject => RcUpload ws mp (pass None (Some UP_PUT_OBJECT_BLOCKLIST))
  | TMUpload ws mp, CreateMultipartUpload =>
      RcUpload ws mp (pass None (Some UP_CREATE_MULTIPART_BLOCKLIST))
  | TMUpload ws mp, UploadPart => RcUpload ws mp (pass (Some UP_UPLOAD_PART_ARGS) None)
  | TMUpload ws mp, CompleteMultipartUpload =>
      RcUpload ws mp (pass (Some UP_COMPLETE_MULTIPART_ARGS) None)
  | TMDownload _ _, HeadObject => RcPass all_names
  | TMDownload _ _, GetObject => RcPass all_names
  | TMCopy _ _ _, HeadObject => RcHeadMap
  | TMCopy _ _ _, CopyObject => RcPass all_names
  | TMCopy _ _ _, CreateMultipartUpload =>
      RcPass (fun k => negb (mem k CP_CREATE_MULTIPART_BLACKLIST))
  | TMCopy _ _ _, UploadPartCopy => RcPass (pass (Some CP_UPLOAD_PART_COPY_ARGS) None)
  | TMCopy _ _ _, CompleteMultipartUpload => RcPass (pass (Some CP_COMPLETE_MULTIPART_ARGS) None)
  | TMDelete, DeleteObject => RcPass all_names
  | LegUpload _, PutObject => RcPass all_names
  | LegUpload _, CreateMultipartUpload => RcPass all_names
  | LegUpload _, UploadPart => RcPass (fun k => mem k LEGACY_UPLOAD_PART_ARGS)
  | LegUpload _, CompleteMultipartUpload => RcPass (fun _ => false)
  | LegDownload _, HeadObject => RcPass all_names
  | LegDownload _, GetObject => RcPass all_names
  | PoolDownload _ _, HeadObject => RcPass all_names
  | PoolDownload _ _, GetObject => RcPass all_names
  | _, _ => RcNone
  end.

(** Structural slots of a call, including the planned Range / CopySourceRange. *)
Definition planned_names (m : mode) (o : op) : list string :=
  struct_names m o ++
  match m, o with
  | TMDownload _ true, GetObject => ["Range"]
  | LegDownload true, GetObject => ["Range"]
  | PoolDownload _ true, GetObject => ["Range"]
  | TMCopy _ _ _, UploadPartCopy => ["CopySourceRange"]
  | _, _ => []
  end.

(** Slot [t] of the call of [o] in mode [m]: [present] says whether the user's
    dictionary binds the source name of the slot ([src]), [lf] is the summary. *)
Definition cellK (m : mode) (o : op) (lf : option string) (t : string) (present : bool) : res :=
  if mem t (planned_names m o) then RPlanned else
  let user := if present then RUser else RAbsent in
  match recipe_of m o with
  | RcNone => RAbsent
  | RcPass p => if p t then user else RAbsent
  | RcUpload ws mp p => if p t then eff_res ws mp lf t present else RAbsent
  | RcHeadMap => if mem t (map snd CP_HEAD_MAPPING) then user else RAbsent
  end.

(** The user's name whose value feeds slot [t] (identity except for the
    HeadObject of a copy, where it is the inverse of the head mapping). *)
Definition src (m : mode) (o : op) (t : string) : string :=
  match recipe_of m o with
  | RcHeadMap =>
      match find (fun kv => String.eqb (snd kv) t) CP_HEAD_MAPPING with
      | Some kv => fst kv
      | None => t
      end
  | _ => t
  end.

Definition cell (m : mode) (o : op) (lf : option string) (t : string) (x : option Z) : option val :=
  interp (cellK m o lf t (match x with Some _ => true | None => false end)) x.

(** The slot name under which the code forwards the user's argument [a]. *)
Definition fwd_name (m : mode) (o : op) (a : string) : string :=
  match recipe_of m o with
  | RcHeadMap => match assoc a CP_HEAD_MAPPING with Some t => t | None => a end
  | _ => a
  end.

Definition res_absent (r : res) : bool := match r with RAbsent => true | _ => false end.

(** Where the user's argument [a], when present, ends up in the call of [o]:
    the slots fed by [a] that are not absent, with what they hold. *)
Definition forwarded (m : mode) (o : op) (lf : option string) (a : string) : list (string * res) :=
  let cands := if String.eqb (fwd_name m o a) a then [a] else [a; fwd_name m o a] in
  flat_map (fun t =>
              if String.eqb (src m o t) a && negb (res_absent (cellK m o lf t true))
              then [(t, cellK m o lf t true)] else []) cands.

(** * Specification vocabulary: C15's text over the installed shapes only
      (nothing below mentions a table of s3transfer) *)

(** "a user-supplied full-object checksum": a Checksum<ALGORITHM> parameter of
    CompleteMultipartUpload (every such parameter except ChecksumType). *)
Definition is_full_checksum_name (a : string) : bool :=
  prefix "Checksum" a && mem a SHAPE_CompleteMultipartUpload
  && negb (String.eqb a "ChecksumType").

(** "copy-source conditions and keys are mapped to their HeadObject
    equivalents": CopySourceX |-> X. *)
Definition copy_source_equiv (a : string) : option string :=
  if prefix "CopySource" a then Some (sdrop 10 a) else None.

Definition SSEC_NAMES : list string :=
  ["SSECustomerAlgorithm"; "SSECustomerKey"; "SSECustomerKeyMD5"].

Definition is_copy_head (m : mode) (o : op) : bool :=
  match m, o with TMCopy _ _ _, HeadObject => true | _, _ => false end.
Definition is_mp_upload (m : mode) : bool :=
  match m with TMUpload _ true => true | _ => false end.
Definition is_upload_part (o : op) : bool :=
  match o with UploadPart => true | _ => false end.
Definition is_some {A : Type} (x : option A) : bool :=
  match x with Some _ => true | None => false end.

(** What C15 says must happen to the user's argument [a] at operation [o]. *)
Definition spec_forwarded (m : mode) (o : op) (lf : option string) (a : string)
  : list (string * res) :=
  let t := if is_copy_head m o
           then match copy_source_equiv a with Some t => t | None => a end
           else a in
  if negb (mem t (SHAPE o)) then []                      (* no parameter of that name *)
  else if is_copy_head m o && mem a SSEC_NAMES then []   (* the destination's key: HeadObject
                                                            goes to the source, whose key
                                                            arrives as CopySourceSSECustomer* *)
  else if is_upload_part o && is_full_checksum_name a then []   (* never to individual parts *)
  else if is_mp_upload m && is_some lf && String.eqb a "ChecksumType"
       then [(t, RLit "FULL_OBJECT")]                    (* the library's matching type *)
  else if is_mp_upload m && String.eqb a "ChecksumAlgorithm"
       then match lf with
            | Some c => [(t, RLit (sdrop 8 c))]          (* the library's matching algorithm *)
            | None => [(t, RUser)]
            end
  else [(t, RUser)].

(** The four cells of known finding F6, by name. *)
Definition F6_NAMES : list string :=
  ["RequestPayer"; "SSECustomerAlgorithm"; "SSECustomerKey"; "SSECustomerKeyMD5"].
Definition f6_cell (m : mode) (o : op) (a : string) : bool :=
  match m, o with
  | LegUpload true, CompleteMultipartUpload => mem a F6_NAMES
  | _, _ => false
  end.

(** * Finite enumerations *)
Definition BOOLS : list bool := [false; true].
Definition TM_MODES : list mode :=
  flat_map (fun a => map (fun b => TMUpload a b) BOOLS) BOOLS ++
  flat_map (fun a => map (fun b => TMDownload a b) BOOLS) BOOLS ++
  flat_map (fun a => flat_map (fun b => map (fun c => TMCopy a b c) BOOLS) BOOLS) BOOLS ++
  [TMDelete].
Definition POOL_MODES : list mode :=
  flat_map (fun a => map (fun b => PoolDownload a b) BOOLS) BOOLS.
Definition MAIN_MODES : list mode := TM_MODES ++ POOL_MODES.
Definition LEGACY_MODES : list mode :=
  map LegUpload BOOLS ++ map LegDownload BOOLS.
Definition ALL_MODES : list mode := MAIN_MODES ++ LEGACY_MODES.
Definition ALL_OPS : list op :=
  [PutObject; CreateMultipartUpload; UploadPart; CompleteMultipartUpload;
   HeadObject; GetObject; CopyObject; UploadPartCopy; DeleteObject].

(** Every name that can occupy a slot of a call in mode [m]. *)
Definition universe (m : mode) (o : op) : list string :=
  planned_names m o ++ allowed_of m ++ map snd CP_HEAD_MAPPING
  ++ ["ChecksumType"; "ChecksumAlgorithm"].

(** * Boolean equalities used by the finite checks *)
Definition res_eqb (a b : res) : bool :=
  match a, b with
  | RAbsent, RAbsent => true
  | RUser, RUser => true
  | RLit s, RLit s' => String.eqb s s'
  | RPlanned, RPlanned => true
  | _, _ => false
  end.
Fixpoint fwd_eqb (a b : list (string * res)) : bool :=
  match a, b with
  | [], [] => true
  | (t, r) :: a', (t', r') :: b' => String.eqb t t' && res_eqb r r' && fwd_eqb a' b'
  | _, _ => false
  end.
Definition op_eqb (a b : op) : bool := String.eqb (op_name a) (op_name b).
