(** Progress accounting on top of Chunk.v.  Definitions only.

    * AggregatedProgressCallback (s3transfer/upload.py): batches progress
      below a threshold; [flush] (the chunk's close callback) emits only when
      the pending amount is > 0.
    * The script language of one client request on an upload body, the shape
      botocore's endpoint produces:
        Sign    := disable . (read|seek)* . seek 0 . enable
        Send    := read*
        Request := Sign . Send . (seek 0 . Sign . Send)*
      (request-created first-handler = disable, signer reads, last-handler =
      enable, the HTTP send, AWSPreparedRequest.reset_stream = seek 0).
    * Copies report the part size once per request (copies.py). *)
From Coq Require Import ZArith List Bool.
From S3V Require Import gen.Tables model.Chunk.
Import ListNotations.
Open Scope Z_scope.

(** * Aggregator *)

(** __call__(bytes_transferred): returns the new pending amount and the values
    handed to the subscriber callbacks. *)
Definition agg_call (thr pending n : Z) : Z * list Z :=
  let p := pending + n in
  if p >=? thr then (0, [p]) else (p, []).

(** flush() *)
Definition agg_flush (pending : Z) : Z * list Z :=
  if pending >? 0 then (0, [pending]) else (pending, []).

Definition agg_ev (thr pending : Z) (e : ev) : Z * list Z :=
  match e with
  | EvProgress n => agg_call thr pending n
  | EvClose => agg_flush pending
  end.

(** The chunk's events pushed through one aggregator. *)
Fixpoint agg_run (thr pending : Z) (es : list ev) : Z * list Z :=
  match es with
  | [] => (pending, [])
  | e :: r =>
      let '(p1, o1) := agg_ev thr pending e in
      let '(p2, o2) := agg_run thr p1 r in
      (p2, o1 ++ o2)
  end.

(** What the subscriber sees for one upload body: the aggregator starts empty. *)
Definition subscriber_values (thr : Z) (es : list ev) : list Z := snd (agg_run thr 0 es).

(** With the source's threshold (gen/Tables.v). *)
Definition subscriber_values_default := subscriber_values AGG_PROGRESS_THRESHOLD.

Fixpoint zsum (l : list Z) : Z :=
  match l with [] => 0 | x :: r => x + zsum r end.

(** * Script language of one request *)

(** One attempt: what the signer does to the body while reporting is
    suppressed, and the read sizes of the send ([None] = read()). *)
Record attempt := mkAttempt {
  sign_body : list op;
  send_reads : list (option Z)
}.

Definition sign_ops (body : list op) : list op :=
  Disable :: body ++ [Seek 0 0; Enable].

Definition send_ops (reads : list (option Z)) : list op := map Read reads.

Definition attempt_ops (a : attempt) : list op :=
  sign_ops (sign_body a) ++ send_ops (send_reads a).

(** Request := Sign . Send . (seek 0 . Sign . Send)* *)
Definition request_ops (first : attempt) (resends : list attempt) : list op :=
  attempt_ops first ++ flat_map (fun a => Seek 0 0 :: attempt_ops a) resends.

(** Operations allowed inside a script: reads of a non-negative amount or
    read(); any seek; tell. *)
Definition valid_read (amt : option Z) : bool :=
  match amt with None => true | Some a => 0 <=? a end.

Definition valid_body_op (o : op) : bool :=
  match o with
  | Read amt => valid_read amt
  | Seek _ _ => true
  | Tell => true
  | _ => false
  end.

Definition valid_attempt (a : attempt) : bool :=
  forallb valid_body_op (sign_body a) && forallb valid_read (send_reads a).

(** Any script (used for the general invariant): every read asks for a
    non-negative amount or for everything. *)
Definition valid_op (o : op) : bool :=
  match o with Read amt => valid_read amt | _ => true end.

(** The hypothesis about suppressed segments, stated on a run: whenever
    reporting is switched on again, the bounded position is what it was when
    reporting was switched off ([anchor]; for a chunk that starts disabled the
    anchor is its initial bounded position). *)
Fixpoint suppressed_returns (c : chunk) (anchor : Z) (ops : list op) : Prop :=
  match ops with
  | [] => True
  | o :: rest =>
      let c1 := fst (fst (step c o)) in
      match o with
      | Enable =>
          (enabled c = false -> bounded_pos c = anchor) /\
          suppressed_returns c1 anchor rest
      | Disable =>
          suppressed_returns c1 (if enabled c then bounded_pos c else anchor) rest
      | _ => suppressed_returns c1 anchor rest
      end
  end.

(** The same hypothesis as a decision procedure (run by the harness on the
    scripts it records; proved sound in proofs/ChunkProofs.v). *)
Fixpoint suppressed_ok (c : chunk) (anchor : Z) (ops : list op) : bool :=
  match ops with
  | [] => true
  | o :: rest =>
      let c1 := fst (fst (step c o)) in
      match o with
      | Enable =>
          (enabled c || (bounded_pos c =? anchor)) && suppressed_ok c1 anchor rest
      | Disable =>
          suppressed_ok c1 (if enabled c then bounded_pos c else anchor) rest
      | _ => suppressed_ok c1 anchor rest
      end
  end.

(** All hypotheses of the reporting theorem for a chunk and a script: the
    window lies in the file, nothing was read yet if reporting is on, the file
    is open, reads are well-formed, suppressed segments return. *)
Definition hyp_ok (c : chunk) (ops : list op) : bool :=
  (0 <=? start_byte c) && (0 <=? size c) &&
  (start_byte c + size c <=? Z.of_nat (length (file c))) &&
  (0 <=? amount_read c) && (fpos c =? start_byte c + amount_read c) &&
  negb (closed c) && (negb (enabled c) || (bounded_pos c =? 0)) &&
  forallb valid_op ops && suppressed_ok c 0 ops.

(** The whole life of one upload body: the request script, then close
    (PutObjectTask / UploadPartTask: [with fileobj as body]). *)
Definition body_life (first : attempt) (resends : list attempt) : list op :=
  request_ops first resends ++ [Close].

(** * Copies *)

(** CopyObjectTask / CopyPartTask: callback(bytes_transferred=size) once, after
    the request returned (called directly: a zero size is passed on). *)
Definition copy_progress (part_size : Z) : list Z := [part_size].

(** * Interleavings of the per-part value lists (parts run concurrently and
    share the subscriber). *)
Inductive interleaving : list (list Z) -> list Z -> Prop :=
| il_done : forall ls, Forall (fun l => l = []) ls -> interleaving ls []
| il_pick : forall pre x l post out,
    interleaving (pre ++ l :: post) out ->
    interleaving (pre ++ (x :: l) :: post) (x :: out).
