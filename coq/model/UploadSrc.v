(** Upload sources: the bodies the three upload input managers (and the legacy
    uploader) hand to the client, and the run of an upload / copy plan against
    the reference S3 (S3Spec.v).  Mirrors s3transfer/upload.py,
    copies.py, tasks.py (_get_all_main_kwargs) and __init__.py
    (MultipartUploader) AS THEY ARE IN /repo NOW.  Definitions only.

    Streams.  A user stream is its unread content, a *short-read script* and a
    log of the amounts requested from it.  One raw [read(n)] (n > 0) returns
    [min n (max 1 s)] bytes, where [s] is the next script entry (the whole [n]
    when the script ran out), or what is left if that is less -- so a read
    returns nothing only at the end of the stream, and otherwise any number
    of bytes in 1..n the script dictates: this is harness/fakes3.py
    NonSeekableReader, and every behaviour of a pipe or socket is some script.
    [read()] returns everything that is left. *)
From Coq Require Import ZArith List Bool.
From S3V Require Import gen.Tables model.Plan model.Chunk model.Progress model.S3Spec.
Import ListNotations.
Open Scope Z_scope.

(** * Streams with a short-read oracle *)

Record stream := mkStream {
  rest : list byte;        (* unread content *)
  script : list Z;         (* short-read script *)
  rlog : list Z            (* amounts requested so far, newest first; -1 = read() *)
}.

Definition raw_read (st : stream) (n : Z) : list byte * stream :=
  let k := match script st with
           | [] => n
           | s :: _ => Z.min n (Z.max 1 s)
           end in
  (firstn (Z.to_nat k) (rest st),
   mkStream (skipn (Z.to_nat k) (rest st)) (tl (script st)) (n :: rlog st)).

Definition read_all (st : stream) : list byte * stream :=
  (rest st, mkStream [] (script st) ((-1) :: rlog st)).

(** * The non-seekable manager (UploadNonSeekableInputManager) *)

(** _read_from_stream: keep reading until [amount] bytes arrived or a read
    returned nothing.  Every round but the last consumes at least one byte, so
    [S (length rest)] rounds always suffice (read_from_stream below). *)
Fixpoint read_loop (fuel : nat) (st : stream) (remaining : Z) : list byte * stream :=
  match fuel with
  | O => ([], st)
  | S f =>
      if remaining <=? 0 then ([], st) else
      let '(chunk, st1) := raw_read st remaining in
      match chunk with
      | [] => ([], st1)
      | _ =>
          let '(more, st2) := read_loop f st1 (remaining - Z.of_nat (length chunk)) in
          (chunk ++ more, st2)
      end
  end.

Definition read_from_stream (st : stream) (amount : Z) : list byte * stream :=
  read_loop (S (length (rest st))) st amount.

(** The code before the short-read repair (commit "F12"): one raw read. *)
Definition read_once (st : stream) (amount : Z) : list byte * stream := raw_read st amount.

(** _read(fileobj, amount, truncate) over the manager's [_initial_data];
    returns (data, new _initial_data, stream).  [rd] is how the stream itself
    is read: [read_from_stream] in the current code. *)
Definition ns_read_with (rd : stream -> Z -> list byte * stream)
    (im : list byte) (st : stream) (amount : Z) (truncate : bool)
  : list byte * list byte * stream :=
  if Z.of_nat (length im) =? 0 then
    let '(d, st1) := rd st amount in (d, im, st1)
  else if amount <=? Z.of_nat (length im) then
    (firstn (Z.to_nat amount) im,
     (if truncate then skipn (Z.to_nat amount) im else im), st)
  else
    let '(d, st1) := rd st (amount - Z.of_nat (length im)) in
    (im ++ d, (if truncate then [] else im), st1).

(** requires_multipart_upload (size not provided by the user):
    _initial_data := _read(fileobj, threshold, False). *)
Definition ns_preread_with rd (st : stream) (thr : Z) : list byte * stream :=
  let '(d, _, st1) := ns_read_with rd [] st thr false in (d, st1).

Definition ns_requires_multipart (im : list byte) (thr : Z) : bool :=
  is_multipart_preread (Z.of_nat (length im)) thr.

(** yield_upload_part_bodies: part_number += 1; _read(chunksize); stop at the
    first empty result.  Every yielded part consumes at least one byte of
    [_initial_data ++ rest]. *)
Fixpoint ns_parts_loop rd (fuel : nat) (im : list byte) (st : stream) (c k : Z)
  : list (Z * list byte) * stream :=
  match fuel with
  | O => ([], st)
  | S f =>
      let '(d, im1, st1) := ns_read_with rd im st c true in
      match d with
      | [] => ([], st1)
      | _ =>
          let '(more, st2) := ns_parts_loop rd f im1 st1 c (k + 1) in
          ((k, d) :: more, st2)
      end
  end.

Definition ns_parts_with rd (im : list byte) (st : stream) (c : Z)
  : list (Z * list byte) * stream :=
  ns_parts_loop rd (S (length im + length (rest st))) im st c 1.

(** get_put_object_body: _initial_data + fileobj.read() *)
Definition ns_put_body (im : list byte) (st : stream) : list byte * stream :=
  let '(d, st1) := read_all st in (im ++ d, st1).

(** _wrap_data: BytesIO(data) in a chunk of exactly its length. *)
Definition wrap_data (d : list byte) : chunk :=
  mk_chunk d 0 (Z.of_nat (length d)) (Z.of_nat (length d)) false.

(** The current code. *)
Definition ns_preread := ns_preread_with read_from_stream.
Definition ns_parts := ns_parts_with read_from_stream.
(** Before the repair. *)
Definition ns_preread_unrepaired := ns_preread_with read_once.
Definition ns_parts_unrepaired := ns_parts_with read_once.

(** * The seekable manager (UploadSeekableInputManager) *)

(** provide_transfer_size: tell, seek(0, 2), tell, seek(start): end - start. *)
Definition sk_size (data : list byte) (pos : Z) : Z := Z.of_nat (length data) - pos.

(** get_put_object_body: the user's own file object, positioned at [pos],
    chunk_size = size, full size = pos + size. *)
Definition sk_put_body (data : list byte) (pos : Z) : chunk :=
  mk_chunk data pos (sk_size data pos) (pos + sk_size data pos) false.

(** yield_upload_part_bodies: [n] parts (n from the measured size); each one
    reads [part_size] bytes from the user's stream -- looping like
    _read_from_stream until the part is full or the stream ends ([rd] =
    [read_from_stream] in the current code) -- into a private BytesIO whose
    full size is the length of what came back. *)
Fixpoint sk_parts_loop_with (rd : stream -> Z -> list byte * stream)
    (n : nat) (c : Z) (st : stream) (k : Z) : list (Z * chunk) * stream :=
  match n with
  | O => ([], st)
  | S m =>
      let '(d, st1) := rd st c in
      let '(more, st2) := sk_parts_loop_with rd m c st1 (k + 1) in
      ((k, mk_chunk d 0 c (Z.of_nat (length d)) false) :: more, st2)
  end.

Definition sk_parts_loop := sk_parts_loop_with read_from_stream.

Definition sk_stream (data : list byte) (pos : Z) (scr : list Z) : stream :=
  mkStream (skipn (Z.to_nat pos) data) scr [].

Definition sk_parts (data : list byte) (pos c : Z) (scr : list Z) : list (Z * chunk) * stream :=
  sk_parts_loop (Z.to_nat (num_parts (sk_size data pos) c)) c (sk_stream data pos scr) 1.

(** Before the repair ("F15"): one raw read per part. *)
Definition sk_parts_unrepaired (data : list byte) (pos c : Z) (scr : list Z)
  : list (Z * chunk) * stream :=
  sk_parts_loop_with read_once (Z.to_nat (num_parts (sk_size data pos) c)) c
                     (sk_stream data pos scr) 1.

(** * The filename manager (UploadFilenameInputManager) *)

(** Part k: DeferredOpenFile(start_byte = chunksize * (k - 1)), chunk_size =
    chunksize, full size = the file size: ReadFileChunk computes
    size = min(full - start, chunksize). *)
Definition fn_part (f : list byte) (c : Z) (i : Z) : Z * chunk :=
  (i + 1, mk_chunk f (c * i) c (Z.of_nat (length f)) false).

Definition fn_parts (f : list byte) (c : Z) : list (Z * chunk) :=
  map (fn_part f c) (zseq 0 (Z.to_nat (num_parts (Z.of_nat (length f)) c))).

Definition fn_put_body (f : list byte) : chunk :=
  mk_chunk f 0 (Z.of_nat (length f)) (Z.of_nat (length f)) false.

(** * The legacy uploader (s3transfer/__init__.py MultipartUploader) *)

(** Its own ReadFileChunk: [seek(where)] is absolute only and [read] has no
    clamp of the amount left at 0.  State: file, start, size, amount_read. *)
Record lchunk := mkLChunk { l_file : list byte; l_start : Z; l_size : Z; l_pos : Z }.

(** from_filename(filename, start, chunk_size): size = min(file size - start, chunk_size) *)
Definition mk_lchunk (f : list byte) (start requested : Z) : lchunk :=
  mkLChunk f start (Z.min (Z.of_nat (length f) - start) requested) 0.

Definition l_seek (c : lchunk) (where_ : Z) : lchunk :=
  mkLChunk (l_file c) (l_start c) (l_size c) where_.

(** read(amount): the file object sits at start + amount_read (seek and read
    keep it there); a negative amount reads to the end of the file. *)
Definition l_read (c : lchunk) (amt : Z) : lchunk * list byte :=
  let n := Z.min (l_size c - l_pos c) amt in
  let d := file_read (l_file c) (l_start c + l_pos c) n in
  (mkLChunk (l_file c) (l_start c) (l_size c) (l_pos c + Z.of_nat (length d)), d).

Fixpoint l_send_loop (c : lchunk) (sizes : list Z) (acc : list byte) : option (list byte) :=
  match sizes with
  | [] => None
  | n :: r =>
      let '(c1, d) := l_read c n in
      match d with
      | [] => Some acc
      | _ => l_send_loop c1 r (acc ++ d)
      end
  end.

Definition lchunk_bytes (c : lchunk) : list byte :=
  firstn (Z.to_nat (l_size c)) (skipn (Z.to_nat (l_start c)) (l_file c)).

(** _upload_one_part: open_file_chunk_reader(filename, part_size * (k - 1), part_size);
    no chunk size adjustment; num_parts from the file size. *)
Definition legacy_parts (f : list byte) (ps : Z) : list (Z * lchunk) :=
  map (fun i => (i + 1, mk_lchunk f (ps * i) ps))
      (zseq 0 (Z.to_nat (num_parts (Z.of_nat (length f)) ps))).

(** _put_object: open_file_chunk_reader(filename, 0, file size) *)
Definition legacy_put_body (f : list byte) : lchunk := mk_lchunk f 0 (Z.of_nat (length f)).

(** * Plans *)

Inductive source :=
| SrcPath (f : list byte)
| SrcSeekable (data : list byte) (pos : Z) (scr : list Z)
| SrcStream (data : list byte) (scr : list Z).

(** What the property calls the source: the file, or the stream from its
    position at call time to EOF. *)
Definition source_bytes (src : source) : list byte :=
  match src with
  | SrcPath f => f
  | SrcSeekable d p _ => skipn (Z.to_nat p) d
  | SrcStream d _ => d
  end.

Inductive plan :=
| PlanPut (body : chunk)
| PlanParts (parts : list (Z * chunk)).

Definition wrap_parts (l : list (Z * list byte)) : list (Z * chunk) :=
  map (fun p => (fst p, wrap_data (snd p))) l.

(** UploadSubmissionTask._submit up to the point where every body exists:
    the plan, the effective chunk size (0 for a single request) and the
    amounts requested from the user's stream (oldest first). *)
Definition upload_plan_src (mn mx mp thr cfg : Z) (src : source) : option (plan * Z * list Z) :=
  match src with
  | SrcPath f =>
      let size := Z.of_nat (length f) in
      if is_multipart size thr then
        match adjust_chunksize_with mn mx mp cfg (Some size) with
        | Some c => Some (PlanParts (fn_parts f c), c, [])
        | None => None
        end
      else Some (PlanPut (fn_put_body f), 0, [])
  | SrcSeekable d p scr =>
      let size := sk_size d p in
      if is_multipart size thr then
        match adjust_chunksize_with mn mx mp cfg (Some size) with
        | Some c =>
            let '(parts, st) := sk_parts d p c scr in
            Some (PlanParts parts, c, rev (rlog st))
        | None => None
        end
      else Some (PlanPut (sk_put_body d p), 0, [])
  | SrcStream d scr =>
      let '(im, st1) := ns_preread (mkStream d scr []) thr in
      if ns_requires_multipart im thr then
        match adjust_chunksize_with mn mx mp cfg None with
        | Some c =>
            let '(parts, st2) := ns_parts im st1 c in
            Some (PlanParts (wrap_parts parts), c, rev (rlog st2))
        | None => None
        end
      else
        let '(d1, st2) := ns_put_body im st1 in
        Some (PlanPut (wrap_data d1), 0, rev (rlog st2))
  end.

(** The same with the pre-repair reader (for the refutation and to show what
    the differential sees when the repair is reverted). *)
Definition upload_plan_unrepaired (mn mx mp thr cfg : Z) (d : list byte) (scr : list Z)
  : option (plan * Z * list Z) :=
  let '(im, st1) := ns_preread_unrepaired (mkStream d scr []) thr in
  if ns_requires_multipart im thr then
    match adjust_chunksize_with mn mx mp cfg None with
    | Some c =>
        let '(parts, st2) := ns_parts_unrepaired im st1 c in
        Some (PlanParts (wrap_parts parts), c, rev (rlog st2))
    | None => None
    end
  else
    let '(d1, st2) := ns_put_body im st1 in
    Some (PlanPut (wrap_data d1), 0, rev (rlog st2)).

(** * One request on a body: what the service receives *)

(** Whatever happened to the body before ([ss_history]: signer reads, earlier
    sends cut anywhere, rewinds, tells, enable/disable -- any operations at
    all), the last attempt is Sign's closing [seek 0 . enable] followed by a
    complete send: reads of the scripted positive sizes until one returns
    nothing.  [None]: the script does not describe a complete send. *)
Record send_script := mkSendScript { ss_history : list op; ss_sizes : list Z }.

Definition final_send (c : chunk) (sc : send_script) : option (list byte) :=
  match send_loop (run_state c (ss_history sc ++ [Seek 0 0; Enable])) (ss_sizes sc) [] with
  | Some (_, out, _) => Some out
  | None => None
  end.

(** The simplest complete send: one read of everything, one empty read. *)
Definition plain_send (c : chunk) : send_script :=
  mkSendScript [] [Z.max (size c) 0 + 1; 1].

(** * Running the part tasks and the complete task against S3Spec *)

(** A part task is (part number, bytes the service receives for it).  The
    request threads run the tasks in some order [order]; every task calls
    UploadPart once and returns {'ETag': the response's, 'PartNumber': its
    own, 'ChecksumXXX': the response's when an algorithm is in use}.  The
    results are kept per task; a task is identified by its part number. *)
Fixpoint exec_parts (alg : bool) (s : s3) (uid : Z) (order : list (Z * bytes))
    (res : list (Z * part_meta)) : option (s3 * list (Z * part_meta)) :=
  match order with
  | [] => Some (s, res)
  | (pn, data) :: r =>
      match s3_upload_part s uid pn data with
      | None => None
      | Some (s1, etag) =>
          exec_parts alg s1 uid r
            ((pn, mkPartMeta etag pn (if alg then Some (checksum_of etag) else None)) :: res)
      end
  end.

(** Task._get_all_main_kwargs for pending 'parts': the results of the part
    futures IN THE ORDER OF THE LIST the submission task built. *)
Fixpoint collect (tasks : list (Z * bytes)) (res : list (Z * part_meta))
  : option (list part_meta) :=
  match tasks with
  | [] => Some []
  | (pn, _) :: r =>
      match zlookup pn res, collect r res with
      | Some m, Some ms => Some (m :: ms)
      | _, _ => None
      end
  end.

(** create . parts (in [order]) . complete(collected results) *)
Definition run_multipart (min_part : Z) (alg : bool) (s : s3) (key : Z)
    (tasks order : list (Z * bytes)) : option (s3 * Z * bool * list part_meta) :=
  let '(s1, uid) := s3_create s key in
  match exec_parts alg s1 uid order [] with
  | None => None
  | Some (s2, res) =>
      match collect tasks res with
      | None => None
      | Some parts =>
          let '(s3', ok) := s3_complete min_part s2 uid parts in
          Some (s3', uid, ok, parts)
      end
  end.

(** A schedule of n tasks is a list of indices; the tasks in that order. *)
Definition reorder {A} (d : A) (l : list A) (order : list nat) : list A :=
  map (fun i => nth i l d) order.

(** The bytes the service receives for each part of a plan, given one request
    script per body. *)
Fixpoint plan_tasks (parts : list (Z * chunk)) (scripts : list send_script)
  : option (list (Z * bytes)) :=
  match parts, scripts with
  | [], [] => Some []
  | (pn, c) :: pr, sc :: sr =>
      match final_send c sc, plan_tasks pr sr with
      | Some d, Some r => Some ((pn, d) :: r)
      | _, _ => None
      end
  | _, _ => None
  end.

(** An upload: [Some (s', ok, complete's Parts)]; [None] when a script was
    not a complete send or the service answered a part with an error. *)
Definition run_upload (min_part : Z) (alg : bool) (s : s3) (key : Z) (pl : plan)
    (scripts : list send_script) (order : list nat) : option (s3 * bool * list part_meta) :=
  match pl with
  | PlanPut body =>
      match scripts with
      | [sc] =>
          match final_send body sc with
          | Some d => Some (s3_put s key d, true, [])
          | None => None
          end
      | _ => None
      end
  | PlanParts parts =>
      match plan_tasks parts scripts with
      | None => None
      | Some tasks =>
          match run_multipart min_part alg s key tasks (reorder (0, []) tasks order) with
          | Some (s', _, ok, ps) => Some (s', ok, ps)
          | None => None
          end
      end
  end.

(** * Copies (copies.py) *)

(** CopyPartTask: UploadPartCopy with the planned CopySourceRange. *)
Fixpoint exec_copy_parts (alg : bool) (s : s3) (uid src : Z)
    (order : list (Z * (Z * option Z))) (res : list (Z * part_meta))
  : option (s3 * list (Z * part_meta)) :=
  match order with
  | [] => Some (s, res)
  | (pn, rg) :: r =>
      match s3_upload_part_copy s uid pn src rg with
      | None => None
      | Some (s1, etag) =>
          exec_copy_parts alg s1 uid src r
            ((pn, mkPartMeta etag pn (if alg then Some (checksum_of etag) else None)) :: res)
      end
  end.

Fixpoint collect_keys (keys : list Z) (res : list (Z * part_meta)) : option (list part_meta) :=
  match keys with
  | [] => Some []
  | pn :: r =>
      match zlookup pn res, collect_keys r res with
      | Some m, Some ms => Some (m :: ms)
      | _, _ => None
      end
  end.

(** CopySubmissionTask._submit: HeadObject for the size, then CopyObject below
    the threshold, otherwise create . UploadPartCopy* . complete. *)
Definition run_copy (mn mx mp thr cfg : Z) (alg : bool) (s : s3) (src dst : Z)
    (order : list nat) : option (s3 * bool * list part_meta) :=
  match s3_object s src with
  | None => None
  | Some o =>
      let size := Z.of_nat (length o) in
      if is_multipart size thr then
        match copy_plan_with mn mx mp size cfg with
        | None => None
        | Some cplan =>
            let tasks := map (fun p => (fst (fst p), snd (fst p))) cplan in
            let '(s1, uid) := s3_create s dst in
            match exec_copy_parts alg s1 uid src (reorder (0, (0, None)) tasks order) [] with
            | None => None
            | Some (s2, res) =>
                match collect_keys (map fst tasks) res with
                | None => None
                | Some parts =>
                    let '(s3', ok) := s3_complete mn s2 uid parts in
                    Some (s3', ok, parts)
                end
            end
        end
      else
        match s3_copy_object s src dst with
        | Some s' => Some (s', true, [])
        | None => None
        end
  end.

(** * Legacy S3Transfer.upload_file *)

(** executor.map(upload_one_part, range(1, n + 1)) returns the results in the
    order of the inputs whatever the order of execution. *)
Fixpoint legacy_tasks (parts : list (Z * lchunk)) (sizes : list (list Z))
  : option (list (Z * bytes)) :=
  match parts, sizes with
  | [], [] => Some []
  | (pn, c) :: pr, sz :: sr =>
      match l_send_loop (l_seek c 0) sz [], legacy_tasks pr sr with
      | Some d, Some r => Some ((pn, d) :: r)
      | _, _ => None
      end
  | _, _ => None
  end.

Definition run_legacy_upload (min_part : Z) (s : s3) (key : Z) (f : list byte) (thr ps : Z)
    (sizes : list (list Z)) (order : list nat) : option (s3 * bool * list part_meta) :=
  if is_multipart (Z.of_nat (length f)) thr then
    match legacy_tasks (legacy_parts f ps) sizes with
    | None => None
    | Some tasks =>
        match run_multipart min_part false s key tasks (reorder (0, []) tasks order) with
        | Some (s', _, ok, parts) => Some (s', ok, parts)
        | None => None
        end
    end
  else
    match sizes with
    | [sz] =>
        match l_send_loop (l_seek (legacy_put_body f) 0) sz [] with
        | Some d => Some (s3_put s key d, true, [])
        | None => None
        end
    | _ => None
    end.

(** * Whole sequential runs (what the differential executes) *)

Definition plan_scripts (pl : plan) : list send_script :=
  match pl with
  | PlanPut b => [plain_send b]
  | PlanParts ps => map (fun p => plain_send (snd p)) ps
  end.

Definition plan_len (pl : plan) : nat :=
  match pl with PlanPut _ => 1%nat | PlanParts ps => length ps end.

(** Bodies as the service sees them: (part number, bytes); part number 0 for
    the single request. *)
Definition plan_bodies (pl : plan) : list (Z * list byte) :=
  match pl with
  | PlanPut b => [(0, chunk_bytes b)]
  | PlanParts ps => map (fun p => (fst p, chunk_bytes (snd p))) ps
  end.

(** Upload in submission order against an empty service: bodies, effective
    chunk size, reads issued on the source, complete's Parts, stored object. *)
Definition upload_seq (mn mx mp thr cfg : Z) (alg : bool) (src : source)
  : option (list (Z * list byte) * Z * list Z * list part_meta * bool * option bytes) :=
  match upload_plan_src mn mx mp thr cfg src with
  | None => None
  | Some (pl, c, reads) =>
      match run_upload mn alg s3_empty 0 pl (plan_scripts pl) (seq 0 (plan_len pl)) with
      | None => None
      | Some (s', ok, parts) => Some (plan_bodies pl, c, reads, parts, ok, s3_object s' 0)
      end
  end.

Definition upload_seq_unrepaired (mn mx mp thr cfg : Z) (alg : bool) (d : list byte) (scr : list Z)
  : option (list (Z * list byte) * Z * list Z * list part_meta * bool * option bytes) :=
  match upload_plan_unrepaired mn mx mp thr cfg d scr with
  | None => None
  | Some (pl, c, reads) =>
      match run_upload mn alg s3_empty 0 pl (plan_scripts pl) (seq 0 (plan_len pl)) with
      | None => None
      | Some (s', ok, parts) => Some (plan_bodies pl, c, reads, parts, ok, s3_object s' 0)
      end
  end.

Definition copy_seq (mn mx mp thr cfg : Z) (alg : bool) (o : bytes)
  : option (list (Z * (Z * option Z)) * list part_meta * bool * option bytes) :=
  let s := mkS3 [(1, o)] [] 0 0 [] in
  let ranges := if is_multipart (Z.of_nat (length o)) thr then
                  match copy_plan_with mn mx mp (Z.of_nat (length o)) cfg with
                  | Some cp => map (fun p => (fst (fst p), snd (fst p))) cp
                  | None => []
                  end
                else [] in
  match run_copy mn mx mp thr cfg alg s 1 0 (seq 0 (length ranges)) with
  | None => None
  | Some (s', ok, parts) => Some (ranges, parts, ok, s3_object s' 0)
  end.

Definition legacy_seq (f : list byte) (thr ps : Z)
  : option (list (Z * list byte) * list part_meta * bool * option bytes) :=
  let parts := legacy_parts f ps in
  let mp_ := is_multipart (Z.of_nat (length f)) thr in
  let sizes := if mp_ then map (fun p => [Z.max (l_size (snd p)) 0 + 1; 1]) parts
               else [[Z.of_nat (length f) + 1; 1]] in
  match run_legacy_upload ps s3_empty 0 f thr ps sizes (seq 0 (length parts)) with
  | None => None
  | Some (s', ok, pm) =>
      Some ((if mp_ then map (fun p => (fst p, lchunk_bytes (snd p))) parts
             else [(0, lchunk_bytes (legacy_put_body f))]), pm, ok, s3_object s' 0)
  end.

(** The same with the part tasks run in a given order (a list of task
    indices, as recorded from a scheduled run). *)
Definition upload_ord (mn mx mp thr cfg : Z) (alg : bool) (src : source) (order : list nat)
  : option (list (Z * list byte) * Z * list Z * list part_meta * bool * option bytes) :=
  match upload_plan_src mn mx mp thr cfg src with
  | None => None
  | Some (pl, c, reads) =>
      match run_upload mn alg s3_empty 0 pl (plan_scripts pl) order with
      | None => None
      | Some (s', ok, parts) => Some (plan_bodies pl, c, reads, parts, ok, s3_object s' 0)
      end
  end.

Definition copy_ord (mn mx mp thr cfg : Z) (alg : bool) (o : bytes) (order : list nat)
  : option (list part_meta * bool * option bytes) :=
  match run_copy mn mx mp thr cfg alg (mkS3 [(1, o)] [] 0 0 []) 1 0 order with
  | None => None
  | Some (s', ok, parts) => Some (parts, ok, s3_object s' 0)
  end.

Definition legacy_ord (f : list byte) (thr ps : Z) (order : list nat)
  : option (list part_meta * bool * option bytes) :=
  let parts := legacy_parts f ps in
  let sizes := if is_multipart (Z.of_nat (length f)) thr
               then map (fun p => [Z.max (l_size (snd p)) 0 + 1; 1]) parts
               else [[Z.of_nat (length f) + 1; 1]] in
  match run_legacy_upload ps s3_empty 0 f thr ps sizes order with
  | None => None
  | Some (s', ok, parts) => Some (parts, ok, s3_object s' 0)
  end.
