(** Process-pool downloader: small-step model of the cross-process protocol of
    s3transfer/processpool.py (TransferMonitor / TransferState 585-726,
    GetObjectSubmitter._do_run 793-895, GetObjectWorker._do_run 923-1009,
    ProcessPoolDownloader.download_file / __exit__ / _shutdown 326-487,
    ProcessPoolTransferFuture 508-535) as it is in the tree.  Definitions only.

    Every TransferMonitor method is one atomic step (one attribute operation
    or one locked decrement); a queue put/get, a file-system call and one GET
    attempt are one step each; everything interleaves.  An event names the
    actor, its choice (fault or not) and what it observed, so that a trace
    logged from the implementation can be replayed: [step] answers [None] when
    the event is not what the protocol does in that state.

    Queues: the download-request queue is [reqq] followed by at most one
    SHUTDOWN sentinel ([req_shut]); the worker queue is [jobq] followed by
    [wsent] sentinels (sentinels are put after the submitter was joined, hence
    after every job).

    Fields marked ghost record history only: no guard and no non-ghost field
    depends on them. *)
From Coq Require Import ZArith List Bool Arith.
From S3V Require Import gen.Tables.
Import ListNotations.

(** What was stored by notify_exception / notify_cancel_all_in_progress. *)
Inductive xkind := ECancel | EJob | ESubmit | ERename.

(** ghost: where the submitter is with a transfer *)
Inductive substage := SNone | SQueued | SActive | SFinished.
(** ghost: where job i of a transfer is *)
Inductive jstatus := JNone | JQueued | JHeld (w : nat) | JCounted.

Record trec := mkT {
  (* TransferState in the monitor *)
  exc : option xkind;           (* _exception *)
  done : bool;                (* _done_event *)
  jtc : Z;                    (* _jobs_to_complete *)
  (* the two names in the destination directory; [written i]: the bytes of
     job i's range are completely in the file created by allocate (whatever
     its current name) *)
  temp : bool;
  dest : bool;
  written : nat -> bool;
  (* ghost *)
  sst : substage;
  announced : option nat;     (* the count given to notify_expected_jobs_to_complete *)
  enq : nat;                  (* jobs put on the worker queue so far *)
  jst : nat -> jstatus;
  ncounted : nat;             (* notify_job_complete calls so far *)
  nfin : nat;                 (* how many of them returned 0 *)
  fin_owner : option nat;     (* the worker that got 0 *)
  fin_saw : option bool;      (* what the finaliser's get_exception answered *)
  uai : bool                  (* not done when Ctrl-C's notify_cancel_all ran *)
}.

Definition tr0 : trec :=
  mkT None false 0 false false (fun _ => false)
      SNone None O (fun _ => JNone) O O None None false.

Definition set_exc r v := mkT v (done r) (jtc r) (temp r) (dest r) (written r) (sst r) (announced r) (enq r) (jst r) (ncounted r) (nfin r) (fin_owner r) (fin_saw r) (uai r).
Definition set_done r v := mkT (exc r) v (jtc r) (temp r) (dest r) (written r) (sst r) (announced r) (enq r) (jst r) (ncounted r) (nfin r) (fin_owner r) (fin_saw r) (uai r).
Definition set_jtc r v := mkT (exc r) (done r) v (temp r) (dest r) (written r) (sst r) (announced r) (enq r) (jst r) (ncounted r) (nfin r) (fin_owner r) (fin_saw r) (uai r).
Definition set_temp r v := mkT (exc r) (done r) (jtc r) v (dest r) (written r) (sst r) (announced r) (enq r) (jst r) (ncounted r) (nfin r) (fin_owner r) (fin_saw r) (uai r).
Definition set_dest r v := mkT (exc r) (done r) (jtc r) (temp r) v (written r) (sst r) (announced r) (enq r) (jst r) (ncounted r) (nfin r) (fin_owner r) (fin_saw r) (uai r).
Definition set_written r v := mkT (exc r) (done r) (jtc r) (temp r) (dest r) v (sst r) (announced r) (enq r) (jst r) (ncounted r) (nfin r) (fin_owner r) (fin_saw r) (uai r).
Definition set_sst r v := mkT (exc r) (done r) (jtc r) (temp r) (dest r) (written r) v (announced r) (enq r) (jst r) (ncounted r) (nfin r) (fin_owner r) (fin_saw r) (uai r).
Definition set_announced r v := mkT (exc r) (done r) (jtc r) (temp r) (dest r) (written r) (sst r) v (enq r) (jst r) (ncounted r) (nfin r) (fin_owner r) (fin_saw r) (uai r).
Definition set_enq r v := mkT (exc r) (done r) (jtc r) (temp r) (dest r) (written r) (sst r) (announced r) v (jst r) (ncounted r) (nfin r) (fin_owner r) (fin_saw r) (uai r).
Definition set_jst r v := mkT (exc r) (done r) (jtc r) (temp r) (dest r) (written r) (sst r) (announced r) (enq r) v (ncounted r) (nfin r) (fin_owner r) (fin_saw r) (uai r).
Definition set_ncounted r v := mkT (exc r) (done r) (jtc r) (temp r) (dest r) (written r) (sst r) (announced r) (enq r) (jst r) v (nfin r) (fin_owner r) (fin_saw r) (uai r).
Definition set_fin r n o := mkT (exc r) (done r) (jtc r) (temp r) (dest r) (written r) (sst r) (announced r) (enq r) (jst r) (ncounted r) n o (fin_saw r) (uai r).
Definition set_fin_saw r v := mkT (exc r) (done r) (jtc r) (temp r) (dest r) (written r) (sst r) (announced r) (enq r) (jst r) (ncounted r) (nfin r) (fin_owner r) v (uai r).
Definition set_uai r v := mkT (exc r) (done r) (jtc r) (temp r) (dest r) (written r) (sst r) (announced r) (enq r) (jst r) (ncounted r) (nfin r) (fin_owner r) (fin_saw r) v.

(** Functional maps indexed by [nat] (transfer ids, worker numbers, job
    indices). *)
Definition upd {A : Type} (f : nat -> A) (k : nat) (v : A) : nat -> A :=
  fun k' => if Nat.eqb k' k then v else f k'.

(** Submitter program counter. *)
Inductive spc :=
| SubIdle                         (* blocked in download_request_queue.get() *)
| SubGotReq (t : nat)             (* before _get_size *)
| SubSized (t : nat)              (* before _allocate_temp_file *)
| SubAllocated (t : nat)          (* before notify_expected_jobs_to_complete *)
| SubEnq (t n k : nat)            (* announced n, k jobs put, k < n *)
| SubRaised (t : nat)             (* in the except clause, before notify_exception *)
| SubFailing (t : nat)            (* before notify_done *)
| SubExited.

(** Worker program counter. *)
Inductive wpc :=
| WIdle                           (* blocked in queue.get() *)
| WGot (t i : nat)                (* before get_exception *)
| WRun (t i k : nat)              (* before attempt k (0-based) of _do_get_object *)
| WRaised (t i : nat)             (* _run_get_object_job's except clause, before notify_exception *)
| WCount (t i : nat)              (* before notify_job_complete *)
| WFinCheck (t : nat)             (* remaining = 0: _finalize_download, before get_exception *)
| WFinRemove (t : nat)            (* before remove_file(temp) *)
| WFinRename (t : nat)            (* before rename_file(temp, filename) *)
| WRenFailed (t : nat)            (* rename raised, before notify_exception *)
| WRenCleanup (t : nat)           (* before remove_file(temp) *)
| WNotifyDone (t : nat)           (* before notify_done *)
| WExited.

(** ProcessPoolDownloader._shutdown progress. *)
Inductive ushut := URun | USub | UWrk | URet.

Record state := mkS {
  ntr : nat;                      (* TransferMonitor._id_count *)
  tr : nat -> trec;
  reqq : list nat;
  req_shut : bool;
  jobq : list (nat * nat);
  wsent : nat;
  sub : spc;
  nw : nat;                       (* max_request_processes *)
  wk : nat -> wpc;
  ush : ushut;
  intr : bool                     (* ghost: Ctrl-C was handled by __exit__ *)
}.

Definition init (workers : nat) : state :=
  mkS O (fun _ => tr0) [] false [] O SubIdle workers (fun _ => WIdle) URun false.

Definition with_tr s t r := mkS (ntr s) (upd (tr s) t r) (reqq s) (req_shut s) (jobq s) (wsent s) (sub s) (nw s) (wk s) (ush s) (intr s).
Definition with_sub s p := mkS (ntr s) (tr s) (reqq s) (req_shut s) (jobq s) (wsent s) p (nw s) (wk s) (ush s) (intr s).
Definition with_wk s w p := mkS (ntr s) (tr s) (reqq s) (req_shut s) (jobq s) (wsent s) (sub s) (nw s) (upd (wk s) w p) (ush s) (intr s).
Definition with_reqq s q b := mkS (ntr s) (tr s) q b (jobq s) (wsent s) (sub s) (nw s) (wk s) (ush s) (intr s).
Definition with_jobq s q k := mkS (ntr s) (tr s) (reqq s) (req_shut s) q k (sub s) (nw s) (wk s) (ush s) (intr s).
Definition with_ush s u := mkS (ntr s) (tr s) (reqq s) (req_shut s) (jobq s) (wsent s) (sub s) (nw s) (wk s) u (intr s).

Definition is_some {A : Type} (o : option A) : bool :=
  match o with Some _ => true | None => false end.

Inductive attempt := AOk | ARetry | AFatal.

Inductive wact :=
| WGet (j : option (nat * nat))   (* queue.get(): a job or the sentinel *)
| WCheck (b : bool)               (* get_exception(transfer_id) was truthy? *)
| WAttempt (o : attempt)          (* one get_object + _write_to_file *)
| WNotifyExc                      (* notify_exception(e) of a failed job *)
| WDecr (r : Z)                   (* notify_job_complete returned r *)
| WFinChk (b : bool)              (* _finalize_download's get_exception *)
| WRemove                         (* remove_file(temp) because of an exception *)
| WRename (ok : bool)             (* rename_file(temp, filename) *)
| WRenExc                         (* notify_exception(rename error) *)
| WRenRemove                      (* remove_file(temp) after the failed rename *)
| WDone.                          (* notify_done *)

Inductive event :=
(* user *)
| UNew (t : nat)                  (* notify_new_transfer() returned t *)
| UPut (t : nat)                  (* download_request_queue.put(request t) *)
| UCancel (t : nat)               (* future.cancel(): notify_exception(t, CancelledError) *)
| UInterrupt                      (* __exit__ with KeyboardInterrupt: notify_cancel_all_in_progress *)
| UResult (t : nat) (raised : bool)   (* poll_for_result returned / raised *)
| UShutSub                        (* put(SHUTDOWN) for the submitter *)
| UShutWorkers                    (* submitter joined; one SHUTDOWN per worker *)
| UShutReturn                     (* every worker joined: shutdown returns *)
(* submitter *)
| SGet (r : option nat)
| SSize (ok : bool)
| SAlloc (ok : bool)
| SAnnounce (n : nat)
| SEnq (t i : nat)
| SNotifyExc
| SNotifyDone
(* worker w *)
| W (w : nat) (a : wact).

Definition max_attempts : nat := Z.to_nat POOL_MAX_ATTEMPTS.

Fixpoint all_exited (wkf : nat -> wpc) (n : nat) : bool :=
  match n with
  | O => true
  | S k => match wkf k with WExited => all_exited wkf k | _ => false end
  end.

Definition ushut_eqb (a b : ushut) : bool :=
  match a, b with
  | URun, URun | USub, USub | UWrk, UWrk | URet, URet => true
  | _, _ => false
  end.

(** notify_cancel_all_in_progress on one TransferState *)
Definition cancel_if_undone (r : trec) : trec :=
  if done r then r else set_uai (set_exc r (Some ECancel)) true.

Definition step_user (s : state) (e : event) : option state :=
  match e with
  | UNew t =>
      if Nat.eqb t (ntr s) && ushut_eqb (ush s) URun && negb (intr s)
      then Some (mkS (S (ntr s)) (tr s) (reqq s) (req_shut s) (jobq s) (wsent s)
                     (sub s) (nw s) (wk s) (ush s) (intr s))
      else None
  | UPut t =>
      if Nat.ltb t (ntr s) && ushut_eqb (ush s) URun && negb (intr s)
      then match sst (tr s t) with
           | SNone => Some (with_reqq (with_tr s t (set_sst (tr s t) SQueued))
                                      (reqq s ++ [t]) (req_shut s))
           | _ => None
           end
      else None
  | UCancel t =>
      if Nat.ltb t (ntr s)
      then Some (with_tr s t (set_exc (tr s t) (Some ECancel)))
      else None
  | UInterrupt =>
      if ushut_eqb (ush s) URun && negb (intr s)
      then Some (mkS (ntr s)
                     (fun t => if Nat.ltb t (ntr s) then cancel_if_undone (tr s t) else tr s t)
                     (reqq s) (req_shut s) (jobq s) (wsent s) (sub s) (nw s) (wk s)
                     (ush s) true)
      else None
  | UResult t raised =>
      if Nat.ltb t (ntr s) && done (tr s t) && Bool.eqb raised (is_some (exc (tr s t)))
      then Some s else None
  | UShutSub =>
      match ush s with
      | URun => Some (with_ush (with_reqq s (reqq s) true) USub)
      | _ => None
      end
  | UShutWorkers =>
      match ush s, sub s with
      | USub, SubExited => Some (with_ush (with_jobq s (jobq s) (nw s)) UWrk)
      | _, _ => None
      end
  | UShutReturn =>
      match ush s with
      | UWrk => if all_exited (wk s) (nw s) then Some (with_ush s URet) else None
      | _ => None
      end
  | _ => None
  end.

Definition step_sub (s : state) (e : event) : option state :=
  match e, sub s with
  | SGet (Some t), SubIdle =>
      match reqq s with
      | t' :: q =>
          if Nat.eqb t t'
          then Some (with_sub (with_reqq (with_tr s t (set_sst (tr s t) SActive)) q (req_shut s))
                              (SubGotReq t))
          else None
      | [] => None
      end
  | SGet None, SubIdle =>
      match reqq s, req_shut s with
      | [], true => Some (with_sub (with_reqq s [] false) SubExited)
      | _, _ => None
      end
  | SSize ok, SubGotReq t =>
      Some (with_sub s (if ok then SubSized t else SubRaised t))
  | SAlloc true, SubSized t =>
      Some (with_sub (with_tr s t (set_temp (tr s t) true)) (SubAllocated t))
  | SAlloc false, SubSized t =>
      Some (with_sub s (SubRaised t))
  | SAnnounce n, SubAllocated t =>
      let r := set_announced (set_jtc (tr s t) (Z.of_nat n)) (Some n) in
      match n with
      | O => Some (with_sub (with_tr s t (set_sst r SFinished)) SubIdle)
      | S _ => Some (with_sub (with_tr s t r) (SubEnq t n O))
      end
  | SEnq t i, SubEnq t' n k =>
      if Nat.eqb t t' && Nat.eqb i k
      then
        let r := set_enq (set_jst (tr s t) (upd (jst (tr s t)) k JQueued)) (S k) in
        let s1 := with_jobq s (jobq s ++ [(t, k)]) (wsent s) in
        if Nat.eqb (S k) n
        then Some (with_sub (with_tr s1 t (set_sst r SFinished)) SubIdle)
        else Some (with_sub (with_tr s1 t r) (SubEnq t n (S k)))
      else None
  | SNotifyExc, SubRaised t =>
      Some (with_sub (with_tr s t (set_exc (tr s t) (Some ESubmit))) (SubFailing t))
  | SNotifyDone, SubFailing t =>
      Some (with_sub (with_tr s t (set_sst (set_done (tr s t) true) SFinished)) SubIdle)
  | _, _ => None
  end.

Definition step_worker (s : state) (w : nat) (a : wact) : option state :=
  match a, wk s w with
  | WGet (Some (t, i)), WIdle =>
      match jobq s with
      | (t', i') :: q =>
          if Nat.eqb t t' && Nat.eqb i i'
          then Some (with_wk (with_jobq (with_tr s t (set_jst (tr s t) (upd (jst (tr s t)) i (JHeld w))))
                                        q (wsent s))
                             w (WGot t i))
          else None
      | [] => None
      end
  | WGet None, WIdle =>
      match jobq s, wsent s with
      | [], S k => Some (with_wk (with_jobq s [] k) w WExited)
      | _, _ => None
      end
  | WCheck b, WGot t i =>
      if Bool.eqb b (is_some (exc (tr s t)))
      then Some (with_wk s w (if b then WCount t i else WRun t i O))
      else None
  | WAttempt AOk, WRun t i k =>
      Some (with_wk (with_tr s t (set_written (tr s t) (upd (written (tr s t)) i true)))
                    w (WCount t i))
  | WAttempt ARetry, WRun t i k =>
      Some (with_wk s w (if Nat.ltb (S k) max_attempts then WRun t i (S k) else WRaised t i))
  | WAttempt AFatal, WRun t i k =>
      Some (with_wk s w (WRaised t i))
  | WNotifyExc, WRaised t i =>
      Some (with_wk (with_tr s t (set_exc (tr s t) (Some EJob))) w (WCount t i))
  | WDecr r, WCount t i =>
      let r' := (jtc (tr s t) - 1)%Z in
      if Z.eqb r r'
      then
        let rec1 := set_ncounted (set_jst (set_jtc (tr s t) r') (upd (jst (tr s t)) i JCounted))
                                 (S (ncounted (tr s t))) in
        if Z.eqb r' 0
        then Some (with_wk (with_tr s t (set_fin rec1 (S (nfin rec1)) (Some w))) w (WFinCheck t))
        else Some (with_wk (with_tr s t rec1) w WIdle)
      else None
  | WFinChk b, WFinCheck t =>
      if Bool.eqb b (is_some (exc (tr s t)))
      then Some (with_wk (with_tr s t (set_fin_saw (tr s t) (Some b)))
                         w (if b then WFinRemove t else WFinRename t))
      else None
  | WRemove, WFinRemove t =>
      Some (with_wk (with_tr s t (set_temp (tr s t) false)) w (WNotifyDone t))
  | WRename true, WFinRename t =>
      if temp (tr s t)
      then Some (with_wk (with_tr s t (set_dest (set_temp (tr s t) false) true)) w (WNotifyDone t))
      else None
  | WRename false, WFinRename t =>
      Some (with_wk s w (WRenFailed t))
  | WRenExc, WRenFailed t =>
      Some (with_wk (with_tr s t (set_exc (tr s t) (Some ERename))) w (WRenCleanup t))
  | WRenRemove, WRenCleanup t =>
      Some (with_wk (with_tr s t (set_temp (tr s t) false)) w (WNotifyDone t))
  | WDone, WNotifyDone t =>
      Some (with_wk (with_tr s t (set_done (tr s t) true)) w WIdle)
  | _, _ => None
  end.

Definition step (s : state) (e : event) : option state :=
  match e with
  | W w a => if Nat.ltb w (nw s) then step_worker s w a else None
  | SGet _ | SSize _ | SAlloc _ | SAnnounce _ | SEnq _ _ | SNotifyExc | SNotifyDone => step_sub s e
  | _ => step_user s e
  end.

(** Replay of a trace: the state after the longest accepted prefix and the
    index of the first rejected event. *)
Fixpoint run_from (s : state) (l : list event) (i : nat) : state * option nat :=
  match l with
  | [] => (s, None)
  | e :: l' =>
      match step s e with
      | Some s' => run_from s' l' (S i)
      | None => (s, Some i)
      end
  end.

Definition run (workers : nat) (l : list event) : state * option nat :=
  run_from (init workers) l O.

(** Observables of the final state, for the driver. *)
Fixpoint bits (f : nat -> bool) (n : nat) : list bool :=
  match n with O => [] | S k => bits f k ++ [f k] end.

Definition obs_tr (r : trec) : (option xkind * bool * Z) * (bool * bool * list bool) * (nat * nat) :=
  ((exc r, done r, jtc r),
   (temp r, dest r, bits (written r) (match announced r with Some n => n | None => O end)),
   (ncounted r, nfin r)).

Fixpoint obs_trs (f : nat -> trec) (n : nat) :=
  match n with O => [] | S k => obs_trs f k ++ [obs_tr (f k)] end.

Definition observe (s : state) := (obs_trs (tr s) (ntr s), ush s).
