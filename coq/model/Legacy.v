(** The legacy front-end, s3transfer/__init__.py: S3Transfer.upload_file /
    download_file, MultipartUploader, MultipartDownloader, as a sequential
    model with a fault oracle.  Definitions only.

    Scheduler choices that the real code leaves to threads are explicit
    oracle parameters: the completion order of parts ([order]), how many
    parts/ranges a worker had already picked up when a failure surfaced in
    [executor.map] ([started]: concurrent.futures cancels the still pending
    ones), and the order in which the IO thread receives the queued writes of
    different ranges ([sched]). *)
From Coq Require Import ZArith List Bool.
From S3V Require Import model.Plan.
Import ListNotations.
Open Scope Z_scope.

(** * Upload (S3Transfer.upload_file, MultipartUploader) *)

Inductive uev :=
| UCreate (ok : bool)
| UPart (pn : Z) (ok : bool)
| UComplete (ok : bool)
| UAbort (ok : bool)
| UPut (ok : bool).

Inductive uout :=
| USuccess
| UFailed        (* S3UploadFailedError, raised after the abort returned *)
| UCreateErr     (* create_multipart_upload's own error: nothing to abort *)
| UAbortErr      (* abort_multipart_upload raised inside the except block *)
| UCompleteErr   (* unrepaired variant only: complete outside the try *)
| UPutErr.

(** first index whose outcome is a failure *)
Fixpoint first_fail (l : list bool) : option nat :=
  match l with
  | [] => None
  | true :: r => match first_fail r with Some k => Some (S k) | None => None end
  | false :: _ => Some O
  end.

(** executor.map submits all n parts; the results are awaited in index order.
    When part f (0-based) is the first to raise, parts 0..f have run, the
    [started] first parts have been picked up by a worker (they run to the
    end: the with-block joins them) and the rest is cancelled. *)
Definition parts_run (parts_ok : list bool) (started : nat) : nat :=
  match first_fail parts_ok with
  | None => length parts_ok
  | Some f => Nat.max (S f) (Nat.min started (length parts_ok))
  end.

Fixpoint part_events (k : nat) (oks : list bool) : list uev :=
  match oks with
  | [] => []
  | ok :: r => UPart (Z.of_nat (S k)) ok :: part_events (S k) r
  end.

(** completion order: [order] lists indices into the canonical list *)
Definition permute {A} (d : A) (order : list nat) (l : list A) : list A :=
  map (fun i => nth i l d) order.

Definition canonical_parts (parts_ok : list bool) (started : nat) : list uev :=
  part_events 0 (firstn (parts_run parts_ok started) parts_ok).

Definition parts_all_ok (parts_ok : list bool) : bool :=
  match first_fail parts_ok with None => true | Some _ => false end.

(** MultipartUploader.upload_file as it is now (complete inside the try). *)
Definition legacy_multipart_upload (create_ok : bool) (parts_ok : list bool)
    (started : nat) (order : list nat) (complete_ok abort_ok : bool)
  : list uev * uout :=
  if negb create_ok then ([UCreate false], UCreateErr) else
  let ps := permute (UPart 0 true) order (canonical_parts parts_ok started) in
  let failed_tail := [UAbort abort_ok] in
  let fail_out := if abort_ok then UFailed else UAbortErr in
  if parts_all_ok parts_ok then
    if complete_ok then (UCreate true :: ps ++ [UComplete true], USuccess)
    else (UCreate true :: ps ++ UComplete false :: failed_tail, fail_out)
  else (UCreate true :: ps ++ failed_tail, fail_out).

(** The variant before the repair: complete after the try/except. *)
Definition legacy_multipart_upload_unrepaired (create_ok : bool) (parts_ok : list bool)
    (started : nat) (order : list nat) (complete_ok abort_ok : bool)
  : list uev * uout :=
  if negb create_ok then ([UCreate false], UCreateErr) else
  let ps := permute (UPart 0 true) order (canonical_parts parts_ok started) in
  if parts_all_ok parts_ok then
    if complete_ok then (UCreate true :: ps ++ [UComplete true], USuccess)
    else (UCreate true :: ps ++ [UComplete false], UCompleteErr)
  else (UCreate true :: ps ++ [UAbort abort_ok], if abort_ok then UFailed else UAbortErr).

(** S3Transfer.upload_file: size >= threshold -> multipart with
    ceil(size/chunk) parts, else one put_object. *)
Definition upload_oks (size chunk : Z) (parts_ok : list bool) : list bool :=
  let n := Z.to_nat (num_parts size chunk) in firstn n (parts_ok ++ repeat true n).

Definition legacy_upload (size thr chunk : Z) (create_ok : bool) (parts_ok : list bool)
    (started : nat) (order : list nat) (complete_ok abort_ok put_ok : bool)
  : list uev * uout :=
  if is_multipart size thr then
    legacy_multipart_upload create_ok (upload_oks size chunk parts_ok) started order
                            complete_ok abort_ok
  else ([UPut put_ok], if put_ok then USuccess else UPutErr).

(** the same with the parts completing in part-number order *)
Definition legacy_upload_inorder (size thr chunk : Z) (create_ok : bool) (parts_ok : list bool)
    (started : nat) (complete_ok abort_ok put_ok : bool) : list uev * uout :=
  legacy_upload size thr chunk create_ok parts_ok started
    (seq 0 (parts_run (upload_oks size chunk parts_ok) started)) complete_ok abort_ok put_ok.

(** The (start, length) each part reads from the file (ReadFileChunk). *)
Definition upload_part_extent (size chunk pn : Z) : Z * Z :=
  let s := chunk * (pn - 1) in (s, Z.min (size - s) chunk).

(** * Download (S3Transfer.download_file, MultipartDownloader) *)

Definition bytes := list Z.

Record fs := { temp : option bytes; dest : option bytes }.

Inductive errcls := Retryable | Fatal.

Inductive dev :=
| EHead (ok : bool)
| EGet (range : option (Z * option Z)) (attempt : nat) (ok : bool)
| EOpen (ok : bool)                       (* open(temp, 'wb'): create/truncate *)
| EWrite (off : Z) (data : bytes) (ok : bool)   (* seek(off); write(data) *)
| ERemove                                  (* remove_file(temp), no-op if absent *)
| ERename (ok : bool).                     (* rename temp -> destination *)

Inductive dout :=
| DSuccess
| DHeadErr
| DFatal            (* a non-retryable error, re-raised as it is *)
| DRetriesExceeded
| DIOErr            (* ranged path: the IO thread's error / QueueShutdownError *)
| DRenameErr.

(** seek(off) + write(d) on a file holding [f]: zero fill between the old end
    and [off], bytes after off+|d| kept. *)
Definition write_at (off : nat) (d f : bytes) : bytes :=
  map (fun p => if (p <? off)%nat then nth p f 0
                else if (p <? off + length d)%nat then nth (p - off) d 0
                else nth p f 0)
      (seq 0 (Nat.max (length f) (off + length d))).

Definition apply_ev (s : fs) (e : dev) : fs :=
  match e with
  | EOpen true => {| temp := Some []; dest := dest s |}
  | EWrite off d true =>
      {| temp := match temp s with
                 | Some t => Some (write_at (Z.to_nat off) d t)
                 | None => None
                 end;
         dest := dest s |}
  | ERemove => {| temp := None; dest := dest s |}
  | ERename true => {| temp := None;
                       dest := match temp s with Some t => Some t | None => dest s end |}
  | _ => s
  end.

Definition run_from (s : fs) (evs : list dev) : fs := fold_left apply_ev evs s.
Definition init_fs (old : option bytes) : fs := {| temp := None; dest := old |}.

(** One attempt of one request, as chosen by the oracle. *)
Record attempt := {
  a_get : option errcls;            (* get_object itself raises *)
  a_open : option errcls;           (* single path: open(temp,'wb') raises *)
  a_reads : list Z;                 (* what the successive reads return at most *)
  a_fail_after : option (Z * errcls);   (* stream raises once k bytes were delivered *)
  a_write_fail : option (nat * errcls)  (* single path: the j-th f.write raises *)
}.

Definition ok_attempt : attempt :=
  {| a_get := None; a_open := None; a_reads := []; a_fail_after := None; a_write_fail := None |}.

(** The chunks [iter(lambda: body.read(buf), b'')] yields for a body holding
    [rest] (of which [delivered] bytes went out before), and whether the loop
    ended by the stream fault.  Twin of harness/fakes3.Body.read. *)
Fixpoint stream_chunks (fuel : nat) (rest : bytes) (delivered : Z) (reads : list Z)
    (buf : Z) (fa : option Z) : list bytes * bool :=
  match fuel with
  | O => ([], false)
  | S f =>
      let n0 := match reads with [] => buf | r :: _ => Z.min buf (Z.max 1 r) end in
      let lim := match fa with
                 | Some k => if k <=? delivered then None else Some (Z.min n0 (k - delivered))
                 | None => Some n0
                 end in
      match lim with
      | None => ([], true)
      | Some n =>
          let d := firstn (Z.to_nat n) rest in
          match d with
          | [] => ([], false)
          | _ :: _ =>
              let (cs, flt) := stream_chunks f (skipn (Z.to_nat n) rest)
                                 (delivered + Z.of_nat (length d)) (tl reads) buf fa in
              (d :: cs, flt)
          end
      end
  end.

Definition chunks_of (data : bytes) (buf : Z) (a : attempt) : list bytes * bool :=
  stream_chunks (S (length data)) data 0 (a_reads a) buf
                (match a_fail_after a with Some (k, _) => Some k | None => None end).

Definition fault_cls (a : attempt) : errcls :=
  match a_fail_after a with Some (_, c) => c | None => Retryable end.

(** writes of consecutive chunks starting at [off] *)
Fixpoint writes_from (off : Z) (cs : list bytes) : list (Z * bytes) :=
  match cs with
  | [] => []
  | c :: r => (off, c) :: writes_from (off + Z.of_nat (length c)) r
  end.

Inductive ares := AOk | ARetry | AFatal.
Definition ares_of (c : errcls) : ares := match c with Retryable => ARetry | Fatal => AFatal end.

(** for i in range(max_attempts): try ... except retryable: continue;
    raise RetriesExceededError.  One event list per attempt made. *)
Inductive rres := RDone | RFatal | RExceeded.

Fixpoint retry_loop {A} (run : nat -> attempt -> A * ares) (fuel i : nat)
    (scripts : list attempt) : list A * rres :=
  match fuel with
  | O => ([], RExceeded)
  | S f =>
      let (e, r) := run i (hd ok_attempt scripts) in
      match r with
      | AOk => ([e], RDone)
      | AFatal => ([e], RFatal)
      | ARetry => let (es, rr) := retry_loop run f (S i) (tl scripts) in (e :: es, rr)
      end
  end.

(** S3Transfer._do_get_object: get_object, then open(temp,'wb') -- on EVERY
    attempt --, then write chunk after chunk.  [j]-th write may fail. *)
Fixpoint single_writes (ws : list (Z * bytes)) (j : nat) (wf : option (nat * errcls))
  : list dev * option errcls :=
  match ws with
  | [] => ([], None)
  | (off, d) :: r =>
      match wf with
      | Some (k, c) =>
          if Nat.eqb k j then ([EWrite off d false], Some c)
          else let (es, x) := single_writes r (S j) wf in (EWrite off d true :: es, x)
      | None => let (es, x) := single_writes r (S j) wf in (EWrite off d true :: es, x)
      end
  end.

Definition SINGLE_BUF : Z := 8192.
Definition RANGED_BUF : Z := 16384.

Definition single_attempt (obj : bytes) (i : nat) (a : attempt) : list dev * ares :=
  match a_get a with
  | Some c => ([EGet None i false], ares_of c)
  | None =>
      match a_open a with
      | Some c => ([EGet None i true; EOpen false], ares_of c)
      | None =>
          let (cs, flt) := chunks_of obj SINGLE_BUF a in
          let (wes, werr) := single_writes (writes_from 0 cs) 0 (a_write_fail a) in
          let pre := EGet None i true :: EOpen true :: wes in
          match werr with
          | Some c => (pre, ares_of c)
          | None => if flt then (pre, ares_of (fault_cls a)) else (pre, AOk)
          end
      end
  end.

Definition single_get (obj : bytes) (max_attempts : nat) (scripts : list attempt)
  : list dev * rres :=
  let (es, r) := retry_loop (single_attempt obj) max_attempts 0 scripts in (concat es, r).

(** MultipartDownloader._download_range for part [idx]: the bytes the service
    returns for the Range header, the requests made, the (offset, chunk) items
    put on the IO queue -- every attempt starts again at the range start. *)
Definition range_data (obj : bytes) (r : Z * option Z) : bytes :=
  let (lo, hi) := range_interval (Z.of_nat (length obj)) r in
  firstn (Z.to_nat (hi - lo)) (skipn (Z.to_nat lo) obj).

Definition range_attempt (obj : bytes) (r : Z * option Z) (i : nat) (a : attempt)
  : (list dev * list (Z * bytes)) * ares :=
  match a_get a with
  | Some c => (([EGet (Some r) i false], []), ares_of c)
  | None =>
      let (cs, flt) := chunks_of (range_data obj r) RANGED_BUF a in
      let ws := writes_from (fst r) cs in
      (([EGet (Some r) i true], ws), if flt then ares_of (fault_cls a) else AOk)
  end.

Definition range_loop (obj : bytes) (r : Z * option Z) (max_attempts : nat)
    (scripts : list attempt) : (list dev * list (Z * bytes)) * rres :=
  let (xs, rr) := retry_loop (range_attempt obj r) max_attempts 0 scripts in
  ((concat (map fst xs), concat (map snd xs)), rr).

(** The IO thread takes the queued writes in some interleaving of the
    per-range sequences: [sched] names the range whose next write comes. *)
Fixpoint replace_nth {A} (i : nat) (x : A) (l : list A) : list A :=
  match l, i with
  | [], _ => []
  | _ :: r, O => x :: r
  | y :: r, S k => y :: replace_nth k x r
  end.

Fixpoint merge {A} (sched : list nat) (ls : list (list A)) : list A :=
  match sched with
  | [] => concat ls
  | i :: s =>
      match nth i ls [] with
      | [] => merge s ls
      | x :: r => x :: merge s (replace_nth i r ls)
      end
  end.

Definition rres_ok (r : rres) : bool := match r with RDone => true | _ => false end.

(** executor.map over the ranges: as for upload parts, a failing range
    cancels the ranges no worker has picked up yet. *)
Definition ranges_run (res : list rres) (started : nat) : nat :=
  parts_run (map rres_ok res) started.

Fixpoint first_bad (res : list rres) : rres :=
  match res with
  | [] => RDone
  | RDone :: r => first_bad r
  | x :: _ => x
  end.

Fixpoint io_writes (ws : list (Z * bytes)) (j : nat) (io_fail : option nat) : list dev * bool :=
  match ws with
  | [] => ([], false)
  | (off, d) :: r =>
      match io_fail with
      | Some k => if Nat.eqb k j then ([EWrite off d false], true)
                  else let (es, x) := io_writes r (S j) io_fail in (EWrite off d true :: es, x)
      | None => let (es, x) := io_writes r (S j) io_fail in (EWrite off d true :: es, x)
      end
  end.

(** MultipartDownloader.download_file.  Assumes the IO queue never fills up
    after the IO thread died (capacity >= queued items): otherwise the real
    code blocks for ever, see the report. *)
Definition range_runs (obj : bytes) (chunk : Z) (max_attempts : nat)
    (scripts : list (list attempt)) : list ((list dev * list (Z * bytes)) * rres) :=
  let rs := download_ranges (Z.of_nat (length obj)) chunk in
  map (fun ir => range_loop obj (snd ir) max_attempts (nth (fst ir) scripts []))
      (combine (seq 0 (length rs)) rs).

Definition ranged_get (obj : bytes) (chunk : Z) (max_attempts : nat)
    (scripts : list (list attempt)) (started : nat) (sched : list nat)
    (io_open_ok : bool) (io_fail : option nat) : list dev * dout :=
  let runs := range_runs obj chunk max_attempts scripts in
  let m := ranges_run (map snd runs) started in
  let runs' := firstn m runs in
  let gets := concat (map (fun x => fst (fst x)) runs') in
  let ws := merge sched (map (fun x => snd (fst x)) runs') in
  let bad := first_bad (map snd runs') in
  if negb io_open_ok then (EOpen false :: gets, DIOErr) else
  let (wes, iof) := io_writes ws 0 io_fail in
  let evs := EOpen true :: gets ++ wes in
  if iof then (evs, DIOErr) else
  match bad with
  | RDone => (evs, DSuccess)
  | RFatal => (evs, DFatal)
  | RExceeded => (evs, DRetriesExceeded)
  end.

Record doracle := {
  o_head_ok : bool;
  o_single : list attempt;
  o_ranged : list (list attempt);
  o_started : nat;
  o_sched : list nat;
  o_io_open_ok : bool;
  o_io_fail : option nat;
  o_rename_ok : bool
}.

Definition download_body (thr chunk : Z) (max_attempts : nat) (obj : bytes) (o : doracle)
  : list dev * dout :=
  if is_multipart (Z.of_nat (length obj)) thr
  then ranged_get obj chunk max_attempts (o_ranged o) (o_started o) (o_sched o)
                  (o_io_open_ok o) (o_io_fail o)
  else let (es, r) := single_get obj max_attempts (o_single o) in
       (es, match r with RDone => DSuccess | RFatal => DFatal | RExceeded => DRetriesExceeded end).

(** S3Transfer.download_file: head_object; then inside one try: body into the
    temp file and rename temp -> destination; on any exception (also the
    rename's) remove the temp file and re-raise. *)
Definition legacy_download (thr chunk : Z) (max_attempts : nat) (obj : bytes) (o : doracle)
  : list dev * dout :=
  if negb (o_head_ok o) then ([EHead false], DHeadErr) else
  let (es, r) := download_body thr chunk max_attempts obj o in
  match r with
  | DSuccess => if o_rename_ok o then (EHead true :: es ++ [ERename true], DSuccess)
                else (EHead true :: es ++ [ERename false; ERemove], DRenameErr)
  | e => (EHead true :: es ++ [ERemove], e)
  end.

(** The shape before the repair: rename in the try's else branch, so a
    failing rename is not followed by a remove. *)
Definition legacy_download_unrepaired (thr chunk : Z) (max_attempts : nat) (obj : bytes)
    (o : doracle) : list dev * dout :=
  if negb (o_head_ok o) then ([EHead false], DHeadErr) else
  let (es, r) := download_body thr chunk max_attempts obj o in
  match r with
  | DSuccess => if o_rename_ok o then (EHead true :: es ++ [ERename true], DSuccess)
                else (EHead true :: es ++ [ERename false], DRenameErr)
  | e => (EHead true :: es ++ [ERemove], e)
  end.

(** destination states after each prefix of the event sequence *)
Fixpoint dest_trace (s : fs) (evs : list dev) : list (option bytes) :=
  dest s :: match evs with [] => [] | e :: r => dest_trace (apply_ev s e) r end.

Definition final_fs (old : option bytes) (evs : list dev) : fs := run_from (init_fs old) evs.
