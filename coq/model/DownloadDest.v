(** Download destinations and the whole download as a function
    (s3transfer/download.py DownloadSubmissionTask._submit,
    _submit_download_request, _submit_ranged_download_request, IOWriteTask,
    IOStreamingWriteTask, IORenameFileTask, the output managers;
    s3transfer/processpool.py GetObjectSubmitter._submit_get_object_jobs,
    GetObjectWorker._do_get_object / _write_to_file).  Definitions only.

    Built on: model/Retry.v (one GetObjectTask = [run_get]: requests, retry
    loop, deliveries [(offset, data)] to the output manager), model/DeferQ.v
    (the non-seekable output manager = [manager_run]) and model/Plan.v
    ([download_ranges]).

    A download is a function of
      - the object, the configuration (threshold, chunk, io chunk, attempts),
      - per planned request a fault script and per attempt a read-size script
        (the environment of [Retry.run_get]),
      - a schedule: which request task hands its next delivery to the output
        manager next.  Each task is sequential (its deliveries keep their
        order, attempt after attempt); tasks of different ranges interleave
        arbitrarily.  Every interleaving is the [merge] of some schedule
        (proofs/DownloadProofs.v [merge_complete]).
    The destination receives the deliveries in that order: the seekable
    managers through IOWriteTask (seek + write) on the single IO worker, or at
    once in the request thread for a single GET; the non-seekable manager
    through the deferred-write queue under its submit lock. *)
From Coq Require Import ZArith List Bool.
From S3V Require Import gen.Tables model.Plan model.Retry model.DeferQ.
Import ListNotations.
Open Scope Z_scope.

(* ------------------------------------------------------------------ *)
(** * (a) Offset-addressed destinations *)

(** IOWriteTask._main: fileobj.seek(offset); fileobj.write(data) on a file or
    a seekable stream holding [f].  Writing past the end fills the gap with
    zero bytes; bytes already there are overwritten (last write wins);
    write(b'') changes nothing, also after a seek past the end. *)
Definition write_at (f : list Z) (off : Z) (d : list Z) : list Z :=
  match d with
  | [] => f
  | _ :: _ =>
      let o := Z.to_nat off in
      firstn o f ++ repeat 0 (o - length f) ++ d ++ skipn (o + length d) f
  end.

Definition write_all (f : list Z) (ws : list entry) : list Z :=
  fold_left (fun acc e => write_at acc (fst e) (snd e)) ws f.

(** The temp file of a file-path download is a DeferredOpenFile(mode='wb'):
    created (empty) by the first seek/write -- also by an empty write -- and
    absent before.  [None] = no such file. *)
Definition path_write (f : option (list Z)) (off : Z) (d : list Z) : option (list Z) :=
  Some (write_at (match f with Some c => c | None => [] end) off d).

Definition path_write_all (f : option (list Z)) (ws : list entry) : option (list Z) :=
  fold_left (fun acc e => path_write acc (fst e) (snd e)) ws f.

(* ------------------------------------------------------------------ *)
(** * Planning *)

Record dl_cfg := mkCfg {
  c_threshold : Z;       (* multipart_threshold *)
  c_chunk : Z;           (* multipart_chunksize *)
  c_io_chunk : Z;        (* io_chunksize *)
  c_attempts : Z         (* num_download_attempts *)
}.

(** [None]: one GetObject without a Range header (size < threshold);
    [Some r]: one ranged GetObject per part. *)
Definition dl_plan (size threshold chunk : Z) : list (option (Z * option Z)) :=
  if size <? threshold then [None]
  else map Some (download_ranges size chunk).

(** The bytes [lo, hi) a planned request returns for an object of [size]. *)
Definition plan_interval (size : Z) (r : option (Z * option Z)) : Z * Z :=
  match r with
  | None => (0, size)
  | Some r => range_interval size r
  end.

(** One request task and its environment.  [p_start] is the task's
    start_index (0 for the single GET, i * chunk for part i). *)
Record part := mkPart {
  p_range : option (Z * option Z);
  p_start : Z;
  p_len : Z;
  p_faults : list fault;
  p_reads : list (list Z)
}.

Definition mk_part (size : Z) (faultss : list (list fault)) (readss : list (list (list Z)))
    (ir : nat * option (Z * option Z)) : part :=
  let '(lo, hi) := plan_interval size (snd ir) in
  mkPart (snd ir) lo (hi - lo) (nth (fst ir) faultss []) (nth (fst ir) readss []).

Definition plan_parts (size : Z) (plan : list (option (Z * option Z)))
    (faultss : list (list fault)) (readss : list (list (list Z))) : list part :=
  map (mk_part size faultss readss) (combine (seq 0 (length plan)) plan).

Definition part_result (obj : list Z) (io_chunk max_attempts : Z) (p : part) : get_result :=
  run_get obj (p_start p) (p_len p) io_chunk max_attempts (p_faults p) (p_reads p).

(** The deliveries of a task, in order, over all its attempts. *)
Fixpoint trace_deliveries (tr : list gev) : list entry :=
  match tr with
  | [] => []
  | GDeliver o d :: r => (o, d) :: trace_deliveries r
  | _ :: r => trace_deliveries r
  end.

Definition outcome_ok (o : outcome) : bool :=
  match o with Ok => true | _ => false end.

(* ------------------------------------------------------------------ *)
(** * Interleaving by a schedule *)

(** Take the head of the i-th list. *)
Fixpoint take_from {A : Type} (ls : list (list A)) (i : nat) : option (A * list (list A)) :=
  match ls with
  | [] => None
  | l :: r =>
      match i with
      | O => match l with [] => None | x :: l' => Some (x, l' :: r) end
      | S j => match take_from r j with
               | Some (x, r') => Some (x, l :: r')
               | None => None
               end
      end
  end.

(** Follow the schedule (entries that name an exhausted or missing list are
    skipped); what is left when the schedule ends follows list by list. *)
Fixpoint merge {A : Type} (sched : list nat) (ls : list (list A)) : list A :=
  match sched with
  | [] => concat ls
  | i :: s =>
      match take_from ls i with
      | Some (x, ls') => x :: merge s ls'
      | None => merge s ls
      end
  end.

(* ------------------------------------------------------------------ *)
(** * The transfer manager's download *)

Inductive dest_kind :=
| DPath          (* DownloadFilenameOutputManager: temp file, renamed at the end *)
| DSeekable      (* DownloadSeekableOutputManager: the user's seekable stream *)
| DStream.       (* DownloadNonSeekableOutputManager: write() only *)

Inductive dl_outcome :=
| DlOk             (* the future reports success *)
| DlFailed         (* a request task failed (retries exceeded / non-retryable) *)
| DlNoFile.        (* IORenameFileTask: nothing was ever written, no temp file *)

Record dl_result := mkDl {
  dl_out : dl_outcome;
  dl_content : option (list Z);    (* what the destination holds; None = no file *)
  dl_writes : list entry;          (* the writes that reached it, in order *)
  dl_parts : list (option (Z * option Z) * nat)   (* Range of each planned request, GetObject calls made for it *)
}.

Definition manager_parts (obj : list Z) (cfg : dl_cfg)
    (faultss : list (list fault)) (readss : list (list (list Z))) : list part :=
  plan_parts (blen obj) (dl_plan (blen obj) (c_threshold cfg) (c_chunk cfg)) faultss readss.

(** [init]: what a user-supplied seekable stream holds beforehand (a temp file
    and a non-seekable stream start empty). *)
Definition manager_download (kind : dest_kind) (init : list Z) (obj : list Z) (cfg : dl_cfg)
    (faultss : list (list fault)) (readss : list (list (list Z))) (sched : list nat) : dl_result :=
  let parts := manager_parts obj cfg faultss readss in
  let rs := map (part_result obj (c_io_chunk cfg) (c_attempts cfg)) parts in
  let h := merge sched (map (fun r => trace_deliveries (g_trace r)) rs) in
  let ok := forallb (fun r => outcome_ok (g_outcome r)) rs in
  let reqs := map (fun pr => (p_range (fst pr), g_requests (snd pr))) (combine parts rs) in
  match kind with
  | DPath =>
      let f := path_write_all None h in
      mkDl (if ok then match f with Some _ => DlOk | None => DlNoFile end else DlFailed) f h reqs
  | DSeekable =>
      mkDl (if ok then DlOk else DlFailed) (Some (write_all init h)) h reqs
  | DStream =>
      let '(s, out) := manager_run (DeferQ.init, []) h in
      mkDl (if ok then DlOk else DlFailed) (Some out) (emitted h) reqs
  end.

(* ------------------------------------------------------------------ *)
(** * (c) The process-pool downloader *)

(** GetObjectWorker._write_to_file: open(temp, 'rb+'); f.seek(offset);
    for chunk in iter(lambda: body.read(io_chunk), b''): f.write(chunk).
    The handle's position [pos] advances with every write; the writes of one
    attempt are listed as (position, data).  No "first chunk even if empty"
    rule here: the file was allocated beforehand. *)
Fixpoint pool_stream (fuel : nat) (rest sizes : list Z) (kleft : option Z) (retryable : bool)
    (io_chunk pos : Z) : list entry * attempt_end :=
  match fuel with
  | O => ([], AOk)
  | S f =>
      match body_read rest sizes kleft io_chunk with
      | None => ([], AFault retryable pos)
      | Some (d, rest', sizes', kleft') =>
          match d with
          | [] => ([], AOk)
          | _ :: _ =>
              let '(ws, e) := pool_stream f rest' sizes' kleft' retryable io_chunk
                                          (pos + Z.of_nat (length d)) in
              ((pos, d) :: ws, e)
          end
      end
  end.

(** One attempt: the seek to the job's offset happens in every attempt. *)
Definition pool_attempt (body : list Z) (offset io_chunk : Z) (f : fault) (sizes : list Z)
  : list entry * attempt_end :=
  match f with
  | FaultOnRequest r => ([], AFault r offset)
  | NoFault => pool_stream (S (length body)) body sizes None true io_chunk offset
  | FaultAfter k r => pool_stream (S (length body)) body sizes (Some k) r io_chunk offset
  end.

(** for i in range(self._MAX_ATTEMPTS): writes of all attempts, request count, outcome *)
Fixpoint pool_attempts (left : nat) (body : list Z) (offset io_chunk : Z)
    (faults : list fault) (reads : list (list Z)) : list entry * nat * outcome :=
  match left with
  | O => ([], O, RetriesExceeded)
  | S l =>
      let '(ws, e) := pool_attempt body offset io_chunk (hd NoFault faults) (hd [] reads) in
      match e with
      | AOk => (ws, 1%nat, Ok)
      | AStopped => (ws, 1%nat, Stopped)
      | AFault false _ => (ws, 1%nat, Raised)
      | AFault true _ =>
          let '(ws2, n, o) := pool_attempts l body offset io_chunk (tl faults) (tl reads) in
          (ws ++ ws2, S n, o)
      end
  end.

Definition pool_job (obj : list Z) (io_chunk max_attempts : Z) (p : part)
  : list entry * nat * outcome :=
  pool_attempts (Z.to_nat max_attempts) (range_bytes obj (p_start p) (p_len p))
                (p_start p) io_chunk (p_faults p) (p_reads p).

(** OSUtils.allocate: posix_fallocate(fd, 0, size) -- EINVAL for size 0 (the
    download then fails before any request); [size] zero bytes otherwise. *)
Definition pool_allocate (size : Z) : option (list Z) :=
  if size <=? 0 then None else Some (repeat 0 (Z.to_nat size)).

(** GetObjectSubmitter plans like the transfer manager (same threshold test,
    calculate_num_parts, calculate_range_parameter, offset = i * chunk); the
    workers' writes into the allocated temp file interleave per [sched]. *)
Definition pool_download_with (max_attempts : Z) (obj : list Z) (threshold chunk io_chunk : Z)
    (faultss : list (list fault)) (readss : list (list (list Z))) (sched : list nat) : dl_result :=
  let parts := plan_parts (blen obj) (dl_plan (blen obj) threshold chunk) faultss readss in
  match pool_allocate (blen obj) with
  | None => mkDl DlFailed None [] []
  | Some f0 =>
      let js := map (pool_job obj io_chunk max_attempts) parts in
      let h := merge sched (map (fun j => fst (fst j)) js) in
      let ok := forallb (fun j => outcome_ok (snd j)) js in
      mkDl (if ok then DlOk else DlFailed) (Some (write_all f0 h)) h
           (map (fun pj => (p_range (fst pj), snd (fst (snd pj)))) (combine parts js))
  end.

Definition pool_download := pool_download_with POOL_MAX_ATTEMPTS.
