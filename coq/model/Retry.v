(** The download request task: GetObjectTask._main with DownloadChunkIterator
    and StreamReaderProgress (s3transfer/download.py, utils.py).
    Definitions only.

    One task downloads the range [start, start + len) of an object.  Each
    attempt issues one GetObject request and reads the streaming body
    [io_chunk] bytes at a time.  The environment is given by two scripts:

    * [faults]: per attempt, whether and where the attempt fails --
      [FaultOnRequest r] (client.get_object itself raises) or
      [FaultAfter k r] (the body raises on the first read() issued once [k]
      bytes have been returned; [k >= len] with [k = len] strikes on the read
      that would have detected the end of the stream).  [r = true] for the
      errors in S3_RETRYABLE_DOWNLOAD_ERRORS.
    * [reads]: per attempt, a read-size script: the i-th read returns at most
      [max 1 s_i] bytes (short reads); when the script is used up reads are
      full.
    * [done_at]: [Some n] when TransferCoordinator.done() answers True from
      its n-th call on (n counted from 0 over the whole task), [None] when it
      never does.

    The result is an event trace (requests, progress values, deliveries to the
    download output manager) and an outcome. *)
From Coq Require Import ZArith List Bool.
Import ListNotations.
Open Scope Z_scope.

Inductive fault :=
| NoFault
| FaultOnRequest (retryable : bool)
| FaultAfter (k : Z) (retryable : bool).

Inductive outcome :=
| Ok                (* _main returned after the stream ended *)
| Stopped           (* _main returned early: the transfer was already done *)
| RetriesExceeded   (* raise RetriesExceededError(last_exception) *)
| Raised.           (* a non-retryable error propagated *)

Inductive gev :=
| GReq                               (* client.get_object(...) *)
| GProg (n : Z)                      (* invoke_progress_callbacks(callbacks, n), n <> 0 *)
| GDeliver (offset : Z) (data : list Z).   (* _handle_io(..., chunk, current_index) *)

Definition gprog (n : Z) : list gev := if n =? 0 then [] else [GProg n].

(** How an attempt's stream loop ends. *)
Inductive attempt_end :=
| AOk
| AStopped
| AFault (retryable : bool) (current_index : Z).

(** Body.read(amt) on the rest of the stream: [None] = raises.
    [kleft] is the number of bytes still to be returned before the fault. *)
Definition body_read (rest : list Z) (sizes : list Z) (kleft : option Z) (amt : Z)
  : option (list Z * list Z * list Z * option Z) :=
  let n1 := match sizes with [] => amt | s :: _ => Z.min amt (Z.max 1 s) end in
  let sizes' := tl sizes in
  match kleft with
  | Some k =>
      if k <=? 0 then None
      else
        let n2 := Z.min n1 k in
        let d := firstn (Z.to_nat n2) rest in
        Some (d, skipn (Z.to_nat n2) rest, sizes', Some (k - Z.of_nat (length d)))
  | None =>
      let d := firstn (Z.to_nat n1) rest in
      Some (d, skipn (Z.to_nat n1) rest, sizes', None)
  end.

Definition is_done (done_at : option nat) (checks : nat) : bool :=
  match done_at with Some n => Nat.leb n checks | None => false end.

(** for chunk in DownloadChunkIterator(StreamReaderProgress(body), io_chunk):
    the first chunk is handed on even when empty. *)
Fixpoint stream_loop (fuel : nat) (rest sizes : list Z) (kleft : option Z) (retryable : bool)
    (io_chunk cur : Z) (first : bool) (done_at : option nat) (checks : nat)
  : list gev * attempt_end * nat :=
  match fuel with
  | O => ([], AOk, checks)
  | S f =>
      match body_read rest sizes kleft io_chunk with
      | None => ([], AFault retryable cur, checks)
      | Some (d, rest', sizes', kleft') =>
          let n := Z.of_nat (length d) in
          let isempty := match d with [] => true | _ => false end in
          if isempty && negb first then ([], AOk, checks)
          else if is_done done_at checks then (gprog n, AStopped, S checks)
          else
            let '(tr, e, ck) := stream_loop f rest' sizes' kleft' retryable io_chunk
                                            (cur + n) false done_at (S checks) in
            (gprog n ++ GDeliver cur d :: tr, e, ck)
      end
  end.

(** One attempt (without the GReq event). *)
Definition run_attempt (body : list Z) (start io_chunk : Z) (f : fault) (sizes : list Z)
    (done_at : option nat) (checks : nat) : list gev * attempt_end * nat :=
  match f with
  | FaultOnRequest r => ([], AFault r start, checks)
  | NoFault =>
      stream_loop (S (S (length body))) body sizes None true io_chunk start true done_at checks
  | FaultAfter k r =>
      stream_loop (S (S (length body))) body sizes (Some k) r io_chunk start true done_at checks
  end.

(** for i in range(max_attempts): ... *)
Fixpoint attempts_loop (left : nat) (body : list Z) (start io_chunk : Z)
    (faults : list fault) (reads : list (list Z)) (done_at : option nat) (checks : nat)
  : list gev * outcome :=
  match left with
  | O => ([], RetriesExceeded)
  | S l =>
      let '(tr, e, ck) := run_attempt body start io_chunk (hd NoFault faults) (hd [] reads)
                                      done_at checks in
      match e with
      | AOk => (GReq :: tr, Ok)
      | AStopped => (GReq :: tr, Stopped)
      | AFault false _ => (GReq :: tr, Raised)
      | AFault true cur =>
          let '(tr2, o) := attempts_loop l body start io_chunk (tl faults) (tl reads) done_at ck in
          (GReq :: tr ++ gprog (start - cur) ++ tr2, o)
      end
  end.

(** The bytes of [obj] in [start, start+len). *)
Definition range_bytes (obj : list Z) (start len : Z) : list Z :=
  firstn (Z.to_nat len) (skipn (Z.to_nat start) obj).

Record get_result := mkGetResult {
  g_trace : list gev;
  g_outcome : outcome
}.

(** The task.  [obj] is the object, the response body of every attempt is
    [range_bytes obj start len]. *)
Definition run_get_full (obj : list Z) (start len io_chunk max_attempts : Z)
    (faults : list fault) (reads : list (list Z)) (done_at : option nat) : get_result :=
  let '(tr, o) := attempts_loop (Z.to_nat max_attempts) (range_bytes obj start len)
                                start io_chunk faults reads done_at 0 in
  mkGetResult tr o.

(** The common case: the transfer is not cancelled meanwhile. *)
Definition run_get (obj : list Z) (start len io_chunk max_attempts : Z)
    (faults : list fault) (reads : list (list Z)) : get_result :=
  run_get_full obj start len io_chunk max_attempts faults reads None.

(** Projections of a trace. *)
Fixpoint progress_of (tr : list gev) : list Z :=
  match tr with
  | [] => []
  | GProg n :: r => n :: progress_of r
  | _ :: r => progress_of r
  end.

Fixpoint requests_of (tr : list gev) : nat :=
  match tr with
  | [] => O
  | GReq :: r => S (requests_of r)
  | _ :: r => requests_of r
  end.

(** Deliveries grouped by attempt (one list per GReq, in order).
    [split_attempts] returns the deliveries before the first GReq (none in a
    trace of [run_get]) and the groups. *)
Fixpoint split_attempts (tr : list gev) : list (Z * list Z) * list (list (Z * list Z)) :=
  match tr with
  | [] => ([], [])
  | GReq :: r => let '(cur, gs) := split_attempts r in ([], cur :: gs)
  | GDeliver o d :: r => let '(cur, gs) := split_attempts r in ((o, d) :: cur, gs)
  | GProg _ :: r => split_attempts r
  end.

Definition attempts_of (tr : list gev) : list (list (Z * list Z)) := snd (split_attempts tr).

Definition g_progress (r : get_result) : list Z := progress_of (g_trace r).
Definition g_requests (r : get_result) : nat := requests_of (g_trace r).
Definition g_attempts (r : get_result) : list (list (Z * list Z)) := attempts_of (g_trace r).
