(** CRT manager glue: mirrors s3transfer/crt.py CRTTransferManager
    (_submit_transfer incl. its except-path, _shutdown, _cancel_transfers,
    _finish_transfers, _wait_transfers_done, _release_semaphore),
    CRTTransferCoordinator (done / result / set_exception / done event),
    S3ClientArgsCreator.get_crt_callback (the composed on_done list),
    RenameTempFileHandler and AfterDoneHandler -- as a sequential state
    machine driven by a deterministic CRT stub.  Definitions only.

    A CRT request finishes exactly once: first its finished_future is
    resolved, then its on_done callback runs (the order of awscrt's
    _on_finish; crt.py relies on it: "the CRT future has done already at this
    point"). *)
From Coq Require Import ZArith List Bool Arith.
From S3V Require Import gen.Tables.
Import ListNotations.
Open Scope Z_scope.

Inductive kind := Upload | DownloadPath | DownloadStream | Delete.

(** How the CRT finishes a request.  [OkRenameFail]: the request succeeded
    but os.rename of the temporary file raises (environment fault). *)
Inductive outcome := Ok | OkRenameFail | Err | Cancelled.

(** The temporary file of a download to a path. *)
Inductive tempstate := TAbsent | TTemp | TRenamed | TRemoved.

(** Observable callback events of one transfer. *)
Inductive ev :=
| EvAcquire                (* semaphore.acquire() returned *)
| EvQueued (k : nat)       (* subscriber k's on_queued *)
| EvRename                 (* RenameTempFileHandler: rename temp -> final *)
| EvRenameFail             (* ... the rename raised *)
| EvRemove                 (* RenameTempFileHandler: remove temp *)
| EvSubDone (k : nat)      (* subscriber k's on_done *)
| EvRelease                (* _release_semaphore *)
| EvAfter.                 (* AfterDoneHandler: done-callbacks-complete flag *)

Record transfer := mkT {
  t_id : Z;                 (* meta.transfer_id = _id_counter at submission *)
  t_kind : kind;
  t_nsubs : nat;            (* number of subscribers *)
  t_raises : bool;          (* the last subscriber's on_done raises *)
  t_qfail : bool;           (* the first subscriber's on_queued raised (construction failure) *)
  t_registered : bool;      (* coordinator appended to _future_coordinators *)
  t_exc : bool;             (* coordinator._exception set by the except-path;
                               then there is no CRT request and no crt future *)
  t_crt : option outcome;   (* finished_future: None = pending *)
  t_on_done_ran : bool;     (* the composed on_done was invoked *)
  t_subs_done : nat;        (* subscribers' on_done calls made *)
  t_releases : nat;         (* times _release_semaphore ran for it *)
  t_after : bool;           (* coordinator._done_event *)
  t_temp : tempstate }.

Record state := mkS {
  permits : Z;                    (* _semaphore._value *)
  next_id : Z;                    (* _id_counter *)
  transfers : list transfer;      (* every submission that got a permit, in order *)
  log : list (nat * ev) }.        (* (index in [transfers], event), oldest first *)

Definition init (n : Z) : state := mkS n 0 [] [].

(** Field updates. *)
Definition set_registered (t : transfer) (v : bool) : transfer :=
  mkT (t_id t) (t_kind t) (t_nsubs t) (t_raises t) (t_qfail t) v (t_exc t) (t_crt t)
      (t_on_done_ran t) (t_subs_done t) (t_releases t) (t_after t) (t_temp t).
Definition set_exc (t : transfer) (v : bool) : transfer :=
  mkT (t_id t) (t_kind t) (t_nsubs t) (t_raises t) (t_qfail t) (t_registered t) v (t_crt t)
      (t_on_done_ran t) (t_subs_done t) (t_releases t) (t_after t) (t_temp t).
Definition set_crt (t : transfer) (v : option outcome) : transfer :=
  mkT (t_id t) (t_kind t) (t_nsubs t) (t_raises t) (t_qfail t) (t_registered t) (t_exc t) v
      (t_on_done_ran t) (t_subs_done t) (t_releases t) (t_after t) (t_temp t).
Definition set_on_done_ran (t : transfer) (v : bool) : transfer :=
  mkT (t_id t) (t_kind t) (t_nsubs t) (t_raises t) (t_qfail t) (t_registered t) (t_exc t) (t_crt t)
      v (t_subs_done t) (t_releases t) (t_after t) (t_temp t).
Definition set_subs_done (t : transfer) (v : nat) : transfer :=
  mkT (t_id t) (t_kind t) (t_nsubs t) (t_raises t) (t_qfail t) (t_registered t) (t_exc t) (t_crt t)
      (t_on_done_ran t) v (t_releases t) (t_after t) (t_temp t).
Definition set_releases (t : transfer) (v : nat) : transfer :=
  mkT (t_id t) (t_kind t) (t_nsubs t) (t_raises t) (t_qfail t) (t_registered t) (t_exc t) (t_crt t)
      (t_on_done_ran t) (t_subs_done t) v (t_after t) (t_temp t).
Definition set_after (t : transfer) (v : bool) : transfer :=
  mkT (t_id t) (t_kind t) (t_nsubs t) (t_raises t) (t_qfail t) (t_registered t) (t_exc t) (t_crt t)
      (t_on_done_ran t) (t_subs_done t) (t_releases t) v (t_temp t).
Definition set_temp (t : transfer) (v : tempstate) : transfer :=
  mkT (t_id t) (t_kind t) (t_nsubs t) (t_raises t) (t_qfail t) (t_registered t) (t_exc t) (t_crt t)
      (t_on_done_ran t) (t_subs_done t) (t_releases t) (t_after t) v.

(** ---- the composed on_done list (get_crt_callback / invoke_all_callbacks) *)

Inductive callback := CbHandler | CbSub (k : nat) | CbRelease | CbAfter.

Definition sub_raises (t : transfer) (k : nat) : bool :=
  t_raises t && (S k =? t_nsubs t)%nat.

(** One callback: new transfer record, events, "it raised". *)
Definition cb_step (o : outcome) (cb : callback) (t : transfer)
  : transfer * list ev * bool :=
  match cb with
  | CbHandler =>                      (* RenameTempFileHandler.__call__ *)
      match o with
      | Ok => (set_temp t TRenamed, [EvRename], false)
      | OkRenameFail => (set_temp t TRemoved, [EvRenameFail; EvRemove], false)
      | Err | Cancelled => (set_temp t TRemoved, [EvRemove], false)
      end
  | CbSub k => (set_subs_done t (S (t_subs_done t)), [EvSubDone k], sub_raises t k)
  | CbRelease => (set_releases t (S (t_releases t)), [EvRelease], false)
  | CbAfter => (set_after t true, [EvAfter], false)
  end.

(** invoke_all_callbacks: in list order; an exception ends the loop. *)
Fixpoint run_cbs (o : outcome) (cbs : list callback) (t : transfer)
  : transfer * list ev * bool :=
  match cbs with
  | [] => (t, [], false)
  | cb :: rest =>
      match cb_step o cb t with
      | (t1, e1, true) => (t1, e1, true)
      | (t1, e1, false) =>
          match run_cbs o rest t1 with
          | (t2, e2, r) => (t2, e1 ++ e2, r)
          end
      end
  end.

(** on_done_before_calls: [RenameTempFileHandler] for a download to a path,
    and only in the callback handed to make_request -- the except-path of
    _submit_transfer builds its on_done with after_subscribers only. *)
Definition before_calls (with_handler : bool) (t : transfer) : list callback :=
  if with_handler
  then match t_kind t with DownloadPath => [CbHandler] | _ => [] end
  else [].

Definition sub_calls (t : transfer) : list callback := map CbSub (seq 0 (t_nsubs t)).

(** on_done_after_calls = [self._release_semaphore, AfterDoneHandler] *)
Definition after_calls : list callback := [CbRelease; CbAfter].

Definition on_done_calls (with_handler : bool) (t : transfer) : list callback :=
  before_calls with_handler t ++ sub_calls t ++ after_calls.

Definition run_on_done (with_handler : bool) (o : outcome) (t : transfer)
  : transfer * list ev * bool :=
  run_cbs o (on_done_calls with_handler t) (set_on_done_ran t true).

(** ---- the semaphore follows the events *)

Definition sem_delta1 (e : ev) : Z :=
  match e with EvAcquire => -1 | EvRelease => 1 | _ => 0 end.

Fixpoint sem_delta (evs : list ev) : Z :=
  match evs with [] => 0 | e :: r => sem_delta1 e + sem_delta r end.

Definition tag (i : nat) (evs : list ev) : list (nat * ev) := map (pair i) evs.

Fixpoint set_nth {A} (i : nat) (x : A) (l : list A) : list A :=
  match l, i with
  | [], _ => []
  | _ :: r, O => x :: r
  | y :: r, S j => y :: set_nth j x r
  end.

(** ---- operations *)

Inductive result :=
| RSubmitted        (* submit returned a future *)
| RWouldBlock       (* submit blocks in semaphore.acquire(): nothing happened *)
| RRaised           (* submit raised: a subscriber's exception escaped the except-path *)
| RResolved         (* the CRT resolved finished_future; on_done not yet called *)
| RCompleted        (* the CRT finished the request; on_done returned *)
| RCallbackRaised   (* ... on_done raised into the CRT (a subscriber's on_done) *)
| RInvalid          (* no such pending request *)
| RReturned         (* shutdown returned *)
| RHang.            (* shutdown blocks for ever (until somebody finishes requests) *)

Definition norm_raises (nsubs : nat) (raises : bool) : bool :=
  raises && negb (nsubs =? 0)%nat.

(** Where a submission fails, all inside the try block and AFTER
    self._semaphore.acquire(), which is its first statement:
    a subscriber's on_queued raises; building the make_request arguments raises
    (serializer, get_file_size of a missing upload source); make_request raises. *)
Inductive failpoint := NoFail | FailQueued | FailArgs | FailMakeRequest.

Definition is_fail (f : failpoint) : bool :=
  match f with NoFail => false | _ => true end.

(** "the first subscriber's on_queued raises" needs a subscriber *)
Definition norm_qfail (nsubs : nat) (f : failpoint) : bool :=
  match f with FailQueued => negb (nsubs =? 0)%nat | _ => false end.

Definition new_transfer (id : Z) (k : kind) (nsubs : nat) (raises qfail : bool) : transfer :=
  mkT id k nsubs (norm_raises nsubs raises) qfail false false None false 0 0 false TAbsent.

Definition queued_evs (n : nat) : list ev := map EvQueued (seq 0 n).

(** on_queued calls made: all, or only the first one when it raised. *)
Definition queued_part (t : transfer) : list ev :=
  if t_qfail t then [EvQueued 0] else queued_evs (t_nsubs t).

(** _submit_transfer. *)
Definition submit (k : kind) (nsubs : nat) (raises : bool) (f : failpoint) (s : state)
  : state * result :=
  if permits s <=? 0 then (s, RWouldBlock) else
  let i := length (transfers s) in
  let t0 := new_transfer (next_id s) k nsubs raises (norm_qfail nsubs f) in
  let pre := EvAcquire :: queued_part t0 in
  if is_fail f then
    match run_on_done false Err (set_exc t0 true) with
    | (t1, evs, true) =>
        (* the subscriber's exception leaves _submit_transfer: the coordinator is
           not appended, the id is not consumed, nothing is released *)
        (mkS (permits s + sem_delta (pre ++ evs)) (next_id s)
             (transfers s ++ [t1]) (log s ++ tag i (pre ++ evs)), RRaised)
    | (t1, evs, false) =>
        (mkS (permits s + sem_delta (pre ++ evs)) (next_id s + 1)
             (transfers s ++ [set_registered t1 true]) (log s ++ tag i (pre ++ evs)),
         RSubmitted)
    end
  else
    let t1 := set_temp (set_registered t0 true)
                       (match k with DownloadPath => TTemp | _ => TAbsent end) in
    (mkS (permits s + sem_delta pre) (next_id s + 1)
         (transfers s ++ [t1]) (log s ++ tag i pre), RSubmitted).

Definition is_some {A} (o : option A) : bool :=
  match o with Some _ => true | None => false end.

Definition has_pending_request (t : transfer) : bool :=
  negb (t_exc t) && negb (is_some (t_crt t)).

Definition norm_outcome (k : kind) (o : outcome) : outcome :=
  match o, k with
  | OkRenameFail, DownloadPath => OkRenameFail
  | OkRenameFail, _ => Ok
  | _, _ => o
  end.

(** First half of the CRT's _on_finish: finished_future gets its result. *)
Definition resolve (i : nat) (o : outcome) (s : state) : state * result :=
  match nth_error (transfers s) i with
  | None => (s, RInvalid)
  | Some t =>
      if has_pending_request t then
        (mkS (permits s) (next_id s)
             (set_nth i (set_crt t (Some (norm_outcome (t_kind t) o))) (transfers s)) (log s),
         RResolved)
      else (s, RInvalid)
  end.

(** Second half: on_done(error=...) with the composed callback list. *)
Definition deliver (i : nat) (s : state) : state * result :=
  match nth_error (transfers s) i with
  | None => (s, RInvalid)
  | Some t =>
      match t_crt t with
      | None => (s, RInvalid)
      | Some o =>
          if t_on_done_ran t then (s, RInvalid) else
          match run_on_done true o t with
          | (t1, evs, raised) =>
              (mkS (permits s + sem_delta evs) (next_id s)
                   (set_nth i t1 (transfers s)) (log s ++ tag i evs),
               if raised then RCallbackRaised else RCompleted)
          end
      end
  end.

(** The CRT finishes request [i]: both halves, back to back. *)
Definition complete (i : nat) (o : outcome) (s : state) : state * result :=
  match resolve i o s with
  | (s1, RResolved) => deliver i s1
  | (s1, r) => (s1, r)
  end.

(** _cancel_transfers: coordinator.cancel() for every coordinator that is not
    done() (a resolved finished_future counts as done); a no-op without a
    request; the stub CRT delivers the cancellation at once. *)
Definition cancellable (t : transfer) : bool :=
  t_registered t && has_pending_request t.

Definition cancel_one (s : state) (i : nat) : state :=
  match nth_error (transfers s) i with
  | Some t => if cancellable t then fst (complete i Cancelled s) else s
  | None => s
  end.

Definition cancel_all (s : state) : state :=
  fold_left cancel_one (seq 0 (length (transfers s))) s.

(** _finish_transfers: coordinator.result() in order.  The first one that
    raises ends the loop (_shutdown swallows the exception); a pending one
    blocks. *)
Inductive finish_res := FinAll | FinRaised | FinBlocks.

Fixpoint finish_scan (ts : list transfer) : finish_res :=
  match ts with
  | [] => FinAll
  | t :: r =>
      if negb (t_registered t) then finish_scan r
      else if t_exc t then FinRaised
      else match t_crt t with
           | None => FinBlocks
           | Some Ok | Some OkRenameFail => finish_scan r
           | Some Err | Some Cancelled => FinRaised
           end
  end.

(** _wait_transfers_done: waits for every coordinator's done event. *)
Definition wait_blocks (ts : list transfer) : bool :=
  existsb (fun t => t_registered t && negb (t_after t)) ts.

Definition shutdown (cancel : bool) (s : state) : state * result :=
  let s1 := if cancel then cancel_all s else s in
  match finish_scan (transfers s1) with
  | FinBlocks => (s1, RHang)
  | FinAll | FinRaised =>
      if wait_blocks (transfers s1) then (s1, RHang) else (s1, RReturned)
  end.

Inductive op :=
| OSubmit (k : kind) (nsubs : nat) (raises : bool) (f : failpoint)
| OComplete (i : nat) (o : outcome)
| OResolve (i : nat) (o : outcome)
| ODeliver (i : nat)
| OShutdown (cancel : bool).

Definition step (s : state) (o : op) : state * result :=
  match o with
  | OSubmit k n r f => submit k n r f s
  | OComplete i oc => complete i oc s
  | OResolve i oc => resolve i oc s
  | ODeliver i => deliver i s
  | OShutdown c => shutdown c s
  end.

Definition run (s : state) (ops : list op) : state :=
  fold_left (fun s o => fst (step s o)) ops s.

(** ---- what a caller sees of a future *)
Inductive future_view :=
| FvNone           (* submit raised: there is no future *)
| FvConstructFail  (* done() is False for ever, result() raises the construction error *)
| FvPending        (* done() False, result() blocks *)
| FvSuccess | FvError | FvCancelled.

Definition future_of (t : transfer) : future_view :=
  if negb (t_registered t) then FvNone
  else if t_exc t then FvConstructFail
  else match t_crt t with
       | None => FvPending
       | Some Ok | Some OkRenameFail => FvSuccess
       | Some Err => FvError
       | Some Cancelled => FvCancelled
       end.

(** Transfers that hold a permit: acquired and not (yet) released. *)
Definition holding (ts : list transfer) : nat :=
  length (filter (fun t => (t_releases t =? 0)%nat) ts).

Definition crt_permits : Z := CRT_PERMITS.
