(** Bandwidth limiting: mirrors s3transfer/bandwidth.py as it is in /repo now
    (BandwidthRateTracker, ConsumptionScheduler, LeakyBucket incl. [cancel],
    BandwidthLimitedStream).  Time is [Q] (the clock readings handed to the
    bucket), amounts are [Z].  Definitions only.

    Floats: Python computes the moving average in binary64; the model computes
    it exactly.  [option Q] with [None] = +infinity reproduces
    [float('inf')]: for 0 < alpha < 1, [alpha*inf + (1-alpha)*c = inf] and
    [alpha*n + (1-alpha)*inf = inf], so infinity is absorbing.
    Rationals are kept reduced ([Qred]) so that the extracted model stays fast
    on long histories. *)
From Coq Require Import ZArith QArith List Bool.
From S3V Require Import gen.Tables.
Import ListNotations.
Open Scope Q_scope.

(** * BandwidthRateTracker *)

(** [_last_time] ([None] before the first consumption) and [_current_rate]
    ([None] = +inf; the Python attribute is never read while [_last_time] is
    None). *)
Record tracker := mkTracker { last_time : option Q; cur_rate : option Q }.

Definition tracker0 : tracker := mkTracker None (Some 0).

(** _calculate_rate: [inf] when [time_delta <= 0], else [amt / time_delta]. *)
Definition calc_rate (amt : Z) (now lt : Q) : option Q :=
  let dt := Qred (now - lt) in
  if Qle_bool dt 0 then None else Some (Qred (inject_Z amt / dt)).

(** alpha * new_rate + (1 - alpha) * current_rate *)
Definition ema (alpha : Q) (nr cr : option Q) : option Q :=
  match nr, cr with
  | Some n, Some c => Some (Qred (alpha * n + (1 - alpha) * c))
  | _, _ => None
  end.

(** get_projected_rate *)
Definition projected_rate (alpha : Q) (tr : tracker) (amt : Z) (now : Q) : option Q :=
  match last_time tr with
  | None => Some 0
  | Some lt => ema alpha (calc_rate amt now lt) (cur_rate tr)
  end.

(** record_consumption_rate *)
Definition record_consumption (alpha : Q) (tr : tracker) (amt : Z) (now : Q) : tracker :=
  match last_time tr with
  | None => mkTracker (Some now) (Some 0)
  | Some lt => mkTracker (Some now) (ema alpha (calc_rate amt now lt) (cur_rate tr))
  end.

(** * ConsumptionScheduler *)

(** One scheduled consumption: the dict of the source holds [wait_duration]
    and [time_to_consume]; [sched_amt] is the [amt] argument of
    [schedule_consumption], which the source receives and drops -- kept here
    as a ghost field so that the wait can be stated in bytes. *)
Record entry := mkEntry { wait_duration : Q; time_to_consume : Q; sched_amt : Z }.

(** [_total_wait] and [_tokens_to_scheduled_consumption] (association list
    keyed by token id, newest first). *)
Record sched := mkSched { total_wait : Q; tokens : list (Z * entry) }.

Definition sched0 : sched := mkSched 0 [].

Fixpoint lookup (tok : Z) (l : list (Z * entry)) : option entry :=
  match l with
  | [] => None
  | (k, e) :: r => if Z.eqb k tok then Some e else lookup tok r
  end.

Fixpoint remove_tok (tok : Z) (l : list (Z * entry)) : list (Z * entry) :=
  match l with
  | [] => []
  | (k, e) :: r => if Z.eqb k tok then remove_tok tok r else (k, e) :: remove_tok tok r
  end.

Definition is_scheduled (tok : Z) (s : sched) : bool :=
  match lookup tok (tokens s) with Some _ => true | None => false end.

(** schedule_consumption: returns the new state and the wait handed out. *)
Definition schedule_consumption (amt tok : Z) (ttc : Q) (s : sched) : sched * Q :=
  let tw := Qred (total_wait s + ttc) in
  (mkSched tw ((tok, mkEntry tw ttc amt) :: remove_tok tok (tokens s)), tw).

(** process_scheduled_consumption: pop the token,
    [_total_wait = max(_total_wait - time_to_consume, 0)]. *)
Definition process_scheduled_consumption (tok : Z) (s : sched) : sched :=
  match lookup tok (tokens s) with
  | None => s
  | Some e =>
      let d := Qred (total_wait s - time_to_consume e) in
      mkSched (if Qle_bool 0 d then d else 0) (remove_tok tok (tokens s))
  end.

(** * LeakyBucket *)

Record bucket := mkBucket { trk : tracker; sch : sched }.

Definition bucket0 : bucket := mkBucket tracker0 sched0.

(** consume() either returns the amount or raises RequestExceededException
    carrying [retry_time]. *)
Inductive decision := Granted | Refused (wait : Q).

(** _projected_to_exceed_max_rate: [projected_rate > max_rate]. *)
Definition exceeds (mx : Q) (p : option Q) : bool :=
  match p with
  | None => true
  | Some r => negb (Qle_bool r mx)
  end.

(** LeakyBucket.consume, [alpha] explicit. *)
Definition consume_with (alpha mx : Q) (amt tok : Z) (now : Q) (b : bucket)
  : bucket * decision :=
  if is_scheduled tok (sch b)
  then (mkBucket (record_consumption alpha (trk b) amt now)
                 (process_scheduled_consumption tok (sch b)), Granted)
  else if exceeds mx (projected_rate alpha (trk b) amt now)
  then let (s', w) := schedule_consumption amt tok (Qred (inject_Z amt / mx)) (sch b) in
       (mkBucket (trk b) s', Refused w)
  else (mkBucket (record_consumption alpha (trk b) amt now) (sch b), Granted).

(** with the source's default alpha (regenerated into gen/Tables.v) *)
Definition consume := consume_with BW_ALPHA.

(** LeakyBucket.cancel (the repair of F9). *)
Definition cancel (tok : Z) (b : bucket) : bucket :=
  if is_scheduled tok (sch b)
  then mkBucket (trk b) (process_scheduled_consumption tok (sch b))
  else b.

(** Histories of bucket operations. *)
Inductive bop := Consume (amt tok : Z) (now : Q) | Cancel (tok : Z).

Definition bstep (alpha mx : Q) (b : bucket) (op : bop) : bucket * option decision :=
  match op with
  | Consume amt tok now =>
      let (b', d) := consume_with alpha mx amt tok now b in (b', Some d)
  | Cancel tok => (cancel tok b, None)
  end.

Fixpoint run_state (alpha mx : Q) (b : bucket) (ops : list bop) : bucket :=
  match ops with
  | [] => b
  | op :: r => run_state alpha mx (fst (bstep alpha mx b op)) r
  end.

Fixpoint run_decs (alpha mx : Q) (b : bucket) (ops : list bop) : list (option decision) :=
  match ops with
  | [] => []
  | op :: r => snd (bstep alpha mx b op) :: run_decs alpha mx (fst (bstep alpha mx b op)) r
  end.

(** Did the rate test decide this request, and was it closer to the limit
    than max/2^30?  (Only used by the correspondence, to skip decisions a
    binary64 evaluation may legitimately take the other way.) *)
Definition near_tie (alpha mx : Q) (b : bucket) (amt tok : Z) (now : Q) : bool :=
  if is_scheduled tok (sch b) then false
  else match projected_rate alpha (trk b) amt now with
       | None => false
       | Some p =>
           Qle_bool ((p - mx) * inject_Z (2 ^ 30)) mx &&
           Qle_bool ((mx - p) * inject_Z (2 ^ 30)) mx
       end.

(** * BandwidthLimitedStream *)

Record stream := mkStream { s_enabled : bool; s_seen : Z; s_tok : Z }.

Definition stream0 (tok : Z) : stream := mkStream true 0 tok.

(** What one pass through the body of [_consume_through_leaky_bucket]'s
    [while] does: the transfer's exception is looked at first; if it is set
    the token is cancelled and the exception raised; otherwise consume, and on
    refusal sleep [retry_time] and go round again. *)
Inductive iter_result := IDone | ISleep (w : Q) | IRaise.

Definition loop_iter (alpha mx : Q) (exc : bool) (now : Q) (st : stream) (b : bucket)
  : stream * bucket * iter_result :=
  if exc then (st, cancel (s_tok st) b, IRaise)
  else match consume_with alpha mx (s_seen st) (s_tok st) now b with
       | (b', Granted) => (mkStream (s_enabled st) 0 (s_tok st), b', IDone)
       | (b', Refused w) => (st, b', ISleep w)
       end.

(** The loop as it was before the repair of F9 (no cancel), for
    [C13_leak_unrepaired_refuted]. *)
Definition loop_iter_nocancel (alpha mx : Q) (exc : bool) (now : Q) (st : stream) (b : bucket)
  : stream * bucket * iter_result :=
  if exc then (st, b, IRaise)
  else match consume_with alpha mx (s_seen st) (s_tok st) now b with
       | (b', Granted) => (mkStream (s_enabled st) 0 (s_tok st), b', IDone)
       | (b', Refused w) => (st, b', ISleep w)
       end.

(** The whole loop of one stream running alone: [exc_at t] is the
    coordinator's exception flag at clock reading [t], [wake t w] the clock
    reading when [sleep(w)] started at [t] returns.  Fuel = iterations. *)
Fixpoint stream_loop (fuel : nat) (alpha mx : Q) (exc_at : Q -> bool) (wake : Q -> Q -> Q)
         (now : Q) (st : stream) (b : bucket) : option (stream * bucket * bool * Q) :=
  match fuel with
  | O => None
  | S f =>
      match loop_iter alpha mx (exc_at now) now st b with
      | (st', b', IDone) => Some (st', b', true, now)
      | (st', b', IRaise) => Some (st', b', false, now)
      | (st', b', ISleep w) => stream_loop f alpha mx exc_at wake (wake now w) st' b'
      end
  end.

(** read(amount), up to the point where the loop is entered: [false] = the
    read goes straight to the wrapped file object, [true] = the loop is
    entered with the returned [s_seen] as the amount to consume. *)
Definition read_enter (thr amount : Z) (st : stream) : stream * bool :=
  if negb (s_enabled st) then (st, false)
  else let seen := (s_seen st + amount)%Z in
       let st' := mkStream true seen (s_tok st) in
       if (seen <? thr)%Z then (st', false) else (st', true).

(** close(): pending bytes are charged when limiting is enabled. *)
Definition close_enter (st : stream) : bool :=
  s_enabled st && negb (s_seen st =? 0)%Z.

Definition set_enabled (en : bool) (st : stream) : stream :=
  mkStream en (s_seen st) (s_tok st).

(** * Several streams on one bucket, event by event (virtual time)

    A stream is blocked inside read() or close() while it sleeps; its next
    event is then the wake-up.  The token of stream [sid] is [sid]. *)
Inductive pending := PNone | PRead | PClose.

Record sstate := mkS { ss_stream : stream; ss_pending : pending }.

Inductive sev :=
| EvRead (sid amount : Z) (exc : bool) (now : Q)
| EvWake (sid : Z) (exc : bool) (now : Q)
| EvClose (sid : Z) (exc : bool) (now : Q)
| EvEnable (sid : Z)
| EvDisable (sid : Z).

Inductive sout := OPass | OSleep (w : Q) | ORaise | OClosed | OOk | OBad.

Record sys := mkSys { y_bucket : bucket; y_streams : list (Z * sstate) }.

Definition sys0 : sys := mkSys bucket0 [].

Fixpoint get_stream (sid : Z) (l : list (Z * sstate)) : sstate :=
  match l with
  | [] => mkS (stream0 sid) PNone
  | (k, s) :: r => if Z.eqb k sid then s else get_stream sid r
  end.

Fixpoint set_stream (sid : Z) (s : sstate) (l : list (Z * sstate)) : list (Z * sstate) :=
  match l with
  | [] => [(sid, s)]
  | (k, s0) :: r => if Z.eqb k sid then (k, s) :: r else (k, s0) :: set_stream sid s r
  end.

(** run one loop iteration for a stream that is in read() ([PRead]) or
    close() ([PClose]) *)
Definition sys_iter (alpha mx : Q) (y : sys) (sid : Z) (st : stream) (why : pending)
           (exc : bool) (now : Q) : sys * sout :=
  match loop_iter alpha mx exc now st (y_bucket y) with
  | (st', b', IDone) =>
      (mkSys b' (set_stream sid (mkS st' PNone) (y_streams y)),
       match why with PClose => OClosed | _ => OPass end)
  | (st', b', ISleep w) =>
      (mkSys b' (set_stream sid (mkS st' why) (y_streams y)), OSleep w)
  | (st', b', IRaise) =>
      (mkSys b' (set_stream sid (mkS st' PNone) (y_streams y)), ORaise)
  end.

Definition sys_step (thr : Z) (alpha mx : Q) (y : sys) (ev : sev) : sys * sout :=
  match ev with
  | EvRead sid amount exc now =>
      let ss := get_stream sid (y_streams y) in
      match ss_pending ss with
      | PNone =>
          let (st', enter) := read_enter thr amount (ss_stream ss) in
          if enter then sys_iter alpha mx y sid st' PRead exc now
          else (mkSys (y_bucket y) (set_stream sid (mkS st' PNone) (y_streams y)), OPass)
      | _ => (y, OBad)
      end
  | EvWake sid exc now =>
      let ss := get_stream sid (y_streams y) in
      match ss_pending ss with
      | PNone => (y, OBad)
      | why => sys_iter alpha mx y sid (ss_stream ss) why exc now
      end
  | EvClose sid exc now =>
      let ss := get_stream sid (y_streams y) in
      match ss_pending ss with
      | PNone =>
          if close_enter (ss_stream ss)
          then sys_iter alpha mx y sid (ss_stream ss) PClose exc now
          else (y, OClosed)
      | _ => (y, OBad)
      end
  | EvEnable sid =>
      let ss := get_stream sid (y_streams y) in
      (mkSys (y_bucket y)
             (set_stream sid (mkS (set_enabled true (ss_stream ss)) (ss_pending ss)) (y_streams y)),
       OOk)
  | EvDisable sid =>
      let ss := get_stream sid (y_streams y) in
      (mkSys (y_bucket y)
             (set_stream sid (mkS (set_enabled false (ss_stream ss)) (ss_pending ss)) (y_streams y)),
       OOk)
  end.

Fixpoint sys_run (thr : Z) (alpha mx : Q) (y : sys) (evs : list sev) : list sout :=
  match evs with
  | [] => []
  | ev :: r => snd (sys_step thr alpha mx y ev) :: sys_run thr alpha mx (fst (sys_step thr alpha mx y ev)) r
  end.

(** near-tie flag of an event (the consume it leads to, if any) *)
Definition sys_near_tie (thr : Z) (alpha mx : Q) (y : sys) (ev : sev) : bool :=
  match ev with
  | EvRead sid amount exc now =>
      let ss := get_stream sid (y_streams y) in
      match ss_pending ss with
      | PNone =>
          let (st', enter) := read_enter thr amount (ss_stream ss) in
          enter && negb exc && near_tie alpha mx (y_bucket y) (s_seen st') sid now
      | _ => false
      end
  | EvWake sid exc now =>
      let ss := get_stream sid (y_streams y) in
      match ss_pending ss with
      | PNone => false
      | _ => negb exc && near_tie alpha mx (y_bucket y) (s_seen (ss_stream ss)) sid now
      end
  | EvClose sid exc now =>
      let ss := get_stream sid (y_streams y) in
      match ss_pending ss with
      | PNone => close_enter (ss_stream ss) && negb exc &&
                 near_tie alpha mx (y_bucket y) (s_seen (ss_stream ss)) sid now
      | _ => false
      end
  | _ => false
  end.

(** The stream with the source's default threshold and alpha. *)
Definition sys_step_default := sys_step BW_BYTES_THRESHOLD BW_ALPHA.

(** Runs that also report the near-tie flag of every step (for the driver). *)
Fixpoint run_decs_nt (alpha mx : Q) (b : bucket) (ops : list bop)
  : list (option decision * bool) :=
  match ops with
  | [] => []
  | op :: r =>
      (snd (bstep alpha mx b op),
       match op with
       | Consume amt tok now => near_tie alpha mx b amt tok now
       | Cancel _ => false
       end) :: run_decs_nt alpha mx (fst (bstep alpha mx b op)) r
  end.

Fixpoint sys_run_nt (thr : Z) (alpha mx : Q) (y : sys) (evs : list sev) : list (sout * bool) :=
  match evs with
  | [] => []
  | ev :: r =>
      (snd (sys_step thr alpha mx y ev), sys_near_tie thr alpha mx y ev)
      :: sys_run_nt thr alpha mx (fst (sys_step thr alpha mx y ev)) r
  end.
