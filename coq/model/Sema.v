(** Semaphores: mirrors s3transfer/utils.py TaskSemaphore (623-657) and
    SlidingWindowSemaphore (660-755) as they are in the tree.  Definitions only.

    Tags are [Z] ids, tokens are [Z].  Everything the code does under its lock
    is one atomic operation here; blocking is modelled by the result
    [RWouldBlock] (state unchanged) -- the waiters live in SemaConc.v. *)
From Coq Require Import ZArith List Bool.
Import ListNotations.
Open Scope Z_scope.

(** Per-tag bookkeeping: [_tag_sequences[tag]], [_lowest_sequence[tag]],
    [_pending_release.get(tag, [])] (same element order as the Python list:
    reverse-sorted, the smallest element last). *)
Record tagst := mkTag { t_next : Z; t_low : Z; t_pend : list Z }.

Record sw := mkSW { sw_count : Z; sw_tags : list (Z * tagst) }.

Definition sw_init (cap : Z) : sw := mkSW cap [].

Fixpoint lookup (l : list (Z * tagst)) (t : Z) : option tagst :=
  match l with
  | [] => None
  | (t', r) :: l' => if t' =? t then Some r else lookup l' t
  end.

Fixpoint upd (l : list (Z * tagst)) (t : Z) (r : tagst) : list (Z * tagst) :=
  match l with
  | [] => [(t, r)]
  | (t', r') :: l' => if t' =? t then (t, r) :: l' else (t', r') :: upd l' t r
  end.

(** What the dictionaries answer for a tag never seen: defaultdict(int) -> 0,
    no lowest yet (set to 0 on first acquire), no pending list. *)
Definition tag0 : tagst := mkTag 0 0 [].

Definition get (s : sw) (t : Z) : tagst :=
  match lookup (sw_tags s) t with Some r => r | None => tag0 end.

Definition known (s : sw) (t : Z) : bool :=
  match lookup (sw_tags s) t with Some _ => true | None => false end.

(** Results of the two operations (one type, so that a history has one list
    of results). *)
Inductive res :=
| RTok (k : Z)      (* acquire returned sequence number k *)
| RNoRes            (* NoResourcesAvailable (non-blocking at count 0) *)
| RWouldBlock       (* blocking acquire at count 0: would wait on the condition *)
| ROk               (* release returned *)
| RValErr.          (* release raised ValueError *)

(** acquire, utils.py:697-717 *)
Definition sw_acquire (s : sw) (t : Z) (blocking : bool) : res * sw :=
  if sw_count s =? 0 then
    ((if blocking then RWouldBlock else RNoRes), s)
  else
    let r := get s t in
    let seq := t_next r in
    let low := if seq =? 0 then 0 else t_low r in
    (RTok seq, mkSW (sw_count s - 1) (upd (sw_tags s) t (mkTag (seq + 1) low (t_pend r)))).

(** The [while queued:] loop of release: pops the last element while it
    equals the lowest sequence; returns the new lowest and the remaining list.
    (The recursive call handles the elements behind [x]; only when all of them
    were popped is [x] the last element and gets tested.) *)
Fixpoint drain (low : Z) (q : list Z) : Z * list Z :=
  match q with
  | [] => (low, [])
  | x :: r =>
      let (l', r') := drain low r in
      match r' with
      | [] => if l' =? x then (l' + 1, []) else (l', [x])
      | _ :: _ => (l', x :: r')
      end
  end.

(** list.sort(reverse=True) *)
Fixpoint ins_desc (k : Z) (l : list Z) : list Z :=
  match l with
  | [] => [k]
  | x :: r => if x <=? k then k :: l else x :: ins_desc k r
  end.

Definition sort_desc (l : list Z) : list Z := fold_right ins_desc [] l.

(** Which branch of release a call takes. *)
Inductive branch := BUnknownTag | BLowest | BPending | BBadSeq.

Definition rel_branch (s : sw) (t k : Z) : branch :=
  match lookup (sw_tags s) t with
  | None => BUnknownTag
  | Some r =>
      (* lowest == sequence_number < max_sequence *)
      if (t_low r =? k) && (k <? t_next r) then BLowest
      else if (t_low r <? k) && (k <? t_next r) then BPending
      else BBadSeq
  end.

(** The body of release for a given branch. *)
Definition sw_release_with (br : branch) (s : sw) (t k : Z) : res * sw :=
  match br with
  | BUnknownTag => (RValErr, s)
  | BBadSeq => (RValErr, s)
  | BLowest =>
      let r := get s t in
      let (low', q') := drain (t_low r + 1) (t_pend r) in
      (ROk, mkSW (sw_count s + 1 + (low' - (t_low r + 1)))
                 (upd (sw_tags s) t (mkTag (t_next r) low' q')))
  | BPending =>
      let r := get s t in
      (ROk, mkSW (sw_count s)
                 (upd (sw_tags s) t (mkTag (t_next r) (t_low r) (sort_desc (t_pend r ++ [k])))))
  end.

(** release, utils.py:719-755 *)
Definition sw_release (s : sw) (t k : Z) : res * sw :=
  sw_release_with (rel_branch s t k) s t k.

(** Record of the code before commit 74b8319 (finding F13): the first branch
    tested only [lowest == sequence_number].  Used by no other definition;
    props/C12.v keeps the machine-checked witness of what the repair changed. *)
Definition rel_branch_old (s : sw) (t k : Z) : branch :=
  match lookup (sw_tags s) t with
  | None => BUnknownTag
  | Some r =>
      if t_low r =? k then BLowest
      else if (t_low r <? k) && (k <? t_next r) then BPending
      else BBadSeq
  end.

Definition sw_release_old (s : sw) (t k : Z) : res * sw :=
  sw_release_with (rel_branch_old s t k) s t k.

(** Histories. *)
Inductive op := OAcq (t : Z) (blocking : bool) | ORel (t k : Z).

Definition step (s : sw) (o : op) : res * sw :=
  match o with
  | OAcq t b => sw_acquire s t b
  | ORel t k => sw_release s t k
  end.

Fixpoint run (s : sw) (ops : list op) : list res * sw :=
  match ops with
  | [] => ([], s)
  | o :: r => let (x, s') := step s o in
              let (xs, s'') := run s' r in (x :: xs, s'')
  end.

(** Σ_tag (next - lowest) *)
Fixpoint sum_out (l : list (Z * tagst)) : Z :=
  match l with
  | [] => 0
  | (_, r) :: l' => (t_next r - t_low r) + sum_out l'
  end.

(** Ghost bookkeeping of a history: the tokens granted and the tokens whose
    release was accepted, in order of occurrence (most recent first). *)
Definition tok_eqb (a b : Z * Z) : bool := (fst a =? fst b) && (snd a =? snd b).

Fixpoint memt (x : Z * Z) (l : list (Z * Z)) : bool :=
  match l with [] => false | y :: r => tok_eqb x y || memt x r end.

Record ghost := mkG { g_granted : list (Z * Z); g_released : list (Z * Z) }.

Definition ghost0 : ghost := mkG [] [].

Definition gstep (g : ghost) (o : op) (x : res) : ghost :=
  match o, x with
  | OAcq t _, RTok k => mkG ((t, k) :: g_granted g) (g_released g)
  | ORel t k, ROk => mkG (g_granted g) ((t, k) :: g_released g)
  | _, _ => g
  end.

Fixpoint grun (s : sw) (g : ghost) (ops : list op) : sw * ghost :=
  match ops with
  | [] => (s, g)
  | o :: r => let (x, s') := step s o in grun s' (gstep g o x) r
  end.

(** Well-formed history: every release that the semaphore does not reject is
    of a token that was granted earlier in the history and whose release was
    not accepted before ("no token released twice, nothing released that was
    not handed out").  Rejected releases and all acquires are unconstrained. *)
Definition op_ok (g : ghost) (o : op) (x : res) : bool :=
  match o, x with
  | ORel t k, ROk => memt (t, k) (g_granted g) && negb (memt (t, k) (g_released g))
  | _, _ => true
  end.

Fixpoint wf_from (s : sw) (g : ghost) (ops : list op) : bool :=
  match ops with
  | [] => true
  | o :: r => let (x, s') := step s o in
              op_ok g o x && wf_from s' (gstep g o x) r
  end.

Definition wf (cap : Z) (ops : list op) : bool := wf_from (sw_init cap) ghost0 ops.

(** The strict form: every release (accepted or not) names a granted, not yet
    released token. *)
Definition op_strict (g : ghost) (o : op) : bool :=
  match o with
  | ORel t k => memt (t, k) (g_granted g) && negb (memt (t, k) (g_released g))
  | OAcq _ _ => true
  end.

Fixpoint wf_strict_from (s : sw) (g : ghost) (ops : list op) : bool :=
  match ops with
  | [] => true
  | o :: r => let (x, s') := step s o in
              op_strict g o && wf_strict_from s' (gstep g o x) r
  end.

Definition wf_strict (cap : Z) (ops : list op) : bool :=
  wf_strict_from (sw_init cap) ghost0 ops.

(** Quiescent: every granted token has been released. *)
Definition quiescent (g : ghost) : bool :=
  forallb (fun x => memt x (g_released g)) (g_granted g).

(** The grants of tag [t] in a history, in order. *)
Fixpoint grants_of (t : Z) (ops : list op) (xs : list res) : list Z :=
  match ops, xs with
  | OAcq t' _ :: r, RTok k :: xr =>
      if t' =? t then k :: grants_of t r xr else grants_of t r xr
  | _ :: r, _ :: xr => grants_of t r xr
  | _, _ => []
  end.

Fixpoint zseq (start : Z) (n : nat) : list Z :=
  match n with O => [] | S k => start :: zseq (start + 1) k end.

(** * TaskSemaphore = threading.Semaphore(count): value only. *)
Inductive tres := TAcquired | TNoRes | TWouldBlock | TReleased.

Inductive top := TAcq (blocking : bool) | TRel.

Definition ts_step (v : Z) (o : top) : tres * Z :=
  match o with
  | TAcq b => if v =? 0 then ((if b then TWouldBlock else TNoRes), v) else (TAcquired, v - 1)
  | TRel => (TReleased, v + 1)
  end.

Fixpoint ts_run (v : Z) (ops : list top) : list tres * Z :=
  match ops with
  | [] => ([], v)
  | o :: r => let (x, v') := ts_step v o in
              let (xs, v'') := ts_run v' r in (x :: xs, v'')
  end.

Definition count_tres (x : tres) (xs : list tres) : Z :=
  Z.of_nat (length (filter (fun y => match x, y with
                                     | TAcquired, TAcquired => true
                                     | TReleased, TReleased => true
                                     | _, _ => false end) xs)).
