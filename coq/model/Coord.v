(** TransferCoordinator + the public API of TransferFuture
    (s3transfer/futures.py), as the code is in /repo now (cancel() announces
    AFTER releasing the state lock).  Definitions only.

    One model op = one critical section of the code (or one lock-free read):
    - set_result, set_exception, _transition_to_non_done_state and the first
      half of cancel are single [with self._lock] blocks;
    - announce_done is three phases (cleanups under _failure_cleanups_lock,
      event set, done callbacks under _done_callbacks_lock) that other threads
      may interleave with: they are ops of their own ([OCleanups], [OEvent],
      [OCallbacks]) and [OAnnounce] is the three in sequence, as one thread
      runs them;
    - cancel is [OCancelCS] (the critical section; its outcome says whether
      the caller goes on to announce) or, run synchronously by one thread,
      [OCall (CCancel ..)] = critical section + announce.
    Any interleaving of threads calling these methods is therefore a sequence
    of ops, and the theorems quantify over all sequences.

    Callbacks are *scripts*: a done callback / failure cleanup with id [i] is
    the list of TransferFuture calls [cb_script i] / [cl_script i], executed
    synchronously by the thread that runs the callbacks while it holds the
    lock the code holds at that point.  [locks] is the set of coordinator
    locks held by the executing thread; a call that needs a (non re-entrant)
    lock its own thread holds has outcome [RSelfDeadlock].  Between ops the
    executing thread holds nothing.

    [repaired = false] is the code before the repair of F2 (cancel at
    not-started announced while still holding _lock); it is only used for the
    refutation lemma of C04. *)
From Coq Require Import ZArith List Bool.
Import ListNotations.
Open Scope Z_scope.

Inductive status := NotStarted | Queued | Running | Success | Failed | Cancelled.

(** An exception value: its class (CancelledError / FatalError / anything
    else) and an id standing for its message / identity. *)
Inductive ekind := KCancelled | KFatal | KOther.
Record exn := mkExn { e_kind : ekind; e_msg : Z }.

(** The calls a user callback can make on its TransferFuture. [CStatus] stands
    for every lock-free read (meta, status). *)
Inductive call :=
| CDone
| CStatus
| CResult
| CSetException (e : exn)             (* TransferFuture.set_exception *)
| CCancel (msg : Z) (k : ekind).      (* cancel(msg, exc_type); the future's own cancel() is CCancel 0 KCancelled *)

Inductive cres :=
| RUnit
| RBool (b : bool)
| RStatus (st : status)
| RExc (e : option exn)
| RReturns (r : option Z)             (* result() returned the stored result (None = Python None) *)
| RRaises (e : exn)                   (* result() raised the stored exception *)
| RBlocked                            (* result(): the done event is not set, the caller would wait *)
| RNotDone                            (* TransferNotDoneError *)
| RRuntimeError                       (* transition out of a done state *)
| RSelfDeadlock                       (* the thread needs a lock it holds itself *)
| RCallbackBlocked                    (* result() inside a callback while the event is unset: that thread waits holding the callbacks lock *)
| RStuck.                             (* nesting deeper than the model unfolds; proved unreachable *)

Inductive ev :=
| RanCleanup (id : Z)
| RanCallback (id : Z)
| ScriptRes (r : cres).               (* what a call made by a callback script returned *)

Record state := mkState {
  st_status : status;
  st_exc : option exn;
  st_result : option Z;
  st_event : bool;
  st_cleanups : list Z;
  st_callbacks : list Z;
  st_log : list ev
}.

Definition init : state := mkState NotStarted None None false [] [] [].

Record locks := mkLocks { l_state : bool; l_cleanups : bool; l_callbacks : bool }.
Definition no_locks := mkLocks false false false.
Definition hold_state (h : locks) := mkLocks true (l_cleanups h) (l_callbacks h).
Definition hold_cleanups (h : locks) := mkLocks (l_state h) true (l_callbacks h).
Definition hold_callbacks (h : locks) := mkLocks (l_state h) (l_cleanups h) true.

Record env := mkEnv { cb_script : Z -> list call; cl_script : Z -> list call }.
Definition no_scripts : env := mkEnv (fun _ => []) (fun _ => []).

(** ** lock-free reads *)
Definition is_done (st : status) : bool :=
  match st with Success | Failed | Cancelled => true | _ => false end.
Definition done (s : state) : bool := is_done (st_status s).
Definition is_success (st : status) : bool := match st with Success => true | _ => false end.
Definition is_not_started (st : status) : bool := match st with NotStarted => true | _ => false end.

(** result(): [self._done_event.wait(); if self._exception: raise; return self._result] *)
Definition obs_result (s : state) : cres :=
  if st_event s then
    match st_exc s with Some e => RRaises e | None => RReturns (st_result s) end
  else RBlocked.

(** ** the critical sections *)
Definition do_set_result (r : Z) (s : state) : state :=
  mkState Success None (Some r) (st_event s) (st_cleanups s) (st_callbacks s) (st_log s).

Definition do_set_exception (e : exn) (override : bool) (s : state) : state :=
  if negb (done s) || override
  then mkState Failed (Some e) (st_result s) (st_event s) (st_cleanups s) (st_callbacks s) (st_log s)
  else s.

(** first half of cancel: (new state, should_announce_done) *)
Definition do_cancel_cs (m : Z) (k : ekind) (s : state) : state * bool :=
  if done s then (s, false)
  else (mkState Cancelled (Some (mkExn k m)) (st_result s) (st_event s)
                (st_cleanups s) (st_callbacks s) (st_log s),
        is_not_started (st_status s)).

Definition do_transition (target : status) (s : state) : state * cres :=
  if done s then (s, RRuntimeError)
  else (mkState target (st_exc s) (st_result s) (st_event s)
                (st_cleanups s) (st_callbacks s) (st_log s), RUnit).

Definition set_event (s : state) : state :=
  mkState (st_status s) (st_exc s) (st_result s) true (st_cleanups s) (st_callbacks s) (st_log s).
Definition log_ev (e : ev) (s : state) : state :=
  mkState (st_status s) (st_exc s) (st_result s) (st_event s) (st_cleanups s) (st_callbacks s)
          (st_log s ++ [e]).
Definition clear_cleanups (s : state) : state :=
  mkState (st_status s) (st_exc s) (st_result s) (st_event s) [] (st_callbacks s) (st_log s).
Definition clear_callbacks (s : state) : state :=
  mkState (st_status s) (st_exc s) (st_result s) (st_event s) (st_cleanups s) [] (st_log s).
Definition add_callback (id : Z) (s : state) : state :=
  mkState (st_status s) (st_exc s) (st_result s) (st_event s) (st_cleanups s)
          (st_callbacks s ++ [id]) (st_log s).
Definition add_cleanup (id : Z) (s : state) : state :=
  mkState (st_status s) (st_exc s) (st_result s) (st_event s) (st_cleanups s ++ [id])
          (st_callbacks s) (st_log s).

(** outcomes after which the executing thread never returns *)
Definition hangs (r : cres) : bool :=
  match r with RSelfDeadlock | RCallbackBlocked | RStuck => true | _ => false end.
Definition in_cb (r : cres) : cres := match r with RBlocked => RCallbackBlocked | _ => r end.

Inductive op :=
| OSetResult (r : Z)
| OSetException (e : exn) (override : bool)    (* coordinator.set_exception *)
| OCancelCS (msg : Z) (k : ekind)              (* cancel's critical section alone; outcome RBool should_announce *)
| OQueued
| ORunning
| OAnnounce                                    (* announce_done() by one thread *)
| OCleanups | OEvent | OCallbacks              (* its three phases, for interleavings *)
| OAddCallback (id : Z)
| OAddCleanup (id : Z)
| OException                                   (* read of coordinator.exception *)
| OCall (c : call).                            (* done / status / result / future.set_exception / cancel *)

Definition OCancel (m : Z) (k : ekind) : op := OCall (CCancel m k).
Definition OUserSetException (e : exn) : op := OCall (CSetException e).

Section Model.
Variable E : env.
Variable repaired : bool.

(** One TransferFuture call made by a thread holding [held].  [ann] is what a
    nested announce_done does (open recursion, see [ann0..ann2]). *)
Definition run_call (ann : locks -> state -> state * cres)
           (held : locks) (s : state) (c : call) : state * cres :=
  match c with
  | CDone => (s, RBool (done s))
  | CStatus => (s, RStatus (st_status s))
  | CResult => (s, obs_result s)
  | CSetException e =>
      (* if not self.done(): raise TransferNotDoneError;
         self._coordinator.set_exception(e, override=True)  -- needs _lock *)
      if done s then
        if l_state held then (s, RSelfDeadlock)
        else (do_set_exception e true s, RUnit)
      else (s, RNotDone)
  | CCancel m k =>
      if l_state held then (s, RSelfDeadlock)
      else let '(s', will) := do_cancel_cs m k s in
           if will then ann (if repaired then held else hold_state held) s'
           else (s', RUnit)
  end.

(** A callback body: the calls one after the other, each result recorded.
    A Python exception raised by a call is caught by the script itself (a
    callback that lets it propagate is the script cut short there:
    _run_callback swallows it).  A call that never returns ends the thread. *)
Fixpoint run_script (ann : locks -> state -> state * cres)
         (held : locks) (s : state) (sc : list call) : state * cres :=
  match sc with
  | [] => (s, RUnit)
  | c :: rest =>
      let '(s', r) := run_call ann held s c in
      if hangs (in_cb r) then (s', in_cb r)
      else run_script ann held (log_ev (ScriptRes r) s') rest
  end.

(** _run_callbacks: for callback in callbacks: self._run_callback(callback) *)
Fixpoint run_list (ann : locks -> state -> state * cres) (scr : Z -> list call)
         (mk : Z -> ev) (held : locks) (s : state) (ids : list Z) : state * cres :=
  match ids with
  | [] => (s, RUnit)
  | id :: rest =>
      let '(s', r) := run_script ann held (log_ev (mk id) s) (scr id) in
      if hangs r then (s', r) else run_list ann scr mk held s' rest
  end.

(** if self.status != 'success': self._run_failure_cleanups() *)
Definition phase_cleanups (ann : locks -> state -> state * cres)
           (held : locks) (s : state) : state * cres :=
  if is_success (st_status s) then (s, RUnit)
  else if l_cleanups held then (s, RSelfDeadlock)
  else let '(s', r) := run_list ann (cl_script E) RanCleanup (hold_cleanups held) s (st_cleanups s) in
       if hangs r then (s', r) else (clear_cleanups s', RUnit).

(** self._run_done_callbacks() *)
Definition phase_callbacks (ann : locks -> state -> state * cres)
           (held : locks) (s : state) : state * cres :=
  if l_callbacks held then (s, RSelfDeadlock)
  else let '(s', r) := run_list ann (cb_script E) RanCallback (hold_callbacks held) s (st_callbacks s) in
       if hangs r then (s', r) else (clear_callbacks s', RUnit).

Definition announce_body (ann : locks -> state -> state * cres)
           (held : locks) (s : state) : state * cres :=
  let '(s1, r1) := phase_cleanups ann held s in
  if hangs r1 then (s1, r1) else phase_callbacks ann held (set_event s1).

(** Nesting: an announce runs callbacks whose cancel() may announce again.
    Two levels are all that can happen (the nested cancel leaves a done
    status, after which cancel never announces): CoordProofs.never_stuck. *)
Definition ann0 (held : locks) (s : state) : state * cres := (s, RStuck).
Definition ann1 := announce_body ann0.
Definition ann2 := announce_body ann1.

Definition step (s : state) (o : op) : state * cres :=
  match o with
  | OSetResult r => (do_set_result r s, RUnit)
  | OSetException e ov => (do_set_exception e ov s, RUnit)
  | OCancelCS m k => let '(s', will) := do_cancel_cs m k s in (s', RBool will)
  | OQueued => do_transition Queued s
  | ORunning => do_transition Running s
  | OAnnounce => ann2 no_locks s
  | OCleanups => phase_cleanups ann1 no_locks s
  | OEvent => (set_event s, RUnit)
  | OCallbacks => phase_callbacks ann1 no_locks s
  | OAddCallback id => (add_callback id s, RUnit)
  | OAddCleanup id => (add_cleanup id s, RUnit)
  | OException => (s, RExc (st_exc s))
  | OCall c => run_call ann2 no_locks s c
  end.

(** A history: every executed op with the state before it, its outcome and
    the state after it.  Nothing is executed after an op whose thread hangs
    holding a lock. *)
Fixpoint run (s : state) (ops : list op) : list (state * op * cres * state) :=
  match ops with
  | [] => []
  | o :: rest =>
      let '(s', r) := step s o in
      (s, o, r, s') :: (if hangs r then [] else run s' rest)
  end.

(** The state after the history, and whether it ended in a hang. *)
Fixpoint final (s : state) (ops : list op) : state * bool :=
  match ops with
  | [] => (s, false)
  | o :: rest =>
      let '(s', r) := step s o in
      if hangs r then (s', true) else final s' rest
  end.

End Model.

(** Projections of the log. *)
Fixpoint cb_ids (l : list ev) : list Z :=
  match l with
  | [] => []
  | RanCallback id :: r => id :: cb_ids r
  | _ :: r => cb_ids r
  end.
Fixpoint cl_ids (l : list ev) : list Z :=
  match l with
  | [] => []
  | RanCleanup id :: r => id :: cl_ids r
  | _ :: r => cl_ids r
  end.
