(** Stage.v -- generative abstract model of the staged, permit-bounded FIFO
    executors of s3transfer (property C04: deadlock freedom / termination).

    The protocol model Sys.v says which events the code MAY perform; it has no
    program counters, so "some thread can always move" cannot be stated on it.
    This file is the generative counterpart: every thread carries the list of
    actions it still has to perform, and [step] says which of them can move.

    Stages (manager.py:256-284):
      0 = IO executor         (1 worker,                   max_io_queue_size permits)
      1 = request executor    (max_request_concurrency,    max_request_queue_size permits,
                               + tag semaphores max_in_memory_upload_chunks (TaskSemaphore)
                                 and max_in_memory_download_chunks (SlidingWindowSemaphore))
      2 = submission executor (max_submission_concurrency, max_submission_queue_size permits)
      3 = user threads (callers of upload/download/copy/delete, result(), shutdown()).

    BoundedExecutor.submit (futures.py:443-484) first ACQUIRES a permit of the
    target executor's semaphore -- or, when a tag is given, of the tag
    semaphore INSTEAD -- blocking while none is free, and only then appends
    the task to the ThreadPoolExecutor's FIFO queue; the permit is given back
    by a done-callback of the task's future.  Task.__call__ (tasks.py:130-153)
    first waits for the futures it depends on WHILE OCCUPYING ITS WORKER, then
    runs main and its done callbacks.

    What is a blocking point here: permit acquisition, waiting for dependency
    futures, the submission task's error path waiting for all associated
    futures, result() waiting for the done event, shutdown joining the
    executors.  What is NOT a blocking point here: the short critical
    sections (locks of futures.py / utils.py).  A lock holder never blocks
    inside those critical sections, so each of them is part of an [AWork]
    action; the re-entrancy hazard (a callback re-entering its own
    coordinator while a lock is held) is handled separately by theorem
    C04_coord_no_self_deadlock_disciplined in props/C17.v, and the wake-up of
    semaphore waiters by SemaConc (props/C12.v).  Environment calls (sockets,
    disk, time.sleep) are assumed to return: they are [AWork] too.

    Definitions only; the proofs are in proofs/StageProofs.v. *)
From Coq Require Import List Bool Arith PeanoNat.
Import ListNotations.

Definition IO : nat := 0.
Definition REQ : nat := 1.
Definition SUB : nat := 2.
Definition USER : nat := 3.

(** * Plans *)

(** One action of a thread's program.
    - [AWork]: always enabled (an S3 call, a write, a callback, a critical
      section, cancel(), set_exception(), ...).
    - [ASpawn c]: BoundedExecutor.submit of task [c]: take a permit of [c]'s
      semaphore (blocks while none is free), then append [c] to the FIFO queue
      of [c]'s stage.  Two steps, as in the code.
    - [AWaitAll]: SubmissionTask._wait_for_all_submitted_futures_to_complete
      (tasks.py:309-334): blocks until no task this thread (transitively)
      spawned is queued or running.
    - [AWaitDone j] (user threads): future.result(): blocks until the
      transfer's announcing task [j] has ended (the final task, or the
      submission task on its error path).
    - [AJoin] (user threads): executor.shutdown(wait=True) of all three
      executors: blocks until every executor queue is empty and no worker is
      occupied. *)
Inductive action : Type :=
| AWork
| ASpawn (c : nat)
| AWaitAll
| AWaitDone (j : nat)
| AJoin.

(** A task (or user thread): ids are positions in the plan. [t_tag = Some k]:
    submitted with tag semaphore [k] instead of the stage semaphore.
    [t_transfer]: the transfer id (the key of the sliding window).
    [t_deps]: ids of the futures in pending_main_kwargs. *)
Record task : Type := mkTask {
  t_stage : nat;
  t_tag : option nat;
  t_transfer : nat;
  t_deps : list nat;
  t_prog : list action
}.

Definition plan : Type := list task.
Definition idle_task : task := mkTask IO None 0 [] [].
Definition tk (p : plan) (i : nat) : task := nth i p idle_task.

Definition spawn_of (a : action) : list nat :=
  match a with ASpawn c => [c] | _ => [] end.
Definition spawns (prog : list action) : list nat := flat_map spawn_of prog.

(** Everything [i] transitively spawns.  Spawning goes to a strictly lower
    stage, so the stage of [i] is enough fuel. *)
Fixpoint desc (p : plan) (fuel : nat) (i : nat) : list nat :=
  match fuel with
  | 0 => []
  | S f => let cs := spawns (t_prog (tk p i)) in cs ++ flat_map (desc p f) cs
  end.
Definition descendants (p : plan) (i : nat) : list nat := desc p (t_stage (tk p i)) i.

(** * Configuration *)

Inductive sem : Type := SemStage (s : nat) | SemTag (k : nat).
Definition sem_eqb (a b : sem) : bool :=
  match a, b with
  | SemStage x, SemStage y => Nat.eqb x y
  | SemTag x, SemTag y => Nat.eqb x y
  | _, _ => false
  end.
Definition sem_of (t : task) : sem :=
  match t_tag t with Some k => SemTag k | None => SemStage (t_stage t) end.

(** [sliding k = true]: tag semaphore [k] is a SlidingWindowSemaphore (a
    permit comes back only when its holder and every earlier holder of the
    same transfer have ended); otherwise a plain counting TaskSemaphore. *)
Record config : Type := mkConfig {
  workers : nat -> nat;
  cap : sem -> nat;
  sliding : nat -> bool
}.
Definition config_ok (cfg : config) : Prop :=
  (forall s, 1 <= workers cfg s) /\ (forall m, 1 <= cap cfg m).

(** * States *)

(** [SRun rest acq]: running, [rest] still to do; [acq = true]: the permit for
    the [ASpawn] at the head of [rest] has been taken, the child is not yet
    in the queue. [SWait]: started (occupies a worker), waiting for its
    dependency futures. *)
Inductive status : Type :=
| SNot
| SQueued
| SWait
| SRun (rest : list action) (acq : bool)
| SEnded.

Definition live (s : status) : bool :=
  match s with SQueued | SWait | SRun _ _ => true | _ => false end.
Definition is_ended (s : status) : bool :=
  match s with SEnded => true | _ => false end.

(** [queue s]: FIFO work queue of stage [s] (head = next to start).
    [busy s]: the tasks occupying the workers of stage [s].
    [hold m]: the tasks whose permit of semaphore [m] is outstanding, in
    acquisition order (for the sliding window: token order). *)
Record state : Type := mkState {
  status_of : nat -> status;
  queue : nat -> list nat;
  busy : nat -> list nat;
  hold : sem -> list nat
}.

Definition upd {A : Type} (f : nat -> A) (i : nat) (v : A) : nat -> A :=
  fun j => if Nat.eqb j i then v else f j.
Definition upds {A : Type} (f : sem -> A) (m : sem) (v : A) : sem -> A :=
  fun m' => if sem_eqb m' m then v else f m'.

Definition set_status (st : state) (i : nat) (v : status) : state :=
  mkState (upd (status_of st) i v) (queue st) (busy st) (hold st).

Definition init (p : plan) : state :=
  mkState
    (fun i => if Nat.eqb (t_stage (tk p i)) USER then SRun (t_prog (tk p i)) false else SNot)
    (fun _ => []) (fun _ => []) (fun _ => []).

Definition remove_id (i : nat) (l : list nat) : list nat :=
  filter (fun x => negb (Nat.eqb x i)) l.

(** Permits that are due come back.  Walk the holders in acquisition order;
    [kept] = the earlier holders whose permit stays out.  A holder's permit
    comes back iff it has ended and no kept earlier holder blocks it.
    utils.py SlidingWindowSemaphore.release: a release of a token above the
    lowest outstanding one of its transfer is only recorded; the count goes
    up when the lowest is released, for it and all consecutively recorded
    ones.  So: y blocks x iff same transfer (and y acquired earlier).
    TaskSemaphore.release: nothing blocks, the ended task's permit comes
    back at once. *)
Fixpoint sweep (ended : nat -> bool) (blocks : nat -> nat -> bool)
         (kept : list nat) (l : list nat) : list nat :=
  match l with
  | [] => []
  | x :: r =>
      if ended x && negb (existsb (fun y => blocks y x) kept)
      then sweep ended blocks kept r
      else x :: sweep ended blocks (x :: kept) r
  end.

Definition blocks (cfg : config) (p : plan) (m : sem) (y x : nat) : bool :=
  match m with
  | SemTag k => sliding cfg k && Nat.eqb (t_transfer (tk p y)) (t_transfer (tk p x))
  | SemStage _ => false
  end.

(** The task ends: frees its worker, its permit is released. *)
Definition finish (cfg : config) (p : plan) (st : state) (i : nat) : state :=
  let t := tk p i in
  let stat' := upd (status_of st) i SEnded in
  mkState stat' (queue st)
          (upd (busy st) (t_stage t) (remove_id i (busy st (t_stage t))))
          (upds (hold st) (sem_of t)
                (sweep (fun x => is_ended (stat' x)) (blocks cfg p (sem_of t)) []
                       (hold st (sem_of t)))).

(** Guards of the non-spawn actions of thread [i]. *)
Definition guard (p : plan) (st : state) (i : nat) (a : action) : bool :=
  match a with
  | AWork => true
  | ASpawn _ => true
  | AWaitAll => forallb (fun d => negb (live (status_of st d))) (descendants p i)
  | AWaitDone j => is_ended (status_of st j)
  | AJoin => forallb (fun s => match queue st s, busy st s with [], [] => true | _, _ => false end)
                     (seq 0 USER)
  end.

(** * Steps: thread/task [i] makes its next move (None = it cannot move now).
    The nondeterminism is the choice of [i]. *)
Definition step (cfg : config) (p : plan) (st : state) (i : nat) : option state :=
  let t := tk p i in
  let s := t_stage t in
  match status_of st i with
  | SNot => None          (* created only by its parent's ASpawn *)
  | SEnded => None
  | SQueued =>            (* a free worker of stage s takes the head of the queue *)
      match queue st s with
      | h :: q' =>
          if Nat.eqb h i && (length (busy st s) <? workers cfg s)
          then Some (mkState (upd (status_of st) i SWait) (upd (queue st) s q')
                             (upd (busy st) s (i :: busy st s)) (hold st))
          else None
      | [] => None
      end
  | SWait =>              (* _wait_on_dependent_futures, worker occupied *)
      if forallb (fun d => is_ended (status_of st d)) (t_deps t)
      then Some (set_status st i (SRun (t_prog t) false))
      else None
  | SRun [] _ => Some (finish cfg p st i)
  | SRun (ASpawn c :: rest) false =>      (* semaphore.acquire *)
      let m := sem_of (tk p c) in
      if length (hold st m) <? cap cfg m
      then Some (mkState (upd (status_of st) i (SRun (ASpawn c :: rest) true))
                         (queue st) (busy st) (upds (hold st) m (hold st m ++ [c])))
      else None
  | SRun (ASpawn c :: rest) true =>       (* executor.submit: append to the FIFO *)
      let sc := t_stage (tk p c) in
      Some (mkState (upd (upd (status_of st) i (SRun rest false)) c SQueued)
                    (upd (queue st) sc (queue st sc ++ [c])) (busy st) (hold st))
  | SRun (a :: rest) _ =>
      if guard p st i a then Some (set_status st i (SRun rest false)) else None
  end.

Inductive reachable (cfg : config) (p : plan) : state -> Prop :=
| reach_init : reachable cfg p (init p)
| reach_step : forall st i st', reachable cfg p st -> step cfg p st i = Some st' ->
                                reachable cfg p st'.

(** [exec st l st']: the schedule [l] (who moves, in order) leads from [st] to [st']. *)
Fixpoint run (cfg : config) (p : plan) (st : state) (l : list nat) : option state :=
  match l with
  | [] => Some st
  | i :: r => match step cfg p st i with Some st' => run cfg p st' r | None => None end
  end.

Definition stuck (cfg : config) (p : plan) (st : state) : Prop :=
  forall i, i < length p -> step cfg p st i = None.
Definition stuckb (cfg : config) (p : plan) (st : state) : bool :=
  forallb (fun i => match step cfg p st i with None => true | Some _ => false end)
          (seq 0 (length p)).

(** Every thread has finished, every permit is back, every worker idle, every queue empty. *)
Definition all_done (p : plan) (st : state) : Prop :=
  (forall i, i < length p -> status_of st i = SEnded) /\
  (forall m, hold st m = []) /\
  (forall s, queue st s = [] /\ busy st s = []).

(** * Well-formed plans: the stage discipline *)

Record wf_plan (p : plan) : Prop := mkWf {
  wf_stage : forall i, t_stage (tk p i) <= USER;
  (* tasks are spawned into a STRICTLY LOWER stage *)
  wf_spawn : forall i c, In c (spawns (t_prog (tk p i))) ->
                         c < length p /\ t_stage (tk p c) < t_stage (tk p i);
  (* a forest: every task is spawned once, by one parent; user threads are the roots *)
  wf_uniq : forall i i' c, In c (spawns (t_prog (tk p i))) -> In c (spawns (t_prog (tk p i'))) -> i = i';
  wf_nodup : forall i, NoDup (spawns (t_prog (tk p i)));
  wf_parent : forall c, c < length p -> t_stage (tk p c) < USER ->
                        exists i, In c (spawns (t_prog (tk p i)));
  (* tag semaphores belong to the request executor *)
  wf_tag : forall i k, t_tag (tk p i) = Some k -> t_stage (tk p i) = REQ;
  (* a task depends only on futures its submitter obtained before: earlier
     siblings, of the same stage *)
  wf_deps : forall q pre w post d, t_prog (tk p q) = pre ++ ASpawn w :: post ->
                                   In d (t_deps (tk p w)) ->
                                   In d (spawns pre) /\ t_stage (tk p d) = t_stage (tk p w);
  wf_userdeps : forall i, t_stage (tk p i) = USER -> t_deps (tk p i) = [];
  (* result() / shutdown() are user-thread actions; result() is called on a
     future the same thread got from an earlier submit, or on a future of a
     user thread with a smaller id (futures are handed over along a fixed
     order of the user threads: no cyclic waiting between user threads) *)
  wf_useract : forall i a, In a (t_prog (tk p i)) ->
                           (a = AJoin \/ exists j, a = AWaitDone j) -> t_stage (tk p i) = USER;
  wf_waitdone : forall i pre j post, t_prog (tk p i) = pre ++ AWaitDone j :: post ->
      exists c, (In c (spawns pre) \/
                 exists u, u < i /\ t_stage (tk p u) = USER /\ In c (spawns (t_prog (tk p u)))) /\
                (j = c \/ In j (descendants p c))
}.

(** Executable check of the same (sound: StageProofs.wf_planb_sound). *)
Definition memb (x : nat) (l : list nat) : bool := existsb (Nat.eqb x) l.
Fixpoint nodupb (l : list nat) : bool :=
  match l with [] => true | x :: r => negb (memb x r) && nodupb r end.

(** What the user threads with an id below [i] submit. *)
Definition foreign (p : plan) (i : nat) : list nat :=
  flat_map (fun u => if Nat.eqb (t_stage (tk p u)) USER then spawns (t_prog (tk p u)) else [])
           (seq 0 i).

(** [seen]: the children spawned so far by this program; [ext]: roots whose
    futures may come from other user threads. *)
Fixpoint prog_ok (p : plan) (ext seen : list nat) (prog : list action) : bool :=
  match prog with
  | [] => true
  | ASpawn c :: r =>
      forallb (fun d => memb d seen && Nat.eqb (t_stage (tk p d)) (t_stage (tk p c)))
              (t_deps (tk p c))
      && prog_ok p ext (c :: seen) r
  | AWaitDone j :: r =>
      existsb (fun c => Nat.eqb j c || memb j (descendants p c)) (seen ++ ext)
      && prog_ok p ext seen r
  | _ :: r => prog_ok p ext seen r
  end.

Definition user_action (a : action) : bool :=
  match a with AJoin | AWaitDone _ => true | _ => false end.

Definition task_ok (p : plan) (i : nat) : bool :=
  let t := tk p i in
  (t_stage t <=? USER)
  && forallb (fun c => (c <? length p) && (t_stage (tk p c) <? t_stage t)) (spawns (t_prog t))
  && match t_tag t with Some _ => Nat.eqb (t_stage t) REQ | None => true end
  && prog_ok p (foreign p i) [] (t_prog t)
  && (negb (Nat.eqb (t_stage t) USER) || match t_deps t with [] => true | _ => false end)
  && (Nat.eqb (t_stage t) USER || negb (existsb user_action (t_prog t))).

Definition wf_planb (p : plan) : bool :=
  forallb (task_ok p) (seq 0 (length p))
  && nodupb (flat_map (fun t => spawns (t_prog t)) p)
  && forallb (fun c => (USER <=? t_stage (tk p c))
                       || existsb (fun t => memb c (spawns (t_prog t))) p)
             (seq 0 (length p)).

(** Termination measure: remaining work of every thread of the plan. *)
Definition weight (p : plan) (i : nat) (s : status) : nat :=
  let n := length (t_prog (tk p i)) in
  match s with
  | SNot => 2 * n + 5
  | SQueued => 2 * n + 4
  | SWait => 2 * n + 3
  | SRun r acq => 2 * length r + (if acq then 1 else 2)
  | SEnded => 0
  end.
Fixpoint msum (f : nat -> nat) (n : nat) : nat :=
  match n with 0 => 0 | S k => f k + msum f k end.
Definition measure (p : plan) (st : state) : nat :=
  msum (fun i => weight p i (status_of st i)) (length p).

(** A deterministic scheduler for examples and tests: the enabled thread with
    the lowest ([first_enabled]) or highest ([last_enabled]) id moves. *)
Definition enabledb (cfg : config) (p : plan) (st : state) (i : nat) : bool :=
  match step cfg p st i with Some _ => true | None => false end.
Definition first_enabled (cfg : config) (p : plan) (st : state) : option nat :=
  find (enabledb cfg p st) (seq 0 (length p)).
Definition last_enabled (cfg : config) (p : plan) (st : state) : option nat :=
  find (enabledb cfg p st) (rev (seq 0 (length p))).
Fixpoint drive (pick : state -> option nat) (cfg : config) (p : plan) (fuel : nat) (st : state)
  : list nat :=
  match fuel with
  | 0 => []
  | S f => match pick st with
           | Some i => match step cfg p st i with
                       | Some st' => i :: drive pick cfg p f st'
                       | None => []
                       end
           | None => []
           end
  end.
