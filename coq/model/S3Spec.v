(** Reference S3: an object table and a multipart table.  Definitions only.

    This is the Coq twin of harness/fakes3.py (FakeS3) restricted to what the
    byte-exactness property C01 observes:

    * [s3_put]            PutObject: the object becomes the request body;
    * [s3_create]         CreateMultipartUpload: a fresh upload id;
    * [s3_upload_part]    UploadPart: the upload remembers, for that part
                          number, the bytes of the request that was applied
                          LAST (a repeated part number replaces the earlier
                          one) and answers with a fresh ETag (and a checksum
                          derived from it);
    * [s3_complete]       CompleteMultipartUpload: accepted only for an open
                          upload, a non-empty list whose part numbers are
                          strictly ascending (and >= 1), every listed part
                          known with exactly the listed ETag (and checksum,
                          when one is listed), every part but the last at
                          least [min_part] bytes (EntityTooSmall).  The object
                          becomes the concatenation of the parts IN THE LISTED
                          ORDER.  Every call is logged, accepted or not;
    * [s3_copy_object], [s3_upload_part_copy]  the server-side twins, the
                          latter with a CopySourceRange in the shape
                          calculate_range_parameter produces (Plan.range_param).

    Keys, upload ids, ETags are numbers.  Lookups take the first (newest)
    binding of an association list, so "the last request wins" needs no
    deletion. *)
From Coq Require Import ZArith List Bool.
From S3V Require Import model.Plan model.Chunk.
Import ListNotations.
Open Scope Z_scope.

Definition bytes := list byte.

Fixpoint zlookup {V : Type} (k : Z) (l : list (Z * V)) : option V :=
  match l with
  | [] => None
  | (k', v) :: r => if k =? k' then Some v else zlookup k r
  end.

(** What S3 keeps for one uploaded part. *)
Record part_rec := mkPartRec { pr_etag : Z; pr_data : bytes }.

(** The checksum S3 computes for a part; any function of what S3 stored will
    do, the client can only learn it from the response. *)
Definition checksum_of (etag : Z) : Z := 2 * etag + 1.

Record mpu := mkMpu {
  m_key : Z;
  m_parts : list (Z * part_rec);     (* part number -> last applied request *)
  m_open : bool
}.

(** One element of CompleteMultipartUpload's Parts list. *)
Record part_meta := mkPartMeta { pm_etag : Z; pm_num : Z; pm_cks : option Z }.

Record complete_rec := mkCompleteRec { cr_upload : Z; cr_parts : list part_meta; cr_accepted : bool }.

Record s3 := mkS3 {
  s_objects : list (Z * bytes);
  s_mpus : list (Z * mpu);
  s_next_upload : Z;
  s_next_etag : Z;
  s_completes : list complete_rec      (* newest first *)
}.

Definition s3_empty : s3 := mkS3 [] [] 0 0 [].

Definition s3_object (s : s3) (key : Z) : option bytes := zlookup key (s_objects s).

Definition s3_part (s : s3) (uid n : Z) : option part_rec :=
  match zlookup uid (s_mpus s) with
  | None => None
  | Some m => zlookup n (m_parts m)
  end.

(** PutObject (FakeS3 hands out an ETag for it as well). *)
Definition s3_put (s : s3) (key : Z) (data : bytes) : s3 :=
  mkS3 ((key, data) :: s_objects s) (s_mpus s) (s_next_upload s) (s_next_etag s + 1)
       (s_completes s).

Definition s3_create (s : s3) (key : Z) : s3 * Z :=
  let uid := s_next_upload s + 1 in
  (mkS3 (s_objects s) ((uid, mkMpu key [] true) :: s_mpus s) uid (s_next_etag s)
        (s_completes s), uid).

(** UploadPart: [None] is an error response (NoSuchUpload). *)
Definition s3_upload_part (s : s3) (uid n : Z) (data : bytes) : option (s3 * Z) :=
  match zlookup uid (s_mpus s) with
  | None => None
  | Some m =>
      if m_open m then
        let etag := s_next_etag s + 1 in
        Some (mkS3 (s_objects s)
                   ((uid, mkMpu (m_key m) ((n, mkPartRec etag data) :: m_parts m) true)
                      :: s_mpus s)
                   (s_next_upload s) etag (s_completes s), etag)
      else None
  end.

(** Part numbers strictly ascending, all above [prev]. *)
Fixpoint asc_from (prev : Z) (l : list Z) : bool :=
  match l with
  | [] => true
  | x :: r => (prev <? x) && asc_from x r
  end.

Definition part_listed_ok (m : mpu) (p : part_meta) : bool :=
  match zlookup (pm_num p) (m_parts m) with
  | None => false
  | Some r =>
      (pm_etag p =? pr_etag r) &&
      match pm_cks p with None => true | Some c => c =? checksum_of (pr_etag r) end
  end.

Definition part_bytes (m : mpu) (p : part_meta) : bytes :=
  match zlookup (pm_num p) (m_parts m) with
  | None => []
  | Some r => pr_data r
  end.

(** Every part but the last is at least [min_part] bytes long. *)
Fixpoint sizes_ok (min_part : Z) (l : list bytes) : bool :=
  match l with
  | [] => true
  | [_] => true
  | d :: r => (min_part <=? Z.of_nat (length d)) && sizes_ok min_part r
  end.

Definition complete_ok (min_part : Z) (m : mpu) (parts : list part_meta) : bool :=
  m_open m &&
  negb (match parts with [] => true | _ => false end) &&
  asc_from 0 (map pm_num parts) &&
  forallb (part_listed_ok m) parts &&
  sizes_ok min_part (map (part_bytes m) parts).

(** CompleteMultipartUpload; the boolean is "accepted". *)
Definition s3_complete (min_part : Z) (s : s3) (uid : Z) (parts : list part_meta) : s3 * bool :=
  match zlookup uid (s_mpus s) with
  | None =>
      (mkS3 (s_objects s) (s_mpus s) (s_next_upload s) (s_next_etag s)
            (mkCompleteRec uid parts false :: s_completes s), false)
  | Some m =>
      if complete_ok min_part m parts then
        (mkS3 ((m_key m, concat (map (part_bytes m) parts)) :: s_objects s)
              ((uid, mkMpu (m_key m) (m_parts m) false) :: s_mpus s)
              (s_next_upload s) (s_next_etag s)
              (mkCompleteRec uid parts true :: s_completes s), true)
      else
        (mkS3 (s_objects s) (s_mpus s) (s_next_upload s) (s_next_etag s)
              (mkCompleteRec uid parts false :: s_completes s), false)
  end.

(** How many CompleteMultipartUpload calls the service saw for [uid]. *)
Definition completes_of (s : s3) (uid : Z) : list complete_rec :=
  filter (fun r => cr_upload r =? uid) (s_completes s).

(** CopyObject: [None] is NoSuchKey. *)
Definition s3_copy_object (s : s3) (src dst : Z) : option s3 :=
  match s3_object s src with
  | None => None
  | Some o =>
      Some (mkS3 ((dst, o) :: s_objects s) (s_mpus s) (s_next_upload s) (s_next_etag s)
                 (s_completes s))
  end.

(** The bytes a CopySourceRange denotes in an object. *)
Definition range_bytes (o : bytes) (r : Z * option Z) : bytes :=
  let '(lo, hi) := range_interval (Z.of_nat (length o)) r in
  firstn (Z.to_nat hi - Z.to_nat lo) (skipn (Z.to_nat lo) o).

Definition s3_upload_part_copy (s : s3) (uid n src : Z) (r : Z * option Z) : option (s3 * Z) :=
  match s3_object s src with
  | None => None
  | Some o => s3_upload_part s uid n (range_bytes o r)
  end.
