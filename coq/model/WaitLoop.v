(** The loop by which a FAILED submission task waits for everything it (and the
    tasks it started) handed to the executors before it announces the transfer
    done (tasks.py, SubmissionTask._wait_for_all_submitted_futures_to_complete,
    over TransferCoordinator.associated_futures / add_associated_future /
    remove_associated_future).

    Futures are numbers.  A future that is associated and not yet complete is
    RUNNING; when it completes (because the waiter blocks in its result(), or on
    its own) it has associated its children [kids] with the coordinator, and its
    own removal from the associated set -- a done callback of the executor
    future -- happens at once or, when [lag] is set, only after the waiter's next
    look at the set.  Nobody else adds futures: the submission task itself has
    stopped submitting.

    One round of the loop: wait for every future of the snapshot [W]; meanwhile
    and afterwards other running futures may complete on their own ([fst b]
    before the second snapshot, [snd b] after it); take the second snapshot;
    leave when it equals [W] as a set (or when a snapshot is empty), otherwise go
    round again with the second snapshot. *)
From Coq Require Import List Arith Bool.
Import ListNotations.

Definition mem (x : nat) (l : list nat) : bool := existsb (Nat.eqb x) l.
Definition rm (x : nat) (l : list nat) : list nat := filter (fun y => negb (Nat.eqb x y)) l.
Definition subset (a b : list nat) : bool := forallb (fun x => mem x b) a.
Definition set_eqb (a b : list nat) : bool := subset a b && subset b a.

Record fut := mkFut { kids : list nat; lag : bool }.
Definition script := list fut.
Definition fut_of (sc : script) (f : nat) : fut := nth f sc (mkFut [] false).

Record st := mkSt {
  assoc : list nat;     (* the coordinator's associated futures *)
  done : list nat;      (* futures that have completed *)
  lagged : list nat;    (* completed, removal callback still to run *)
  added : list nat      (* ghost: every future ever associated *)
}.

Definition complete (sc : script) (s : st) (f : nat) : st :=
  if mem f (assoc s) && negb (mem f (done s)) then
    let k := kids (fut_of sc f) in
    let a := assoc s ++ k in
    if lag (fut_of sc f)
    then mkSt a (f :: done s) (f :: lagged s) (added s ++ k)
    else mkSt (rm f a) (f :: done s) (lagged s) (added s ++ k)
  else s.

Definition completes (sc : script) (s : st) (l : list nat) : st := fold_left (complete sc) l s.

Definition flush (s : st) : st :=
  mkSt (fold_left (fun a f => rm f a) (lagged s) (assoc s)) (done s) [] (added s).

Inductive verdict := Exit | OutOfFuel.

Definition bgs := list (list nat * list nat).

Fixpoint loop (sc : script) (fuel : nat) (s : st) (W : list nat) (bg : bgs) (acc : list (list nat))
  : st * verdict * list (list nat) :=
  match fuel with
  | 0 => (s, OutOfFuel, rev acc)
  | S fuel' =>
    match W with
    | [] => (s, Exit, rev acc)
    | _ :: _ =>
      let b := hd ([], []) bg in
      let s1 := completes sc s W in
      let s2 := completes sc s1 (fst b) in
      let W' := assoc s2 in
      let s3 := flush (completes sc s2 (snd b)) in
      if set_eqb W W' then (s3, Exit, rev (W :: acc))
      else loop sc fuel' s3 W' (tl bg) (W :: acc)
    end
  end.

Definition init_state (init : list nat) : st := mkSt init [] [] init.

(** [pre]: futures completing on their own before the waiter's first look. *)
Definition run (sc : script) (init pre : list nat) (bg : bgs) (fuel : nat) : st * verdict * list (list nat) :=
  let s1 := completes sc (init_state init) pre in
  loop sc fuel (flush s1) (assoc s1) bg [].

Definition pending (s : st) : list nat := filter (fun x => negb (mem x (done s))) (added s).

(** The variant that takes the second snapshot BEFORE waiting (the comparison
    then says nothing about what happened during the wait). *)
Fixpoint loop_early (sc : script) (fuel : nat) (s : st) (W : list nat) (bg : bgs) (acc : list (list nat))
  : st * verdict * list (list nat) :=
  match fuel with
  | 0 => (s, OutOfFuel, rev acc)
  | S fuel' =>
    match W with
    | [] => (s, Exit, rev acc)
    | _ :: _ =>
      let b := hd ([], []) bg in
      let W' := assoc s in
      let s1 := completes sc s W in
      let s3 := flush (completes sc (completes sc s1 (fst b)) (snd b)) in
      if set_eqb W W' then (s3, Exit, rev (W :: acc))
      else loop_early sc fuel' s3 W' (tl bg) (W :: acc)
    end
  end.

(** for the correspondence check: what the real loop was seen doing *)
Fixpoint rounds_eqb (a b : list (list nat)) : bool :=
  match a, b with
  | [], [] => true
  | x :: a', y :: b' => set_eqb x y && rounds_eqb a' b'
  | _, _ => false
  end.

Definition is_exit (v : verdict) : bool := match v with Exit => true | OutOfFuel => false end.

Definition agrees (sc : script) (init pre : list nat) (bg : bgs) (fuel : nat)
           (impl_rounds : list (list nat)) (impl_pending : list nat) : bool :=
  match run sc init pre bg fuel with
  | (s, v, r) => is_exit v && rounds_eqb r impl_rounds && set_eqb (pending s) impl_pending
  end.
