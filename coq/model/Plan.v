(** Part planning: mirrors s3transfer/utils.py calculate_num_parts,
    calculate_range_parameter, ChunksizeAdjuster, copies.py _get_transfer_size
    and the multipart decisions of every front-end.  Definitions only. *)
From Coq Require Import ZArith List Bool.
From S3V Require Import gen.Tables.
Import ListNotations.
Open Scope Z_scope.

(** [int(math.ceil(size / float(part_size)))] -- integer ceiling division.
    (FloatCeil.v proves the float expression equals this below 2^53.) *)
Definition ceil_div (a b : Z) : Z := (a + b - 1) / b.

Definition num_parts (size part_size : Z) : Z := ceil_div size part_size.

(** calculate_range_parameter: (start, Some last_byte) or (start, None) for the
    open-ended "bytes=start-" form. *)
Definition range_param (part_size part_index nparts : Z) (total : option Z)
  : Z * option Z :=
  let s := part_index * part_size in
  if part_index =? nparts - 1
  then (s, match total with Some t => Some (t - 1) | None => None end)
  else (s, Some (s + part_size - 1)).

(** The bytes a range denotes for an object of [size] bytes: [lo, hi). *)
Definition range_interval (size : Z) (r : Z * option Z) : Z * Z :=
  match r with
  | (s, Some e) => (s, Z.min (e + 1) size)
  | (s, None) => (s, size)
  end.

(** copies.py _get_transfer_size *)
Definition copy_part_size (part_size part_index nparts total : Z) : Z :=
  if part_index =? nparts - 1 then total - part_index * part_size else part_size.

(** ChunksizeAdjuster._adjust_for_max_parts: doubling loop, explicit fuel. *)
Fixpoint adjust_parts_loop (fuel : nat) (c size maxparts : Z) : option Z :=
  if num_parts size c <=? maxparts then Some c
  else match fuel with
       | O => None
       | S f => adjust_parts_loop f (2 * c) size maxparts
       end.

Definition adjust_fuel (size : Z) : nat := Z.to_nat (Z.log2_up (Z.max size 1) + 2).

Definition adjust_limits (c minsz maxsz : Z) : Z :=
  if c >? maxsz then maxsz else if c <? minsz then minsz else c.

(** adjust_chunksize(current, file_size) with the adjuster's three limits. *)
Definition adjust_chunksize_with (minsz maxsz maxparts c : Z) (size : option Z)
  : option Z :=
  match size with
  | None => Some (adjust_limits c minsz maxsz)
  | Some sz =>
      match adjust_parts_loop (adjust_fuel sz) c sz maxparts with
      | Some c' => Some (adjust_limits c' minsz maxsz)
      | None => None
      end
  end.

Definition adjust_chunksize (c : Z) (size : option Z) : option Z :=
  adjust_chunksize_with ADJ_DEFAULT_MIN_SIZE ADJ_DEFAULT_MAX_SIZE
                        ADJ_DEFAULT_MAX_PARTS c size.

(** Multipart decisions. *)
Definition is_multipart (size threshold : Z) : bool := threshold <=? size.

(** Non-seekable upload with unknown size: the pre-read of [threshold] bytes
    returned [got] bytes. *)
Definition is_multipart_preread (got threshold : Z) : bool := negb (got <? threshold).

(** The plan of a ranged download: list of (start, optional last byte). *)
Fixpoint zseq (start : Z) (n : nat) : list Z :=
  match n with O => [] | S k => start :: zseq (start + 1) k end.

Definition download_ranges (size part_size : Z) : list (Z * option Z) :=
  let n := num_parts size part_size in
  map (fun i => range_param part_size i n None) (zseq 0 (Z.to_nat n)).

(** The plan of a multipart copy: (part_number, range, part size). *)
Definition copy_plan_with (mn mx mp size cfg_chunk : Z)
  : option (list (Z * (Z * option Z) * Z)) :=
  match adjust_chunksize_with mn mx mp cfg_chunk (Some size) with
  | None => None
  | Some ps =>
      let n := num_parts size ps in
      Some (map (fun i => (i + 1, range_param ps i n (Some size),
                           copy_part_size ps i n size))
                (zseq 0 (Z.to_nat n)))
  end.

Definition copy_plan := copy_plan_with ADJ_DEFAULT_MIN_SIZE ADJ_DEFAULT_MAX_SIZE ADJ_DEFAULT_MAX_PARTS.

(** The plan of a multipart upload from a file of known size:
    (part_number, start_byte, length). *)
Definition upload_plan_with (mn mx mp size cfg_chunk : Z) : option (list (Z * Z * Z)) :=
  match adjust_chunksize_with mn mx mp cfg_chunk (Some size) with
  | None => None
  | Some ps =>
      let n := num_parts size ps in
      Some (map (fun i => (i + 1, i * ps, Z.min ps (size - i * ps)))
                (zseq 0 (Z.to_nat n)))
  end.

Definition upload_plan := upload_plan_with ADJ_DEFAULT_MIN_SIZE ADJ_DEFAULT_MAX_SIZE ADJ_DEFAULT_MAX_PARTS.
