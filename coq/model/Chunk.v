(** ReadFileChunk (s3transfer/utils.py) as a state machine.  Definitions only.

    A chunk is a window [start_byte, start_byte + size) onto an underlying
    file object.  The model keeps the file's content, the *file's own*
    position [fpos] (what [self._fileobj.tell()] would return), the chunk
    position [amount_read] (which may exceed [size]), the callbacks-enabled
    flag and whether the file was closed.

    Every operation returns the new state, the value handed back to the
    caller and the list of events the chunk emitted: [EvProgress n] for one
    [invoke_progress_callbacks(callbacks, n)] with [n <> 0] (zero is never
    emitted, utils.py invoke_progress_callbacks) and [EvClose] for one round of
    close callbacks.  The wrappers the input managers put between the chunk
    and the file (InterruptReader, BandwidthLimitedStream(enabled=False),
    DeferredOpenFile) forward read/seek/tell/close unchanged and are therefore
    not visible in the model; the harness runs the real chunk through them. *)
From Coq Require Import ZArith List Bool.
Import ListNotations.
Open Scope Z_scope.

Definition byte := Z.

Record chunk := mkChunk {
  file : list byte;        (* content of the underlying file object *)
  fpos : Z;                (* position of the underlying file object *)
  start_byte : Z;          (* fileobj.tell() at construction *)
  size : Z;                (* min(full_file_size - start_byte, chunk_size) *)
  amount_read : Z;         (* position in the chunk, may exceed size *)
  enabled : bool;          (* _callbacks_enabled *)
  closed : bool            (* the underlying file object was closed *)
}.

(** ReadFileChunk.__init__: [fileobj] positioned at [start]; enable_callbacks
    is False for every chunk the transfer manager builds (OSUtils). *)
Definition mk_chunk (f : list byte) (start requested full_size : Z) (en : bool) : chunk :=
  mkChunk f start start (Z.min (full_size - start) requested) 0 en false.

(** fileobj.read(n) at position [pos]: [n < 0] reads to the end of the file
    (Python's read(-1)); reading at or beyond the end returns nothing. *)
Definition file_read (f : list byte) (pos n : Z) : list byte :=
  let rest := skipn (Z.to_nat pos) f in
  if n <? 0 then rest else firstn (Z.to_nat n) rest.

Inductive op :=
| Read (amt : option Z)
| Seek (where_ whence : Z)
| Enable                      (* signal_transferring / enable_callback *)
| Disable                     (* signal_not_transferring / disable_callback *)
| Tell
| Close.

Inductive result :=
| RData (d : list byte)
| RPos (p : Z)
| RNone
| RValueError.                (* invalid whence, or I/O on a closed file *)

Inductive ev :=
| EvProgress (n : Z)
| EvClose.

(** invoke_progress_callbacks: nothing for 0. *)
Definition emit (n : Z) : list ev := if n =? 0 then [] else [EvProgress n].

Definition set_pos (c : chunk) (fp ar : Z) : chunk :=
  mkChunk (file c) fp (start_byte c) (size c) ar (enabled c) (closed c).

Definition set_enabled (c : chunk) (b : bool) : chunk :=
  mkChunk (file c) (fpos c) (start_byte c) (size c) (amount_read c) b (closed c).

Definition set_closed (c : chunk) : chunk :=
  mkChunk (file c) (fpos c) (start_byte c) (size c) (amount_read c) (enabled c) true.

(** ReadFileChunk.read *)
Definition do_read (c : chunk) (amt : option Z) : chunk * result * list ev :=
  if closed c then (c, RValueError, []) else
  let amount_left := Z.max (size c - amount_read c) 0 in
  let to_read := match amt with None => amount_left | Some a => Z.min amount_left a end in
  let data := file_read (file c) (fpos c) to_read in
  let n := Z.of_nat (length data) in
  (set_pos c (fpos c + n) (amount_read c + n), RData data,
   if enabled c then emit n else []).

(** ReadFileChunk.seek, including the bounded-position progress formula. *)
Definition do_seek (c : chunk) (where_ whence : Z) : chunk * result * list ev :=
  if negb ((whence =? 0) || (whence =? 1) || (whence =? 2)) then (c, RValueError, []) else
  if closed c then (c, RValueError, []) else
  let w := where_ + start_byte c +
           (if whence =? 1 then amount_read c else if whence =? 2 then size c else 0) in
  let evs :=
    if enabled c then
      let bounded_where := Z.max (Z.min (w - start_byte c) (size c)) 0 in
      let bounded_amount_read := Z.min (amount_read c) (size c) in
      emit (bounded_where - bounded_amount_read)
    else [] in
  (set_pos c (Z.max w (start_byte c)) (Z.max (w - start_byte c) 0), RNone, evs).

(** ReadFileChunk.close: close callbacks only while callbacks are enabled. *)
Definition do_close (c : chunk) : chunk * result * list ev :=
  (set_closed c, RNone, if enabled c then [EvClose] else []).

Definition step (c : chunk) (o : op) : chunk * result * list ev :=
  match o with
  | Read amt => do_read c amt
  | Seek w wh => do_seek c w wh
  | Enable => (set_enabled c true, RNone, [])
  | Disable => (set_enabled c false, RNone, [])
  | Tell => (c, RPos (amount_read c), [])
  | Close => do_close c
  end.

(** Running a script: final state, the results in order, all events in order. *)
Fixpoint run (c : chunk) (ops : list op) : chunk * list result * list ev :=
  match ops with
  | [] => (c, [], [])
  | o :: rest =>
      let '(c1, r, e) := step c o in
      let '(c2, rs, es) := run c1 rest in
      (c2, r :: rs, e ++ es)
  end.

Definition run_state (c : chunk) (ops : list op) : chunk := fst (fst (run c ops)).
Definition run_events (c : chunk) (ops : list op) : list ev := snd (run c ops).

(** Sum of the progress values in an event list. *)
Fixpoint raw_sum (es : list ev) : Z :=
  match es with
  | [] => 0
  | EvProgress n :: r => n + raw_sum r
  | EvClose :: r => raw_sum r
  end.

(** All data returned by the reads of a result list, concatenated. *)
Fixpoint data_of (rs : list result) : list byte :=
  match rs with
  | [] => []
  | RData d :: r => d ++ data_of r
  | _ :: r => data_of r
  end.

(** The bytes the chunk denotes. *)
Definition chunk_bytes (c : chunk) : list byte :=
  firstn (Z.to_nat (size c)) (skipn (Z.to_nat (start_byte c)) (file c)).

(** The position progress reporting is about. *)
Definition bounded_pos (c : chunk) : Z := Z.min (amount_read c) (size c).

(** One send attempt as an HTTP client performs it: read [n] bytes at a time
    (sizes from a script, all positive) until a read returns nothing.
    [None] when the script ran out before the empty read. *)
Fixpoint send_loop (c : chunk) (sizes : list Z) (acc : list byte)
  : option (chunk * list byte * list ev) :=
  match sizes with
  | [] => None
  | n :: rest =>
      let '(c1, r, e) := do_read c (Some n) in
      match r with
      | RData [] => Some (c1, acc, e)
      | RData d =>
          match send_loop c1 rest (acc ++ d) with
          | Some (c2, out, e2) => Some (c2, out, e ++ e2)
          | None => None
          end
      | _ => None
      end
  end.
