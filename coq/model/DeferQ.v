(** Deferred-write queue of streaming downloads: mirrors
    s3transfer/download.py class DeferQueue (request_writes as repaired by the
    fix for F3) and the two ways DownloadNonSeekableOutputManager drives it:
    queue_file_io_task (writes submitted, in order, to the single IO worker)
    and get_io_write_tasks (the immediate single-GET path, added by the fix
    for F4).  Definitions only.

    Bytes are lists of byte values ([list Z], 0..255 in the driver).  The heap
    of withheld writes is kept as the list of its elements in [heapq] pop
    order: sorted by the Python tuple order on (offset, data), where [bytes]
    compare lexicographically on byte values, a proper prefix first.  heappop
    returns a minimum of that order and equal tuples are indistinguishable, so
    the sorted list is observationally the heap.  [_pending_offsets] (a dict
    offset -> length) is an association list. *)
From Coq Require Import ZArith List Bool.
Import ListNotations.
Open Scope Z_scope.

Definition bytes := list Z.
Definition blen (d : bytes) : Z := Z.of_nat (length d).

(** Python's [a <= b] on bytes. *)
Fixpoint bytes_leb (a b : bytes) : bool :=
  match a, b with
  | [], _ => true
  | _ :: _, [] => false
  | x :: a', y :: b' =>
      if x <? y then true else if y <? x then false else bytes_leb a' b'
  end.

Definition entry := (Z * bytes)%type.

(** Python's [a <= b] on the tuples (offset, data). *)
Definition entry_leb (a b : entry) : bool :=
  if fst a <? fst b then true
  else if fst b <? fst a then false
  else bytes_leb (snd a) (snd b).

(** heapq.heappush on the pop-ordered list. *)
Fixpoint heap_push (e : entry) (h : list entry) : list entry :=
  match h with
  | [] => [e]
  | x :: r => if entry_leb e x then e :: h else x :: heap_push e r
  end.

(** dict offset -> length *)
Definition pmap := list (Z * Z).

Fixpoint pget (p : pmap) (k : Z) : option Z :=
  match p with
  | [] => None
  | (k', v) :: r => if k' =? k then Some v else pget r k
  end.

Definition pdel (p : pmap) (k : Z) : pmap :=
  filter (fun kv => negb (fst kv =? k)) p.

Definition pset (p : pmap) (k v : Z) : pmap := (k, v) :: pdel p k.

Record state := mkState {
  next_offset : Z;          (* self._next_offset *)
  heap : list entry;        (* self._writes, in pop order *)
  pending : pmap            (* self._pending_offsets *)
}.

Definition init : state := mkState 0 [] [].

(** [pending.get(k) == n] *)
Definition pget_is (p : pmap) (k n : Z) : bool :=
  match pget p k with Some v => v =? n | None => false end.

(** The [while self._writes and self._writes[0][0] <= self._next_offset] loop.
    Every iteration pops one heap element: structural recursion on the heap. *)
Fixpoint pop_loop (h : list entry) (nxt : Z) (pend : pmap)
  : state * list entry :=
  match h with
  | [] => (mkState nxt [] pend, [])
  | (o, d) :: h' =>
      if o <=? nxt then
        let pend' := if pget_is pend o (blen d) then pdel pend o else pend in
        let seen := nxt - o in
        if negb (seen =? 0) && (blen d <=? seen) then
          (* if seen and seen >= len(next_data): continue *)
          pop_loop h' nxt pend'
        else
          let d' := skipn (Z.to_nat seen) d in       (* next_data[seen:] *)
          let (st, ws) := pop_loop h' (nxt + blen d') pend' in
          (st, (nxt, d') :: ws)
      else (mkState nxt h pend, [])
  end.

(** DeferQueue.request_writes(offset, data): new state and the returned
    writes [(offset, data)] in order. *)
Definition request_writes (s : state) (off : Z) (data : bytes)
  : state * list entry :=
  if (off <? next_offset s) && (off + blen data <=? next_offset s) then (s, [])
  else if (match pget (pending s) off with
           | Some l => blen data <=? l      (* pending.get(offset, -1) >= len(data) *)
           | None => false
           end) then (s, [])
  else pop_loop (heap_push (off, data) (heap s)) (next_offset s)
                (pset (pending s) off (blen data)).

(** A delivery history: the (offset, data) arguments of successive calls. *)
Fixpoint run (s : state) (h : list entry) : state * list (list entry) :=
  match h with
  | [] => (s, [])
  | (off, data) :: r =>
      let (s1, ws) := request_writes s off data in
      let (s2, wss) := run s1 r in
      (s2, ws :: wss)
  end.

Definition final_state (h : list entry) : state := fst (run init h).
Definition emitted (h : list entry) : list entry := concat (snd (run init h)).

(** The user stream: IOStreamingWriteTask does [fileobj.write(data)]; the
    offset is not passed on. *)
Definition stream := bytes.
Definition apply_writes (out : stream) (ws : list entry) : stream :=
  out ++ concat (map snd ws).

(** queue_file_io_task: under the submit lock, request_writes and submit each
    released write to the IO executor (one worker, FIFO): the stream receives
    them in that order.  get_io_write_tasks + the loop of
    ImmediatelyWriteIOGetObjectTask._handle_io: the same queue, the returned
    tasks are run at once, in order.  Both are this step. *)
Definition manager_step (sq : state * stream) (off : Z) (data : bytes)
  : state * stream :=
  let (s1, ws) := request_writes (fst sq) off data in
  (s1, apply_writes (snd sq) ws).

Definition manager_run (sq : state * stream) (h : list entry) : state * stream :=
  fold_left (fun acc e => manager_step acc (fst e) (snd e)) h sq.

(** Deliveries of one GetObject attempt: consecutive chunks from [start]
    (GetObjectTask._main: current_index += len(chunk)). *)
Fixpoint chunks_from (start : Z) (ds : list bytes) : list entry :=
  match ds with
  | [] => []
  | d :: r => (start, d) :: chunks_from (start + blen d) r
  end.
