(** DeferQueue.request_writes as it was BEFORE the repair of F3 (commit
    40c2a1e "fix:"), kept as a record of what the fix changed:

      - a delivery is dropped whole when [offset < next_offset], even if it
        extends past the written prefix        (now: only when wholly seen);
      - a delivery is ignored when its offset is already pending, even if it
        is longer than what is queued          (now: only when not longer);
      - the loop pops only while [head.offset == next_offset] and writes the
        popped data untrimmed                  (now: [<=], trim, skip seen).

    [_pending_offsets] was a set.  Definitions only. *)
From Coq Require Import ZArith List Bool.
From S3V Require Import model.DeferQ.
Import ListNotations.
Open Scope Z_scope.

Record ostate := mkOState {
  o_next : Z;
  o_heap : list entry;
  o_pending : list Z
}.

Definition oinit : ostate := mkOState 0 [] [].

Definition zmem (k : Z) (l : list Z) : bool := existsb (fun x => x =? k) l.
Definition zremove (k : Z) (l : list Z) : list Z := filter (fun x => negb (x =? k)) l.

Fixpoint old_pop_loop (h : list entry) (nxt : Z) (pend : list Z)
  : ostate * list entry :=
  match h with
  | [] => (mkOState nxt [] pend, [])
  | (o, d) :: h' =>
      if o =? nxt then
        let (st, ws) := old_pop_loop h' (nxt + blen d) (zremove o pend) in
        (st, (o, d) :: ws)
      else (mkOState nxt h pend, [])
  end.

Definition old_request_writes (s : ostate) (off : Z) (data : bytes)
  : ostate * list entry :=
  if off <? o_next s then (s, [])
  else if zmem off (o_pending s) then (s, [])
  else old_pop_loop (heap_push (off, data) (o_heap s)) (o_next s)
                    (off :: o_pending s).

Fixpoint old_run (s : ostate) (h : list entry) : ostate * list (list entry) :=
  match h with
  | [] => (s, [])
  | (off, data) :: r =>
      let (s1, ws) := old_request_writes s off data in
      let (s2, wss) := old_run s1 r in
      (s2, ws :: wss)
  end.

Definition old_emitted (h : list entry) : list entry := concat (snd (old_run oinit h)).

(** The immediate single-GET path before the repair of F4 (commit 1a36968):
    every chunk was written straight to the stream, the queue not consulted. *)
Definition old_immediate_run (out : stream) (h : list entry) : stream :=
  out ++ concat (map snd h).
