(** The transfer protocol of the TransferManager as a labelled transition
    system.  A run of the real manager under the cooperative scheduler is a
    list of events; [step] accepts an event iff it is one the code can perform
    in the current state (each guard transcribes a local fact of the code:
    the Task.__call__ wrapper of tasks.py:127-153, the critical sections of
    TransferCoordinator, FIFO executors with <= n workers, permits taken by
    BoundedExecutor.submit and given back by the future's done callback, the
    submission task's error path, the count-down invoker).  The global
    properties (quiescence at announce, no success without every step, abort
    after every other request, occupancy bounds, shutdown barrier...) are NOT
    guards: they are theorems about all reachable states (proofs/Sys*.v).

    Definitions only. *)
From Coq Require Import ZArith List Bool.
Import ListNotations.
Open Scope Z_scope.

(** ** Identifiers *)
Definition actor := Z.          (* a task id (>= 0) or a user thread (< 0) *)
Definition is_user (a : actor) : bool := a <? 0.

Inductive stage := SSub | SReq | SIO | SInline.
Definition stage_eqb (a b : stage) : bool :=
  match a, b with
  | SSub, SSub | SReq, SReq | SIO, SIO | SInline, SInline => true
  | _, _ => false
  end.

Inductive status := NotStarted | Queued | Running | Success | Failed | Cancelled.
Definition is_done (st : status) : bool :=
  match st with Success | Failed | Cancelled => true | _ => false end.
Definition status_eqb (a b : status) : bool :=
  match a, b with
  | NotStarted, NotStarted | Queued, Queued | Running, Running
  | Success, Success | Failed, Failed | Cancelled, Cancelled => true
  | _, _ => false
  end.

(** Position of a task inside Task.__call__. *)
Inductive tst :=
  | TSubmitting   (* submit() called; permit not yet taken / not yet queued *)
  | TQueued       (* in its executor's FIFO queue *)
  | TStarted      (* picked by a worker (or called inline) *)
  | TDeps         (* dependencies have completed *)
  | TReady        (* done-check returned False *)
  | TMain         (* inside _main *)
  | TFailed       (* _main (or collecting the dependencies' results) raised; exception not yet recorded *)
  | TPost         (* main over / skipped / exception recorded: task done-callbacks *)
  | TAnn          (* final task inside announce_done *)
  | TAnnDone      (* final task after announce_done *)
  | TEnded.       (* __call__ returned: the task's future is done *)

Definition tst_eqb (a b : tst) : bool :=
  match a, b with
  | TSubmitting, TSubmitting | TQueued, TQueued | TStarted, TStarted | TDeps, TDeps
  | TReady, TReady | TMain, TMain | TFailed, TFailed | TPost, TPost | TAnn, TAnn
  | TAnnDone, TAnnDone | TEnded, TEnded => true
  | _, _ => false
  end.

(** Task kinds (what a main may do). *)
Definition KSubmission := 0.
Definition KCreate := 1.      (* CreateMultipartUpload, then registers the abort cleanup *)
Definition KPart := 2.        (* UploadPart / UploadPartCopy *)
Definition KComplete := 3.    (* CompleteMultipartUpload *)
Definition KData := 4.        (* PutObject / CopyObject / DeleteObject *)
Definition KGet := 5.         (* GetObject (+ retries), queues or performs IO writes *)
Definition KIOWrite := 6.
Definition KIOFinal := 7.     (* rename / close / no-op completing a download *)

Inductive fsop := FOpen | FWrite | FClose | FRename | FRemove.

Inductive s3op := OpCreate | OpPart | OpComplete | OpAbort | OpHead | OpData | OpGet.

Definition s3op_eqb (a b : s3op) : bool :=
  match a, b with
  | OpCreate, OpCreate | OpPart, OpPart | OpComplete, OpComplete | OpAbort, OpAbort
  | OpHead, OpHead | OpData, OpData | OpGet, OpGet => true
  | _, _ => false
  end.

Definition kind_allows (kind : Z) (op : s3op) : bool :=
  match op with
  | OpCreate => kind =? KCreate
  | OpPart => kind =? KPart
  | OpComplete => kind =? KComplete
  | OpData => kind =? KData
  | OpGet => kind =? KGet
  | OpHead => kind =? KSubmission
  | OpAbort => false           (* only a failure cleanup issues it *)
  end.

Definition kind_stage_ok (kind : Z) (stg : stage) : bool :=
  if kind =? KSubmission then stage_eqb stg SSub
  else if (kind =? KIOWrite) || (kind =? KIOFinal) then stage_eqb stg SIO || stage_eqb stg SInline
  else stage_eqb stg SReq.

(** ** State *)
Record task := mkTask {
  k_id : Z;
  k_t : Z;                 (* transfer *)
  k_stage : stage;
  k_parent : actor;        (* who submitted / calls it *)
  k_final : bool;
  k_deps : list Z;
  k_kind : Z;
  k_st : tst;
  k_ran_main : bool;       (* main began *)
  k_main_ok : bool;        (* main returned normally *)
  k_skipped : bool;        (* done-check returned True *)
  k_phase : Z;             (* submission task: 0 main begun, 1 queued, 2 running,
                              3 error recorded, 4 waited for all futures, 5 announced *)
  k_permit : Z;            (* -1 none yet, otherwise the semaphore it holds *)
  k_assoc : Z;             (* coordinator's associated futures: 0 not yet, 1 associated, 2 removed *)
  k_released : bool        (* permit given back *)
}.

Record coord := mkCoord {
  c_id : Z;
  c_status : status;
  c_exc : option Z;
  c_cleanups : list Z;         (* registered, not yet run *)
  c_callbacks : list Z;        (* registered, not yet run *)
  c_event : bool;              (* done event set: result() no longer blocks *)
  c_cl_runner : option actor;  (* holder of the failure-cleanups lock *)
  c_cb_runner : option actor;  (* holder of the done-callbacks lock *)
  c_owing : list actor;        (* user threads whose cancel() must still announce *)
  c_announcers : list (actor * Z);  (* running announce_done: actor, phase 0..5 *)
  c_ran_cleanups : list Z;     (* ghost: every cleanup run, in order *)
  c_ran_callbacks : list Z;    (* ghost: every done callback run, in order *)
  c_count : Z;                 (* count-down invoker *)
  c_finalized : bool;
  c_fired : bool;              (* ghost: the invoker's callback ran *)
  c_queued_cbs : Z;            (* ghost: number of on_queued callbacks run *)
  c_progress_after_done : bool; (* ghost: an on_progress was delivered after an on_done began *)
  c_ann_started : bool         (* ghost: some announce_done for this transfer has begun *)
}.

Record stg := mkStg {
  g_queue : list Z;            (* FIFO of queued task ids *)
  g_running : Z;
  g_workers : Z;
  g_shut : bool;
  g_joined : bool;
  g_history : list Z           (* ghost: every task ever enqueued, in order *)
}.

Record req := mkReq {
  r_id : Z; r_actor : actor; r_t : Z; r_op : s3op; r_uid : Z;
  r_effect : bool; r_ended : bool; r_ok : bool
}.

Record upload := mkUpload {
  u_id : Z; u_t : Z;
  u_inflight : Z;              (* requests for this id begun and not ended (abort excluded) *)
  u_completes_ok : Z;
  u_complete_begun : bool;
  u_abort_begun : bool;
  u_abort_count : Z;
  u_begun_after_abort : bool;  (* ghost: a part/complete began after the abort began *)
  u_abort_while_inflight : bool (* ghost: the abort began while another request was in flight *)
}.

(** the temporary file of a download to a path *)
Record filest := mkFile {
  f_t : Z;
  f_exists : bool;             (* the temporary name exists *)
  f_open : bool;
  f_renamed : bool;            (* published under the destination name *)
  f_removed : bool;
  f_writes : Z;
  f_write_after_close : bool;  (* ghost *)
  f_renames : Z
}.

Record state := mkState {
  tasks : list task;
  coords : list coord;
  st_sub : stg; st_req : stg; st_io : stg;
  sems : list (Z * Z);         (* semaphore id -> free permits (counting view) *)
  reqs : list req;
  uploads : list upload;
  shutdown_phase : Z;          (* 0 none, 1 begun, 2 returned *)
  after_shutdown_events : Z;   (* ghost: S3 / callback / file events after shutdown returned *)
  files : list filest          (* temporary files of downloads to a path, per transfer *)
}.

(** semaphore ids *)
Definition SEM_SUB := 0.
Definition SEM_REQ := 1.
Definition SEM_IO := 2.
Definition SEM_UP := 3.     (* in-memory upload chunks *)
Definition SEM_DOWN := 4.   (* in-memory download chunks (sliding window; counted here) *)

(** ** Lookup / update *)
Fixpoint find_task (k : Z) (l : list task) : option task :=
  match l with
  | [] => None
  | x :: r => if k_id x =? k then Some x else find_task k r
  end.
Fixpoint find_coord (t : Z) (l : list coord) : option coord :=
  match l with
  | [] => None
  | x :: r => if c_id x =? t then Some x else find_coord t r
  end.
Fixpoint find_req (i : Z) (l : list req) : option req :=
  match l with
  | [] => None
  | x :: r => if r_id x =? i then Some x else find_req i r
  end.
Fixpoint find_upload (u : Z) (l : list upload) : option upload :=
  match l with
  | [] => None
  | x :: r => if u_id x =? u then Some x else find_upload u r
  end.
Fixpoint find_sem (i : Z) (l : list (Z * Z)) : option Z :=
  match l with
  | [] => None
  | (j, v) :: r => if j =? i then Some v else find_sem i r
  end.

Definition upd_task (k : Z) (f : task -> task) (l : list task) : list task :=
  map (fun x => if k_id x =? k then f x else x) l.
Definition upd_coord (t : Z) (f : coord -> coord) (l : list coord) : list coord :=
  map (fun x => if c_id x =? t then f x else x) l.
Definition upd_req (i : Z) (f : req -> req) (l : list req) : list req :=
  map (fun x => if r_id x =? i then f x else x) l.
Definition upd_upload (u : Z) (f : upload -> upload) (l : list upload) : list upload :=
  map (fun x => if u_id x =? u then f x else x) l.
Definition upd_sem (i : Z) (d : Z) (l : list (Z * Z)) : list (Z * Z) :=
  map (fun p => if fst p =? i then (fst p, snd p + d) else p) l.

Definition set_tasks (s : state) (l : list task) : state :=
  mkState l (coords s) (st_sub s) (st_req s) (st_io s) (sems s) (reqs s) (uploads s)
          (shutdown_phase s) (after_shutdown_events s) (files s).
Definition set_coords (s : state) (l : list coord) : state :=
  mkState (tasks s) l (st_sub s) (st_req s) (st_io s) (sems s) (reqs s) (uploads s)
          (shutdown_phase s) (after_shutdown_events s) (files s).
Definition set_sems (s : state) (l : list (Z * Z)) : state :=
  mkState (tasks s) (coords s) (st_sub s) (st_req s) (st_io s) l (reqs s) (uploads s)
          (shutdown_phase s) (after_shutdown_events s) (files s).
Definition set_reqs (s : state) (l : list req) : state :=
  mkState (tasks s) (coords s) (st_sub s) (st_req s) (st_io s) (sems s) l (uploads s)
          (shutdown_phase s) (after_shutdown_events s) (files s).
Definition set_uploads (s : state) (l : list upload) : state :=
  mkState (tasks s) (coords s) (st_sub s) (st_req s) (st_io s) (sems s) (reqs s) l
          (shutdown_phase s) (after_shutdown_events s) (files s).
Definition set_shutdown (s : state) (p : Z) : state :=
  mkState (tasks s) (coords s) (st_sub s) (st_req s) (st_io s) (sems s) (reqs s) (uploads s)
          p (after_shutdown_events s) (files s).
Definition bump_after_shutdown (s : state) : state :=
  if shutdown_phase s =? 2
  then mkState (tasks s) (coords s) (st_sub s) (st_req s) (st_io s) (sems s) (reqs s) (uploads s)
               (shutdown_phase s) (after_shutdown_events s + 1) (files s)
  else s.

Definition set_files (s : state) (l : list filest) : state :=
  mkState (tasks s) (coords s) (st_sub s) (st_req s) (st_io s) (sems s) (reqs s) (uploads s)
          (shutdown_phase s) (after_shutdown_events s) l.

Fixpoint find_file (t : Z) (l : list filest) : option filest :=
  match l with
  | [] => None
  | x :: r => if f_t x =? t then Some x else find_file t r
  end.
Definition upd_file (t : Z) (f : filest -> filest) (l : list filest) : list filest :=
  map (fun x => if f_t x =? t then f x else x) l.

Definition get_stage (s : state) (g : stage) : stg :=
  match g with SSub => st_sub s | SReq => st_req s | SIO => st_io s
             | SInline => mkStg [] 0 0 false false [] end.
Definition set_stage (s : state) (g : stage) (x : stg) : state :=
  match g with
  | SSub => mkState (tasks s) (coords s) x (st_req s) (st_io s) (sems s) (reqs s) (uploads s)
                    (shutdown_phase s) (after_shutdown_events s) (files s)
  | SReq => mkState (tasks s) (coords s) (st_sub s) x (st_io s) (sems s) (reqs s) (uploads s)
                    (shutdown_phase s) (after_shutdown_events s) (files s)
  | SIO => mkState (tasks s) (coords s) (st_sub s) (st_req s) x (sems s) (reqs s) (uploads s)
                   (shutdown_phase s) (after_shutdown_events s) (files s)
  | SInline => s
  end.

Definition with_st (x : task) (v : tst) : task :=
  mkTask (k_id x) (k_t x) (k_stage x) (k_parent x) (k_final x) (k_deps x) (k_kind x) v
         (k_ran_main x) (k_main_ok x) (k_skipped x) (k_phase x) (k_permit x) (k_assoc x) (k_released x).
Definition with_flags (x : task) (ran ok skipped : bool) : task :=
  mkTask (k_id x) (k_t x) (k_stage x) (k_parent x) (k_final x) (k_deps x) (k_kind x) (k_st x)
         ran ok skipped (k_phase x) (k_permit x) (k_assoc x) (k_released x).
Definition with_phase (x : task) (p : Z) : task :=
  mkTask (k_id x) (k_t x) (k_stage x) (k_parent x) (k_final x) (k_deps x) (k_kind x) (k_st x)
         (k_ran_main x) (k_main_ok x) (k_skipped x) p (k_permit x) (k_assoc x) (k_released x).
Definition with_permit (x : task) (p : Z) : task :=
  mkTask (k_id x) (k_t x) (k_stage x) (k_parent x) (k_final x) (k_deps x) (k_kind x) (k_st x)
         (k_ran_main x) (k_main_ok x) (k_skipped x) (k_phase x) p (k_assoc x) (k_released x).
Definition with_assoc (x : task) (b : Z) : task :=
  mkTask (k_id x) (k_t x) (k_stage x) (k_parent x) (k_final x) (k_deps x) (k_kind x) (k_st x)
         (k_ran_main x) (k_main_ok x) (k_skipped x) (k_phase x) (k_permit x) b (k_released x).
Definition with_released (x : task) : task :=
  mkTask (k_id x) (k_t x) (k_stage x) (k_parent x) (k_final x) (k_deps x) (k_kind x) (k_st x)
         (k_ran_main x) (k_main_ok x) (k_skipped x) (k_phase x) (k_permit x) (k_assoc x) true.

(** coordinator field updates *)
Definition c_with (x : coord) (st : status) (e : option Z) : coord :=
  mkCoord (c_id x) st e (c_cleanups x) (c_callbacks x) (c_event x) (c_cl_runner x) (c_cb_runner x)
          (c_owing x) (c_announcers x) (c_ran_cleanups x) (c_ran_callbacks x)
          (c_count x) (c_finalized x) (c_fired x) (c_queued_cbs x) (c_progress_after_done x) (c_ann_started x).
Definition c_with_lists (x : coord) (cl cb : list Z) : coord :=
  mkCoord (c_id x) (c_status x) (c_exc x) cl cb (c_event x) (c_cl_runner x) (c_cb_runner x)
          (c_owing x) (c_announcers x) (c_ran_cleanups x) (c_ran_callbacks x)
          (c_count x) (c_finalized x) (c_fired x) (c_queued_cbs x) (c_progress_after_done x) (c_ann_started x).
Definition c_with_event (x : coord) : coord :=
  mkCoord (c_id x) (c_status x) (c_exc x) (c_cleanups x) (c_callbacks x) true (c_cl_runner x) (c_cb_runner x)
          (c_owing x) (c_announcers x) (c_ran_cleanups x) (c_ran_callbacks x)
          (c_count x) (c_finalized x) (c_fired x) (c_queued_cbs x) (c_progress_after_done x) (c_ann_started x).
Definition c_with_runners (x : coord) (cl cb : option actor) : coord :=
  mkCoord (c_id x) (c_status x) (c_exc x) (c_cleanups x) (c_callbacks x) (c_event x) cl cb
          (c_owing x) (c_announcers x) (c_ran_cleanups x) (c_ran_callbacks x)
          (c_count x) (c_finalized x) (c_fired x) (c_queued_cbs x) (c_progress_after_done x) (c_ann_started x).
Definition c_with_ann (x : coord) (owing : list actor) (ann : list (actor * Z)) : coord :=
  mkCoord (c_id x) (c_status x) (c_exc x) (c_cleanups x) (c_callbacks x) (c_event x) (c_cl_runner x) (c_cb_runner x)
          owing ann (c_ran_cleanups x) (c_ran_callbacks x)
          (c_count x) (c_finalized x) (c_fired x) (c_queued_cbs x) (c_progress_after_done x) (c_ann_started x).
Definition c_with_ran (x : coord) (rcl rcb : list Z) : coord :=
  mkCoord (c_id x) (c_status x) (c_exc x) (c_cleanups x) (c_callbacks x) (c_event x) (c_cl_runner x) (c_cb_runner x)
          (c_owing x) (c_announcers x) rcl rcb
          (c_count x) (c_finalized x) (c_fired x) (c_queued_cbs x) (c_progress_after_done x) (c_ann_started x).
Definition c_with_count (x : coord) (n : Z) (fin fired : bool) : coord :=
  mkCoord (c_id x) (c_status x) (c_exc x) (c_cleanups x) (c_callbacks x) (c_event x) (c_cl_runner x) (c_cb_runner x)
          (c_owing x) (c_announcers x) (c_ran_cleanups x) (c_ran_callbacks x)
          n fin fired (c_queued_cbs x) (c_progress_after_done x) (c_ann_started x).
Definition c_with_ghost (x : coord) (q : Z) (pad : bool) : coord :=
  mkCoord (c_id x) (c_status x) (c_exc x) (c_cleanups x) (c_callbacks x) (c_event x) (c_cl_runner x) (c_cb_runner x)
          (c_owing x) (c_announcers x) (c_ran_cleanups x) (c_ran_callbacks x)
          (c_count x) (c_finalized x) (c_fired x) q pad (c_ann_started x).

Definition c_with_started (x : coord) : coord :=
  mkCoord (c_id x) (c_status x) (c_exc x) (c_cleanups x) (c_callbacks x) (c_event x) (c_cl_runner x) (c_cb_runner x)
          (c_owing x) (c_announcers x) (c_ran_cleanups x) (c_ran_callbacks x)
          (c_count x) (c_finalized x) (c_fired x) (c_queued_cbs x) (c_progress_after_done x) true.

(** ** Helpers for guards *)
Definition mem_z (x : Z) (l : list Z) : bool := existsb (Z.eqb x) l.
Definition remove_z (x : Z) (l : list Z) : list Z := filter (fun y => negb (y =? x)) l.

Fixpoint ann_phase (a : actor) (l : list (actor * Z)) : option Z :=
  match l with
  | [] => None
  | (b, p) :: r => if b =? a then Some p else ann_phase a r
  end.
Definition ann_set (a : actor) (p : Z) (l : list (actor * Z)) : list (actor * Z) :=
  (a, p) :: filter (fun q => negb (fst q =? a)) l.
Definition ann_del (a : actor) (l : list (actor * Z)) : list (actor * Z) :=
  filter (fun q => negb (fst q =? a)) l.

Definition past_main (v : tst) : bool :=
  match v with TPost | TAnn | TAnnDone | TEnded => true | _ => false end.

(** [a] is in the middle of something it must finish first: a request it sent
    and whose response has not come back (client calls are synchronous),
    executing an inline child (called synchronously), or inside
    coordinator.submit() for a child (permit not yet taken / not yet queued /
    not yet added to the associated futures) *)
Definition in_request (s : state) (a : actor) : bool :=
  existsb (fun q => (r_actor q =? a) && negb (r_ended q)) (reqs s).

Definition busy (s : state) (a : actor) : bool :=
  in_request s a ||
  existsb (fun x => (k_parent x =? a) &&
             (if stage_eqb (k_stage x) SInline
              then negb (tst_eqb (k_st x) TEnded) && negb (tst_eqb (k_st x) TQueued)
              else negb (k_kind x =? KSubmission) &&
                   (tst_eqb (k_st x) TSubmitting || (k_assoc x =? 0))))
          (tasks s).

Definition task_in (s : state) (k : Z) (v : tst) : bool :=
  match find_task k (tasks s) with Some x => tst_eqb (k_st x) v | None => false end.

(** an actor that may act for transfer [t] from inside user code of a task:
    a task of [t] in its main or in its done-callback phase *)
Definition acting_task (s : state) (a : actor) (t : Z) : bool :=
  match find_task a (tasks s) with
  | Some x => (k_t x =? t) && (tst_eqb (k_st x) TMain || tst_eqb (k_st x) TPost)
  | None => false
  end.

(** the actor is currently running a cleanup or a done callback of [t] *)
Definition in_callback (s : state) (a : actor) (t : Z) : bool :=
  match find_coord t (coords s) with
  | Some c => match c_cl_runner c with Some b => b =? a | None => false end
              || match c_cb_runner c with Some b => b =? a | None => false end
  | None => false
  end.

Definition dep_done (s : state) (d : Z) : bool := task_in s d TEnded.
Definition all_assoc_done (s : state) (t : Z) : bool :=
  forallb (fun x => negb ((k_t x =? t) && (k_assoc x =? 1)) || tst_eqb (k_st x) TEnded) (tasks s).

(** ** Events *)
Inductive event :=
  | ENewTransfer (a : actor) (t : Z)
  | EAddCallback (a : actor) (t c : Z)
  | EAddCleanup (a : actor) (t c : Z)
  | ESubmit (a : actor) (k t : Z) (g : stage) (final : bool) (deps : list Z) (kind : Z)
  | EAcquire (a : actor) (k sem : Z)
  | EEnqueue (a : actor) (k : Z)
  | EAssoc (a : actor) (k : Z)
  | ETaskStart (k : Z)
  | EDepsDone (k : Z)
  | EDoneCheck (k : Z) (b : bool)
  | EMainBegin (k : Z)
  | EMainEnd (k : Z) (ok : bool)
  | ESetResult (k : Z)
  | ESetException (a : actor) (t e : Z) (override : bool)
  | ECancel (a : actor) (t e : Z)
  | EStatus (k : Z) (to_running ok : bool)
  | EOnQueued (k : Z)
  | EOnProgress (a : actor) (t : Z)
  | EWaitAll (k : Z)
  | EAnnBegin (a : actor) (t : Z)
  | ECleanupsBegin (a : actor) (t : Z)
  | ECleanup (a : actor) (t c : Z)
  | ECleanupsEnd (a : actor) (t : Z)
  | EEventSet (a : actor) (t : Z)
  | ECallbacksBegin (a : actor) (t : Z)
  | ECallback (a : actor) (t c : Z)
  | ECallbacksEnd (a : actor) (t : Z)
  | EAnnEnd (a : actor) (t : Z)
  | ETaskEnd (k : Z)
  | ERelease (k : Z)
  | EDissoc (k : Z)
  | ECount (a : actor) (t : Z) (op : Z)        (* 0 increment, 1 decrement, 2 finalize *)
  | ES3Begin (a : actor) (r : Z) (op : s3op) (t uid : Z)
  | ES3Effect (r : Z) (uid : Z)
  | ES3End (r : Z) (ok : bool)
  | EResult (a : actor) (t : Z) (raised : bool)
  | EFs (a : actor) (t : Z) (op : fsop)
  | EShutdownBegin
  | EStageShutdown (g : stage)
  | EStageJoined (g : stage)
  | EShutdownReturn.

(** ** The transition function *)
Definition guard (b : bool) (s : state) : option state := if b then Some s else None.

Definition on_task (s : state) (k : Z) (f : task -> option task) : option state :=
  match find_task k (tasks s) with
  | Some x => match f x with
              | Some y => Some (set_tasks s (upd_task k (fun _ => y) (tasks s)))
              | None => None
              end
  | None => None
  end.

Definition on_coord (s : state) (t : Z) (f : coord -> option coord) : option state :=
  match find_coord t (coords s) with
  | Some x => match f x with
              | Some y => Some (set_coords s (upd_coord t (fun _ => y) (coords s)))
              | None => None
              end
  | None => None
  end.

Definition bind {A B} (o : option A) (f : A -> option B) : option B :=
  match o with Some x => f x | None => None end.

Definition sem_of_stage (g : stage) : Z :=
  match g with SSub => SEM_SUB | SReq => SEM_REQ | SIO => SEM_IO | SInline => -1 end.

Definition step (s : state) (e : event) : option state :=
  match e with
  | ENewTransfer a t =>
      if is_user a && match find_coord t (coords s) with None => true | Some _ => false end
      then Some (set_coords s (coords s ++
             [mkCoord t NotStarted None [] [] false None None [] [] [] [] 0 false false 0 false false]))
      else None

  | EAddCallback a t c =>
      (* registered by the user thread before submission, or by code acting for t *)
      if negb (busy s a) && (is_user a || acting_task s a t || in_callback s a t)
      then on_coord s t (fun x =>
             if mem_z c (c_callbacks x) || mem_z c (c_ran_callbacks x)
                || match c_cb_runner x with Some _ => true | None => false end then None
             else Some (c_with_lists x (c_cleanups x) (c_callbacks x ++ [c])))
      else None

  | EAddCleanup a t c =>
      if negb (busy s a) && acting_task s a t
      then on_coord s t (fun x =>
             match c_cl_runner x with
             | Some _ => None    (* add_failure_cleanup blocks on the lock held by the runner *)
             | None => Some (c_with_lists x (c_cleanups x ++ [c]) (c_callbacks x))
             end)
      else None

  | ESubmit a k t g final deps kind =>
      (* a task object is created and handed to submit(): by the user thread for
         the submission task, otherwise by a task of the same transfer acting
         in its main or in its done-callbacks *)
      let fresh := match find_task k (tasks s) with None => true | Some _ => false end in
      let who_ok :=
        if kind =? KSubmission
        then is_user a && stage_eqb g SSub && negb final
             && negb (existsb (fun x => k_t x =? t) (tasks s))   (* the first and only task so far *)
        else negb (busy s a) && acting_task s a t in
      let deps_ok := forallb (fun d =>
        match find_task d (tasks s) with
        | Some x => (k_t x =? t) && stage_eqb (k_stage x) g
        | None => false
        end) deps in
      let coord_ok := match find_coord t (coords s) with Some _ => true | None => false end in
      (* the submission task only submits once the status is running *)
      let phase_ok :=
        match find_task a (tasks s) with
        | Some x => if k_kind x =? KSubmission then k_phase x =? 2 else true
        | None => true
        end in
      (* plan facts (plan_wf; validated on every explored run, assumed by the
         theorems): the final task of a transfer is submitted last, and when it is
         submitted every other task of the transfer is one of its dependencies,
         or is past its main, or sits before it in the single-worker IO queue,
         or is the submission task; task ids grow with creation *)
      let no_final_yet := negb (existsb (fun x => (k_t x =? t) && k_final x) (tasks s)) in
      let final_ok :=
        if final then
          forallb (fun x =>
            negb (k_t x =? t) || (k_kind x =? KSubmission)
            || mem_z (k_id x) deps || past_main (k_st x)
            || (stage_eqb (k_stage x) SIO && stage_eqb g SIO
                && negb (tst_eqb (k_st x) TSubmitting))) (tasks s)   (* already in the IO queue *)
        else true in
      (* the task that completes a download is its final task (download.py: is_final=True),
         and IO writes are submitted / performed only from inside a GetObject main *)
      let kind_ok :=
        (negb (kind =? KIOFinal) || final)
        && (negb (kind =? KIOWrite) ||
            match find_task a (tasks s) with
            | Some x => tst_eqb (k_st x) TMain && (k_kind x =? KGet)
            | None => false
            end) in
      if fresh && who_ok && deps_ok && coord_ok && phase_ok && kind_stage_ok kind g && (0 <=? k)
         && no_final_yet && final_ok && kind_ok && forallb (fun x => k_id x <? k) (tasks s)
      then Some (set_tasks s (tasks s ++
             [mkTask k t g a final deps kind
                     (if stage_eqb g SInline then TQueued else TSubmitting)
                     false false false 0 (-1) 0 false]))
      else None

  | EAcquire a k sem =>
      match find_task k (tasks s), find_sem sem (sems s) with
      | Some x, Some v =>
          if negb (in_request s a) && tst_eqb (k_st x) TSubmitting && (k_parent x =? a) && (k_permit x =? -1) && (0 <? v)
             && ((sem =? sem_of_stage (k_stage x))
                 (* tag semaphores exist only on the request executor *)
                 || (((sem =? SEM_UP) || (sem =? SEM_DOWN)) && stage_eqb (k_stage x) SReq))
          then Some (set_sems (set_tasks s (upd_task k (fun y => with_permit y sem) (tasks s)))
                              (upd_sem sem (-1) (sems s)))
          else None
      | _, _ => None
      end

  | EEnqueue a k =>
      match find_task k (tasks s) with
      | Some x =>
          let g := get_stage s (k_stage x) in
          if negb (in_request s a) && tst_eqb (k_st x) TSubmitting && (k_parent x =? a) && (0 <=? k_permit x)
             && negb (g_shut g) && negb (stage_eqb (k_stage x) SInline)
          then Some (set_stage (set_tasks s (upd_task k (fun y => with_st y TQueued) (tasks s)))
                               (k_stage x)
                               (mkStg (g_queue g ++ [k]) (g_running g) (g_workers g) (g_shut g) (g_joined g) (g_history g ++ [k])))
          else None
      | None => None
      end

  | EAssoc a k =>
      if in_request s a then None else
      on_task s k (fun x =>
        if (k_parent x =? a) && (k_assoc x =? 0) && negb (tst_eqb (k_st x) TSubmitting)
           && negb (k_kind x =? KSubmission) && negb (stage_eqb (k_stage x) SInline)
        then Some (with_assoc x 1) else None)

  | ETaskStart k =>
      match find_task k (tasks s) with
      | Some x =>
          if stage_eqb (k_stage x) SInline
          then (* called directly by its parent, from the parent's main or done-callbacks *)
            if tst_eqb (k_st x) TQueued && negb (busy s (k_parent x))
               && acting_task s (k_parent x) (k_t x)
            then Some (set_tasks s (upd_task k (fun y => with_st y TStarted) (tasks s)))
            else None
          else
            let g := get_stage s (k_stage x) in
            match g_queue g with
            | h :: rest =>
                if (h =? k) && tst_eqb (k_st x) TQueued && (g_running g <? g_workers g)
                then Some (set_stage (set_tasks s (upd_task k (fun y => with_st y TStarted) (tasks s)))
                                     (k_stage x)
                                     (mkStg rest (g_running g + 1) (g_workers g) (g_shut g) (g_joined g) (g_history g)))
                else None
            | [] => None
            end
      | None => None
      end

  | EDepsDone k =>
      on_task s k (fun x =>
        if tst_eqb (k_st x) TStarted && forallb (dep_done s) (k_deps x)
        then Some (with_st x TDeps) else None)

  | EDoneCheck k b =>
      match find_task k (tasks s) with
      | Some x =>
          match find_coord (k_t x) (coords s) with
          | Some c =>
              (* Task.__call__ catches every Exception, so a dependency's future never
                 carries one: collecting the dependencies' results cannot raise *)
              if tst_eqb (k_st x) TDeps && Bool.eqb b (is_done (c_status c))
              then Some (set_tasks s (upd_task k (fun y =>
                     if b then with_st (with_flags y false false true) TPost
                     else with_st y TReady) (tasks s)))
              else None
          | None => None
          end
      | None => None
      end

  | EMainBegin k =>
      on_task s k (fun x =>
        if tst_eqb (k_st x) TReady then Some (with_st (with_flags x true false false) TMain) else None)

  | EMainEnd k ok =>
      if busy s k then None else
      match find_task k (tasks s) with
      | Some x =>
          match find_coord (k_t x) (coords s) with
          | Some c =>
              let sub_ok := if k_kind x =? KSubmission
                            then ok && ((k_phase x =? 2) || (k_phase x =? 5)) else true in
              (* a final task returns normally only after set_result *)
              (* a final task returns normally exactly when it has set the result
                 (set_result is the last statement of _execute_main) *)
              let fin_ok := if k_final x then Bool.eqb ok (status_eqb (c_status c) Success) else true in
              if tst_eqb (k_st x) TMain && sub_ok && fin_ok
              then Some (set_tasks s (upd_task k (fun y =>
                     if ok then with_st (with_flags y true true false) TPost
                     else with_st y TFailed) (tasks s)))
              else None
          | None => None
          end
      | None => None
      end

  | ESetResult k =>
      if busy s k then None else
      match find_task k (tasks s) with
      | Some x =>
          if tst_eqb (k_st x) TMain && k_final x
             (* the rename of a path download precedes the final task's set_result *)
             && (if k_kind x =? KIOFinal
                 then match find_file (k_t x) (files s) with Some f => f_renamed f | None => true end
                 else true)
          then on_coord s (k_t x) (fun c => Some (c_with c Success None))
          else None
      | None => None
      end

  | ESetException a t e override =>
      if busy s a then None else
      let apply (s1 : state) :=
        on_coord s1 t (fun c =>
          if negb (is_done (c_status c)) || override
          then Some (c_with c Failed (Some e)) else Some c) in
      if is_user a
      then (* future.set_exception: only on a done transfer, with override *)
        match find_coord t (coords s) with
        | Some c => if override && is_done (c_status c) then apply s else None
        | None => None
        end
      else
        match find_task a (tasks s) with
        | Some x =>
            if negb (k_t x =? t) then
              (* a done callback of another transfer's future? not modelled *)
              None
            else if override then
              (* a subscriber callback calling future.set_exception *)
              match find_coord t (coords s) with
              | Some c => if is_done (c_status c) && (in_callback s a t || acting_task s a t)
                          then apply s else None
              | None => None
              end
            else if tst_eqb (k_st x) TFailed then
              bind (apply s) (fun s1 => on_task s1 a (fun y => Some (with_st y TPost)))
            else if tst_eqb (k_st x) TMain && (k_kind x =? KSubmission) && (k_phase x <? 3) then
              (* the submission task's except-branch *)
              bind (apply s) (fun s1 => on_task s1 a (fun y => Some (with_phase y 3)))
            else None
        | None => None
        end

  | ECancel a t e =>
      (* the locked section of cancel(): applied iff not done; announces iff not started *)
      if busy s a then None else
      let allowed := is_user a || in_callback s a t || acting_task s a t in
      if allowed then
        on_coord s t (fun c =>
          if is_done (c_status c) then Some c
          else
            let c1 := c_with c Cancelled (Some e) in
            if status_eqb (c_status c) NotStarted
            then Some (c_with_ann c1 (a :: c_owing c1) (c_announcers c1))
            else Some c1)
      else None

  | EStatus k to_running ok =>
      if busy s k then None else
      match find_task k (tasks s) with
      | Some x =>
          match find_coord (k_t x) (coords s) with
          | Some c =>
              let want := if to_running then 1 else 0 in
              if tst_eqb (k_st x) TMain && (k_kind x =? KSubmission) && (k_phase x =? want)
                 && Bool.eqb ok (negb (is_done (c_status c)))
                 && (if to_running then true else true)
              then
                if ok then
                  bind (on_coord s (k_t x) (fun c0 =>
                          Some (c_with c0 (if to_running then Running else Queued) (c_exc c0))))
                       (fun s1 => on_task s1 k (fun y => Some (with_phase y (want + 1))))
                else Some s    (* RuntimeError raised: the except-branch follows *)
              else None
          | None => None
          end
      | None => None
      end

  | EOnQueued k =>
      if busy s k then None else
      match find_task k (tasks s) with
      | Some x =>
          if tst_eqb (k_st x) TMain && (k_kind x =? KSubmission) && (k_phase x =? 1)
          then on_coord s (k_t x) (fun c => Some (c_with_ghost c (c_queued_cbs c + 1) (c_progress_after_done c)))
          else None
      | None => None
      end

  | EOnProgress a t =>
      (* delivered from inside a request (body reads) or right after it *)
      if match find_task a (tasks s) with
         | Some x => (k_t x =? t) && tst_eqb (k_st x) TMain && negb (k_kind x =? KSubmission)
         | None => false
         end
      then on_coord (bump_after_shutdown s) t (fun c =>
             Some (c_with_ghost c (c_queued_cbs c)
                     (c_progress_after_done c ||
                      match c_cb_runner c with Some _ => true | None => false end ||
                      negb (match c_ran_callbacks c with [] => true | _ => false end))))
      else None

  | EWaitAll k =>
      if busy s k then None else
      match find_task k (tasks s) with
      | Some x =>
          if tst_eqb (k_st x) TMain && (k_kind x =? KSubmission) && (k_phase x =? 3)
             && all_assoc_done s (k_t x)
          then on_task s k (fun y => Some (with_phase y 4))
          else None
      | None => None
      end

  | EAnnBegin a t =>
      if busy s a then None else
      match find_coord t (coords s) with
      | Some c =>
          match ann_phase a (c_announcers c) with
          | Some _ => None
          | None =>
              if mem_z a (c_owing c)
              then (* cancel() found the transfer not started: the canceller announces *)
                on_coord s t (fun c0 => Some (c_with_started (c_with_ann c0 (remove_z a (c_owing c0)) (ann_set a 0 (c_announcers c0)))))
              else
                match find_task a (tasks s) with
                | Some x =>
                    if negb (k_t x =? t) then None
                    else if k_kind x =? KSubmission
                    then (* error path of the submission task, after the wait *)
                      if tst_eqb (k_st x) TMain && (k_phase x =? 4)
                      then on_coord s t (fun c0 => Some (c_with_started (c_with_ann c0 (c_owing c0) (ann_set a 0 (c_announcers c0)))))
                      else None
                    else (* the final task, after its done-callbacks *)
                      if tst_eqb (k_st x) TPost && k_final x
                      then bind (on_coord s t (fun c0 => Some (c_with_started (c_with_ann c0 (c_owing c0) (ann_set a 0 (c_announcers c0))))))
                                (fun s1 => on_task s1 a (fun y => Some (with_st y TAnn)))
                      else None
                | None => None
                end
          end
      | None => None
      end

  | ECleanupsBegin a t =>
      if busy s a then None else
      on_coord s t (fun c =>
        match ann_phase a (c_announcers c), c_cl_runner c with
        | Some 0, None =>
            if negb (status_eqb (c_status c) Success)
            then Some (c_with_ann (c_with_runners c (Some a) (c_cb_runner c)) (c_owing c) (ann_set a 1 (c_announcers c)))
            else None
        | _, _ => None
        end)

  | ECleanup a t c0 =>
      if busy s a then None else
      on_coord (bump_after_shutdown s) t (fun c =>
        match c_cl_runner c, c_cleanups c with
        | Some b, h :: rest =>
            if (b =? a) && (h =? c0)
            then Some (c_with_ran (c_with_lists c rest (c_callbacks c)) (c_ran_cleanups c ++ [c0]) (c_ran_callbacks c))
            else None
        | _, _ => None
        end)

  | ECleanupsEnd a t =>
      if busy s a then None else
      on_coord s t (fun c =>
        match c_cl_runner c, ann_phase a (c_announcers c) with
        | Some b, Some 1 =>
            if (b =? a) && match c_cleanups c with [] => true | _ => false end
            then (* every registered cleanup has been run; the list is reset *)
              Some (c_with_ann (c_with_runners (c_with_lists c [] (c_callbacks c)) None (c_cb_runner c))
                               (c_owing c) (ann_set a 2 (c_announcers c)))
            else None
        | _, _ => None
        end)

  | EEventSet a t =>
      if busy s a then None else
      on_coord s t (fun c =>
        match ann_phase a (c_announcers c) with
        | Some p =>
            if (p =? 2) || ((p =? 0) && status_eqb (c_status c) Success)
            then Some (c_with_ann (c_with_event c) (c_owing c) (ann_set a 3 (c_announcers c)))
            else None
        | None => None
        end)

  | ECallbacksBegin a t =>
      if busy s a then None else
      on_coord s t (fun c =>
        match ann_phase a (c_announcers c), c_cb_runner c with
        | Some 3, None =>
            Some (c_with_ann (c_with_runners c (c_cl_runner c) (Some a)) (c_owing c) (ann_set a 4 (c_announcers c)))
        | _, _ => None
        end)

  | ECallback a t c0 =>
      if busy s a then None else
      on_coord (bump_after_shutdown s) t (fun c =>
        match c_cb_runner c, c_callbacks c with
        | Some b, h :: rest =>
            if (b =? a) && (h =? c0)
            then Some (c_with_ran (c_with_lists c (c_cleanups c) rest) (c_ran_cleanups c) (c_ran_callbacks c ++ [c0]))
            else None
        | _, _ => None
        end)

  | ECallbacksEnd a t =>
      if busy s a then None else
      on_coord s t (fun c =>
        match c_cb_runner c, ann_phase a (c_announcers c), c_callbacks c with
        | Some b, Some 4, [] =>
            if b =? a
            then Some (c_with_ann (c_with_runners c (c_cl_runner c) None) (c_owing c) (ann_set a 5 (c_announcers c)))
            else None
        | _, _, _ => None
        end)

  | EAnnEnd a t =>
      if busy s a then None else
      match find_coord t (coords s) with
      | Some c =>
          match ann_phase a (c_announcers c) with
          | Some 5 =>
              let s1 := set_coords s (upd_coord t (fun c0 => c_with_ann c0 (c_owing c0) (ann_del a (c_announcers c0))) (coords s)) in
              match find_task a (tasks s) with
              | Some x =>
                  if is_user a then Some s1
                  else if tst_eqb (k_st x) TAnn then on_task s1 a (fun y => Some (with_st y TAnnDone))
                  else if (k_kind x =? KSubmission) && (k_phase x =? 4) then on_task s1 a (fun y => Some (with_phase y 5))
                  else Some s1      (* a cancel() issued from inside a task *)
              | None => Some s1
              end
          | _ => None
          end
      | None => None
      end

  | ETaskEnd k =>
      if busy s k then None else
      match find_task k (tasks s) with
      | Some x =>
          if (if k_final x then tst_eqb (k_st x) TAnnDone else tst_eqb (k_st x) TPost)
          then
            let s1 := set_tasks s (upd_task k (fun y => with_st y TEnded) (tasks s)) in
            if stage_eqb (k_stage x) SInline then Some s1
            else
              let g := get_stage s1 (k_stage x) in
              Some (set_stage s1 (k_stage x)
                      (mkStg (g_queue g) (g_running g - 1) (g_workers g) (g_shut g) (g_joined g) (g_history g)))
          else None
      | None => None
      end

  | ERelease k =>
      match find_task k (tasks s) with
      | Some x =>
          if tst_eqb (k_st x) TEnded && negb (k_released x) && (0 <=? k_permit x)
          then Some (set_sems (set_tasks s (upd_task k with_released (tasks s)))
                              (upd_sem (k_permit x) 1 (sems s)))
          else None
      | None => None
      end

  | EDissoc k =>
      on_task s k (fun x =>
        if tst_eqb (k_st x) TEnded && (k_assoc x =? 1) then Some (with_assoc x 2) else None)

  | ECount a t op =>
      if busy s a then None else
      if acting_task s a t then
        on_coord s t (fun c =>
          if op =? 0 then
            if c_finalized c then None else Some (c_with_count c (c_count c + 1) false (c_fired c))
          else if op =? 1 then
            if c_count c =? 0 then None
            else Some (c_with_count c (c_count c - 1) (c_finalized c)
                         (c_fired c || (c_finalized c && (c_count c - 1 =? 0))))
          else
            Some (c_with_count c (c_count c) true (c_fired c || (c_count c =? 0))))
      else None

  | ES3Begin a r op t uid =>
      if busy s a then None else
      let fresh := match find_req r (reqs s) with None => true | Some _ => false end in
      let who_ok :=
        if s3op_eqb op OpAbort
        then (* only as a failure cleanup of t, by the thread running the cleanups *)
          match find_coord t (coords s) with
          | Some c => match c_cl_runner c with Some b => b =? a | None => false end
          | None => false
          end
        else
          match find_task a (tasks s) with
          | Some x => (k_t x =? t) && tst_eqb (k_st x) TMain && kind_allows (k_kind x) op
                      && (if k_kind x =? KSubmission
                          then (k_phase x =? 2)
                               (* size discovery precedes every submission *)
                               && forallb (fun y => negb (k_t y =? t) || (k_kind y =? KSubmission)) (tasks s)
                          else true)
          | None => false
          end in
      if fresh && who_ok then
        let s1 := set_reqs (bump_after_shutdown s) (reqs s ++ [mkReq r a t op uid false false false]) in
        match op with
        | OpPart | OpComplete =>
            match find_upload uid (uploads s1) with
            | Some u =>
                (* one complete call per upload id *)
                if (u_t u =? t) && negb (s3op_eqb op OpComplete && u_complete_begun u) then
                  Some (set_uploads s1 (upd_upload uid (fun v =>
                    mkUpload (u_id v) (u_t v) (u_inflight v + 1) (u_completes_ok v)
                             (u_complete_begun v || s3op_eqb op OpComplete) (u_abort_begun v) (u_abort_count v)
                             (u_begun_after_abort v || u_abort_begun v) (u_abort_while_inflight v)) (uploads s1)))
                else None
            | None => None
            end
        | OpAbort =>
            match find_upload uid (uploads s1) with
            | Some u =>
                if u_t u =? t then
                  Some (set_uploads s1 (upd_upload uid (fun v =>
                    mkUpload (u_id v) (u_t v) (u_inflight v) (u_completes_ok v)
                             (u_complete_begun v) true (u_abort_count v + 1)
                             (u_begun_after_abort v) (u_abort_while_inflight v || (0 <? u_inflight v))) (uploads s1)))
                else None
            | None => None
            end
        | _ => Some s1
        end
      else None

  | ES3Effect r uid =>
      match find_req r (reqs s) with
      | Some q =>
          if negb (r_effect q) && negb (r_ended q) then
            let s1 := set_reqs s (upd_req r (fun v => mkReq (r_id v) (r_actor v) (r_t v) (r_op v)
                                                          (if s3op_eqb (r_op v) OpCreate then uid else r_uid v)
                                                          true (r_ended v) (r_ok v)) (reqs s)) in
            if s3op_eqb (r_op q) OpCreate then
              match find_upload uid (uploads s1) with
              | None => Some (set_uploads s1 (uploads s1 ++ [mkUpload uid (r_t q) 0 0 false false 0 false false]))
              | Some _ => None
              end
            else Some s1
          else None
      | None => None
      end

  | ES3End r ok =>
      match find_req r (reqs s) with
      | Some q =>
          if negb (r_ended q) && (negb ok || r_effect q) then
            let s1 := set_reqs s (upd_req r (fun v => mkReq (r_id v) (r_actor v) (r_t v) (r_op v) (r_uid v)
                                                          (r_effect v) true ok) (reqs s)) in
            match r_op q with
            | OpPart | OpComplete =>
                Some (set_uploads s1 (upd_upload (r_uid q) (fun v =>
                  mkUpload (u_id v) (u_t v) (u_inflight v - 1)
                           (u_completes_ok v + (if s3op_eqb (r_op q) OpComplete && r_effect q then 1 else 0))
                           (u_complete_begun v) (u_abort_begun v) (u_abort_count v)
                           (u_begun_after_abort v) (u_abort_while_inflight v)) (uploads s1)))
            | _ => Some s1
            end
          else None
      | None => None
      end

  | EResult a t raised =>
      match find_coord t (coords s) with
      | Some c =>
          if c_event c && Bool.eqb raised (match c_exc c with Some _ => true | None => false end)
          then Some s else None
      | None => None
      end

  | EFs a t op =>
      if busy s a then None else
      let io_writer :=
        match find_task a (tasks s) with
        | Some x => (k_t x =? t) && tst_eqb (k_st x) TMain && (k_kind x =? KIOWrite)
        | None => false
        end in
      let io_final :=
        match find_task a (tasks s) with
        | Some x => (k_t x =? t) && tst_eqb (k_st x) TMain && (k_kind x =? KIOFinal)
        | None => false
        end in
      let cleaner :=
        match find_coord t (coords s) with
        | Some c => match c_cl_runner c with Some b => b =? a | None => false end
        | None => false
        end in
      let s0 := bump_after_shutdown s in
      match op, find_file t (files s) with
      | FOpen, None =>
          if io_writer then Some (set_files s0 (files s ++ [mkFile t true true false false 0 false 0])) else None
      | FOpen, Some _ => None        (* the deferred file is opened once *)
      | FWrite, Some f =>
          if io_writer && f_open f
          then Some (set_files s0 (upd_file t (fun x =>
                 mkFile (f_t x) (f_exists x) (f_open x) (f_renamed x) (f_removed x) (f_writes x + 1)
                        (f_write_after_close x) (f_renames x)) (files s)))
          else None
      | FClose, Some f =>
          (* closing an already closed file object is a no-op *)
          if io_final || cleaner
          then Some (set_files s0 (upd_file t (fun x =>
                 mkFile (f_t x) (f_exists x) false (f_renamed x) (f_removed x) (f_writes x)
                        (f_write_after_close x) (f_renames x)) (files s)))
          else None
      | FRename, Some f =>
          if io_final && negb (f_open f) && f_exists f
          then Some (set_files s0 (upd_file t (fun x =>
                 mkFile (f_t x) false false true (f_removed x) (f_writes x)
                        (f_write_after_close x) (f_renames x + 1)) (files s)))
          else None
      | FRemove, Some f =>
          if cleaner
          then Some (set_files s0 (upd_file t (fun x =>
                 mkFile (f_t x) false (f_open x) (f_renamed x) (f_exists x || f_removed x) (f_writes x)
                        (f_write_after_close x) (f_renames x)) (files s)))
          else None
      | FRemove, None => if cleaner then Some s0 else None    (* nothing was ever created *)
      | _, None => None
      end

  | EShutdownBegin =>
      if shutdown_phase s =? 0 then Some (set_shutdown s 1) else None

  | EStageShutdown g =>
      if (shutdown_phase s =? 1) && negb (stage_eqb g SInline) then
        let x := get_stage s g in
        Some (set_stage s g (mkStg (g_queue x) (g_running x) (g_workers x) true (g_joined x) (g_history x)))
      else None

  | EStageJoined g =>
      let x := get_stage s g in
      if g_shut x && (g_running x =? 0) && (match g_queue x with [] => true | _ => false end)
         && negb (stage_eqb g SInline)
      then Some (set_stage s g (mkStg (g_queue x) (g_running x) (g_workers x) true true (g_history x)))
      else None

  | EShutdownReturn =>
      if (shutdown_phase s =? 1) && g_joined (st_sub s) && g_joined (st_req s) && g_joined (st_io s)
      then Some (set_shutdown s 2) else None
  end.

Fixpoint run (s : state) (tr : list event) : option state :=
  match tr with
  | [] => Some s
  | e :: r => match step s e with Some s' => run s' r | None => None end
  end.

(** index of the first rejected event, for the replayer *)
Fixpoint run_idx (s : state) (tr : list event) (i : nat) : state * option nat :=
  match tr with
  | [] => (s, None)
  | e :: r => match step s e with Some s' => run_idx s' r (S i) | None => (s, Some i) end
  end.

Definition init (w_sub w_req w_io q_sub q_req q_io mem_up mem_down : Z) : state :=
  mkState [] []
          (mkStg [] 0 w_sub false false []) (mkStg [] 0 w_req false false []) (mkStg [] 0 w_io false false [])
          [(SEM_SUB, q_sub); (SEM_REQ, q_req); (SEM_IO, q_io); (SEM_UP, mem_up); (SEM_DOWN, mem_down)]
          [] [] 0 0 [].
