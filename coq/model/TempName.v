(** Name of the temporary file a download writes to (OSUtils.get_temp_filename):
    the destination's base name cut to [L - |suffix|] characters, followed by
    the suffix (extension separator + random digits).  [L] is the file-name
    length limit of the source (OSUtils._MAX_FILENAME_LEN), read from the real
    class by the correspondence check and passed in: the theorems hold for
    every [L]. Characters are abstract. *)
From Coq Require Import List Arith.
Import ListNotations.

Section TempName.
  Context {A : Type}.

  Definition temp_name (L : nat) (name suffix : list A) : list A :=
    firstn (L - length suffix) name ++ suffix.

End TempName.

(** executable equality on code points, for the correspondence check *)
Fixpoint list_nat_eqb (a b : list nat) : bool :=
  match a, b with
  | [], [] => true
  | x :: a', y :: b' => Nat.eqb x y && list_nat_eqb a' b'
  | _, _ => false
  end.
