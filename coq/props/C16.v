(** C16 -- Streaming destinations are written strictly in order, each byte once.
    Only statements, each closed by [exact]/[apply] of a lemma from
    proofs/DeferQProofs.v (the refutations of the unrepaired code by
    computation), each followed by Print Assumptions.

    Reading guide.  [h] is a delivery history: the (offset, data) arguments of
    successive DeferQueue.request_writes calls, of ANY length.  [consistent obj h]:
    every delivery carries the object's bytes at its offset.  Every history of
    the statement's grammar is consistent ([C16_grammar_consistent]), so every
    theorem below holds for all of them; a prefix of a consistent history is
    consistent, so every theorem also speaks about the state after each call.
    [emitted h]: all writes returned, in order.  [covered h p]: byte position
    [p] lies inside some delivered interval. *)
From Coq Require Import ZArith List Bool Lia Sorted.
From S3V Require Import model.DeferQ model.DeferQOld proofs.DeferQProofs.
Import ListNotations.
Open Scope Z_scope.

(** The histories the download loop can produce are consistent. *)
Theorem C16_grammar_consistent : forall obj h, grammar obj h -> consistent obj h.
Proof. exact grammar_consistent. Qed.
Print Assumptions C16_grammar_consistent.

(** The concatenation of all writes is the object's prefix of length
    next_offset, and each write starts exactly where the previous one ended. *)
Theorem C16_dq_writes_prefix : forall obj h, consistent obj h ->
  concat (map snd (emitted h)) = firstn (Z.to_nat (next_offset (final_state h))) obj /\
  offsets_running 0 (emitted h) /\
  0 <= next_offset (final_state h) <= blen obj.
Proof. exact dq_writes_prefix. Qed.
Print Assumptions C16_dq_writes_prefix.

(** Write offsets equal the running length for EVERY history (even one with
    wrong data): hence every position below next_offset is written exactly
    once, every other position never, and a write ends at or before the start
    of every later write (offsets strictly increase across non-empty writes). *)
Theorem C16_each_position_once : forall h p,
  offsets_running 0 (emitted h) /\
  length (filter (insideb p) (emitted h)) =
    (if (0 <=? p) && (p <? next_offset (final_state h)) then 1%nat else 0%nat) /\
  StronglySorted ends_before (emitted h).
Proof.
  intros h p. destruct (dq_offsets_running h) as [Hr Hn]. split; [exact Hr|]. split.
  - rewrite Hn. exact (offsets_running_once (emitted h) 0 p Hr).
  - exact (offsets_running_sorted (emitted h) 0 Hr).
Qed.
Print Assumptions C16_each_position_once.

(** next_offset is exactly the contiguous frontier of what was delivered:
    the largest n such that [0, n) is covered.  Nothing is released before it
    is contiguous (<=) and everything contiguous has been released (>=). *)
Theorem C16_dq_frontier : forall obj h, consistent obj h ->
  forall n, 0 <= n ->
  ((forall p, 0 <= p < n -> covered h p) <-> n <= next_offset (final_state h)).
Proof. exact dq_frontier. Qed.
Print Assumptions C16_dq_frontier.

Theorem C16_dq_complete : forall obj h, consistent obj h ->
  (forall p, 0 <= p < blen obj -> covered h p) ->
  concat (map snd (emitted h)) = obj /\ next_offset (final_state h) = blen obj.
Proof. exact dq_complete. Qed.
Print Assumptions C16_dq_complete.

(** The empty object: its single empty chunk yields exactly one empty write. *)
Theorem C16_dq_empty_object :
  snd (request_writes init 0 []) = [(0, [])] /\ emitted [(0, [])] = [(0, [])].
Proof. exact dq_empty_object. Qed.
Print Assumptions C16_dq_empty_object.

(** Both manager paths (queue_file_io_task and get_io_write_tasks) put on the
    stream exactly the emitted writes, in order. *)
Theorem C16_manager_stream : forall h,
  manager_run (init, []) h = (final_state h, concat (map snd (emitted h))).
Proof. exact manager_stream. Qed.
Print Assumptions C16_manager_stream.

(** Single-GET download through get_io_write_tasks: any number of attempts,
    each from byte 0, cut anywhere, stopping anywhere. *)
Theorem C16_immediate_path_exact : forall obj (attempts : list (list bytes)) h,
  Forall (fun ds => attempt_ok obj (0, ds)) attempts ->
  h = concat (map (chunks_from 0) attempts) ->
  let (s, out) := manager_run (init, []) h in
  out = firstn (Z.to_nat (next_offset s)) obj /\
  ((exists ds, In ds attempts /\ concat ds = obj) -> out = obj).
Proof. exact immediate_path_exact. Qed.
Print Assumptions C16_immediate_path_exact.

(* ------------------------------------------------------------------ *)
(** For the record: the code before the repairs. *)

(** [w_obj] = "abcdefgh", [w_hist] = [(0,"abc"); (0,"abcde"); (5,"fgh")]
    (proofs/DeferQProofs.v). *)

(** F3: the original request_writes (drop if offset < next; ignore if the
    offset is already pending; pop while head.offset == next) loses bytes on a
    history of the grammar that covers the object: part [0,5) delivers "abc",
    fails, is retried and delivers "abcde" in one chunk; part [5,8) delivers
    "fgh".  Only "abc" is ever written.  The repaired queue writes the object. *)
Theorem C16_unrepaired_refuted :
  exists obj h, grammar obj h /\ (forall p, 0 <= p < blen obj -> covered h p) /\
    concat (map snd (old_emitted h)) = firstn 3 obj /\
    concat (map snd (old_emitted h)) <> obj /\
    concat (map snd (emitted h)) = obj.
Proof.
  exists w_obj, w_hist. split; [exact w_hist_grammar|]. split; [exact w_hist_covers|].
  vm_compute. repeat split. discriminate.
Qed.
Print Assumptions C16_unrepaired_refuted.

(** F4: the original immediate path wrote every chunk straight to the stream:
    a retry after "abc" duplicates it.  Through the queue the stream is exact. *)
Theorem C16_immediate_unrepaired_refuted :
  exists obj h, h = concat (map (chunks_from 0) [[[97; 98; 99]]; [obj]]) /\
    old_immediate_run [] h <> obj /\
    snd (manager_run (init, []) h) = obj.
Proof.
  exists w_obj. eexists. split; [reflexivity|]. vm_compute. split; [discriminate|reflexivity].
Qed.
Print Assumptions C16_immediate_unrepaired_refuted.

(* ------------------------------------------------------------------ *)
(** Non-vacuity: concrete histories satisfying the hypotheses. *)

(** the witness is a consistent, covering history of the grammar; the repaired
    queue emits abc | de | fgh at offsets 0, 3, 5 *)
Example C16_nonvacuous_witness :
  consistent w_obj w_hist /\ (forall p, 0 <= p < blen w_obj -> covered w_hist p) /\
  snd (run init w_hist) =
    [[(0, [97; 98; 99])]; [(3, [100; 101])]; [(5, [102; 103; 104])]] /\
  next_offset (final_state w_hist) = 8.
Proof.
  split; [exact (grammar_consistent _ _ w_hist_grammar)|]. split; [exact w_hist_covers|].
  vm_compute. split; reflexivity.
Qed.

(** out-of-order arrival with overlapping re-deliveries: data for [4,8) is
    withheld, then released together with the contiguous run; the frontier
    stops at the first uncovered byte (6 is never delivered) *)
Example C16_nonvacuous_withheld :
  let obj := [1; 2; 3; 4; 5; 6; 7; 8; 9] in
  let h := [(4, [5; 6]); (7, [8; 9]); (0, [1; 2]); (4, [5]); (0, [1; 2; 3]); (2, [3; 4; 5])] in
  consistent obj h /\
  snd (run init h) = [[]; []; [(0, [1; 2])]; []; [(2, [3])]; [(3, [4; 5]); (5, [6])]] /\
  next_offset (final_state h) = 6 /\ ~ covered h 6 /\
  heap (final_state h) = [(7, [8; 9])].
Proof.
  cbv zeta. split; [repeat constructor; cbn; lia|]. split; [reflexivity|].
  split; [reflexivity|]. split; [|reflexivity].
  intros (e & He & Hi). unfold inside in Hi. cbn in He.
  repeat (destruct He as [<-|He]; [cbn in Hi; lia|]). destruct He.
Qed.

(** single GET with two failed attempts, different cuts each time *)
Example C16_nonvacuous_immediate :
  let obj := [10; 20; 30; 40; 50] in
  let attempts := [[[10; 20]]; [[10]; [20; 30]; [40]]; [[10; 20; 30; 40]; [50]]] in
  Forall (fun ds => attempt_ok obj (0, ds)) attempts /\
  (exists ds, In ds attempts /\ concat ds = obj) /\
  manager_run (init, []) (concat (map (chunks_from 0) attempts)) =
    (mkState 5 [] [], obj).
Proof.
  cbv zeta. split; [repeat constructor; cbn; lia|]. split; [|reflexivity].
  exists [[10; 20; 30; 40]; [50]]. split; [cbn; tauto|reflexivity].
Qed.
