(** C18 -- Transfers sharing a manager do not affect each other's outcome
    (protocol part): a failure or cancellation of one never changes the bytes
    or the result of another, and the manager stays usable.
    Statements only; each is closed by [exact] of a lemma of proofs/SysFrame.v
    or proofs/SysFrame2.v and followed by Print Assumptions.

    Reading guide.
    [event_transfer s e] (proofs/SysFrame.v): the transfer that owns event [e]
    in state [s] -- the [t] the event carries; for an event that moves task
    [k], the transfer [k_t] of the task found under [k]; for ES3Effect /
    ES3End, the transfer [r_t] of the request found under the request id;
    [None] for the four events of the manager's shutdown (EShutdownBegin,
    EStageShutdown, EStageJoined, EShutdownReturn; [is_global e = true]).
    The cancels issued by shutdown are ordinary [ECancel a t e] events owned
    by the cancelled transfer.

    [same_transfer_view t s s']: everything the model stores for transfer [t]
    is the same in [s] and [s']: its coordinator record [find_coord t] (status,
    exception, registered and run cleanups / callbacks, done event, lock
    holders, announcers, count-down invoker, ghosts), the sub-list of the task
    store made of the tasks with [k_t = t] (every field, in order:
    [filter (tk_of t) (tasks _)]), its temporary file [find_file t] (exists /
    open / renamed = published / removed / number of writes), its multipart
    uploads ([filter (up_of t) (uploads _)]) and its requests
    ([filter (rq_of t) (reqs _)], with effect / ended / ok flags).  It is an
    equivalence relation.

    [proj t s tr]: the erased trace -- along the run of [tr] from [s], keep
    the events owned by [t] and the four shutdown events, drop every event
    owned by another transfer (ownership is read in the state of the full run
    in which the event happens).

    [sim t s st]: [st] is [s] restricted to [t]: [tasks st], [reqs st],
    [uploads st] are the sub-lists of those of [s] belonging to [t];
    [find_coord t] and [find_file t] agree; each executor queue of [st] is the
    queue of [s] restricted to the tasks of [t] (same order: FIFO heads are
    preserved); worker counts, shut / joined flags and the shutdown phase are
    equal.  Running counts and free permits are not in the relation: both
    states are reachable, so exact occupancy and permit conservation
    determine them from the task stores, and dropping tasks only lowers the
    occupancy and raises the free permits -- every capacity guard that held in
    the full run holds in the erased run. *)
From Coq Require Import ZArith List Bool Lia.
From S3V Require Import model.Sys proofs.SysBase proofs.SysFrame proofs.SysFrame2.
Import ListNotations.
Open Scope Z_scope.

(** (1) Ownership is well defined: every event the model can perform, other
    than the four shutdown events, belongs to exactly one transfer. *)
Theorem C18_event_owner_defined : forall s e s',
  step s e = Some s' -> is_global e = false -> exists t, event_transfer s e = Some t.
Proof. exact event_transfer_defined. Qed.
Print Assumptions C18_event_owner_defined.

(** (2) Frame.  In every reachable state, a step owned by transfer [t] -- any
    step: a failure ([ESetException], a failing [EMainEnd], [ES3End _ false]),
    a cancellation ([ECancel]), an announce, an abort request, a file removal
    -- leaves the view of every other transfer [t'] unchanged. *)
Theorem C18_frame : forall w_sub w_req w_io q_sub q_req q_io up down s e s' t t',
  reachable (init w_sub w_req w_io q_sub q_req q_io up down) s ->
  step s e = Some s' -> event_transfer s e = Some t -> t' <> t ->
  same_transfer_view t' s s'.
Proof. exact frame_reachable. Qed.
Print Assumptions C18_frame.

(** The same for one step from any state satisfying the five facts [finv]
    (unique task / request / upload ids; a part / complete request names an
    upload of its own transfer; a worker that is an announcer of [t] is a task
    of [t]) -- the two last ones are what makes [EAnnEnd] and [ES3End] touch
    only their owner. *)
Theorem C18_frame_step : forall s e s' t t',
  finv s -> step s e = Some s' -> event_transfer s e = Some t -> t' <> t ->
  same_transfer_view t' s s'.
Proof. exact frame_step. Qed.
Print Assumptions C18_frame_step.

Theorem C18_finv_reachable : forall w_sub w_req w_io q_sub q_req q_io up down s,
  reachable (init w_sub w_req w_io q_sub q_req q_io up down) s -> finv s.
Proof. exact finv_reachable. Qed.
Print Assumptions C18_finv_reachable.

(** What the four shutdown events may change: nothing of any transfer -- no
    task, coordinator, request, upload, file, permit; no queue content,
    running count, worker count or history; only the shut / joined flags of
    the executors and the shutdown phase. *)
Theorem C18_global_events_touch_no_transfer : forall s e s',
  step s e = Some s' -> is_global e = true ->
  tasks s' = tasks s /\ coords s' = coords s /\ reqs s' = reqs s /\ uploads s' = uploads s /\
  files s' = files s /\ sems s' = sems s /\
  (forall g, g_queue (get_stage s' g) = g_queue (get_stage s g) /\
             g_running (get_stage s' g) = g_running (get_stage s g) /\
             g_workers (get_stage s' g) = g_workers (get_stage s g) /\
             g_history (get_stage s' g) = g_history (get_stage s g)).
Proof. exact global_step_stores. Qed.
Print Assumptions C18_global_events_touch_no_transfer.

Theorem C18_global_events_keep_views : forall s e s' t,
  step s e = Some s' -> is_global e = true -> same_transfer_view t s s'.
Proof. exact global_step_view. Qed.
Print Assumptions C18_global_events_keep_views.

(** Together: the view of [t'] changes only by events owned by [t']. *)
Theorem C18_view_changes_only_by_owner : forall w_sub w_req w_io q_sub q_req q_io up down s e s' t',
  reachable (init w_sub w_req w_io q_sub q_req q_io up down) s -> step s e = Some s' ->
  event_transfer s e <> Some t' -> same_transfer_view t' s s'.
Proof. exact view_changes_only_by_owner. Qed.
Print Assumptions C18_view_changes_only_by_owner.

(** Under unique task ids (true of reachable states), equal views find the
    same task records under the same ids. *)
Theorem C18_view_find_task : forall t s s' k x,
  SysStage.ids_inv s -> SysStage.ids_inv s' -> same_transfer_view t s s' -> k_t x = t ->
  (find_task k (tasks s') = Some x <-> find_task k (tasks s) = Some x).
Proof. exact view_find_task. Qed.
Print Assumptions C18_view_find_task.

(** (3) Outcome isolation (non-interference), with no side condition.  For
    every run [tr] of the manager and every transfer [t]: erasing from [tr]
    every event owned by another transfer -- their creation, submissions,
    requests, failures, cancellations, announces -- gives again a run of the
    model, and that run ends in a state [st] that is the final state [s]
    restricted to [t]; in particular the view of [t] (coordinator with status
    / exception / done event / callbacks run, tasks, file with published /
    writes, uploads, requests) is the same.  So the other transfers' events
    are neither needed to produce [t]'s outcome nor able to change it. *)
Theorem C18_noninterference : forall w_sub w_req w_io q_sub q_req q_io up down t tr s,
  run (init w_sub w_req w_io q_sub q_req q_io up down) tr = Some s ->
  exists st,
    run (init w_sub w_req w_io q_sub q_req q_io up down)
        (proj t (init w_sub w_req w_io q_sub q_req q_io up down) tr) = Some st /\
    sim t s st /\ same_transfer_view t s st.
Proof. exact noninterference. Qed.
Print Assumptions C18_noninterference.

(** The same, spelled out on the stores. *)
Theorem C18_outcome_isolated : forall w_sub w_req w_io q_sub q_req q_io up down t tr s c,
  run (init w_sub w_req w_io q_sub q_req q_io up down) tr = Some s ->
  find_coord t (coords s) = Some c ->
  exists st,
    run (init w_sub w_req w_io q_sub q_req q_io up down)
        (proj t (init w_sub w_req w_io q_sub q_req q_io up down) tr) = Some st /\
    find_coord t (coords st) = Some c /\
    find_file t (files st) = find_file t (files s) /\
    tasks st = filter (tk_of t) (tasks s) /\
    reqs st = filter (rq_of t) (reqs s) /\
    uploads st = filter (up_of t) (uploads s).
Proof. exact outcome_isolated. Qed.
Print Assumptions C18_outcome_isolated.

(** The simulation from any pair of related reachable states (the inductive
    form: a suffix of a run can be erased as well). *)
Theorem C18_noninterference_from : forall w_sub w_req w_io q_sub q_req q_io up down t tr s st s',
  reachable (init w_sub w_req w_io q_sub q_req q_io up down) s ->
  reachable (init w_sub w_req w_io q_sub q_req q_io up down) st ->
  sim t s st -> run s tr = Some s' ->
  exists st', run st (proj t s tr) = Some st' /\ sim t s' st'.
Proof. exact noninterference_from. Qed.
Print Assumptions C18_noninterference_from.

(** The erased run really contains no event of another transfer: each of its
    events is a shutdown event or is owned by [t] in the state of the erased
    run where it happens ... *)
Theorem C18_erased_run_owned : forall w_sub w_req w_io q_sub q_req q_io up down t tr s,
  run (init w_sub w_req w_io q_sub q_req q_io up down) tr = Some s ->
  owned_run t (init w_sub w_req w_io q_sub q_req q_io up down)
            (proj t (init w_sub w_req w_io q_sub q_req q_io up down) tr).
Proof. exact erased_run_owned. Qed.
Print Assumptions C18_erased_run_owned.

(** ... and (by the frame theorem applied to the erased run) its final state
    stores nothing of any other transfer. *)
Theorem C18_erased_state_only_t : forall w_sub w_req w_io q_sub q_req q_io up down t tr s,
  run (init w_sub w_req w_io q_sub q_req q_io up down) tr = Some s ->
  exists st,
    run (init w_sub w_req w_io q_sub q_req q_io up down)
        (proj t (init w_sub w_req w_io q_sub q_req q_io up down) tr) = Some st /\
    sim t s st /\
    forall t', t' <> t ->
      find_coord t' (coords st) = None /\ find_file t' (files st) = None /\
      filter (tk_of t') (tasks st) = [] /\ filter (rq_of t') (reqs st) = [] /\
      filter (up_of t') (uploads st) = [].
Proof. exact erased_state_only_t. Qed.
Print Assumptions C18_erased_state_only_t.

(** The manager stays usable: in every reachable state -- whatever failed or
    was cancelled before -- a user thread can create a new transfer and hand
    its submission task to the manager, without changing the view of any
    existing transfer. *)
Theorem C18_manager_accepts_new_transfer : forall w_sub w_req w_io q_sub q_req q_io up down s u t k,
  reachable (init w_sub w_req w_io q_sub q_req q_io up down) s ->
  is_user u = true -> find_coord t (coords s) = None ->
  0 <= k -> (forall x, In x (tasks s) -> k_id x < k) ->
  exists s1 s2,
    step s (ENewTransfer u t) = Some s1 /\
    step s1 (ESubmit u k t SSub false [] KSubmission) = Some s2 /\
    forall t', t' <> t -> same_transfer_view t' s s2.
Proof. exact manager_accepts_new_transfer. Qed.
Print Assumptions C18_manager_accepts_new_transfer.

(** (4) Non-vacuity.  [iso_trace]: transfers 0 and 1 share a manager; the
    PutObject of transfer 1 fails and transfer 1 announces failure with
    exception 7, transfer 0 succeeds.  The erased trace for transfer 0 is
    [iso_trace_0] (exactly the events of transfer 0), it runs, and transfer 0
    ends with the same coordinator (Success, no exception, done event set);
    the erased run has no coordinator for transfer 1. *)
Theorem C18_isolation_example :
  exists s st c0 c1,
    run iso_init iso_trace = Some s /\
    proj 0 iso_init iso_trace = iso_trace_0 /\
    run iso_init iso_trace_0 = Some st /\
    find_coord 0 (coords s) = Some c0 /\ c_status c0 = Success /\ c_exc c0 = None /\ c_event c0 = true /\
    find_coord 1 (coords s) = Some c1 /\ c_status c1 = Failed /\ c_exc c1 = Some 7 /\
    find_coord 0 (coords st) = Some c0 /\ find_coord 1 (coords st) = None /\
    tasks st = filter (tk_of 0) (tasks s) /\ reqs st = filter (rq_of 0) (reqs s).
Proof. exact isolation_example. Qed.
Print Assumptions C18_isolation_example.

(** The hypotheses of the frame theorem hold on the step of that run in which
    transfer 1 records its exception. *)
Theorem C18_frame_example :
  exists s1 s2 c1,
    run iso_init (firstn 45 iso_trace) = Some s1 /\
    step s1 (ESetException 3 1 7 false) = Some s2 /\
    event_transfer s1 (ESetException 3 1 7 false) = Some 1 /\
    same_transfer_view 0 s1 s2 /\
    find_coord 1 (coords s2) = Some c1 /\ c_status c1 = Failed.
Proof. exact frame_example. Qed.
Print Assumptions C18_frame_example.

(** A cancellation and a shutdown: transfer 1 is cancelled before it starts
    (its user thread announces), transfer 0 succeeds, the manager shuts down;
    the erased run for transfer 0 keeps the shutdown events and also reaches
    shutdown phase 2 with transfer 0 successful. *)
Theorem C18_isolation_example_cancel :
  exists s st c0 c1,
    run iso_init iso_trace_cancel = Some s /\
    run iso_init (proj 0 iso_init iso_trace_cancel) = Some st /\
    length (proj 0 iso_init iso_trace_cancel) = 43%nat /\
    find_coord 0 (coords s) = Some c0 /\ c_status c0 = Success /\
    find_coord 1 (coords s) = Some c1 /\ c_status c1 = Cancelled /\ c_exc c1 = Some 9 /\
    find_coord 0 (coords st) = Some c0 /\ find_coord 1 (coords st) = None /\
    shutdown_phase s = 2 /\ shutdown_phase st = 2.
Proof. exact isolation_example_cancel. Qed.
Print Assumptions C18_isolation_example_cancel.
