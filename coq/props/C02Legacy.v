(** C02, legacy front-end (S3Transfer.download_file, single and ranged).
    To be merged into the C02 property file. *)
From Coq Require Import ZArith List Bool Lia.
From S3V Require Import model.Plan model.Legacy proofs.PlanProofs proofs.LegacyProofs.
Import ListNotations.
Open Scope Z_scope.

(** Success => the destination holds exactly the object's bytes (and the temp
    file is gone): for all object sizes, thresholds, positive chunk sizes,
    attempt limits, fault scripts (any number of faults at any byte position
    on any attempt), read-size scripts, IO-queue schedules. *)
Theorem C02_legacy_exact_bytes : forall thr chunk max obj o old evs, 0 < chunk ->
  legacy_download thr chunk max obj o = (evs, DSuccess) ->
  final_fs old evs = {| temp := None; dest := Some obj |}.
Proof.
  intros thr chunk max obj o old evs Hc H.
  pose proof (legacy_download_atomic thr chunk max obj o old Hc) as A.
  rewrite H in A. now apply A.
Qed.
Print Assumptions C02_legacy_exact_bytes.

(** ... and it does succeed whenever every request sees fewer than
    max_attempts faults, all retryable, wherever in the stream they land and
    whatever the reads return (and head, IO and rename do not fail). *)
Theorem C02_legacy_retries_succeed : forall thr chunk max obj o old, 0 < chunk ->
  good_oracle max o ->
  exists evs, legacy_download thr chunk max obj o = (evs, DSuccess) /\
              final_fs old evs = {| temp := None; dest := Some obj |}.
Proof.
  intros thr chunk max obj o old Hc Hg.
  pose proof (legacy_download_good thr chunk max obj o Hg) as Hs.
  pose proof (legacy_download_atomic thr chunk max obj o old Hc) as A.
  destruct (legacy_download thr chunk max obj o) as [evs out]. cbn [snd] in Hs. subst out.
  exists evs. split; [reflexivity|now apply A].
Qed.
Print Assumptions C02_legacy_retries_succeed.

(** The core of the ranged path, on byte strings: writes each carrying the
    object's own bytes at the object's own offsets, applied in ANY order
    (retried ranges, interleaved ranges, overlapping re-deliveries), give the
    object as soon as they cover it. *)
Theorem C02_legacy_writes_any_order : forall obj ws,
  Forall (consistent obj) ws ->
  (forall p, (p < length obj)%nat -> exists w, In w ws /\ covers w p) ->
  apply_writes ws [] = obj.
Proof. exact apply_writes_all. Qed.
Print Assumptions C02_legacy_writes_any_order.

(** The ranges requested are C14's plan: range i denotes
    [i*chunk, min((i+1)*chunk, size)). *)
Theorem C02_legacy_ranges_are_the_plan : forall size chunk i,
  0 <= size -> 0 < chunk -> (i < Z.to_nat (num_parts size chunk))%nat ->
  nth i (download_ranges size chunk) (0, None) = the_range size chunk i /\
  range_interval size (the_range size chunk i) =
    (Z.of_nat i * chunk, Z.min ((Z.of_nat i + 1) * chunk) size).
Proof.
  intros size chunk i Hs Hc Hi. split; [now apply download_ranges_nth|].
  apply (part_interval_eq size chunk (Z.of_nat i) Hs Hc). lia.
Qed.
Print Assumptions C02_legacy_ranges_are_the_plan.

(** At most max_attempts get_object calls per request (the single GET; each
    range), and a non-retryable error or a success is never followed by
    another attempt. *)
Theorem C02_legacy_attempts_bounded : forall obj max,
  (forall scripts, (length (filter is_get (fst (single_get obj max scripts))) <= max)%nat) /\
  (forall r scripts, (length (fst (fst (range_loop obj r max scripts))) <= max)%nat /\
                     forallb is_get (fst (fst (range_loop obj r max scripts))) = true).
Proof.
  intros obj max. split.
  - intros scripts. pose proof (single_get_attempts obj max scripts) as H.
    destruct (single_get obj max scripts). exact H.
  - intros r scripts. split; apply range_loop_gets.
Qed.
Print Assumptions C02_legacy_attempts_bounded.

Theorem C02_legacy_fatal_not_retried :
  forall (A : Type) (run : nat -> attempt -> A * ares) fuel scripts es r j,
  retry_loop run fuel 0 scripts = (es, r) -> (j < length es)%nat ->
  snd (run j (nth j scripts ok_attempt)) <> ARetry -> S j = length es.
Proof. intros A run. exact (retry_loop_stops run). Qed.
Print Assumptions C02_legacy_fatal_not_retried.

(** Non-vacuity: two retryable faults (after 2 bytes with reads of 1 and 3
    bytes) with three attempts succeed with the exact bytes, ranged and
    single; a non-retryable get error is tried once. *)
Definition nv2_obj : bytes := [10; 11; 12; 13; 14; 15; 16; 17; 18; 19].
Definition nv2_fault (c : errcls) : attempt :=
  {| a_get := None; a_open := None; a_reads := [1; 3]; a_fail_after := Some (2, c);
     a_write_fail := None |}.
Definition nv2_oracle : doracle :=
  {| o_head_ok := true; o_single := [nv2_fault Retryable; nv2_fault Retryable];
     o_ranged := [[nv2_fault Retryable]; [nv2_fault Retryable; nv2_fault Retryable]];
     o_started := 3; o_sched := [2%nat; 1%nat; 1%nat; 0%nat; 1%nat]; o_io_open_ok := true;
     o_io_fail := None; o_rename_ok := true |}.

Example C02_legacy_nonvacuous :
  good_oracle 3 nv2_oracle /\
  (let (evs, out) := legacy_download 5 4 3 nv2_obj nv2_oracle in
   out = DSuccess /\ dest (final_fs None evs) = Some nv2_obj /\
   length (filter is_get evs) = 6%nat) /\
  (let (evs, out) := legacy_download 50 4 3 nv2_obj nv2_oracle in
   out = DSuccess /\ dest (final_fs None evs) = Some nv2_obj /\
   length (filter is_get evs) = 3%nat) /\
  snd (single_get nv2_obj 3 [{| a_get := Some Fatal; a_open := None; a_reads := [];
                                a_fail_after := None; a_write_fail := None |}]) = RFatal.
Proof.
  split.
  - unfold good_oracle. repeat split; try reflexivity.
    + exists 2%nat. split; [auto|]. split; [repeat split|].
      intros j Hj. destruct j as [|[|j]]; [| |exfalso; inversion Hj as [|? H1]; inversion H1 as [|? H2]; inversion H2];
        (repeat split; try discriminate; intros; discriminate).
    + intros i. destruct i as [|[|i]].
      * exists 1%nat. split; [auto|]. split; [repeat split|].
        intros j Hj. destruct j; [|exfalso; inversion Hj as [|? H1]; inversion H1].
        repeat split; try discriminate; intros; discriminate.
      * exists 2%nat. split; [auto|]. split; [repeat split|].
        intros j Hj. destruct j as [|[|j]]; [| |exfalso; inversion Hj as [|? H1]; inversion H1 as [|? H2]; inversion H2];
          (repeat split; try discriminate; intros; discriminate).
      * exists 0%nat. split; [auto|]. split.
        { destruct i; repeat split. }
        intros j Hj. inversion Hj.
  - vm_compute. repeat split.
Qed.
