(** C04 -- every transfer terminates: no deadlock, hang or lost wake-up.

    Three machine-checked layers, each closed by [exact]/[apply] of a lemma and
    followed by Print Assumptions:

    (1) STAGED EXECUTORS (model/Stage.v, proofs/StageProofs.v): the generative
        model of the manager's blocking structure -- user threads, submission /
        request / IO executors with >= 1 workers and >= 1 permits each, tag
        semaphores (counting and sliding window), dependency waits, the
        submission error path's wait-for-all, result() and shutdown joins --
        for EVERY finite plan forest obeying the stage discipline, EVERY
        configuration (all ones included) and EVERY schedule: some step is
        always enabled until everything has ended (progress), every step
        decreases a measure (termination), hence every maximal execution ends
        with all tasks ended, all permits back and every user call returned.
        proofs/STAGE_NOTES.md maps each blocking point of the code to the model.
    (2) RE-ENTRANT CALLBACKS (model/Coord.v): subscriber callbacks that call
        back into their own future (done, meta, set_exception, cancel, result)
        never self-deadlock when announces happen in done states -- which is
        what the protocol does (proved for Sys.v: [ann_started_done]) --; the
        pre-F2 code is refuted by witness.
    (3) NO LOST WAKE-UP (model/SemaConc.v): a sleeping acquirer of the sliding
        window semaphore always has a waker; no stuck state.

    What the models cannot exhibit (interpreter scheduling, sockets and disks,
    signals, time-outs) is explored on the real code only through the
    deterministic scheduler's deadlock / livelock detector (harness/props/c04.py). *)
From Coq Require Import ZArith List Bool Arith Lia.
From S3V Require Import model.Stage proofs.StageProofs.
From S3V Require model.Coord proofs.CoordProofs model.Sema model.SemaConc proofs.SemaProofs proofs.SemaConcProofs.
From S3V Require model.Sys proofs.SysBase proofs.SysQuiesce.
Import ListNotations.


(** Progress: while some spawned task has not ended or some user thread has
    not finished its program (result(), cancel(), shutdown() included), some
    thread can move.  No reachable state is a deadlock. *)
Theorem C04_stage_progress : forall cfg p st,
  config_ok cfg -> wf_plan p -> reachable cfg p st ->
  (exists i, live (status_of st i) = true) ->
  exists i st', i < length p /\ step cfg p st i = Some st'.
Proof. exact stage_progress. Qed.
Print Assumptions C04_stage_progress.

(** Termination: every move strictly decreases [measure] (remaining program
    steps + not yet started / ended tasks of the finite forest), so a schedule
    of length n leaves at most measure - n, and there is no infinite run. *)
Theorem C04_stage_terminates : forall cfg p st,
  wf_plan p -> reachable cfg p st ->
  (forall i st', step cfg p st i = Some st' -> measure p st' < measure p st) /\
  (forall l st', run cfg p st l = Some st' -> length l + measure p st' <= measure p st) /\
  (forall (f : nat -> state) (sched : nat -> nat), f 0 = st ->
     ~ (forall k, step cfg p (f k) (sched k) = Some (f (S k)))).
Proof. exact stage_terminates. Qed.
Print Assumptions C04_stage_terminates.

(** Together: every schedule from the initial state is at most
    [measure (init p)] long; it cannot be extended exactly when everything is
    done (every thread ended -- so result() and shutdown() returned --, every
    permit back, every worker idle, every queue empty); and it can always be
    extended to such a state.  Hence every maximal execution is finite and
    ends in [all_done]. *)
Theorem C04_stage_all_done_eventually : forall cfg p,
  config_ok cfg -> wf_plan p ->
  forall l st, run cfg p (init p) l = Some st ->
    length l <= measure p (init p) /\
    (stuck cfg p st <-> all_done p st) /\
    (exists l' st', run cfg p st l' = Some st' /\ all_done p st').
Proof. exact stage_all_done_eventually. Qed.
Print Assumptions C04_stage_all_done_eventually.

(** The configured limits hold in every reachable state of the model. *)
Theorem C04_stage_bounds : forall cfg p st, reachable cfg p st ->
  (forall m, length (hold st m) <= cap cfg m) /\
  (forall s, length (busy st s) <= workers cfg s).
Proof. exact stage_bounds. Qed.
Print Assumptions C04_stage_bounds.

(** The executable plan check implies the declarative discipline. *)
Theorem C04_stage_wf_check_sound : forall p, wf_planb p = true -> wf_plan p.
Proof. exact wf_planb_sound. Qed.
Print Assumptions C04_stage_wf_check_sound.

(** Why request tasks never submit to the request executor: with one permit
    (and one worker) a request task that submits a request task deadlocks. *)
Theorem C04_stage_same_stage_spawn_deadlocks :
  exists cfg p l st,
    config_ok cfg /\ (forall s, workers cfg s = 1) /\ (forall m, cap cfg m = 1) /\
    t_stage (tk p 2) = REQ /\ t_stage (tk p 3) = REQ /\ In 3 (spawns (t_prog (tk p 2))) /\
    run cfg p (init p) l = Some st /\
    stuck cfg p st /\
    status_of st 2 = SRun [ASpawn 3] false /\ hold st (SemStage REQ) = [2] /\
    status_of st 0 = SRun [AJoin] false /\
    ~ all_done p st.
Proof. exact stage_same_stage_spawn_deadlocks. Qed.
Print Assumptions C04_stage_same_stage_spawn_deadlocks.

(** * Non-vacuity *)

(** Example data ([all_ones], [twos], [demo]): end of proofs/StageProofs.v. *)

Example C04_stage_demo_wf : wf_plan demo.
Proof. apply wf_planb_sound. vm_compute. reflexivity. Qed.

Example C04_stage_configs_ok : config_ok all_ones /\ config_ok twos.
Proof.
  split; split; intros; cbn; try lia.
  destruct (Nat.eqb s IO); lia.
Qed.

(** The hypotheses of progress hold in a reachable state with live threads. *)
Example C04_stage_demo_progress_applies :
  reachable all_ones demo (init demo) /\
  (exists i, live (status_of (init demo) i) = true) /\
  exists i st', i < length demo /\ step all_ones demo (init demo) i = Some st'.
Proof.
  assert (Hl : exists i, live (status_of (init demo) i) = true) by (exists 0; reflexivity).
  split; [apply reach_init|]. split; [exact Hl|].
  apply stage_progress; [apply C04_stage_configs_ok|exact C04_stage_demo_wf|apply reach_init|exact Hl].
Qed.

(** Concrete complete runs under the all-ones configuration, lowest id first
    and highest id first: 86 moves each (= every thread's program, plus
    acquire / start / dependency-wait / end moves), ending stuck, hence --
    by the theorem -- with everything done. *)
Example C04_stage_demo_runs :
  let l1 := drive (first_enabled all_ones demo) all_ones demo 200 (init demo) in
  let l2 := drive (last_enabled all_ones demo) all_ones demo 200 (init demo) in
  length l1 = 86 /\ length l2 = 86 /\ l1 <> l2 /\
  (exists st, run all_ones demo (init demo) l1 = Some st /\ all_done demo st) /\
  (exists st, run all_ones demo (init demo) l2 = Some st /\ all_done demo st) /\
  measure demo (init demo) = 136.
Proof.
  assert (Hdone : forall l, match run all_ones demo (init demo) l with
                            | Some st => stuckb all_ones demo st | None => false end = true ->
                            exists st, run all_ones demo (init demo) l = Some st /\ all_done demo st).
  { intros l Hl. destruct (run all_ones demo (init demo) l) as [st|] eqn:Hrun; [|discriminate].
    exists st. split; [reflexivity|].
    destruct (stage_all_done_eventually all_ones demo (proj1 C04_stage_configs_ok)
                C04_stage_demo_wf l st Hrun) as (_ & Hiff & _).
    apply Hiff. now apply stuckb_stuck. }
  cbv zeta. split; [vm_compute; reflexivity|]. split; [vm_compute; reflexivity|].
  split; [vm_compute; discriminate|].
  split; [apply Hdone; vm_compute; reflexivity|].
  split; [apply Hdone; vm_compute; reflexivity|].
  vm_compute. reflexivity.
Qed.

(** The same plan under a larger configuration. *)
Example C04_stage_demo_twos :
  exists l st, run twos demo (init demo) l = Some st /\ all_done demo st.
Proof.
  destruct (stage_all_done_eventually twos demo (proj2 C04_stage_configs_ok)
              C04_stage_demo_wf [] (init demo) eq_refl) as (_ & _ & Hex).
  exact Hex.
Qed.

(** The sliding window really keeps a permit: holders 7, 8 of one transfer
    (acquired in that order); 8 ended first: nothing comes back; 7 ended
    first: its permit comes back; both ended: both.  With a plain semaphore
    the ended holder's permit comes back at once. *)
Example C04_stage_sliding_window :
  let same := blocks all_ones demo (SemTag 1) in
  let plain := blocks all_ones demo (SemTag 0) in
  sweep (fun x => Nat.eqb x 8) same [] [7; 8] = [7; 8] /\
  sweep (fun x => Nat.eqb x 7) same [] [7; 8] = [8] /\
  sweep (fun x => true) same [] [7; 8] = [] /\
  sweep (fun x => Nat.eqb x 8) plain [] [7; 8] = [7].
Proof. vm_compute. auto. Qed.

(** The stage discipline is what the check looks at: the deadlocking plan is rejected. *)
Example C04_stage_bad_plan_rejected : wf_planb bad_plan = false.
Proof. vm_compute. reflexivity. Qed.


(** ** (2) callbacks re-entering their own future *)
Section Reentrancy.
  Import Coord CoordProofs.
  Theorem C04_callbacks_no_self_deadlock : forall E ops s,
    along (fun s0 o r s' => is_announce_op o = true -> done s0 = true) (run E true s ops) ->
    along (fun s0 o r s' => r <> RSelfDeadlock /\ r <> RStuck) (run E true s ops).
  Proof. exact no_self_deadlock_disciplined. Qed.
End Reentrancy.
Print Assumptions C04_callbacks_no_self_deadlock.

(** the discipline holds in the protocol: whoever announces, the transfer is done *)
Theorem C04_announce_only_when_done : forall a b c d e f g h s t co,
  SysBase.reachable (Sys.init a b c d e f g h) s ->
  Sys.find_coord t (Sys.coords s) = Some co ->
  (Sys.c_ann_started co = true \/ Sys.c_announcers co <> [] \/ Sys.c_owing co <> []) ->
  Sys.is_done (Sys.c_status co) = true.
Proof.
  intros a b c d e f g h s t co Hr Hf H.
  apply (SysQuiesce.ann_started_done a b c d e f g h s t co Hr Hf).
  destruct H as [H|[H|H]]; auto.
Qed.
Print Assumptions C04_announce_only_when_done.

(** ** (3) no lost wake-up of blocked acquirers *)
Section Wakeup.
  Import Sema SemaConc SemaProofs SemaConcProofs.
  Theorem C04_no_lost_wakeup : forall cap ls c ops, (0 < cap)%Z ->
    crun (cinit cap) ls = Some (c, ops) -> wf cap ops = true ->
    quiescent (snd (grun (sw_init cap) ghost0 ops)) = true ->
    c_noti c = [] -> c_wait c = [].
  Proof. exact no_lost_wakeup. Qed.
End Wakeup.
Print Assumptions C04_no_lost_wakeup.
