(** C19 -- Process-pool downloads finish only after all jobs, with cleanup.

    Statements over every state reachable by the protocol model
    (model/Pool.v) from [init n]: any number [n] of workers, any number of
    downloads and jobs, every interleaving of user, submitter and workers and
    every fault choice (size / allocate / any GET attempt / rename).  Each
    theorem is closed by a lemma of proofs/PoolProofs.v whose core is the
    inductive invariant [Inv] ([reachable_inv]). *)
From Coq Require Import ZArith List Bool Arith Lia.
From S3V Require Import gen.Tables model.Pool proofs.PoolProofs.
Import ListNotations.

(** Whenever a job of transfer [t] is on the worker queue or in a worker's
    hands, the job count [k] was announced before (jobs_to_complete was set to
    k, k > job index) and jobs_to_complete is exactly k minus the number of
    notify_job_complete calls so far, hence still >= 1. *)
Theorem C19_count_announced_before_jobs : forall n s t i, reachable n s ->
  (In (t, i) (jobq s) \/ exists w, holds (wk s w) = Some (t, i)) ->
  exists k, announced (tr s t) = Some k /\ i < k /\
            jtc (tr s t) = (Z.of_nat k - Z.of_nat (ncounted (tr s t)))%Z /\
            ncounted (tr s t) < k /\ (1 <= jtc (tr s t))%Z.
Proof. intros n s t i HR. apply job_live_announced. exact (reachable_inv n s HR). Qed.
Print Assumptions C19_count_announced_before_jobs.

(** done => either the submitter failed before announcing / enqueuing
    anything (and recorded its exception), or all k >= 1 announced jobs were
    enqueued, dequeued and counted down (jobs_to_complete = 0), none is left on
    the queue and no worker still holds one. *)
Theorem C19_done_implies_all_jobs_accounted : forall n s t, reachable n s ->
  done (tr s t) = true ->
  (announced (tr s t) = None /\ enq (tr s t) = 0 /\ exc (tr s t) <> None /\
   (forall i, jst (tr s t) i = JNone)) \/
  (exists k, announced (tr s t) = Some k /\ 1 <= k /\ enq (tr s t) = k /\
             ncounted (tr s t) = k /\ jtc (tr s t) = 0%Z /\
             (forall i, i < k -> jst (tr s t) i = JCounted)) /\
  (forall i, ~ In (t, i) (jobq s)) /\ (forall w i, holds (wk s w) <> Some (t, i)).
Proof. intros n s t HR. apply done_accounted. exact (reachable_inv n s HR). Qed.
Print Assumptions C19_done_implies_all_jobs_accounted.

(** At most one notify_job_complete call per transfer returns 0 -- exactly one
    once all k >= 1 jobs were counted --, at most one worker is inside
    _finalize_download for it, and a done announced transfer had exactly one. *)
Theorem C19_finaliser_unique : forall n s t, reachable n s ->
  nfin (tr s t) <= 1 /\
  (nfin (tr s t) = 1 <->
   exists k, announced (tr s t) = Some k /\ 1 <= k /\ ncounted (tr s t) = k) /\
  (forall w1 w2, fins (wk s w1) = Some t -> fins (wk s w2) = Some t -> w1 = w2) /\
  (done (tr s t) = true -> announced (tr s t) <> None -> nfin (tr s t) = 1).
Proof. intros n s t HR. apply finaliser_unique_inv. exact (reachable_inv n s HR). Qed.
Print Assumptions C19_finaliser_unique.

(** done and no exception => the destination name holds the file, every job's
    range was completely written to it, and the temporary name is gone. *)
Theorem C19_done_success_file_in_place : forall n s t, reachable n s ->
  done (tr s t) = true -> exc (tr s t) = None ->
  exists k, announced (tr s t) = Some k /\ 1 <= k /\ dest (tr s t) = true /\
            temp (tr s t) = false /\ forall i, i < k -> written (tr s t) i = true.
Proof. intros n s t HR. apply done_success. exact (reachable_inv n s HR). Qed.
Print Assumptions C19_done_success_file_in_place.

(** done, and the finaliser did not see "no exception" (an exception was
    recorded before finalisation, or the submitter failed) => the temporary
    file is removed, nothing was renamed onto the destination, and the
    exception is still recorded. *)
Theorem C19_done_failure_temp_removed : forall n s t, reachable n s ->
  done (tr s t) = true -> fin_saw (tr s t) <> Some false ->
  temp (tr s t) = false /\ dest (tr s t) = false /\ exc (tr s t) <> None.
Proof. intros n s t HR. apply done_failure. exact (reachable_inv n s HR). Qed.
Print Assumptions C19_done_failure_temp_removed.

(** done with an exception recorded (at any time, also by cancel() after
    done): the temporary file is gone and either nothing was renamed, or --
    the only other outcome -- the finaliser had seen no exception, every range
    is written, the complete file is in place and the exception is a
    cancellation that arrived after the finaliser's check. *)
Theorem C19_cancel_race_states : forall n s t, reachable n s ->
  done (tr s t) = true -> exc (tr s t) <> None ->
  temp (tr s t) = false /\
  (dest (tr s t) = false \/
   (dest (tr s t) = true /\ fin_saw (tr s t) = Some false /\ exc (tr s t) = Some ECancel /\
    exists k, announced (tr s t) = Some k /\ forall i, i < k -> written (tr s t) i = true)).
Proof. intros n s t HR. apply done_exception_states. exact (reachable_inv n s HR). Qed.
Print Assumptions C19_cancel_race_states.

(** shutdown returns (at least one worker) => every download whose request
    was put on the queue is done, provided its announced job count is >= 1
    (true for multipart_threshold >= 1; see the refutation below). *)
Theorem C19_shutdown_waits_all : forall n s, reachable n s ->
  ush s = URet -> 1 <= nw s ->
  forall t, sst (tr s t) <> SNone ->
  (forall k, announced (tr s t) = Some k -> 1 <= k) ->
  done (tr s t) = true.
Proof. intros n s HR. apply shutdown_waits. exact (reachable_inv n s HR). Qed.
Print Assumptions C19_shutdown_waits_all.

(** Ctrl-C in the with-block: notify_cancel_all_in_progress records a
    cancellation for every transfer that is not done; it is never cleared
    afterwards (result() raises), and once such a transfer is done its
    temporary file is gone and the destination is untouched or complete. *)
Theorem C19_interrupt_cancels_unfinished : forall n s1 s2 l s3 t, reachable n s1 ->
  step s1 UInterrupt = Some s2 -> steps s2 l s3 ->
  t < ntr s1 -> done (tr s1 t) = false ->
  exc (tr s2 t) = Some ECancel /\
  exc (tr s3 t) <> None /\
  (done (tr s3 t) = true ->
   temp (tr s3 t) = false /\
   (dest (tr s3 t) = false \/
    (dest (tr s3 t) = true /\ fin_saw (tr s3 t) = Some false /\
     exc (tr s3 t) = Some ECancel))).
Proof.
  intros n s1 s2 l s3 t HR Hs Hl Ht Hd. split.
  - apply (interrupt_step s1 s2 Hs t Ht Hd).
  - apply (interrupt_cancels s1 s2 l s3 t (reachable_inv n s1 HR) Hs Hl Ht Hd).
Qed.
Print Assumptions C19_interrupt_cancels_unfinished.

(** Exceptions are never cleared and done is never reset by any step. *)
Theorem C19_exception_and_done_are_sticky : forall s e s' t, step s e = Some s' ->
  (exc (tr s t) <> None -> exc (tr s' t) <> None) /\
  (done (tr s t) = true -> done (tr s' t) = true).
Proof. exact step_mono. Qed.
Print Assumptions C19_exception_and_done_are_sticky.

(** With a job count of 0 (only possible with multipart_threshold <= 0 and an
    empty object) shutdown returns although the download never becomes done:
    the hypothesis of [C19_shutdown_waits_all] can not be dropped. *)
Definition zero_jobs_trace : list event :=
  [UNew 0; UPut 0; SGet (Some 0); SSize true; SAlloc true; SAnnounce 0;
   UShutSub; SGet None; UShutWorkers; W 0 (WGet None); UShutReturn].

Theorem C19_shutdown_waits_all_zero_jobs_refuted :
  exists s, reachable 1 s /\ ush s = URet /\ sst (tr s 0) <> SNone /\
            done (tr s 0) = false /\ temp (tr s 0) = true.
Proof.
  exists (fst (run 1 zero_jobs_trace)). split.
  - apply (run_reachable 1 zero_jobs_trace). vm_compute. reflexivity.
  - vm_compute. repeat split; discriminate.
Qed.
Print Assumptions C19_shutdown_waits_all_zero_jobs_refuted.

(** Non-vacuity: concrete reachable states in which the hypotheses hold. *)
Definition prefix2 : list event :=
  [UNew 0; UPut 0; SGet (Some 0); SSize true; SAlloc true; SAnnounce 2;
   SEnq 0 0; W 0 (WGet (Some (0, 0))); SEnq 0 1; W 1 (WGet (Some (0, 1)))].

Definition shutdown2 : list event :=
  [UShutSub; SGet None; UShutWorkers; W 0 (WGet None); W 1 (WGet None); UShutReturn].

(** two workers, two jobs, one retried GET: success *)
Definition success_trace : list event :=
  prefix2 ++
  [W 0 (WCheck false); W 1 (WCheck false); W 0 (WAttempt AOk); W 1 (WAttempt ARetry);
   W 1 (WAttempt AOk); W 0 (WDecr 1); W 1 (WDecr 0); W 1 (WFinChk false);
   W 1 (WRename true); W 1 WDone; UResult 0 false] ++ shutdown2.

Example C19_nonvacuous_success :
  run 2 success_trace =
    (fst (run 2 success_trace), None) /\
  observe (fst (run 2 success_trace)) =
    ([((None, true, 0%Z), (false, true, [true; true]), (2, 1))], URet).
Proof. vm_compute. split; reflexivity. Qed.

(** a fatal GET error on job 0; job 1 is skipped; the last worker removes *)
Definition failure_trace : list event :=
  prefix2 ++
  [W 0 (WCheck false); W 0 (WAttempt AFatal); W 0 WNotifyExc; W 1 (WCheck true);
   W 0 (WDecr 1); W 1 (WDecr 0); W 1 (WFinChk true); W 1 WRemove; W 1 WDone;
   UResult 0 true] ++ shutdown2.

Example C19_nonvacuous_failure :
  run 2 failure_trace = (fst (run 2 failure_trace), None) /\
  observe (fst (run 2 failure_trace)) =
    ([((Some EJob, true, 0%Z), (false, false, [false; false]), (2, 1))], URet).
Proof. vm_compute. split; reflexivity. Qed.

(** cancel() between the finaliser's check and its rename: complete file in
    place, result() raises CancelledError *)
Definition cancel_race_trace : list event :=
  prefix2 ++
  [W 0 (WCheck false); W 1 (WCheck false); W 0 (WAttempt AOk); W 1 (WAttempt AOk);
   W 0 (WDecr 1); W 1 (WDecr 0); W 1 (WFinChk false); UCancel 0;
   W 1 (WRename true); W 1 WDone; UResult 0 true] ++ shutdown2.

Example C19_nonvacuous_cancel_race :
  run 2 cancel_race_trace = (fst (run 2 cancel_race_trace), None) /\
  observe (fst (run 2 cancel_race_trace)) =
    ([((Some ECancel, true, 0%Z), (false, true, [true; true]), (2, 1))], URet).
Proof. vm_compute. split; reflexivity. Qed.

(** rename fails: the exception is recorded, then the temp file removed *)
Definition rename_fault_trace : list event :=
  [UNew 0; UPut 0; SGet (Some 0); SSize true; SAlloc true; SAnnounce 1; SEnq 0 0;
   W 0 (WGet (Some (0, 0))); W 0 (WCheck false); W 0 (WAttempt AOk); W 0 (WDecr 0);
   W 0 (WFinChk false); W 0 (WRename false); W 0 WRenExc; W 0 WRenRemove; W 0 WDone].

Example C19_nonvacuous_rename_fault :
  run 1 rename_fault_trace = (fst (run 1 rename_fault_trace), None) /\
  observe (fst (run 1 rename_fault_trace)) =
    ([((Some ERename, true, 0%Z), (false, false, [true]), (1, 1))], URun).
Proof. vm_compute. split; reflexivity. Qed.

(** Ctrl-C with one download queued and one whose allocate failed; the model
    rejects a second finaliser (event 12 of the last trace). *)
Definition interrupt_trace : list event :=
  [UNew 0; UPut 0; UNew 1; UPut 1; SGet (Some 0); SSize true; SAlloc false;
   SNotifyExc; SNotifyDone; UInterrupt; UShutSub; SGet (Some 1); SSize true;
   SAlloc true; SAnnounce 1; SEnq 1 0; SGet None; UShutWorkers;
   W 0 (WGet (Some (1, 0))); W 0 (WCheck true); W 0 (WDecr 0); W 0 (WFinChk true);
   W 0 WRemove; W 0 WDone; W 0 (WGet None); UShutReturn; UResult 1 true].

Example C19_nonvacuous_interrupt :
  run 1 interrupt_trace = (fst (run 1 interrupt_trace), None) /\
  observe (fst (run 1 interrupt_trace)) =
    ([((Some ESubmit, true, 0%Z), (false, false, []), (0, 0));
      ((Some ECancel, true, 0%Z), (false, false, [false]), (1, 1))], URet) /\
  snd (run 2 (prefix2 ++ [W 0 (WCheck false); W 0 (WAttempt AOk); W 0 (WDecr 0)])) = Some 12.
Proof. vm_compute. repeat split; reflexivity. Qed.
