(** C09 -- Progress callbacks account for exactly the transferred bytes.
    Only statements, each closed by [exact]/[apply] of lemmas from
    proofs/{Chunk,Progress,Retry,C09}Proofs.v, each followed by
    Print Assumptions. *)
From Coq Require Import ZArith List Bool Lia.
From S3V Require Import gen.Tables model.Chunk model.Progress model.Retry model.Plan
  proofs.PlanProofs proofs.ChunkProofs proofs.ProgressProofs proofs.RetryProofs
  proofs.C09Proofs.
Import ListNotations.
Open Scope Z_scope.

(** ** Upload bodies (ReadFileChunk) *)

(** General form: for every script of reads (non-negative amount or read()),
    seeks (any target, any whence, also invalid ones), tells, enable/disable
    signals and closes, run from any well-formed chunk -- provided every
    suppressed segment ends at the bounded position it began at
    ([suppressed_returns]) -- at every point of the script (every prefix) the
    sum of the emitted values is the bounded position min(amount_read, size)
    whenever reporting is enabled, and lies in [0, size] always. *)
Theorem chunk_reported_eq_bounded_pos_general : forall c anchor ops n,
  wf c -> forallb valid_op ops = true -> suppressed_returns c anchor ops -> inv c anchor 0 ->
  let c' := run_state c (firstn n ops) in
  let sum := raw_sum (run_events c (firstn n ops)) in
  (enabled c' = true -> sum = bounded_pos c') /\ 0 <= sum <= size c.
Proof. exact reported_eq_bounded_pos_general. Qed.
Print Assumptions chunk_reported_eq_bounded_pos_general.

(** The scripts botocore's request life cycle produces,
    Request := Sign.Send.(seek 0.Sign.Send)*, Sign := disable.(read|seek)*.seek 0.enable,
    Send := read* (followed by close): any number and position of rewinds,
    any read sizes, any reads and seeks while suppressed.  At every point:
    sum = min(amount_read, size) while enabled, 0 <= sum <= size throughout. *)
Theorem chunk_reported_eq_bounded_pos : forall first resends c n,
  fresh c -> valid_attempt first = true -> forallb valid_attempt resends = true ->
  let pre := firstn n (body_life first resends) in
  (enabled (run_state c pre) = true ->
     raw_sum (run_events c pre) = bounded_pos (run_state c pre)) /\
  0 <= raw_sum (run_events c pre) <= size c.
Proof. exact request_reported_eq_bounded_pos. Qed.
Print Assumptions chunk_reported_eq_bounded_pos.

(** ... and after a complete send the request has reported exactly [size]; the
    close that follows adds only the close callback (the aggregator's flush). *)
Theorem chunk_complete_send_reports_size : forall first resends c,
  fresh c -> valid_attempt first = true -> forallb valid_attempt resends = true ->
  size c <= amount_read (run_state c (request_ops first resends)) ->
  raw_sum (run_events c (request_ops first resends)) = size c /\
  run_events c (body_life first resends) = run_events c (request_ops first resends) ++ [EvClose].
Proof. exact request_complete_sum. Qed.
Print Assumptions chunk_complete_send_reports_size.

(** Request scripts satisfy the hypothesis of the general form. *)
Theorem request_scripts_are_well_suppressed : forall first resends c,
  fresh c -> valid_attempt first = true -> forallb valid_attempt resends = true ->
  forallb valid_op (body_life first resends) = true /\
  suppressed_returns c 0 (body_life first resends).
Proof. intros first resends c. apply body_life_ok. Qed.
Print Assumptions request_scripts_are_well_suppressed.

(** The hypotheses as a decision procedure: whenever [hyp_ok] answers true for a
    chunk and a script (the harness runs it, extracted, on every script it
    records from the real request life cycle) the conclusion holds. *)
Theorem chunk_reported_checked : forall c ops n,
  hyp_ok c ops = true ->
  let c' := run_state c (firstn n ops) in
  let sum := raw_sum (run_events c (firstn n ops)) in
  (enabled c' = true -> sum = bounded_pos c') /\ 0 <= sum <= size c.
Proof. exact checked_script_reports_bounded_pos. Qed.
Print Assumptions chunk_reported_checked.

(** The hypothesis is necessary: switching reporting off at position 4 and on
    again at position 0 makes a 4-byte chunk report 8. *)
Theorem suppressed_rewind_overreports :
  exists c ops, fresh c /\ forallb valid_op ops = true /\ ~ suppressed_returns c 0 ops /\
    size c < raw_sum (run_events c ops).
Proof.
  destruct suppressed_rewind_overreports_witness as (F & V & N & S & Z).
  eexists; eexists. split; [exact F|]. split; [exact V|]. split; [exact N|]. rewrite S, Z. lia.
Qed.
Print Assumptions suppressed_rewind_overreports.

(** Every send attempt -- seek(0), then reads of any positive sizes until one
    returns nothing -- made after any history of operations returns exactly
    the chunk's bytes: the k-th retry delivers what the first would. *)
Theorem chunk_send_exact : forall c0 history sizes c' out e,
  wf c0 -> closed (run_state c0 history) = false -> Forall (fun n => 0 < n) sizes ->
  send_loop (step_state (run_state c0 history) (Seek 0 0)) sizes [] = Some (c', out, e) ->
  out = chunk_bytes c0 /\ amount_read c' = size c0.
Proof. exact send_exact. Qed.
Print Assumptions chunk_send_exact.

(** Such a send always completes once the script offers more reads than bytes. *)
Theorem chunk_send_completes : forall sizes c acc,
  wf c -> closed c = false -> Forall (fun n => 0 < n) sizes ->
  amount_read c <= size c -> size c - amount_read c < Z.of_nat (length sizes) ->
  exists r, send_loop c sizes acc = Some r.
Proof. exact send_loop_total. Qed.
Print Assumptions chunk_send_completes.

(** ** The aggregator *)

(** Conservation, for every threshold: delivered + pending = raw (+ initial). *)
Theorem aggregate_conserves : forall thr es p,
  zsum (snd (agg_run thr p es)) + fst (agg_run thr p es) = p + raw_sum es.
Proof. exact agg_conserves. Qed.
Print Assumptions aggregate_conserves.

(** Bounds on the raw running sum carry over to what the subscriber sees. *)
Theorem aggregate_within : forall thr es lo hi,
  (forall n, lo <= raw_sum (firstn n es) <= hi) ->
  forall m, lo <= zsum (firstn m (subscriber_values thr es)) <= hi.
Proof. exact agg_within. Qed.
Print Assumptions aggregate_within.

(** flush() only emits when pending > 0; when the raw running sum never
    exceeded its final value nothing is lost at close. *)
Theorem aggregate_flushed_total : forall thr es,
  (forall n, raw_sum (firstn n es) <= raw_sum es) ->
  zsum (subscriber_values thr (es ++ [EvClose])) = raw_sum es.
Proof. exact agg_flushed_total. Qed.
Print Assumptions aggregate_flushed_total.

(** One upload body end to end (chunk, aggregator with any threshold, close). *)
Theorem upload_body_progress_exact : forall thr first resends c,
  fresh c -> valid_attempt first = true -> forallb valid_attempt resends = true ->
  size c <= amount_read (run_state c (request_ops first resends)) ->
  exact_for (size c) (subscriber_values thr (run_events c (body_life first resends))).
Proof. exact upload_body_exact. Qed.
Print Assumptions upload_body_progress_exact.

(** ** Downloads (GetObjectTask._main) *)

(** For every fault script, read-size script and cancellation point the
    running sum of one range stays within [0, len]; on success it is len; when
    retries run out everything was taken back.  With fewer than max_attempts
    striking faults, all retryable, the task succeeds. *)
Theorem download_progress_exact :
  forall obj start len io_chunk max_attempts faults reads done_at,
  in_object obj start len -> 1 <= io_chunk ->
  let r := run_get_full obj start len io_chunk max_attempts faults reads done_at in
  within len (g_progress r) /\
  (g_outcome r = Ok -> zsum (g_progress r) = len) /\
  (g_outcome r = RetriesExceeded -> zsum (g_progress r) = 0).
Proof. exact run_get_progress. Qed.
Print Assumptions download_progress_exact.

Theorem download_succeeds_under_max_attempts :
  forall obj start len io_chunk max_attempts faults reads,
  in_object obj start len -> 1 <= io_chunk ->
  Forall (fun f => fires f len = true -> retryable_of f = true) faults ->
  Z.of_nat (length (filter (fun f => fires f len) faults)) < max_attempts ->
  g_outcome (run_get obj start len io_chunk max_attempts faults reads) = Ok.
Proof. exact run_get_succeeds. Qed.
Print Assumptions download_succeeds_under_max_attempts.

(** At most max_attempts requests, whatever the scripts. *)
Theorem attempt_bound : forall obj start len io_chunk max_attempts faults reads done_at,
  1 <= io_chunk ->
  Z.of_nat (g_requests (run_get_full obj start len io_chunk max_attempts faults reads done_at))
    <= Z.max 0 max_attempts.
Proof. exact run_get_attempt_bound. Qed.
Print Assumptions attempt_bound.

(** A non-retryable error is never retried. *)
Theorem nonretryable_not_retried :
  forall obj start len io_chunk max_attempts pre f post reads,
  in_object obj start len -> 1 <= io_chunk ->
  Forall (fun g => fires g len = true /\ retryable_of g = true) pre ->
  fires f len = true -> retryable_of f = false -> Z.of_nat (length pre) < max_attempts ->
  let r := run_get obj start len io_chunk max_attempts (pre ++ f :: post) reads in
  g_outcome r = Raised /\ g_requests r = S (length pre).
Proof. exact run_get_nonretryable. Qed.
Print Assumptions nonretryable_not_retried.

Theorem raised_request_is_last :
  forall obj start len io_chunk max_attempts faults reads done_at,
  1 <= io_chunk ->
  let r := run_get_full obj start len io_chunk max_attempts faults reads done_at in
  g_outcome r = Raised ->
  exists i, g_requests r = S i /\ retryable_of (nth i faults NoFault) = false /\
    forall j, (j < i)%nat -> retryable_of (nth j faults NoFault) = true.
Proof. exact run_get_raised_last. Qed.
Print Assumptions raised_request_is_last.

(** On success the last attempt delivered exactly the range, contiguously
    (used again by C02). *)
Theorem download_ok_delivers_range :
  forall obj start len io_chunk max_attempts faults reads done_at,
  1 <= io_chunk ->
  let r := run_get_full obj start len io_chunk max_attempts faults reads done_at in
  g_outcome r = Ok ->
  exists pre last, g_trace r = pre ++ GReq :: last /\ requests_of last = 0%nat /\
    contiguous start (deliveries_of last) /\
    delivered_bytes (deliveries_of last) = range_bytes obj start len /\
    deliveries_of last <> [].
Proof. exact run_get_ok_deliveries. Qed.
Print Assumptions download_ok_delivers_range.

(** ** Copies *)

(** The sizes the copy plan passes to the part tasks are non-negative and add
    up to the object size (from the tiling of C14). *)
Theorem copy_progress_exact : forall mn mx mp size c plan,
  0 < mn -> mn <= mx -> 0 <= size ->
  copy_plan_with mn mx mp size c = Some plan ->
  zsum (map snd plan) = size /\ Forall (fun p => 0 <= snd p) plan.
Proof. exact copy_plan_sizes_sum. Qed.
Print Assumptions copy_progress_exact.

(** The same sums for the other two kinds of plan. *)
Theorem plan_sizes_sum : forall size ps, 0 <= size -> 0 < ps ->
  zsum (map (fun i => Z.min ps (size - i * ps)) (zseq 0 (Z.to_nat (num_parts size ps)))) = size /\
  zsum (map (fun r => interval_len (range_interval size r)) (download_ranges size ps)) = size.
Proof. intros size ps Hs Hp. split; [now apply upload_sizes_sum|now apply download_sizes_sum]. Qed.
Print Assumptions plan_sizes_sum.

(** ** C09: the parts of a transfer, interleaved in any way *)

(** Sums commute: parts that each keep their running sum within their size
    (and end exactly at it), interleaved arbitrarily, keep the transfer's
    running sum within [0, sum of the sizes] (and end exactly at it). *)
Theorem C09 : forall ls sizes out,
  Forall2 (fun l n => exact_for n l) ls sizes -> interleaving ls out ->
  exact_for (zsum sizes) out.
Proof. exact interleaved_exact. Qed.
Print Assumptions C09.

Theorem C09_within : forall ls sizes out,
  Forall2 (fun l n => within n l) ls sizes -> interleaving ls out ->
  within (zsum sizes) out.
Proof. exact interleaved_within. Qed.
Print Assumptions C09_within.

(** Uploads, single- and multi-part: one chunk + aggregator per part. *)
Theorem C09_upload : forall thr parts out,
  Forall up_ok parts -> interleaving (map (up_values thr) parts) out ->
  exact_for (zsum (map up_size parts)) out.
Proof. exact upload_parts_exact. Qed.
Print Assumptions C09_upload.

Theorem C09_upload_within : forall thr parts out,
  Forall up_scripted parts -> interleaving (map (up_values thr) parts) out ->
  within (zsum (map up_size parts)) out.
Proof. exact upload_parts_within. Qed.
Print Assumptions C09_upload_within.

(** Downloads, single GET or ranged. *)
Theorem C09_download : forall obj parts out,
  Forall (gp_ok obj) parts ->
  interleaving (map (fun p => g_progress (gp_result obj p)) parts) out ->
  exact_for (zsum (map gp_len parts)) out.
Proof. exact download_parts_exact. Qed.
Print Assumptions C09_download.

Theorem C09_download_within : forall obj parts out,
  Forall (gp_scripted obj) parts ->
  interleaving (map (fun p => g_progress (gp_result obj p)) parts) out ->
  within (zsum (map gp_len parts)) out.
Proof. exact download_parts_within. Qed.
Print Assumptions C09_download_within.

(** Copies, single request or multipart. *)
Theorem C09_copy : forall mn mx mp size c plan out,
  0 < mn -> mn <= mx -> 0 <= size ->
  copy_plan_with mn mx mp size c = Some plan ->
  interleaving (map (fun p => copy_progress (snd p)) plan) out ->
  exact_for size out.
Proof. exact copy_parts_exact. Qed.
Print Assumptions C09_copy.

Theorem C09_copy_single : forall size, 0 <= size -> exact_for size (copy_progress size).
Proof. exact copy_single_exact. Qed.
Print Assumptions C09_copy_single.

(** ** Non-vacuity *)

(** A 4-byte chunk at offset 1 of a 6-byte file; the signer reads, seeks
    relative to the position and to the end, reads again; the first send is cut
    after 3 bytes, the second after 2, the third completes.  Threshold 2. *)
Example C09_upload_nonvacuous :
  up_ok ex_part /\ hyp_ok ex_chunk (body_life ex_first ex_resends) = true /\
  map ev_value (run_events ex_chunk (body_life ex_first ex_resends)) =
    [3; -3; 1; 1; -2; 2; 2; 0] /\
  up_values 2 ex_part = [3; 1] /\
  exact_for 4 (up_values 2 ex_part).
Proof.
  split; [exact ex_part_ok|]. split; [vm_compute; reflexivity|].
  split; [vm_compute; reflexivity|]. split; [vm_compute; reflexivity|].
  apply (upload_body_progress_exact 2 ex_first ex_resends ex_chunk); apply ex_part_ok.
Qed.

(** Range [2,7) of a 10-byte object, 2-byte io chunks, a retryable fault after
    3 bytes, then a retryable fault on the request, then success. *)
Example C09_download_nonvacuous :
  gp_ok ex_obj ex_get /\
  g_progress (gp_result ex_obj ex_get) = [1; 2; -3; 2; 2; 1] /\
  g_requests (gp_result ex_obj ex_get) = 3%nat /\
  g_attempts (gp_result ex_obj ex_get) =
    [[(2, [2]); (3, [3; 4])]; []; [(2, [2; 3]); (4, [4; 5]); (6, [6])]].
Proof. split; [exact ex_get_ok|]. vm_compute. repeat split. Qed.

Example C09_copy_nonvacuous :
  copy_plan_with 2 9 4 10 3 = Some [(1, (0, Some 2), 3); (2, (3, Some 5), 3); (3, (6, Some 8), 3); (4, (9, Some 9), 1)] /\
  interleaving [[3]; [3]; [3]; [1]] [3; 1; 3; 3].
Proof.
  split; [vm_compute; reflexivity|].
  apply (il_pick [] 3 [] [[3]; [3]; [1]]). apply (il_pick [[]; [3]; [3]] 1 [] []).
  apply (il_pick [[]] 3 [] [[3]; []]). apply (il_pick [[]; []] 3 [] [[]]).
  apply il_done. repeat constructor.
Qed.
