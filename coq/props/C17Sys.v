(** C17 (system level) -- the first failure or cancellation recorded is the one
    reported: later ones do not overwrite it; only successful completion of
    the final step, or an explicit set_exception with override on a finished
    future, replaces it.

    Statements only, over the protocol model model/Sys.v; each is closed by
    [exact] of a lemma of proofs/SysFirstFailure.v and followed by
    Print Assumptions.  (The class-level version is props/C17.v over
    model/Coord.v.)

    Reading guide.
    - The outcome of transfer [t] in state [s] is the coordinator
      [find_coord t (coords s) = Some c]: [c_status c] and the stored
      exception [c_exc c : option Z] ([Some x] = exception x recorded).
      [failedish st] = st is Failed or Cancelled; [is_done st] = Success,
      Failed or Cancelled.  In every reachable state an exception is stored
      iff the status is Failed / Cancelled (cinv, proofs/SysCoordInv.v).
    - Four kinds of event write status / exception; every other event keeps
      both for every transfer ([step_nonwriter] in the proofs file):
      * [ESetResult k]  -- the final task [k], inside its main, calls
        set_result: coordinator of [k_t k] := (Success, None).  The guard
        does NOT look at the coordinator's status (the real set_result is
        unconditional), so it replaces a failure / cancellation recorded
        while the final task was already inside its main.
      * [ESetException a t x ov] -- := (Failed, Some x) iff the coordinator
        is not done or [ov = true]; on a done coordinator with [ov = false]
        the event is accepted and changes NOTHING.
      * [ECancel a t x] -- := (Cancelled, Some x) iff not done; on a done
        coordinator accepted and changes NOTHING.
      * [EStatus k _ true] -- queued / running, only when not done; keeps the
        stored exception.
    - [replaces s t e] (the events that legitimately replace a recorded
      outcome of [t]; the task table of [s] is only used to say which
      transfer a task belongs to, and that never changes, so in the run
      theorems it is read in the final state):
        e = ESetResult k  with  find_task k (tasks s) = Some x, k_t x = t,  or
        e = ESetException a t y true   (any a, y).
    - Who may perform them (theorem [C17Sys_override_enabled_iff], an iff):
      [ESetException a t x true] is enabled exactly when the actor is not
      busy, the coordinator of [t] exists and IS DONE, and the actor is either
      ANY user thread (actor id < 0 -- the model puts no further condition on
      which user thread: TransferFuture.set_exception is public API on a done
      future) or a task OF [t] that is in its main / done-callback phase or is
      running a cleanup / done callback of [t].  A task of another transfer
      or an unknown non-negative actor can never do it.  With [ov = true] on a
      coordinator that is not done the event is rejected.  [ov = false] is
      only performed by a task of [t] whose main raised, or by the submission
      task's except-branch ([C17Sys_failure_recorder]); never by a user. *)
From Coq Require Import ZArith List Bool Lia.
From S3V Require Import model.Sys proofs.SysBase proofs.SysCoordInv proofs.SysFirstFailure.
Import ListNotations.
Open Scope Z_scope.

(** (1) One step of a reachable state.  If transfer [t] stores exception [x]
    and after the step stores something else (or nothing), the event is the
    final task's set_result (outcome becomes Success, no exception) or a
    set_exception for [t] with override = true (outcome becomes Failed with
    the new exception).  In particular it is neither
    [ESetException _ t _ false] nor [ECancel _ t _]. *)
Theorem C17Sys_first_failure_step :
  forall w_sub w_req w_io q_sub q_req q_io up down s e s' t c c' x,
  reachable (init w_sub w_req w_io q_sub q_req q_io up down) s ->
  step s e = Some s' ->
  find_coord t (coords s) = Some c -> find_coord t (coords s') = Some c' ->
  c_exc c = Some x -> c_exc c' <> Some x ->
  (exists k y, e = ESetResult k /\ find_task k (tasks s) = Some y /\ k_t y = t /\
               k_final y = true /\ k_st y = TMain /\ c_status c' = Success /\ c_exc c' = None) \/
  (exists a x', e = ESetException a t x' true /\ c_status c' = Failed /\ c_exc c' = Some x').
Proof. exact first_failure_step. Qed.
Print Assumptions C17Sys_first_failure_step.

(** (1') A later failure (override = false) or a cancellation of a transfer
    that already stores an exception is accepted by the model and leaves the
    coordinator of [t] entirely unchanged (every field, not only the
    exception). *)
Theorem C17Sys_later_failure_ignored :
  forall w_sub w_req w_io q_sub q_req q_io up down s e s' t c c' x,
  reachable (init w_sub w_req w_io q_sub q_req q_io up down) s ->
  step s e = Some s' ->
  find_coord t (coords s) = Some c -> find_coord t (coords s') = Some c' ->
  c_exc c = Some x ->
  (exists a y, e = ESetException a t y false) \/ (exists a y, e = ECancel a t y) ->
  c' = c.
Proof. exact later_failure_ignored. Qed.
Print Assumptions C17Sys_later_failure_ignored.

(** (1'') The same step analysis for ANY state (no reachability, no
    invariant): the complete list of ways the stored exception of [t] can
    change.  The third case (a first failure / cancellation being recorded)
    needs a coordinator that is not done, which in reachable states stores no
    exception. *)
Theorem C17Sys_exc_change_cases : forall s e s' t c c',
  step s e = Some s' -> find_coord t (coords s) = Some c -> find_coord t (coords s') = Some c' ->
  c_exc c' <> c_exc c ->
  (exists k x, e = ESetResult k /\ find_task k (tasks s) = Some x /\ k_t x = t /\
               k_final x = true /\ k_st x = TMain /\ c_status c' = Success /\ c_exc c' = None) \/
  (exists a y, e = ESetException a t y true /\ c_status c' = Failed /\ c_exc c' = Some y) \/
  (is_done (c_status c) = false /\
   exists a y, (e = ESetException a t y false /\ c_status c' = Failed \/
                e = ECancel a t y /\ c_status c' = Cancelled) /\ c_exc c' = Some y).
Proof. exact step_exc_change_cases. Qed.
Print Assumptions C17Sys_exc_change_cases.

(** (2) Runs.  In every run from the initial state, split as tr1 ++ tr2: if
    [t] stores exception [x] after tr1 and something else (or nothing) at the
    end, then tr2 contains a replacing event for [t]. *)
Theorem C17Sys_first_failure_run :
  forall w_sub w_req w_io q_sub q_req q_io up down tr1 tr2 s1 s t c1 c x,
  run (init w_sub w_req w_io q_sub q_req q_io up down) tr1 = Some s1 ->
  run (init w_sub w_req w_io q_sub q_req q_io up down) (tr1 ++ tr2) = Some s ->
  find_coord t (coords s1) = Some c1 -> c_exc c1 = Some x ->
  find_coord t (coords s) = Some c -> c_exc c <> Some x ->
  exists e, In e tr2 /\ replaces s t e.
Proof. exact first_failure_run. Qed.
Print Assumptions C17Sys_first_failure_run.

(** (2')+(3) The first failure is the one reported.  If [t] stores exception
    [x] after tr1 (then it is failed or cancelled) and tr2 contains no
    replacing event for [t] -- whatever else it contains: further failures of
    other tasks of [t], cancel() calls from any thread, anything of other
    transfers -- then at the end the coordinator of [t] still exists, its
    status is unchanged (still the same one of Failed / Cancelled) and the
    stored exception is still [x]. *)
Theorem C17Sys_first_failure_reported :
  forall w_sub w_req w_io q_sub q_req q_io up down tr1 tr2 s1 s t c1 x,
  run (init w_sub w_req w_io q_sub q_req q_io up down) tr1 = Some s1 ->
  run (init w_sub w_req w_io q_sub q_req q_io up down) (tr1 ++ tr2) = Some s ->
  find_coord t (coords s1) = Some c1 -> c_exc c1 = Some x ->
  (forall e, In e tr2 -> ~ replaces s t e) ->
  failedish (c_status c1) = true /\
  exists c, find_coord t (coords s) = Some c /\ c_status c = c_status c1 /\ c_exc c = Some x.
Proof. exact first_failure_reported. Qed.
Print Assumptions C17Sys_first_failure_reported.

(** (3) in general: from ANY state (reachable or not) in which [t] is done
    (Success, Failed or Cancelled), a run without replacing events for [t]
    keeps both the status and the stored exception of [t]. *)
Theorem C17Sys_outcome_stable : forall s tr s' t c,
  run s tr = Some s' -> find_coord t (coords s) = Some c -> is_done (c_status c) = true ->
  (forall e, In e tr -> ~ replaces s' t e) ->
  exists c', find_coord t (coords s') = Some c' /\ c_status c' = c_status c /\ c_exc c' = c_exc c.
Proof. exact outcome_stable_run. Qed.
Print Assumptions C17Sys_outcome_stable.

(** the same with each event judged in the state where it is performed *)
Theorem C17Sys_outcome_stable_local : forall s tr s' t c,
  run s tr = Some s' -> find_coord t (coords s) = Some c -> is_done (c_status c) = true ->
  (forall tra e trb sa, tr = tra ++ e :: trb -> run s tra = Some sa -> ~ replaces sa t e) ->
  exists c', find_coord t (coords s') = Some c' /\ c_status c' = c_status c /\ c_exc c' = c_exc c.
Proof. exact outcome_stable_run_local. Qed.
Print Assumptions C17Sys_outcome_stable_local.

(** (4) Who can replace.  [ESetException a t x true] is enabled iff ... (see
    the reading guide).  Note the left disjunct: ANY user thread. *)
Theorem C17Sys_override_enabled_iff : forall s a t x,
  (exists s', step s (ESetException a t x true) = Some s') <->
  busy s a = false /\
  exists c, find_coord t (coords s) = Some c /\ is_done (c_status c) = true /\
    (is_user a = true \/
     exists k, find_task a (tasks s) = Some k /\ k_t k = t /\
               (in_callback s a t || acting_task s a t) = true).
Proof. exact override_enabled_iff. Qed.
Print Assumptions C17Sys_override_enabled_iff.

(** [ESetResult k] is performed only by a final task inside its main that is
    not busy; it sets the coordinator of its own transfer to (Success, None)
    whatever its status was, and touches no other coordinator. *)
Theorem C17Sys_set_result : forall s k s',
  step s (ESetResult k) = Some s' ->
  exists x, find_task k (tasks s) = Some x /\ k_final x = true /\ k_st x = TMain /\ busy s k = false /\
    forall t c c', find_coord t (coords s) = Some c -> find_coord t (coords s') = Some c' ->
      (t = k_t x /\ c' = c_with c Success None) \/ (t <> k_t x /\ c' = c).
Proof. exact step_set_result. Qed.
Print Assumptions C17Sys_set_result.

(** a failure (override = false) is recorded only by a task of the transfer:
    one whose main raised, or the submission task in its except-branch *)
Theorem C17Sys_failure_recorder : forall s a t x s',
  step s (ESetException a t x false) = Some s' ->
  busy s a = false /\ is_user a = false /\
  exists k, find_task a (tasks s) = Some k /\ k_t k = t /\
    (k_st k = TFailed \/ (k_st k = TMain /\ k_kind k = KSubmission /\ k_phase k < 3)).
Proof. exact nonoverride_guard. Qed.
Print Assumptions C17Sys_failure_recorder.

(** (5) Non-vacuity.  [ff_prefix]: an upload whose two part tasks run
    concurrently; task 1 fails with exception 7 (recorded), task 2's main
    raises.  Then task 2's set_exception(8) (override = false) and a user
    cancel (exception 9) are both ENABLED and leave the coordinator exactly
    as it was: Failed with 7. *)
Theorem C17Sys_example_later_ignored :
  exists s1 s2 s3 c,
    run ff_init ff_prefix = Some s1 /\
    find_coord 0 (coords s1) = Some c /\ c_status c = Failed /\ c_exc c = Some 7 /\
    step s1 (ESetException 2 0 8 false) = Some s2 /\
    step s2 (ECancel (-1) 0 9) = Some s3 /\
    find_coord 0 (coords s2) = Some c /\ find_coord 0 (coords s3) = Some c.
Proof. exact ff_later_ignored. Qed.
Print Assumptions C17Sys_example_later_ignored.

(** after the same events, the user's set_exception(8) with override = true
    replaces 7 by 8 *)
Theorem C17Sys_example_override_replaces :
  exists s c,
    run ff_init (ff_prefix ++ [ESetException 2 0 8 false; ECancel (-1) 0 9;
                               ESetException (-1) 0 8 true]) = Some s /\
    find_coord 0 (coords s) = Some c /\ c_status c = Failed /\ c_exc c = Some 8.
Proof. exact ff_override_replaces. Qed.
Print Assumptions C17Sys_example_override_replaces.

(** [ff_result_trace]: the user cancels (exception 7) while the final task is
    inside its main; the final task's set_result then replaces the
    cancellation: Success, no exception *)
Theorem C17Sys_example_result_replaces :
  exists s1 c1 s c,
    run ff_init ff_result_trace = Some s1 /\
    find_coord 0 (coords s1) = Some c1 /\ c_status c1 = Cancelled /\ c_exc c1 = Some 7 /\
    step s1 (ESetResult 1) = Some s /\
    find_coord 0 (coords s) = Some c /\ c_status c = Success /\ c_exc c = None.
Proof. exact ff_result_replaces. Qed.
Print Assumptions C17Sys_example_result_replaces.
