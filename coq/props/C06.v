(** C06 -- file downloads are published atomically and leave no temporary
    files (TransferManager part; legacy and process pool: C06Legacy.v, C19.v).
    Statements over every state reachable in the protocol model [model/Sys.v];
    each is closed by a lemma of proofs/SysFiles.v and followed by
    Print Assumptions.

    Reading guide.  [find_file t (files s)] is the record of the temporary file
    of the path download [t] (created by the first write: DeferredOpenFile);
    [f_exists]: the temporary name exists; [f_renamed]: the file has been
    published under the destination name.  The destination is represented by
    [f_renamed] alone: the model has NO event that touches the destination
    other than [EFs a t FRename] (F1 shows that only it sets the flag), so
    "nothing ever writes under the destination name except one atomic rename"
    is a statement about that single event.  [published s t] / [temp_exists s t]
    / [writes_of s t] read the record (false / false / 0 without a record).
    [EFs a t op]: actor [a] performs [op] on the temp file of [t]; FOpen/FWrite
    need an IO write task of [t] inside its main, FClose the IO final task or
    the thread running the failure cleanups, FRename the IO final task inside
    its main, FRemove the cleanup thread.  [w_io = 1]: the IO executor has one
    worker (IOTaskExecutor: max_workers = 1). *)
From Coq Require Import ZArith List Bool Lia.
From S3V Require Import model.Sys proofs.SysBase proofs.SysCoord proofs.SysCoordInv proofs.SysTask proofs.SysQuiesce proofs.SysFiles.
Import ListNotations.
Open Scope Z_scope.

(* ------------------------------------------------------------------ *)
(** * F1  dest_published_only_by_rename *)

(** Any state: the only event that publishes is FRename, performed by a task
    of kind KIOFinal of that transfer, inside its main and not inside a
    request / child submission. *)
Theorem C06_published_only_by_rename :
  forall s e s' t, step s e = Some s' -> published s t = false -> published s' t = true ->
  exists a F, e = EFs a t FRename /\ busy s a = false /\
    find_task a (tasks s) = Some F /\ k_t F = t /\ k_st F = TMain /\ k_kind F = KIOFinal.
Proof. exact publish_only_by_rename. Qed.
Print Assumptions C06_published_only_by_rename.

(** Every task of kind KIOFinal is a final task ... *)
Theorem C06_iofinal_is_final :
  forall w_sub w_req w_io q_sub q_req q_io up down s,
  reachable (init w_sub w_req w_io q_sub q_req q_io up down) s ->
  forall k x, find_task k (tasks s) = Some x -> k_kind x = KIOFinal -> k_final x = true.
Proof. exact iofinal_final_reachable. Qed.
Print Assumptions C06_iofinal_is_final.

(** ... and a transfer has at most one final task. *)
Theorem C06_final_task_unique :
  forall w_sub w_req w_io q_sub q_req q_io up down s k1 x1 k2 x2,
  reachable (init w_sub w_req w_io q_sub q_req q_io up down) s ->
  find_task k1 (tasks s) = Some x1 -> find_task k2 (tasks s) = Some x2 ->
  k_final x1 = true -> k_final x2 = true -> k_t x1 = k_t x2 -> k1 = k2.
Proof. exact final_task_unique. Qed.
Print Assumptions C06_final_task_unique.

(** At most one rename ever; a renamed temp file neither exists nor is open. *)
Theorem C06_renames_at_most_one :
  forall w_sub w_req w_io q_sub q_req q_io up down s t f,
  reachable (init w_sub w_req w_io q_sub q_req q_io up down) s -> find_file t (files s) = Some f ->
  f_renames f = (if f_renamed f then 1 else 0) /\ f_renames f <= 1 /\
  (f_renamed f = true -> f_exists f = false /\ f_open f = false).
Proof. exact renames_at_most_one. Qed.
Print Assumptions C06_renames_at_most_one.

(* ------------------------------------------------------------------ *)
(** * F2  rename_after_all_writes *)

(** At the rename every IO write task of the transfer has run its main to
    normal completion (not skipped, not failed) and is past it. *)
Theorem C06_all_writes_done_at_rename :
  forall w_sub w_req q_sub q_req q_io up down, 0 <= w_sub -> 0 <= w_req ->
  forall s a t s',
  reachable (init w_sub w_req 1 q_sub q_req q_io up down) s -> step s (EFs a t FRename) = Some s' ->
  forall k x, find_task k (tasks s) = Some x -> k_t x = t -> k_kind x = KIOWrite ->
    past_main (k_st x) = true /\ k_main_ok x = true /\ k_skipped x = false /\ k_ran_main x = true.
Proof. exact all_writes_done_at_rename. Qed.
Print Assumptions C06_all_writes_done_at_rename.

(** At the rename every other task of the transfer (submission task excepted)
    is not yet picked by a worker or past its main. *)
Theorem C06_settled_at_rename :
  forall w_sub w_req q_sub q_req q_io up down s a t s',
  reachable (init w_sub w_req 1 q_sub q_req q_io up down) s -> step s (EFs a t FRename) = Some s' ->
  forall k x, find_task k (tasks s) = Some x -> k_t x = t -> k_kind x <> KSubmission -> k <> a ->
    k_st x = TSubmitting \/ k_st x = TQueued \/ past_main (k_st x) = true.
Proof. exact settled_at_rename. Qed.
Print Assumptions C06_settled_at_rename.

(** Once published -- now and in every continuation [tr] -- no IO write task
    of the transfer is in (or about to enter) its main, FWrite and FOpen are
    rejected, and the number of writes received is frozen. *)
Theorem C06_rename_after_all_writes :
  forall w_sub w_req q_sub q_req q_io up down s t,
  reachable (init w_sub w_req 1 q_sub q_req q_io up down) s -> published s t = true ->
  (forall k x, find_task k (tasks s) = Some x -> k_t x = t -> k_kind x = KIOWrite ->
     k_st x <> TReady /\ k_st x <> TMain) /\
  (forall a, step s (EFs a t FWrite) = None) /\ (forall a, step s (EFs a t FOpen) = None) /\
  forall tr s2, run s tr = Some s2 ->
    published s2 t = true /\ writes_of s2 t = writes_of s t /\
    (forall k x, find_task k (tasks s2) = Some x -> k_t x = t -> k_kind x = KIOWrite ->
       k_st x <> TReady /\ k_st x <> TMain) /\
    (forall a, step s2 (EFs a t FWrite) = None) /\ (forall a, step s2 (EFs a t FOpen) = None).
Proof. exact rename_after_all_writes. Qed.
Print Assumptions C06_rename_after_all_writes.

(* ------------------------------------------------------------------ *)
(** * F3  no_temp_when_done *)

(** Success.  [final_is_iofinal s t]: the final task of [t] is of kind KIOFinal
    (for a download it is the task built by get_final_io_task; no guard of the
    model ties the kind of a transfer's final task to its other tasks, hence
    the hypothesis).  Then a successful transfer has published its file and no
    temp file exists. *)
Theorem C06_no_temp_on_success :
  forall w_sub w_req q_sub q_req q_io up down s t c,
  reachable (init w_sub w_req 1 q_sub q_req q_io up down) s ->
  find_coord t (coords s) = Some c -> c_status c = Success -> final_is_iofinal s t ->
  temp_exists s t = false /\
  (forall f, find_file t (files s) = Some f -> f_renamed f = true /\ f_exists f = false /\ f_open f = false).
Proof. exact no_temp_on_success. Qed.
Print Assumptions C06_no_temp_on_success.

(** Any outcome, at and after [c_event c = true] (result() unblocked): a
    leftover temp file was never renamed nor removed; a renamed or removed temp
    file does not exist; in every continuation the file is frozen ([frozen]:
    same published flag, same writes, same rename count, an absent temp stays
    absent, a removed one stays removed) -- only the cleanup thread's
    close/remove can still act. *)
Theorem C06_no_temp_when_done_partial :
  forall w_sub w_req q_sub q_req q_io up down s t c,
  reachable (init w_sub w_req 1 q_sub q_req q_io up down) s ->
  find_coord t (coords s) = Some c -> c_event c = true ->
  (forall f, find_file t (files s) = Some f -> f_exists f = true ->
     f_renamed f = false /\ f_removed f = false /\ f_renames f = 0) /\
  (forall f, find_file t (files s) = Some f -> f_renamed f = true \/ f_removed f = true ->
     f_exists f = false) /\
  (forall tr s2, run s tr = Some s2 ->
     file_frozen s s2 t /\ (temp_exists s t = false -> temp_exists s2 t = false)).
Proof. exact no_temp_when_done_partial. Qed.
Print Assumptions C06_no_temp_when_done_partial.

(** Failure / cancel.  When the event is set under a non-success status the
    announcer has completed its cleanup phase (every registered cleanup run:
    C05); IF that phase contained the remove ([EFs b t FRemove] in the trace)
    then no temp file exists at the event nor ever after.  The model does not
    force the remove to be among the cleanups run (cleanup ids are abstract):
    see [C06_no_temp_on_failure_refuted]. *)
Theorem C06_no_temp_on_failure_partial :
  forall w_sub w_req q_sub q_req q_io up down tr s a t s' c,
  run (init w_sub w_req 1 q_sub q_req q_io up down) tr = Some s -> step s (EEventSet a t) = Some s' ->
  find_coord t (coords s) = Some c -> c_status c <> Success ->
  In (ECleanupsEnd a t) tr /\
  ((exists b, In (EFs b t FRemove) tr) ->
   forall tr2 s2, run s' tr2 = Some s2 -> temp_exists s2 t = false).
Proof. exact no_temp_on_failure_partial. Qed.
Print Assumptions C06_no_temp_on_failure_partial.

(** Whenever the cleanup thread performed the remove, no temp file exists. *)
Theorem C06_remove_cleanup_no_temp :
  forall w_sub w_req q_sub q_req q_io up down tr s,
  run (init w_sub w_req 1 q_sub q_req q_io up down) tr = Some s ->
  forall a t, In (EFs a t FRemove) tr ->
  temp_exists s t = false /\ exists c, find_coord t (coords s) = Some c /\ c_ann_started c = true.
Proof. exact remove_cleanup_no_temp. Qed.
Print Assumptions C06_remove_cleanup_no_temp.

(* ------------------------------------------------------------------ *)
(** * F4  failure_keeps_dest *)

(** Once an announce has begun (or a canceller owes one, or the event is set,
    or the cleanups run) for a transfer whose file is not published, it is
    never published: the previous content of the destination stays. *)
Theorem C06_failure_keeps_dest :
  forall w_sub w_req q_sub q_req q_io up down s t c,
  reachable (init w_sub w_req 1 q_sub q_req q_io up down) s -> find_coord t (coords s) = Some c ->
  c_ann_started c = true \/ c_owing c <> [] \/ c_event c = true \/ c_cl_runner c <> None ->
  published s t = false ->
  forall tr s2, run s tr = Some s2 -> published s2 t = false.
Proof. exact failure_keeps_dest. Qed.
Print Assumptions C06_failure_keeps_dest.

(** and nothing but the cleanup thread touches the temp file from then on *)
Theorem C06_done_file_frozen :
  forall w_sub w_req q_sub q_req q_io up down s t c,
  reachable (init w_sub w_req 1 q_sub q_req q_io up down) s -> find_coord t (coords s) = Some c ->
  c_ann_started c = true \/ c_owing c <> [] \/ c_event c = true \/ c_cl_runner c <> None ->
  forall tr s2, run s tr = Some s2 -> file_frozen s s2 t.
Proof. exact done_file_frozen. Qed.
Print Assumptions C06_done_file_frozen.

(* ------------------------------------------------------------------ *)
(** * F5  cancel_old_or_complete *)

(** At every reachable state, whatever the status: the destination is
    unpublished, or published with every IO write task's main completed. *)
Theorem C06_cancel_old_or_complete :
  forall w_sub w_req q_sub q_req q_io up down, 0 <= w_sub -> 0 <= w_req ->
  forall s t,
  reachable (init w_sub w_req 1 q_sub q_req q_io up down) s ->
  published s t = false \/
  (published s t = true /\
   forall k x, find_task k (tasks s) = Some x -> k_t x = t -> k_kind x = KIOWrite ->
     past_main (k_st x) = true /\ k_main_ok x = true /\ k_skipped x = false /\ k_ran_main x = true).
Proof. exact cancel_old_or_complete. Qed.
Print Assumptions C06_cancel_old_or_complete.

(* ------------------------------------------------------------------ *)
(** * Non-vacuity: two real runs of the manager (harness/sched, chooser
    "first": a ranged download of 10 bytes to a path, 3 GetObject tasks, 5 IO
    writes, IORenameFileTask), replayed from [init 1 2 1 10 10 10 2 2]. *)
Definition c06_ok_trace : list event :=
  [ENewTransfer (-1) 0;
   EAddCallback (-1) 0 1;
   EAddCallback (-1) 0 2;
   ESubmit (-1) 0 0 SSub false [] 0;
   EAcquire (-1) 0 0;
   EEnqueue (-1) 0;
   ETaskStart 0;
   EDepsDone 0;
   EDoneCheck 0 false;
   EMainBegin 0;
   EStatus 0 false true;
   EOnQueued 0;
   EStatus 0 true true;
   ES3Begin 0 0 OpHead 0 0;
   ES3Effect 0 0;
   ES3End 0 true;
   EAddCleanup 0 0 3;
   EAddCleanup 0 0 4;
   ECount 0 0 0;
   ESubmit 0 1 0 SReq false [] 5;
   EAcquire 0 1 1;
   EEnqueue 0 1;
   EAssoc 0 1;
   ECount 0 0 0;
   ESubmit 0 2 0 SReq false [] 5;
   EAcquire 0 2 1;
   EEnqueue 0 2;
   EAssoc 0 2;
   ECount 0 0 0;
   ESubmit 0 3 0 SReq false [] 5;
   EAcquire 0 3 1;
   EEnqueue 0 3;
   EAssoc 0 3;
   ECount 0 0 2;
   EMainEnd 0 true;
   ETaskEnd 0;
   ERelease 0;
   ETaskStart 1;
   EDepsDone 1;
   EDoneCheck 1 false;
   EMainBegin 1;
   ES3Begin 1 1 OpGet 0 0;
   ES3Effect 1 0;
   ES3End 1 true;
   EOnProgress 1 0;
   ESubmit 1 4 0 SIO false [] 6;
   EAcquire 1 4 2;
   EEnqueue 1 4;
   EAssoc 1 4;
   EOnProgress 1 0;
   ESubmit 1 5 0 SIO false [] 6;
   EAcquire 1 5 2;
   EEnqueue 1 5;
   EAssoc 1 5;
   EMainEnd 1 true;
   ECount 1 0 1;
   ETaskEnd 1;
   ERelease 1;
   EDissoc 1;
   ETaskStart 2;
   EDepsDone 2;
   EDoneCheck 2 false;
   EMainBegin 2;
   ES3Begin 2 2 OpGet 0 0;
   ES3Effect 2 0;
   ES3End 2 true;
   EOnProgress 2 0;
   ESubmit 2 6 0 SIO false [] 6;
   ETaskStart 3;
   EDepsDone 3;
   EDoneCheck 3 false;
   EMainBegin 3;
   ES3Begin 3 3 OpGet 0 0;
   ES3Effect 3 0;
   ES3End 3 true;
   EOnProgress 3 0;
   ESubmit 3 7 0 SIO false [] 6;
   ETaskStart 4;
   EDepsDone 4;
   EDoneCheck 4 false;
   EMainBegin 4;
   EFs 4 0 FOpen;
   EFs 4 0 FWrite;
   EMainEnd 4 true;
   ETaskEnd 4;
   ERelease 4;
   EAcquire 2 6 2;
   EEnqueue 2 6;
   EAssoc 2 6;
   EOnProgress 2 0;
   ESubmit 2 8 0 SIO false [] 6;
   EDissoc 4;
   ETaskStart 5;
   EDepsDone 5;
   EDoneCheck 5 false;
   EMainBegin 5;
   EFs 5 0 FWrite;
   EMainEnd 5 true;
   ETaskEnd 5;
   ERelease 5;
   EAcquire 2 8 2;
   EEnqueue 2 8;
   EAssoc 2 8;
   EMainEnd 2 true;
   ECount 2 0 1;
   ETaskEnd 2;
   ERelease 2;
   EDissoc 2;
   EDissoc 5;
   ETaskStart 6;
   EDepsDone 6;
   EDoneCheck 6 false;
   EMainBegin 6;
   EFs 6 0 FWrite;
   EMainEnd 6 true;
   ETaskEnd 6;
   ERelease 6;
   EAcquire 3 7 2;
   EEnqueue 3 7;
   EAssoc 3 7;
   EMainEnd 3 true;
   ESubmit 3 9 0 SIO true [] 7;
   EDissoc 6;
   ETaskStart 8;
   EDepsDone 8;
   EDoneCheck 8 false;
   EMainBegin 8;
   EFs 8 0 FWrite;
   EMainEnd 8 true;
   ETaskEnd 8;
   ERelease 8;
   EAcquire 3 9 2;
   EEnqueue 3 9;
   EAssoc 3 9;
   ECount 3 0 1;
   ETaskEnd 3;
   ERelease 3;
   EDissoc 3;
   EDissoc 8;
   ETaskStart 7;
   EDepsDone 7;
   EDoneCheck 7 false;
   EMainBegin 7;
   EFs 7 0 FWrite;
   EMainEnd 7 true;
   ETaskEnd 7;
   ERelease 7;
   EDissoc 7;
   ETaskStart 9;
   EDepsDone 9;
   EDoneCheck 9 false;
   EMainBegin 9;
   EFs 9 0 FClose;
   EFs 9 0 FRename;
   ESetResult 9;
   EMainEnd 9 true;
   EAnnBegin 9 0;
   EEventSet 9 0;
   EResult (-1) 0 false;
   EShutdownBegin;
   EResult (-1) 0 false;
   EStageShutdown SSub;
   EStageJoined SSub;
   EStageShutdown SReq;
   EStageJoined SReq;
   EStageShutdown SIO;
   ECallbacksBegin 9 0;
   ECallback 9 0 1;
   ECallback 9 0 2;
   ECallbacksEnd 9 0;
   EAnnEnd 9 0;
   ETaskEnd 9;
   ERelease 9;
   EDissoc 9;
   EStageJoined SIO;
   EShutdownReturn].

(** the same download with the second write failing (fs fault): failure
    cleanups close + remove, destination never published *)
Definition c06_fail_trace : list event :=
  [ENewTransfer (-1) 0;
   EAddCallback (-1) 0 1;
   EAddCallback (-1) 0 2;
   ESubmit (-1) 0 0 SSub false [] 0;
   EAcquire (-1) 0 0;
   EEnqueue (-1) 0;
   ETaskStart 0;
   EDepsDone 0;
   EDoneCheck 0 false;
   EMainBegin 0;
   EStatus 0 false true;
   EOnQueued 0;
   EStatus 0 true true;
   ES3Begin 0 0 OpHead 0 0;
   ES3Effect 0 0;
   ES3End 0 true;
   EAddCleanup 0 0 3;
   EAddCleanup 0 0 4;
   ECount 0 0 0;
   ESubmit 0 1 0 SReq false [] 5;
   EAcquire 0 1 1;
   EEnqueue 0 1;
   EAssoc 0 1;
   ECount 0 0 0;
   ESubmit 0 2 0 SReq false [] 5;
   EAcquire 0 2 1;
   EEnqueue 0 2;
   EAssoc 0 2;
   ECount 0 0 0;
   ESubmit 0 3 0 SReq false [] 5;
   EAcquire 0 3 1;
   EEnqueue 0 3;
   EAssoc 0 3;
   ECount 0 0 2;
   EMainEnd 0 true;
   ETaskEnd 0;
   ERelease 0;
   ETaskStart 1;
   EDepsDone 1;
   EDoneCheck 1 false;
   EMainBegin 1;
   ES3Begin 1 1 OpGet 0 0;
   ES3Effect 1 0;
   ES3End 1 true;
   EOnProgress 1 0;
   ESubmit 1 4 0 SIO false [] 6;
   EAcquire 1 4 2;
   EEnqueue 1 4;
   EAssoc 1 4;
   EOnProgress 1 0;
   ESubmit 1 5 0 SIO false [] 6;
   EAcquire 1 5 2;
   EEnqueue 1 5;
   EAssoc 1 5;
   EMainEnd 1 true;
   ECount 1 0 1;
   ETaskEnd 1;
   ERelease 1;
   EDissoc 1;
   ETaskStart 2;
   EDepsDone 2;
   EDoneCheck 2 false;
   EMainBegin 2;
   ES3Begin 2 2 OpGet 0 0;
   ES3Effect 2 0;
   ES3End 2 true;
   EOnProgress 2 0;
   ESubmit 2 6 0 SIO false [] 6;
   ETaskStart 3;
   EDepsDone 3;
   EDoneCheck 3 false;
   EMainBegin 3;
   ES3Begin 3 3 OpGet 0 0;
   ES3Effect 3 0;
   ES3End 3 true;
   EOnProgress 3 0;
   ESubmit 3 7 0 SIO false [] 6;
   ETaskStart 4;
   EDepsDone 4;
   EDoneCheck 4 false;
   EMainBegin 4;
   EFs 4 0 FOpen;
   EFs 4 0 FWrite;
   EMainEnd 4 true;
   ETaskEnd 4;
   ERelease 4;
   EAcquire 2 6 2;
   EEnqueue 2 6;
   EAssoc 2 6;
   EOnProgress 2 0;
   ESubmit 2 8 0 SIO false [] 6;
   EDissoc 4;
   ETaskStart 5;
   EDepsDone 5;
   EDoneCheck 5 false;
   EMainBegin 5;
   EMainEnd 5 false;
   ESetException 5 0 0 false;
   ETaskEnd 5;
   ERelease 5;
   EAcquire 2 8 2;
   EEnqueue 2 8;
   EAssoc 2 8;
   EMainEnd 2 true;
   ECount 2 0 1;
   ETaskEnd 2;
   ERelease 2;
   EDissoc 2;
   EDissoc 5;
   ETaskStart 6;
   EDepsDone 6;
   EDoneCheck 6 true;
   ETaskEnd 6;
   ERelease 6;
   EAcquire 3 7 2;
   EEnqueue 3 7;
   EAssoc 3 7;
   EMainEnd 3 true;
   ESubmit 3 9 0 SIO true [] 7;
   EDissoc 6;
   ETaskStart 8;
   EDepsDone 8;
   EDoneCheck 8 true;
   ETaskEnd 8;
   ERelease 8;
   EAcquire 3 9 2;
   EEnqueue 3 9;
   EAssoc 3 9;
   ECount 3 0 1;
   ETaskEnd 3;
   ERelease 3;
   EDissoc 3;
   EDissoc 8;
   ETaskStart 7;
   EDepsDone 7;
   EDoneCheck 7 true;
   ETaskEnd 7;
   ERelease 7;
   EDissoc 7;
   ETaskStart 9;
   EDepsDone 9;
   EDoneCheck 9 true;
   EAnnBegin 9 0;
   ECleanupsBegin 9 0;
   ECleanup 9 0 3;
   EFs 9 0 FClose;
   ECleanup 9 0 4;
   EFs 9 0 FRemove;
   ECleanupsEnd 9 0;
   EEventSet 9 0;
   EResult (-1) 0 true;
   EShutdownBegin;
   EResult (-1) 0 true;
   EStageShutdown SSub;
   EStageJoined SSub;
   EStageShutdown SReq;
   EStageJoined SReq;
   EStageShutdown SIO;
   ECallbacksBegin 9 0;
   ECallback 9 0 1;
   ECallback 9 0 2;
   ECallbacksEnd 9 0;
   EAnnEnd 9 0;
   ETaskEnd 9;
   ERelease 9;
   EDissoc 9;
   EStageJoined SIO;
   EShutdownReturn].

Definition c06_view (s : state) :=
  (map (fun c => (c_status c, c_event c, c_ran_cleanups c)) (coords s),
   map (fun f => (f_exists f, f_open f, f_renamed f, f_removed f, f_writes f, f_renames f)) (files s),
   map (fun x => (k_id x, k_kind x, k_st x, k_main_ok x)) (tasks s)).

Example C06_nonvacuous_success :
  (* just before the rename (event 153): all five IO writes done, temp closed, not published *)
  option_map (fun s => (map (fun f => (f_exists f, f_open f, f_renamed f, f_writes f)) (files s),
                        map (fun x => (k_id x, k_st x, k_main_ok x))
                            (filter (fun x => k_kind x =? KIOWrite) (tasks s))))
    (run (init 1 2 1 10 10 10 2 2) (firstn 153 c06_ok_trace))
  = Some ([(true, false, false, 5)],
          [(4, TEnded, true); (5, TEnded, true); (6, TEnded, true); (7, TEnded, true); (8, TEnded, true)]) /\
  nth_error c06_ok_trace 153 = Some (EFs 9 0 FRename) /\
  (* the whole run: success, event set, published once, no temp *)
  option_map c06_view (run (init 1 2 1 10 10 10 2 2) c06_ok_trace)
  = Some ([(Success, true, [])], [(false, false, true, false, 5, 1)],
          [(0, 0, TEnded, true); (1, 5, TEnded, true); (2, 5, TEnded, true); (3, 5, TEnded, true);
           (4, 6, TEnded, true); (5, 6, TEnded, true); (6, 6, TEnded, true); (7, 6, TEnded, true);
           (8, 6, TEnded, true); (9, 7, TEnded, true)]).
Proof. repeat split; vm_compute; reflexivity. Qed.

Example C06_nonvacuous_failure :
  option_map c06_view (run (init 1 2 1 10 10 10 2 2) c06_fail_trace)
  = Some ([(Failed, true, [3; 4])], [(false, false, false, true, 1, 0)],
          [(0, 0, TEnded, true); (1, 5, TEnded, true); (2, 5, TEnded, true); (3, 5, TEnded, true);
           (4, 6, TEnded, true); (5, 6, TEnded, false); (6, 6, TEnded, false); (7, 6, TEnded, false);
           (8, 6, TEnded, false); (9, 7, TEnded, false)]) /\
  In (EFs 9 0 FRemove) c06_fail_trace /\ In (ECleanupsEnd 9 0) c06_fail_trace.
Proof. split; [vm_compute; reflexivity|]. split; vm_compute; tauto. Qed.

(* ------------------------------------------------------------------ *)
(** * What the model does not force (failure / cancel part of F3)

    Accepted by the model: the download fails in its final task, both
    registered cleanups (ids 3 = close, 4 = remove) are "run" ([ECleanup]),
    the cleanup phase ends and the event is set -- without any [EFs _ _ FRemove]:
    the temp file still exists at done.  Missing tie: cleanup ids are abstract;
    [EFs a t FRemove]/[FClose] only require the actor to be the cleanup runner
    and [ECleanupsEnd] does not require them; [EAddCleanup] of the remove is not
    required before [FOpen].  Code: download.py:155 (f.close) and 193-195
    (osutil.remove_file, temp name), both registered by
    get_fileobj_for_io_writes before any request is submitted; the cleanups run
    in futures.py _run_failure_cleanups. *)
Definition c06_gap_trace : list event :=
  [ENewTransfer (-1) 1;
   ESubmit (-1) 0 1 SSub false [] KSubmission; EAcquire (-1) 0 SEM_SUB; EEnqueue (-1) 0;
   ETaskStart 0; EDepsDone 0; EDoneCheck 0 false; EMainBegin 0;
   EStatus 0 false true; EOnQueued 0; EStatus 0 true true;
   EAddCleanup 0 1 3; EAddCleanup 0 1 4;
   ESubmit 0 1 1 SReq false [] KGet; EAcquire 0 1 SEM_REQ; EEnqueue 0 1; EAssoc 0 1;
   EMainEnd 0 true; ETaskEnd 0; ERelease 0;
   ETaskStart 1; EDepsDone 1; EDoneCheck 1 false; EMainBegin 1;
   ESubmit 1 2 1 SIO false [] KIOWrite; EAcquire 1 2 SEM_IO; EEnqueue 1 2; EAssoc 1 2;
   ETaskStart 2; EDepsDone 2; EDoneCheck 2 false; EMainBegin 2;
   EFs 2 1 FOpen; EFs 2 1 FWrite; EMainEnd 2 true; ETaskEnd 2; ERelease 2; EDissoc 2;
   EMainEnd 1 true;
   ESubmit 1 3 1 SIO true [] KIOFinal; EAcquire 1 3 SEM_IO; EEnqueue 1 3; EAssoc 1 3;
   ETaskEnd 1; ERelease 1; EDissoc 1;
   ETaskStart 3; EDepsDone 3; EDoneCheck 3 false; EMainBegin 3;
   EMainEnd 3 false; ESetException 3 1 9 false;
   EAnnBegin 3 1; ECleanupsBegin 3 1; ECleanup 3 1 3; ECleanup 3 1 4; ECleanupsEnd 3 1; EEventSet 3 1].

Example C06_no_temp_on_failure_refuted :
  option_map (fun s => (map (fun c => (c_status c, c_event c, c_ran_cleanups c, c_cleanups c)) (coords s),
                        temp_exists s 1, published s 1))
    (run (init 1 2 1 10 10 10 2 2) c06_gap_trace)
  = Some ([(Failed, true, [3; 4], [])], true, false).
Proof. vm_compute; reflexivity. Qed.
