(** C10 -- Configured concurrency and queue limits are never exceeded.
    Statements only; each is closed by [exact]/[apply] of a lemma of
    proofs/SysStage.v and followed by Print Assumptions.

    Reading guide.  [reachable (init w_sub w_req w_io q_sub q_req q_io up down) s]:
    [s] is the state after ANY accepted event list (any schedule, any fault
    choice, any number of concurrent transfers) of the protocol model
    model/Sys.v, whose [step] is the function the trace validator replays real
    runs through.  [runs_in g x]: task [x] belongs to stage [g] and was picked
    by a worker and has not returned ([k_st] in TStarted .. TAnnDone).
    [holds i x]: [x] took a permit of semaphore [i] and its future's done
    callback has not given it back.  [count p l]: number of tasks satisfying [p].
    [inflight s]: requests begun and not ended. *)
From Coq Require Import ZArith List Bool Lia.
From S3V Require Import model.Sys proofs.SysBase proofs.SysTask proofs.SysStage.
Import ListNotations.
Open Scope Z_scope.

(** Workers: the running counter of each executor is exactly the number of its
    started-and-not-returned tasks and never exceeds the configured workers. *)
Theorem C10_running_le_workers : forall w_sub w_req w_io q_sub q_req q_io up down s st,
  1 <= w_sub -> 1 <= w_req -> 1 <= w_io ->
  reachable (init w_sub w_req w_io q_sub q_req q_io up down) s -> st <> SInline ->
  g_running (get_stage s st) = count (runs_in st) (tasks s) /\
  0 <= g_running (get_stage s st) <= g_workers (get_stage s st) /\
  g_workers (get_stage s st) = wk w_sub w_req w_io st.
Proof. exact running_le_workers. Qed.
Print Assumptions C10_running_le_workers.

(** Queues: an executor's queue holds exactly its TQueued tasks, once each, and
    is the not-yet-started suffix of the enqueue history (FIFO): everything
    enqueued before the queue's head has been started. *)
Theorem C10_queue_is_queued : forall w_sub w_req w_io q_sub q_req q_io up down s st,
  reachable (init w_sub w_req w_io q_sub q_req q_io up down) s -> st <> SInline ->
  let G := get_stage s st in
  NoDup (g_queue G) /\ NoDup (g_history G) /\
  (forall k, In k (g_queue G) <-> task_at s k st (fun v => v = TQueued)) /\
  (forall k, In k (g_history G) <-> task_at s k st (fun v => v <> TSubmitting)) /\
  exists started, g_history G = started ++ g_queue G /\
    forall k, In k started -> task_at s k st (fun v => v <> TSubmitting /\ v <> TQueued).
Proof. exact queue_is_queued. Qed.
Print Assumptions C10_queue_is_queued.

(** Requests: every in-flight request other than an abort was begun by a task
    that is still inside its main, on a request worker (head_object: on a
    submission worker); in-flight requests have pairwise different actors;
    hence in-flight data requests <= running request workers <= max_request_concurrency
    and in-flight head_object requests <= max_submission_concurrency. *)
Theorem C10_data_requests_on_request_workers : forall w_sub w_req w_io q_sub q_req q_io up down s,
  1 <= w_sub -> 1 <= w_req -> 1 <= w_io ->
  reachable (init w_sub w_req w_io q_sub q_req q_io up down) s ->
  (forall q, In q (reqs s) -> r_ended q = false -> r_op q <> OpAbort ->
     exists x, find_task (r_actor q) (tasks s) = Some x /\ k_st x = TMain /\ k_t x = r_t q /\
               k_stage x = (if s3op_eqb (r_op q) OpHead then SSub else SReq)) /\
  NoDup (map r_actor (inflight s)) /\
  Z.of_nat (length (filter (fun q => unended q && is_data (r_op q)) (reqs s)))
    <= g_running (st_req s) <= w_req /\
  Z.of_nat (length (filter (fun q => unended q && s3op_eqb (r_op q) OpHead) (reqs s)))
    <= g_running (st_sub s) <= w_sub.
Proof. exact data_requests_on_request_workers. Qed.
Print Assumptions C10_data_requests_on_request_workers.

(** Permit conservation, for each of the five semaphores (three executor
    queues, the two in-memory chunk limits): free + held = configured size,
    free >= 0. *)
Theorem C10_permit_conservation : forall w_sub w_req w_io q_sub q_req q_io up down s i cap,
  1 <= q_sub -> 1 <= q_req -> 1 <= q_io -> 1 <= up -> 1 <= down ->
  reachable (init w_sub w_req w_io q_sub q_req q_io up down) s ->
  0 <= i -> caps q_sub q_req q_io up down i = Some cap ->
  exists free, find_sem i (sems s) = Some free /\ 0 <= free /\
               free + count (holds i) (tasks s) = cap.
Proof. exact permit_conservation. Qed.
Print Assumptions C10_permit_conservation.

(** Occupancy: queued-or-running tasks holding a permit of semaphore [i] never
    exceed its size, and every queued-or-running executor task holds one. *)
Theorem C10_stage_occupancy_le_permits : forall w_sub w_req w_io q_sub q_req q_io up down s i cap,
  1 <= q_sub -> 1 <= q_req -> 1 <= q_io -> 1 <= up -> 1 <= down ->
  reachable (init w_sub w_req w_io q_sub q_req q_io up down) s ->
  0 <= i -> caps q_sub q_req q_io up down i = Some cap ->
  count (fun x => holds i x && occupying (k_st x)) (tasks s) <= cap.
Proof. exact stage_occupancy_le_permits. Qed.
Print Assumptions C10_stage_occupancy_le_permits.

(** Exactly: queued-or-running tasks of the submission executor <= its queue
    size, of the IO executor <= max_io_queue_size (tag semaphores exist only on
    the request executor; a request task holds the executor's permit or a tag
    permit, [C10_stage_occupancy_le_permits] bounds each). *)
Theorem C10_stage_occupancy_exact : forall w_sub w_req w_io q_sub q_req q_io up down s st cap,
  1 <= q_sub -> 1 <= q_req -> 1 <= q_io -> 1 <= up -> 1 <= down ->
  reachable (init w_sub w_req w_io q_sub q_req q_io up down) s -> st = SSub \/ st = SIO ->
  caps q_sub q_req q_io up down (sem_of_stage st) = Some cap ->
  count (fun x => stage_eqb (k_stage x) st && occupying (k_st x)) (tasks s) <= cap.
Proof. exact stage_occupancy_exact. Qed.
Print Assumptions C10_stage_occupancy_exact.

Theorem C10_permit_kind : forall w_sub w_req w_io q_sub q_req q_io up down s k x,
  reachable (init w_sub w_req w_io q_sub q_req q_io up down) s -> find_task k (tasks s) = Some x ->
  k_permit x = -1 \/ permit_ok (k_permit x) (k_stage x) = true.
Proof. intros; eapply permit_kind_reachable; eauto. Qed.
Print Assumptions C10_permit_kind.

Theorem C10_occupying_holds_permit : forall w_sub w_req w_io q_sub q_req q_io up down s k x,
  reachable (init w_sub w_req w_io q_sub q_req q_io up down) s ->
  find_task k (tasks s) = Some x -> k_stage x <> SInline -> occupying (k_st x) = true ->
  0 <= k_permit x /\ k_released x = false.
Proof. exact occupying_holds_permit. Qed.
Print Assumptions C10_occupying_holds_permit.

(** A submitter blocks when the semaphore is empty: the acquire event is not
    enabled at zero free permits (in any state, reachable or not). *)
Theorem C10_submit_blocks_when_full : forall s a k sem s',
  step s (EAcquire a k sem) = Some s' -> exists v, find_sem sem (sems s) = Some v /\ 0 < v.
Proof. exact submit_blocks_when_full. Qed.
Print Assumptions C10_submit_blocks_when_full.

(** Once every task that took a permit has given it back, every semaphore is
    back at its configured size (the manager is reusable). *)
Theorem C10_manager_permits_restored : forall w_sub w_req w_io q_sub q_req q_io up down s i cap,
  1 <= q_sub -> 1 <= q_req -> 1 <= q_io -> 1 <= up -> 1 <= down ->
  reachable (init w_sub w_req w_io q_sub q_req q_io up down) s ->
  0 <= i -> caps q_sub q_req q_io up down i = Some cap ->
  (forall x, In x (tasks s) -> k_permit x = -1 \/ k_released x = true) ->
  find_sem i (sems s) = Some cap.
Proof. exact manager_permits_restored. Qed.
Print Assumptions C10_manager_permits_restored.

(** A concrete reachable state (non-vacuity): one transfer whose submission
    task ran and submitted a final PutObject task; that task is inside its
    main on the request executor with its request in flight. *)
Definition C10_trace : list event :=
  [ ENewTransfer (-1) 0;
    ESubmit (-1) 0 0 SSub false [] KSubmission; EAcquire (-1) 0 SEM_SUB; EEnqueue (-1) 0;
    ETaskStart 0; EDepsDone 0; EDoneCheck 0 false; EMainBegin 0;
    EStatus 0 false true; EStatus 0 true true;
    ESubmit 0 1 0 SReq true [] KData; EAcquire 0 1 SEM_REQ; EEnqueue 0 1; EAssoc 0 1;
    EMainEnd 0 true;
    ETaskStart 1; EDepsDone 1; EDoneCheck 1 false; EMainBegin 1;
    ES3Begin 1 100 OpData 0 0 ].

Example C10_example : exists s,
  run (init 1 2 1 10 10 10 2 2) C10_trace = Some s /\
  g_running (st_req s) = 1 /\ g_running (st_sub s) = 1 /\
  find_sem SEM_REQ (sems s) = Some 9 /\ find_sem SEM_SUB (sems s) = Some 9 /\
  length (inflight s) = 1%nat /\ g_history (st_req s) = [1] /\ g_queue (st_req s) = [].
Proof. eexists. split; [vm_compute; reflexivity|]. vm_compute. repeat split; reflexivity. Qed.
