(** C14 (float gap) -- Python's [int(math.ceil(size / float(part_size)))] in
    binary64 is the integer ceiling division [num_parts] of model/Plan.v on
    0 <= size < 2^53, 0 < part_size < 2^53.  Statement only; the proof is
    proofs/FloatCeil.v. *)
From Coq Require Import ZArith Reals.
From Flocq Require Import Core.
From S3V Require Import model.Plan proofs.FloatCeil.
Open Scope Z_scope.

Theorem C14_float_ceiling_is_integer_ceiling : forall size part_size : Z,
  0 <= size < 2 ^ 53 -> 0 < part_size < 2 ^ 53 ->
  Zceil (round radix2 (FLT_exp (-1074) 53) ZnearestE (IZR size / IZR part_size)) = num_parts size part_size.
Proof. exact float_ceil_div_exact. Qed.
Print Assumptions C14_float_ceiling_is_integer_ceiling.

(** The hypotheses are satisfiable, at the top of the range and with an inexact
    quotient: (2^53 - 1) / 3 is not a binary64 number. *)
Example C14_float_ceiling_example :
  Zceil (round radix2 (FLT_exp (-1074) 53) ZnearestE (IZR (2 ^ 53 - 1) / IZR 3)) = 3002399751580331.
Proof. rewrite C14_float_ceiling_is_integer_ceiling by (split; reflexivity || discriminate). reflexivity. Qed.
