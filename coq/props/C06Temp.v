(** C06 -- the temporary file is a sibling of the destination with a different
    name that fits the file-name limit (OSUtils.get_temp_filename).
    Statements only; each closed by [exact] of a lemma of proofs/TempNameProofs.v.
    [L] is OSUtils._MAX_FILENAME_LEN (read from the class at check time). *)
From Coq Require Import List Arith.
From S3V Require Import model.TempName proofs.TempNameProofs.
Import ListNotations.

(** The temp name never exceeds the limit (so creating it cannot fail with
    ENAMETOOLONG when the destination's own name is legal). *)
Theorem C06_temp_name_fits : forall (A : Type) (L : nat) (name suffix : list A),
  length suffix <= L -> length (temp_name L name suffix) <= L.
Proof. intros A; exact temp_name_length. Qed.
Print Assumptions C06_temp_name_fits.

(** The temp name equals the destination name only if the destination name is
    exactly [L] long AND already ends with the random suffix. *)
Theorem C06_temp_name_equals_destination_only_if : forall (A : Type) (L : nat) (name suffix : list A),
  suffix <> [] -> length suffix <= L -> temp_name L name suffix = name ->
  length name = L /\ exists p, name = p ++ suffix.
Proof. intros A; exact temp_name_eq_name. Qed.
Print Assumptions C06_temp_name_equals_destination_only_if.

(** All writes go to a file other than the destination: whenever the destination
    does not end with the suffix drawn for this download. *)
Theorem C06_temp_name_is_not_the_destination : forall (A : Type) (L : nat) (name suffix : list A),
  suffix <> [] -> length suffix <= L -> (forall p, name <> p ++ suffix) -> temp_name L name suffix <> name.
Proof. intros A; exact temp_name_distinct_suffix. Qed.
Print Assumptions C06_temp_name_is_not_the_destination.

Theorem C06_temp_name_keeps_the_name : forall (A : Type) (L : nat) (name suffix : list A),
  length name + length suffix <= L -> temp_name L name suffix = name ++ suffix.
Proof. intros A; exact temp_name_prefix. Qed.
Print Assumptions C06_temp_name_keeps_the_name.

(** Cutting after concatenating (instead of before) collides with the
    destination for names of exactly [L] characters. *)
Theorem C06_temp_name_cut_after_refuted : exists (L : nat) (name suffix : list nat),
  suffix <> [] /\ length suffix <= L /\ (forall p, name <> p ++ suffix) /\ cut_after L name suffix = name.
Proof. exact cut_after_collides. Qed.
Print Assumptions C06_temp_name_cut_after_refuted.

Example C06_temp_name_example :
  temp_name 5 [1; 2; 3; 4; 5] [8; 9] = [1; 2; 3; 8; 9] /\ length (temp_name 5 [1; 2; 3; 4; 5] [8; 9]) <= 5.
Proof. exact temp_name_example. Qed.
