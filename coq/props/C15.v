(** C15 -- Extra arguments reach exactly the S3 operations that accept them.

    Model: model/Route.v ([route m n d]: the calls, with their keyword
    arguments, that front-end/method/mode [m] issues for the user's extra-args
    dictionary [d] and [n] parts; [None] = rejected before any request).
    Tables: gen/Tables.v (allow-lists and per-operation filters, regenerated
    from /repo) and gen/Shapes.v (input shapes of the installed botocore).
    Only statements here; proofs are [exact]/[apply] of lemmas of
    proofs/RouteProofs.v.  AbortMultipartUpload is a failure cleanup that gets
    Bucket/Key/UploadId only and is outside this table (DESIGN.md 5.C15). *)
From Coq Require Import ZArith List Bool String.
From S3V Require Import gen.Tables gen.Shapes model.Route proofs.RouteProofs.
Import ListNotations.
Open Scope string_scope.
Open Scope list_scope.

(** For ALL dictionaries (distinct keys): the operations issued are the plan of
    the mode, each call's keyword arguments form a dictionary, and every slot
    [t] of every call is a function ([cell]) of ONE binding of the user's
    dictionary -- that of [src m o t], which is [t] itself except for the
    HeadObject of a copy -- and of the finite summary [last_full d] (which
    full-object checksum the dictionary binds; one of the |LFS| = 6 values).
    "Every subset of arguments" is thereby reduced to "every name" times the
    finite checksum case analysis of the theorems below. *)
Theorem C15_route_pointwise : forall m n d calls,
  NoDup (keys d) -> route m n d = Some calls ->
  map fst calls = plan m n /\
  In (last_full d) LFS /\
  forall o kw, In (o, kw) calls ->
    In o (ops_of m) /\ NoDup (keys kw) /\
    forall t, assoc t kw = cell m o (last_full d) t (assoc (src m o t) d).
Proof. exact route_pointwise_lemma. Qed.
Print Assumptions C15_route_pointwise.

(** Routing is a function of the current call's dictionary only: in any
    sequence of transfers on one front-end object, whatever was transferred
    before ([pre]) or is transferred after ([post]), the calls of a transfer
    are [route] of its own mode, part count and dictionary -- in particular a
    transfer with no extra arguments sends none, whatever an earlier transfer
    was given.  ([route] has no other input; that the implementation carries
    no state between transfers through the caller's copy_source / extra_args /
    subscribers objects is what the sequence stream of the tie checks.) *)
Theorem C15_routing_depends_on_current_call_only : forall pre post m n d,
  nth_error (route_seq (pre ++ (m, n, d) :: post)) (List.length pre) = Some (route m n d).
Proof. exact route_seq_local. Qed.
Print Assumptions C15_routing_depends_on_current_call_only.

(** The finite table, TransferManager and process pool: for every mode, every
    operation of the mode, every allowed name and every summary, the slots the
    code feeds from the user's argument ([forwarded], read off [cell]) are
    exactly those C15 demands ([spec_forwarded]: the operation's input shape
    has a parameter of that name -- modulo copy-source conditions/keys going to
    HeadObject under their equivalents, full-object checksums never going to
    UploadPart, and ChecksumType/ChecksumAlgorithm being the library's when a
    full-object checksum is supplied to a multipart upload). *)
Theorem C15_route_table_exact : forall m o a lf,
  In m MAIN_MODES -> In o (ops_of m) -> In a (allowed_of m) -> In lf LFS ->
  forwarded m o lf a = spec_forwarded m o lf a.
Proof. exact route_table_exact_lemma. Qed.
Print Assumptions C15_route_table_exact.

(** The enumerations of the table are complete. *)
Theorem C15_enumerations_complete :
  (forall m, In m MAIN_MODES \/ In m LEGACY_MODES) /\
  (forall m n o, In o (plan m n) -> In o (ops_of m)) /\
  (forall (d : dict), In (last_full d) LFS).
Proof.
  split; [exact modes_split|]. split; [exact plan_ops|]. intros d. apply last_full_in_LFS.
Qed.
Print Assumptions C15_enumerations_complete.

(** The table carried to every dictionary, forwards: whatever C15 demands for
    a bound argument is in the call, with the user's value (or the itemised
    literal).  [good_cell] = TransferManager/process pool, or legacy outside
    the four F6 cells. *)
Theorem C15_route_exact_forward : forall m n d calls,
  NoDup (keys d) -> route m n d = Some calls ->
  forall o kw, In (o, kw) calls ->
  forall a v, assoc a d = Some v -> good_cell m o a ->
  forall t r, In (t, r) (spec_forwarded m o (last_full d) a) -> assoc t kw = interp r (Some v).
Proof. exact route_exact_forward_lemma. Qed.
Print Assumptions C15_route_exact_forward.

(** ... and backwards, for every front-end including the legacy one: a user's
    value in a call is the user's binding of the slot's source name, and C15
    demands it there. *)
Theorem C15_route_exact_backward : forall m n d calls,
  NoDup (keys d) -> route m n d = Some calls ->
  forall o kw, In (o, kw) calls ->
  forall t v, In (t, U v) kw ->
    In (src m o t, v) d /\ In (t, RUser) (spec_forwarded m o (last_full d) (src m o t)).
Proof. exact route_exact_backward_lemma. Qed.
Print Assumptions C15_route_exact_backward.

(** No forwarded argument is unknown to the operation it is sent to -- every
    keyword of every call (Bucket, Key, Body, UploadId, PartNumber,
    MultipartUpload, CopySource, Range, CopySourceRange, mapped head names, the
    added checksum fields and every user argument) is a member of the
    operation's input shape; all front-ends. *)
Theorem C15_nothing_unknown_sent : forall m n d calls,
  NoDup (keys d) -> route m n d = Some calls ->
  forall o kw, In (o, kw) calls -> forall t v, In (t, v) kw -> In t (SHAPE o).
Proof. exact nothing_unknown_lemma. Qed.
Print Assumptions C15_nothing_unknown_sent.

(** A name outside the allow-list rejects the transfer before any request
    (no call list at all), and nothing else does. *)
Theorem C15_disallowed_rejected_before_requests : forall m n d,
  route m n d = None <-> exists k, In k (keys d) /\ ~ In k (allowed_of m).
Proof. exact rejected_iff. Qed.
Print Assumptions C15_disallowed_rejected_before_requests.

(** Values are forwarded unmodified: a user value id in a call is the id the
    user bound to the slot's source name. *)
Theorem C15_values_unmodified : forall m n d calls,
  NoDup (keys d) -> route m n d = Some calls ->
  forall o kw, In (o, kw) calls ->
  forall t v, In (t, U v) kw -> In (src m o t, v) d.
Proof. exact values_unmodified_lemma. Qed.
Print Assumptions C15_values_unmodified.

(** A user-supplied full-object checksum [c] (the source's list is exactly the
    allowed Checksum<ALG> parameters of CompleteMultipartUpload): in a
    multipart upload every call whose operation accepts ChecksumType gets
    FULL_OBJECT and every call whose operation accepts ChecksumAlgorithm gets
    the algorithm of [c] (overriding a user's value); the checksum itself goes
    with the user's value to PutObject / CompleteMultipartUpload and never to
    UploadPart (although UploadPart's shape has the name). *)
Theorem C15_full_object_checksum_rules :
  (forall a, In a TM_ALLOWED_UPLOAD_ARGS ->
     (is_full_checksum_name a = true <-> In a FULL_OBJECT_CHECKSUM_ARGS)) /\
  (forall c, In c FULL_OBJECT_CHECKSUM_ARGS -> c = ("Checksum" ++ sdrop 8 c)%string) /\
  (forall ws n d calls c,
     NoDup (keys d) -> route (TMUpload ws true) n d = Some calls -> last_full d = Some c ->
     forall o kw, In (o, kw) calls ->
       assoc "ChecksumType" kw =
         (if mem "ChecksumType" (SHAPE o) then Some (L "FULL_OBJECT") else None) /\
       assoc "ChecksumAlgorithm" kw =
         (if mem "ChecksumAlgorithm" (SHAPE o) then Some (L (sdrop 8 c)) else None) /\
       (forall c' v, In c' FULL_OBJECT_CHECKSUM_ARGS -> assoc c' d = Some v ->
          assoc c' kw = if mem c' (SHAPE o) && negb (is_upload_part o) then Some (U v) else None)) /\
  (forall ws c, In c FULL_OBJECT_CHECKSUM_ARGS ->
     forall mp lf o, In lf LFS -> In o (ops_of (TMUpload ws mp)) ->
       cellK (TMUpload ws mp) o lf c true =
         (if mem c (SHAPE o) && negb (is_upload_part o) then RUser else RAbsent)) /\
  In "ChecksumCRC32" SHAPE_UploadPart.
Proof.
  split; [|split; [|split; [|split]]].
  - intros a Ha. split; [now apply full_names_complete|].
    intros Hc. exact (proj1 (proj1 (full_object_cells true a Hc))).
  - intros c Hc. exact (proj1 (proj2 (proj1 (full_object_cells true c Hc)))).
  - exact full_object_route.
  - intros ws c Hc. exact (proj1 (proj2 (proj2 (full_object_cells ws c Hc)))).
  - vm_compute. tauto.
Qed.
Print Assumptions C15_full_object_checksum_rules.

(** CRC32 is the default algorithm exactly when the client asks for checksums
    ("when_supported"), the user gave no ChecksumAlgorithm and no full-object
    checksum: then every call of the upload whose operation accepts
    ChecksumAlgorithm carries CRC32; a user's value wins; otherwise nothing is
    added.  No other front-end ever adds the field. *)
Theorem C15_crc32_default_iff :
  DEFAULT_CHECKSUM_ALGORITHM = "CRC32" /\
  (forall ws mp n d calls,
     NoDup (keys d) -> route (TMUpload ws mp) n d = Some calls -> last_full d = None ->
     forall o kw, In (o, kw) calls -> mem "ChecksumAlgorithm" (SHAPE o) = true ->
       (assoc "ChecksumAlgorithm" kw = Some (L "CRC32") <->
          ws = true /\ assoc "ChecksumAlgorithm" d = None) /\
       (forall v, assoc "ChecksumAlgorithm" d = Some v -> assoc "ChecksumAlgorithm" kw = Some (U v)) /\
       (ws = false -> assoc "ChecksumAlgorithm" d = None -> assoc "ChecksumAlgorithm" kw = None)) /\
  (forall m o lf, In o (ops_of m) -> In lf LFS -> (forall ws mp, m <> TMUpload ws mp) ->
     cellK m o lf "ChecksumAlgorithm" false = RAbsent).
Proof.
  split; [exact default_is_crc32|]. split; [|exact crc32_never_elsewhere].
  intros ws mp n d calls Hn Hr Hlf o kw Hin Hm.
  rewrite (crc32_route ws mp n d calls Hn Hr Hlf o kw Hin Hm).
  destruct (assoc "ChecksumAlgorithm" d) as [v|]; destruct ws; repeat split;
    try discriminate; try tauto; try (intros [? ?]; discriminate); intros ? [= <-]; reflexivity.
Qed.
Print Assumptions C15_crc32_default_iff.

(** Legacy S3Transfer: the same table, with the four cells of known finding F6
    carved out BY NAME ([f6_cell]: legacy multipart upload,
    CompleteMultipartUpload, RequestPayer / SSECustomerAlgorithm /
    SSECustomerKey / SSECustomerKeyMD5). *)
Theorem C15_route_table_exact_legacy_partial : forall m o a lf,
  In m LEGACY_MODES -> In o (ops_of m) -> In a (allowed_of m) -> In lf LFS ->
  ~ (m = LegUpload true /\ o = CompleteMultipartUpload /\
     In a ["RequestPayer"; "SSECustomerAlgorithm"; "SSECustomerKey"; "SSECustomerKeyMD5"]) ->
  forwarded m o lf a = spec_forwarded m o lf a.
Proof.
  intros m o a lf Hm Ho Ha Hl Hn. apply route_table_legacy_lemma; auto.
  destruct (f6_cell m o a) eqn:E; [|reflexivity]. exfalso. apply Hn.
  destruct m as [| | | |[]| |]; try discriminate E; destruct o; try discriminate E.
  cbn [f6_cell] in E. apply mem_In in E. auto.
Qed.
Print Assumptions C15_route_table_exact_legacy_partial.

(** ... and each carved-out cell is a real deviation: the name is allowed, the
    operation accepts it, C15 demands it, the code forwards nothing -- the
    CompleteMultipartUpload call of a legacy multipart upload of {a: v} has no
    [a].  (Full-strength legacy table refuted.) *)
Theorem C15_legacy_complete_refuted :
  forall a, In a ["RequestPayer"; "SSECustomerAlgorithm"; "SSECustomerKey"; "SSECustomerKeyMD5"] ->
    In a LEGACY_ALLOWED_UPLOAD_ARGS /\ In a SHAPE_CompleteMultipartUpload /\
    (forall lf, In lf LFS ->
       forwarded (LegUpload true) CompleteMultipartUpload lf a = [] /\
       spec_forwarded (LegUpload true) CompleteMultipartUpload lf a = [(a, RUser)]) /\
    (forall n v, exists calls, route (LegUpload true) n [(a, v)] = Some calls /\
       In CompleteMultipartUpload (map fst calls) /\
       forall kw, In (CompleteMultipartUpload, kw) calls -> assoc a kw = None).
Proof.
  intros a Ha. change (In a F6_NAMES) in Ha.
  destruct (f6_lemma a None Ha (or_introl eq_refl)) as (H1 & H2 & _).
  split; [exact H1|]. split; [exact H2|]. split.
  - intros lf Hl. destruct (f6_lemma a lf Ha Hl) as (_ & _ & H3 & H4). auto.
  - intros n v. unfold route.
    assert (Hv : validate [(a, v)] (allowed_of (LegUpload true)) = true).
    { unfold validate. cbn [forallb fst]. rewrite andb_true_r. apply mem_In. exact H1. }
    rewrite Hv. eexists. split; [reflexivity|]. split.
    + rewrite map_map. cbn [fst]. rewrite map_id. cbn. right. apply in_or_app. right. now left.
    + intros kw Hin. apply in_map_iff in Hin. destruct Hin as (o & [= -> <-] & _).
      cbn [kwargs_of struct_names]. rewrite assoc_S_.
      destruct Ha as [<-|[<-|[<-|[<-|[]]]]]; reflexivity.
Qed.
Print Assumptions C15_legacy_complete_refuted.

(** Non-vacuity: concrete dictionaries through concrete modes. *)
Example C15_nonvacuous_upload :
  route (TMUpload true true) 2 [("ChecksumCRC32", 5%Z); ("ACL", 6%Z)] =
  Some [(CreateMultipartUpload,
          [("Bucket", P); ("Key", P); ("ACL", U 6); ("ChecksumType", L "FULL_OBJECT");
           ("ChecksumAlgorithm", L "CRC32")]);
        (UploadPart,
          [("Bucket", P); ("Key", P); ("UploadId", P); ("PartNumber", P); ("Body", P);
           ("ChecksumAlgorithm", L "CRC32")]);
        (UploadPart,
          [("Bucket", P); ("Key", P); ("UploadId", P); ("PartNumber", P); ("Body", P);
           ("ChecksumAlgorithm", L "CRC32")]);
        (CompleteMultipartUpload,
          [("Bucket", P); ("Key", P); ("UploadId", P); ("MultipartUpload", P);
           ("ChecksumCRC32", U 5); ("ChecksumType", L "FULL_OBJECT")])]
  /\ route (TMUpload true false) 0 [("ACL", 6%Z)] =
     Some [(PutObject, [("Bucket", P); ("Key", P); ("Body", P); ("ACL", U 6);
                        ("ChecksumAlgorithm", L "CRC32")])]
  /\ last_full [("ChecksumCRC32", 5%Z); ("ACL", 6%Z)] = Some "ChecksumCRC32"
  /\ NoDup (keys [("ChecksumCRC32", 5%Z); ("ACL", 6%Z)]).
Proof.
  split; [vm_compute; reflexivity|]. split; [vm_compute; reflexivity|].
  split; [vm_compute; reflexivity|]. cbn. repeat constructor; cbn; intuition discriminate.
Qed.

Example C15_nonvacuous_copy :
  route (TMCopy false true true) 1
        [("CopySourceSSECustomerKey", 5%Z); ("SSECustomerKey", 6%Z); ("MetadataDirective", 7%Z)] =
  Some [(HeadObject, [("Bucket", P); ("Key", P); ("VersionId", P); ("SSECustomerKey", U 5)]);
        (CreateMultipartUpload, [("Bucket", P); ("Key", P); ("SSECustomerKey", U 6)]);
        (UploadPartCopy,
          [("CopySource", P); ("Bucket", P); ("Key", P); ("UploadId", P); ("PartNumber", P);
           ("CopySourceSSECustomerKey", U 5); ("SSECustomerKey", U 6); ("CopySourceRange", P)]);
        (CompleteMultipartUpload,
          [("Bucket", P); ("Key", P); ("UploadId", P); ("MultipartUpload", P);
           ("SSECustomerKey", U 6)])]
  /\ route (TMDownload false true) 2 [("GrantWriteACL", 1%Z)] = None
  /\ route (LegDownload true) 2 [("VersionId", 3%Z)] =
     Some [(HeadObject, [("Bucket", P); ("Key", P); ("VersionId", U 3)]);
           (GetObject, [("Bucket", P); ("Key", P); ("Range", P); ("VersionId", U 3)]);
           (GetObject, [("Bucket", P); ("Key", P); ("Range", P); ("VersionId", U 3)])].
Proof. repeat split; vm_compute; reflexivity. Qed.
