(** C20 -- CRT manager glue: one permit per transfer, ordered completion,
    temp cleanup.  Only statements, each closed by [exact]/[apply] of a lemma
    from proofs/CrtProofs.v, each followed by Print Assumptions.

    [Reachable N s]: [s] is the state of model/Crt.v after ANY finite sequence
    of submit / complete / shutdown operations from a manager with [N]
    permits (submissions of every kind, with any number of subscribers, with or
    without a raising subscriber, with or without a construction failure in
    on_queued / argument building / make_request; completions ok / error /
    cancelled / ok-but-rename-fails in any order, as one step or split into
    "finished_future resolved" and "on_done delivered" with anything in
    between; shutdown with or without cancel).  The real manager has
    N = CRT_PERMITS, regenerated from crt.py into gen/Tables.v. *)
From Coq Require Import ZArith List Bool Lia.
From S3V Require Import gen.Tables model.Crt proofs.CrtProofs.
Import ListNotations.
Open Scope Z_scope.

(** The number of permits the source declares. *)
Theorem crt_permits_is_128 : CRT_PERMITS = 128.
Proof. reflexivity. Qed.
Print Assumptions crt_permits_is_128.

(** permits + #(transfers that acquired and whose release has not run) is the
    configured count in every reachable state; the semaphore never goes
    negative and never exceeds the count. *)
Theorem crt_permit_conservation : forall s, Reachable CRT_PERMITS s ->
  permits s + Z.of_nat (holding (transfers s)) = CRT_PERMITS /\
  0 <= permits s <= CRT_PERMITS.
Proof.
  intros s H. apply inv_conservation, reachable_inv; [discriminate|exact H].
Qed.
Print Assumptions crt_permit_conservation.

(** ... and for any configured count (the harness lowers it to 2-3). *)
Theorem crt_permit_conservation_any : forall N s, 0 <= N -> Reachable N s ->
  permits s + Z.of_nat (holding (transfers s)) = N /\ 0 <= permits s <= N.
Proof. intros N s HN H. apply inv_conservation, reachable_inv; assumption. Qed.
Print Assumptions crt_permit_conservation_any.

(** Every transfer that got a permit acquired exactly once; its release ran
    at most once, and -- unless one of its own subscribers' on_done raised --
    exactly once as soon as its done callbacks ran, on each of the four paths:
    construction failure ([t_exc]; the done callbacks run inside submit),
    success, error, cancel ([t_crt = Some _], once on_done was delivered).
    The count of release events in the log is the same number. *)
Theorem crt_one_release_per_transfer : forall N s i t, 0 <= N -> Reachable N s ->
  nth_error (transfers s) i = Some t ->
  count EvRelease (proj i (log s)) = t_releases t /\
  count EvAcquire (proj i (log s)) = 1%nat /\
  (t_releases t <= 1)%nat /\
  (t_on_done_ran t = false -> t_releases t = 0%nat) /\
  (t_on_done_ran t = true -> t_raises t = false -> t_releases t = 1%nat) /\
  (t_on_done_ran t = true -> t_raises t = true -> t_releases t = 0%nat) /\
  (t_exc t = true -> t_on_done_ran t = true) /\
  (t_on_done_ran t = true -> t_exc t = true \/ exists o, t_crt t = Some o).
Proof.
  intros N s i t HN H Hn. apply (inv_one_release N); [now apply reachable_inv|exact Hn].
Qed.
Print Assumptions crt_one_release_per_transfer.

(** Order inside the log: every subscriber's on_done before the release and
    before the after-done flag; release before the flag; for a download to a
    path the publication (rename) or removal before every subscriber's
    on_done, before the release and before the flag.
    [precedes a b l]: every occurrence of [b] in [l] has an [a] before it. *)
Theorem crt_on_done_order : forall N s i t, 0 <= N -> Reachable N s ->
  nth_error (transfers s) i = Some t ->
  (forall k, (k < t_nsubs t)%nat ->
     precedes (i, EvSubDone k) (i, EvRelease) (log s) /\
     precedes (i, EvSubDone k) (i, EvAfter) (log s)) /\
  precedes (i, EvRelease) (i, EvAfter) (log s) /\
  (t_kind t = DownloadPath -> t_exc t = false ->
     (forall k, precedes (i, handler_final t) (i, EvSubDone k) (log s)) /\
     precedes (i, handler_final t) (i, EvRelease) (log s) /\
     precedes (i, handler_final t) (i, EvAfter) (log s)).
Proof.
  intros N s i t HN H Hn. apply (inv_order N); [now apply reachable_inv|exact Hn].
Qed.
Print Assumptions crt_on_done_order.

(** The whole per-transfer event sequence is fixed by the transfer's record. *)
Theorem crt_log_canonical : forall N s i t, 0 <= N -> Reachable N s ->
  nth_error (transfers s) i = Some t -> proj i (log s) = canon t.
Proof.
  intros N s i t HN H Hn. apply (inv_log N s); [now apply reachable_inv|exact Hn].
Qed.
Print Assumptions crt_log_canonical.

(** Download to a path whose request was created: until on_done is delivered
    the temporary file exists; success => renamed to the destination, exactly one rename, no
    removal; error / cancel (and a rename that itself fails) => removed,
    exactly one removal, no rename.  Never both, never neither.  Every other
    transfer never has a temporary file. *)
Theorem crt_publish_or_remove : forall N s i t, 0 <= N -> Reachable N s ->
  nth_error (transfers s) i = Some t ->
  let p := proj i (log s) in
  (t_kind t = DownloadPath -> t_exc t = false ->
     if t_on_done_ran t then
       match t_crt t with
       | Some Ok => t_temp t = TRenamed /\ count EvRename p = 1%nat /\ count EvRemove p = 0%nat
       | Some _ => t_temp t = TRemoved /\ count EvRename p = 0%nat /\ count EvRemove p = 1%nat
       | None => False
       end
     else t_temp t = TTemp /\ count EvRename p = 0%nat /\ count EvRemove p = 0%nat) /\
  ((t_kind t <> DownloadPath \/ t_exc t = true) ->
     t_temp t = TAbsent /\ count EvRename p = 0%nat /\ count EvRemove p = 0%nat).
Proof.
  intros N s i t HN H Hn. apply (inv_publish_or_remove N); [now apply reachable_inv|exact Hn].
Qed.
Print Assumptions crt_publish_or_remove.

(** shutdown (with or without cancel) either returns or blocks; it returns
    exactly when every registered transfer's after-done flag is set -- whatever
    _finish_transfers met, in particular when the first result() raised --
    and then every done callback of every transfer ran, every permit of these
    transfers is back and no temporary file is left. *)
Theorem crt_shutdown_waits : forall N s c s' r, 0 <= N -> Reachable N s ->
  shutdown c s = (s', r) ->
  (r = RReturned \/ r = RHang) /\
  (r = RReturned <->
   forall t, In t (transfers s') -> t_registered t = true -> t_after t = true) /\
  (r = RReturned -> forall t, In t (transfers s') -> t_registered t = true ->
     t_on_done_ran t = true /\ t_subs_done t = t_nsubs t /\ t_releases t = 1%nat /\
     t_temp t <> TTemp).
Proof.
  intros N s c s' r HN H Hs. apply (inv_shutdown_waits N s c); [now apply reachable_inv|exact Hs].
Qed.
Print Assumptions crt_shutdown_waits.

(** At zero permits a submission blocks (state unchanged) -- it neither fails
    nor overruns; a submission only ever blocks, returns a future, or lets a
    raising subscriber's exception out of the construction-failure path. *)
Theorem crt_blocks_not_fails : forall N s, 0 <= N -> Reachable N s ->
  (Z.of_nat (holding (transfers s)) = N ->
     forall k n r f, submit k n r f s = (s, RWouldBlock)) /\
  (forall k n r f s' res, submit k n r f s = (s', res) ->
     (res = RWouldBlock /\ s' = s /\ permits s <= 0) \/
     (res = RSubmitted /\ 0 < permits s /\ length (transfers s') = S (length (transfers s))) \/
     (res = RRaised /\ 0 < permits s /\ is_fail f = true /\ norm_raises n r = true)).
Proof.
  intros N s HN H. split.
  - intros Hh k n r f. apply submit_blocks.
    destruct (inv_conservation N s (reachable_inv N s HN H)) as [C _]. lia.
  - intros k n r f s' res. apply submit_result.
Qed.
Print Assumptions crt_blocks_not_fails.

(** CRT_PERMITS submissions all get a permit; the next one, of any kind, blocks. *)
Theorem crt_blocks_beyond_permits : forall k n r,
  let s := run (init CRT_PERMITS) (repeat (OSubmit k n r NoFail) (Z.to_nat CRT_PERMITS)) in
  permits s = 0 /\ Z.of_nat (holding (transfers s)) = CRT_PERMITS /\
  forall k' n' r' f', submit k' n' r' f' s = (s, RWouldBlock).
Proof. intros k n r. apply fill_then_blocks. discriminate. Qed.
Print Assumptions crt_blocks_beyond_permits.

(** A construction failure at any point of the try block -- a subscriber's
    on_queued, building the request arguments, make_request itself -- with
    well-behaved subscribers: submit still returns a future, every subscriber's
    on_done ran, the permit taken is released exactly once (the semaphore is
    back to its value), the after-done flag is set, result() will raise. *)
Theorem crt_construction_failure_releases_once : forall s k n r f, 0 < permits s ->
  is_fail f = true -> norm_raises n r = false ->
  exists s', submit k n r f s = (s', RSubmitted) /\ permits s' = permits s /\
    exists t, nth_error (transfers s') (length (transfers s)) = Some t /\
      t_exc t = true /\ t_releases t = 1%nat /\ t_after t = true /\
      t_subs_done t = n /\ future_of t = FvConstructFail.
Proof. exact submit_failed_releases. Qed.
Print Assumptions crt_construction_failure_releases_once.

(** What the code does NOT guarantee (statements that are false of the
    faithful model, with witnesses). *)

(** "Every transfer whose done callbacks ran released its permit" is false
    when one of its subscribers' on_done raises: the permit is never released,
    the after-done flag is never set and shutdown -- even with cancel -- blocks
    for ever. *)
Theorem crt_release_when_subscriber_raises_refuted : exists s t,
  Reachable CRT_PERMITS s /\ nth_error (transfers s) 0 = Some t /\
  t_on_done_ran t = true /\ t_releases t = 0%nat /\ t_after t = false /\
  permits s = CRT_PERMITS - 1 /\ snd (shutdown true s) = RHang.
Proof.
  eexists; eexists. split.
  - exists [OSubmit Upload 1 true NoFail; OComplete 0 Ok]. reflexivity.
  - vm_compute. repeat split.
Qed.
Print Assumptions crt_release_when_subscriber_raises_refuted.

(** "A download whose future reports success was published" is false when the
    rename itself fails: the temporary file is removed, the future still
    reports success (set_exception without override is a no-op once the CRT
    future is done). *)
Theorem crt_success_means_published_refuted : exists s t,
  Reachable CRT_PERMITS s /\ nth_error (transfers s) 0 = Some t /\
  future_of t = FvSuccess /\ t_temp t = TRemoved.
Proof.
  eexists; eexists. split.
  - exists [OSubmit DownloadPath 0 false NoFail; OComplete 0 OkRenameFail]. reflexivity.
  - vm_compute. repeat split.
Qed.
Print Assumptions crt_success_means_published_refuted.

(** Non-vacuity: two permits, three kinds of transfers, a construction
    failure, completions out of order, a blocked third submission, a
    shutdown that returns although the first result() raises. *)
Definition demo_ops : list op :=
  [ OSubmit DownloadPath 2 false FailMakeRequest;   (* 0: construction fails *)
    OSubmit DownloadPath 1 false NoFail;            (* 1 *)
    OSubmit Upload 0 false NoFail;                  (* 2 *)
    OSubmit Delete 0 false NoFail;                  (* blocks *)
    OComplete 2 Err;
    OComplete 1 Ok;
    OShutdown false ].

Example C20_nonvacuous :
  let s := run (init 2) demo_ops in
  Reachable 2 s /\
  permits s = 2 /\ length (transfers s) = 3%nat /\
  map t_releases (transfers s) = [1; 1; 1]%nat /\
  map t_temp (transfers s) = [TAbsent; TRenamed; TAbsent] /\
  map future_of (transfers s) = [FvConstructFail; FvSuccess; FvError] /\
  finish_scan (transfers s) = FinRaised /\
  snd (shutdown false s) = RReturned /\
  snd (submit Delete 0 false NoFail (run (init 2) (firstn 3 demo_ops))) = RWouldBlock /\
  proj 1 (log s) = [EvAcquire; EvQueued 0; EvRename; EvSubDone 0; EvRelease; EvAfter] /\
  proj 0 (log s) = [EvAcquire; EvQueued 0; EvQueued 1; EvSubDone 0; EvSubDone 1; EvRelease; EvAfter].
Proof. split; [now exists demo_ops|]. vm_compute. repeat split. Qed.

Example C20_nonvacuous_cancel :
  let s0 := run (init 3) [OSubmit DownloadPath 1 false NoFail; OSubmit DownloadStream 1 false NoFail] in
  snd (shutdown false s0) = RHang /\
  snd (shutdown true s0) = RReturned /\
  map t_temp (transfers (fst (shutdown true s0))) = [TRemoved; TAbsent] /\
  map future_of (transfers (fst (shutdown true s0))) = [FvCancelled; FvCancelled] /\
  permits (fst (shutdown true s0)) = 3.
Proof. vm_compute. repeat split. Qed.

(** A failed transfer ahead of one whose finished_future is resolved but whose
    on_done has not been delivered: result() of the first raises, shutdown --
    with or without cancel -- still waits for the second one's callbacks. *)
Example C20_nonvacuous_resolved_not_delivered :
  let s0 := run (init 3) [OSubmit Upload 1 false FailQueued; OSubmit DownloadPath 1 false NoFail;
                          OResolve 1 Ok] in
  finish_scan (transfers s0) = FinRaised /\
  map future_of (transfers s0) = [FvConstructFail; FvSuccess] /\
  map t_temp (transfers s0) = [TAbsent; TTemp] /\ permits s0 = 2 /\
  snd (shutdown false s0) = RHang /\ snd (shutdown true s0) = RHang /\
  proj 0 (log s0) = [EvAcquire; EvQueued 0; EvSubDone 0; EvRelease; EvAfter] /\
  let s1 := fst (step s0 (ODeliver 1)) in
  snd (shutdown false s1) = RReturned /\ map t_temp (transfers s1) = [TAbsent; TRenamed] /\
  permits s1 = 3.
Proof. vm_compute. repeat split. Qed.
