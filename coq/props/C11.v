(** C11 -- in-memory buffering stays within the documented bounds: the
    counting view over the protocol model [model/Sys.v] (the sliding-window
    refinement of the download semaphore -- tokens in part order, capacity
    formula -- is props/C12.v over model/Sema.v; buffer sizes are C14/C01).
    Each theorem is closed by a lemma of proofs/SysFiles.v (which cites
    proofs/SysStage.v for permit conservation and running workers) and followed
    by Print Assumptions.

    Reading guide.  [init w_sub w_req w_io q_sub q_req q_io up down]: workers of
    the three executors, capacities of their semaphores (max_*_queue_size),
    [up] = max_in_memory_upload_chunks, [down] = max_in_memory_download_chunks.
    [holds i x]: task [x] took a permit of semaphore [i] ([EAcquire], inside
    BoundedExecutor.submit, before it is queued) and its future's done callback
    has not given it back ([ERelease], after the task ended).  A task holds at
    most one permit: the tag semaphore if the submit passed a tag (request
    executor only), otherwise its executor's own.  [count p l]: number of tasks
    satisfying [p].  [io_pending x]: [x] is an IO-executor task that is queued
    or picked by the worker and not yet ended ([occupying]).  [sub_child s x]:
    [x] is inside coordinator.submit() (created, not yet queued) and its
    submitter is a submission task. *)
From Coq Require Import ZArith List Bool Lia.
From S3V Require Import model.Sys proofs.SysBase proofs.SysTask proofs.SysStage.
From S3V Require proofs.SysFiles.
Import ListNotations.
Open Scope Z_scope.

(** B1: the download-chunk semaphore: free permits are never negative and
    free + #(tasks holding one) = max_in_memory_download_chunks. *)
Theorem C11_download_window_permits :
  forall w_sub w_req w_io q_sub q_req q_io up down s,
  1 <= q_sub -> 1 <= q_req -> 1 <= q_io -> 1 <= up -> 1 <= down ->
  reachable (init w_sub w_req w_io q_sub q_req q_io up down) s ->
  exists free, find_sem SEM_DOWN (sems s) = Some free /\ 0 <= free /\
    free + count (holds SEM_DOWN) (tasks s) = down.
Proof. exact SysFiles.download_window_permits. Qed.
Print Assumptions C11_download_window_permits.

(** B2: every queued or running IO task holds an unreleased permit of the IO
    executor's semaphore, hence pending destination writes <= max_io_queue_size. *)
Theorem C11_io_pending_bounded :
  forall w_sub w_req w_io q_sub q_req q_io up down s,
  1 <= q_sub -> 1 <= q_req -> 1 <= q_io -> 1 <= up -> 1 <= down ->
  reachable (init w_sub w_req w_io q_sub q_req q_io up down) s ->
  (forall k x, find_task k (tasks s) = Some x -> SysFiles.io_pending x = true -> holds SEM_IO x = true) /\
  count SysFiles.io_pending (tasks s) <= q_io.
Proof. exact SysFiles.io_pending_bounded. Qed.
Print Assumptions C11_io_pending_bounded.

(** a permit is the executor's own, or -- request executor only -- a tag permit *)
Theorem C11_permit_kinds :
  forall w_sub w_req w_io q_sub q_req q_io up down s,
  reachable (init w_sub w_req w_io q_sub q_req q_io up down) s ->
  forall k x, find_task k (tasks s) = Some x ->
    k_permit x = -1 \/ k_permit x = sem_of_stage (k_stage x) \/
    ((k_permit x = SEM_UP \/ k_permit x = SEM_DOWN) /\ k_stage x = SReq).
Proof. exact SysFiles.permits_inv_reachable. Qed.
Print Assumptions C11_permit_kinds.

(** B3a: the upload-chunk semaphore: conservation, and at most
    max_in_memory_upload_chunks tasks hold a chunk permit. *)
Theorem C11_upload_permits :
  forall w_sub w_req w_io q_sub q_req q_io up down s,
  1 <= q_sub -> 1 <= q_req -> 1 <= q_io -> 1 <= up -> 1 <= down ->
  reachable (init w_sub w_req w_io q_sub q_req q_io up down) s ->
  (exists free, find_sem SEM_UP (sems s) = Some free /\ 0 <= free /\
     free + count (holds SEM_UP) (tasks s) = up) /\
  count (holds SEM_UP) (tasks s) <= up.
Proof. exact SysFiles.upload_permits. Qed.
Print Assumptions C11_upload_permits.

(** B3b: a submitter has at most one child inside submit() (submit is
    synchronous: [busy]) ... *)
Theorem C11_one_submitting_child :
  forall w_sub w_req w_io q_sub q_req q_io up down s k1 x1 k2 x2,
  reachable (init w_sub w_req w_io q_sub q_req q_io up down) s ->
  find_task k1 (tasks s) = Some x1 -> find_task k2 (tasks s) = Some x2 ->
  k_parent x1 = k_parent x2 -> k_kind x1 <> KSubmission -> k_kind x2 <> KSubmission ->
  k_st x1 = TSubmitting -> k_st x2 = TSubmitting -> k1 = k2.
Proof. exact SysFiles.one_submitting_child. Qed.
Print Assumptions C11_one_submitting_child.

(** ... hence the tasks being submitted by submission tasks are at most the
    running submission workers <= max_submission_concurrency ... *)
Theorem C11_submitting_children_le_workers :
  forall w_sub w_req w_io q_sub q_req q_io up down s,
  1 <= w_sub -> 1 <= w_req -> 1 <= w_io ->
  reachable (init w_sub w_req w_io q_sub q_req q_io up down) s ->
  count (SysFiles.sub_child s) (tasks s) <= g_running (st_sub s) /\ g_running (st_sub s) <= w_sub.
Proof. exact SysFiles.submitting_children_le_workers. Qed.
Print Assumptions C11_submitting_children_le_workers.

(** ... and upload_buffers_bounded (counting view): chunk-permit holders plus
    chunks read but not yet submitted <= max_in_memory_upload_chunks +
    max_submission_concurrency. *)
Theorem C11_upload_buffers_bounded :
  forall w_sub w_req w_io q_sub q_req q_io up down s,
  1 <= w_sub -> 1 <= w_req -> 1 <= w_io -> 1 <= q_sub -> 1 <= q_req -> 1 <= q_io -> 1 <= up -> 1 <= down ->
  reachable (init w_sub w_req w_io q_sub q_req q_io up down) s ->
  count (fun x => holds SEM_UP x || SysFiles.sub_child s x) (tasks s) <= up + w_sub.
Proof. exact SysFiles.upload_buffers_bounded. Qed.
Print Assumptions C11_upload_buffers_bounded.

(* ------------------------------------------------------------------ *)
(** Non-vacuity: a real run of the manager (harness/sched, chooser "first":
    ranged download of 10 bytes to a path with max_io_queue_size = 2) replayed
    from [init 1 2 1 10 10 2 2 2].  After 20 events the submission task is
    inside submit() for its first GetObject task: one [sub_child], one running
    submission worker.  After 77 events two IO writes are queued holding the
    two IO permits, a third IO write task (6) is inside submit(): the bound of
    B2 is attained and the acquire the code would block on is rejected. *)
Definition c11_trace : list event :=
  [ENewTransfer (-1) 0;
   EAddCallback (-1) 0 1;
   EAddCallback (-1) 0 2;
   ESubmit (-1) 0 0 SSub false [] 0;
   EAcquire (-1) 0 0;
   EEnqueue (-1) 0;
   ETaskStart 0;
   EDepsDone 0;
   EDoneCheck 0 false;
   EMainBegin 0;
   EStatus 0 false true;
   EOnQueued 0;
   EStatus 0 true true;
   ES3Begin 0 0 OpHead 0 0;
   ES3Effect 0 0;
   ES3End 0 true;
   EAddCleanup 0 0 3;
   EAddCleanup 0 0 4;
   ECount 0 0 0;
   ESubmit 0 1 0 SReq false [] 5;
   EAcquire 0 1 1;
   EEnqueue 0 1;
   EAssoc 0 1;
   ECount 0 0 0;
   ESubmit 0 2 0 SReq false [] 5;
   EAcquire 0 2 1;
   EEnqueue 0 2;
   EAssoc 0 2;
   ECount 0 0 0;
   ESubmit 0 3 0 SReq false [] 5;
   EAcquire 0 3 1;
   EEnqueue 0 3;
   EAssoc 0 3;
   ECount 0 0 2;
   EMainEnd 0 true;
   ETaskEnd 0;
   ERelease 0;
   ETaskStart 1;
   EDepsDone 1;
   EDoneCheck 1 false;
   EMainBegin 1;
   ES3Begin 1 1 OpGet 0 0;
   ES3Effect 1 0;
   ES3End 1 true;
   EOnProgress 1 0;
   ESubmit 1 4 0 SIO false [] 6;
   EAcquire 1 4 2;
   EEnqueue 1 4;
   EAssoc 1 4;
   EOnProgress 1 0;
   ESubmit 1 5 0 SIO false [] 6;
   EAcquire 1 5 2;
   EEnqueue 1 5;
   EAssoc 1 5;
   EMainEnd 1 true;
   ECount 1 0 1;
   ETaskEnd 1;
   ERelease 1;
   EDissoc 1;
   ETaskStart 2;
   EDepsDone 2;
   EDoneCheck 2 false;
   EMainBegin 2;
   ES3Begin 2 2 OpGet 0 0;
   ES3Effect 2 0;
   ES3End 2 true;
   EOnProgress 2 0;
   ESubmit 2 6 0 SIO false [] 6;
   ETaskStart 3;
   EDepsDone 3;
   EDoneCheck 3 false;
   EMainBegin 3;
   ES3Begin 3 3 OpGet 0 0;
   ES3Effect 3 0;
   ES3End 3 true;
   EOnProgress 3 0;
   ESubmit 3 7 0 SIO false [] 6;
   ETaskStart 4;
   EDepsDone 4;
   EDoneCheck 4 false;
   EMainBegin 4;
   EFs 4 0 FOpen;
   EFs 4 0 FWrite;
   EMainEnd 4 true;
   ETaskEnd 4;
   ERelease 4;
   EAcquire 2 6 2;
   EEnqueue 2 6;
   EAssoc 2 6;
   EOnProgress 2 0;
   ESubmit 2 8 0 SIO false [] 6;
   EDissoc 4;
   ETaskStart 5;
   EDepsDone 5;
   EDoneCheck 5 false;
   EMainBegin 5;
   EFs 5 0 FWrite;
   EMainEnd 5 true;
   ETaskEnd 5;
   ERelease 5;
   EAcquire 2 8 2;
   EEnqueue 2 8;
   EAssoc 2 8;
   EMainEnd 2 true;
   ECount 2 0 1;
   ETaskEnd 2;
   ERelease 2;
   EDissoc 2;
   EDissoc 5;
   ETaskStart 6;
   EDepsDone 6;
   EDoneCheck 6 false;
   EMainBegin 6;
   EFs 6 0 FWrite;
   EMainEnd 6 true;
   ETaskEnd 6;
   ERelease 6;
   EAcquire 3 7 2;
   EEnqueue 3 7;
   EAssoc 3 7;
   EMainEnd 3 true;
   ESubmit 3 9 0 SIO true [] 7;
   EDissoc 6;
   ETaskStart 8;
   EDepsDone 8;
   EDoneCheck 8 false;
   EMainBegin 8;
   EFs 8 0 FWrite;
   EMainEnd 8 true;
   ETaskEnd 8;
   ERelease 8;
   EAcquire 3 9 2;
   EEnqueue 3 9;
   EAssoc 3 9;
   ECount 3 0 1;
   ETaskEnd 3;
   ERelease 3;
   EDissoc 3;
   EDissoc 8;
   ETaskStart 7;
   EDepsDone 7;
   EDoneCheck 7 false;
   EMainBegin 7;
   EFs 7 0 FWrite;
   EMainEnd 7 true;
   ETaskEnd 7;
   ERelease 7;
   EDissoc 7;
   ETaskStart 9;
   EDepsDone 9;
   EDoneCheck 9 false;
   EMainBegin 9;
   EFs 9 0 FClose;
   EFs 9 0 FRename;
   ESetResult 9;
   EMainEnd 9 true;
   EAnnBegin 9 0;
   EEventSet 9 0;
   EResult (-1) 0 false;
   EShutdownBegin;
   EResult (-1) 0 false;
   EStageShutdown SSub;
   EStageJoined SSub;
   EStageShutdown SReq;
   EStageJoined SReq;
   EStageShutdown SIO;
   ECallbacksBegin 9 0;
   ECallback 9 0 1;
   ECallback 9 0 2;
   ECallbacksEnd 9 0;
   EAnnEnd 9 0;
   ETaskEnd 9;
   ERelease 9;
   EDissoc 9;
   EStageJoined SIO;
   EShutdownReturn].

Example C11_nonvacuous :
  option_map (fun s => (count (SysFiles.sub_child s) (tasks s), g_running (st_sub s)))
    (run (init 1 2 1 10 10 2 2 2) (firstn 20 c11_trace)) = Some (1, 1) /\
  option_map (fun s => (count SysFiles.io_pending (tasks s), find_sem SEM_IO (sems s),
                        count (holds SEM_IO) (tasks s), step s (EAcquire 2 6 SEM_IO)))
    (run (init 1 2 1 10 10 2 2 2) (firstn 77 c11_trace)) = Some (2, Some 0, 2, None) /\
  (* the whole run is accepted with these limits and gives every permit back *)
  option_map sems (run (init 1 2 1 10 10 2 2 2) c11_trace)
    = Some [(SEM_SUB, 10); (SEM_REQ, 10); (SEM_IO, 2); (SEM_UP, 2); (SEM_DOWN, 2)].
Proof. repeat split; vm_compute; reflexivity. Qed.
