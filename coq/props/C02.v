(** C02 -- Downloads deliver exactly the object bytes, also across stream
    retries: the TransferManager front-end and the process-pool worker loop
    (the legacy S3Transfer front-end: props/C02Legacy.v).
    Only statements, each closed by [exact]/[apply] of lemmas from
    proofs/DownloadProofs.v (which builds on proofs/RetryProofs.v,
    proofs/DeferQProofs.v, proofs/PlanProofs.v), each followed by
    Print Assumptions.

    Reading guide.  [obj]: the object's bytes, any length.  [cfg]: threshold,
    chunk, io chunk, attempts.  [fs]/[rs]: for the i-th planned GetObject a
    fault script (per attempt: no fault / the request raises / the body raises
    once k bytes were returned, retryable or not) and per attempt a read-size
    script (short reads).  [sched]: which request task hands its next chunk to
    the output manager next -- [merge sched] ranges over ALL interleavings of
    the tasks' delivery sequences ([schedules_are_all_interleavings]); a task
    is sequential, so its own deliveries (attempt after attempt) keep their
    order.  [manager_download kind init obj cfg fs rs sched] is the whole
    download; [dl_out] what the future reports, [dl_content] what the
    destination holds then, [dl_writes] the writes that reached it,
    [dl_parts] the request log (Range, number of GetObject calls). *)
From Coq Require Import ZArith List Bool Lia Sorted.
From S3V Require Import gen.Tables model.Plan model.Retry model.DeferQ model.DeferQOld
  model.DownloadDest proofs.RetryProofs proofs.DeferQProofs proofs.DownloadProofs.
Import ListNotations.
Open Scope Z_scope.

(* ------------------------------------------------------------------ *)
(** ** One request task *)

(** Every delivery of every attempt -- also of attempts that failed half-way,
    with whatever read sizes, also when the transfer is cancelled meanwhile --
    carries the object's bytes at its offset. *)
Theorem run_get_deliveries_consistent :
  forall obj start len io_chunk max_attempts faults reads done_at,
  in_object obj start len -> 1 <= io_chunk ->
  consistent obj (deliveries_of (g_trace (run_get_full obj start len io_chunk max_attempts
                                                      faults reads done_at))).
Proof. exact DownloadProofs.run_get_deliveries_consistent. Qed.
Print Assumptions run_get_deliveries_consistent.

(** A successful task's deliveries cover its whole range (the write cursor
    restarts at the range's first byte in every attempt) and there is at least
    one delivery, even for an empty range. *)
Theorem run_get_ok_covers_range :
  forall obj start len io_chunk max_attempts faults reads done_at,
  in_object obj start len -> 1 <= io_chunk ->
  let r := run_get_full obj start len io_chunk max_attempts faults reads done_at in
  g_outcome r = Ok ->
  (forall p, start <= p < start + len -> covered (deliveries_of (g_trace r)) p) /\
  deliveries_of (g_trace r) <> [].
Proof. exact run_get_ok_covers. Qed.
Print Assumptions run_get_ok_covers_range.

(* ------------------------------------------------------------------ *)
(** ** Schedules *)

(** [merge] produces exactly the interleavings: every schedule gives one and
    every interleaving (every order in which request threads reach the output
    manager, every completion order of the parts) comes from a schedule. *)
Theorem schedules_are_all_interleavings : forall (ls : list (list entry)),
  (forall sched, interleaving ls (merge sched ls)) /\
  (forall h, interleaving ls h -> exists sched, merge sched ls = h).
Proof. intros ls. split; [intros s; apply merge_interleaving|apply merge_complete]. Qed.
Print Assumptions schedules_are_all_interleavings.

(* ------------------------------------------------------------------ *)
(** ** Destinations, for any set of request tasks that tile the object *)

(** Offset-addressed destination (seek + write): writes that carry the
    object's bytes and together cover it leave exactly the object, in ANY
    order (not only interleavings), on top of any previous content that is not
    longer than the object. *)
Theorem offset_writes_exact : forall obj h init,
  consistent obj h -> (forall p, 0 <= p < blen obj -> covered h p) ->
  (length init <= length obj)%nat ->
  write_all init h = obj.
Proof. exact write_all_exact. Qed.
Print Assumptions offset_writes_exact.

(** File path / seekable stream: all deliveries of all attempts of all tasks --
    including the partial ones of failed attempts -- applied in any order that
    respects each task's own order yield exactly the object, provided every
    task succeeded and the tasks' ranges tile the object. *)
Theorem seekable_dest_exact : forall obj io_chunk max_attempts parts h init,
  1 <= io_chunk -> Forall (part_scripted obj) parts ->
  interleaving (part_deliveries obj io_chunk max_attempts parts) h ->
  Forall (part_ok obj io_chunk max_attempts) parts -> tiles (blen obj) parts ->
  (length init <= length obj)%nat ->
  write_all init h = obj.
Proof. intros obj io mx parts h init Hio Hs Hil Hok Ht. exact (parts_seekable_exact obj io mx Hio parts Hs h Hil Hok Ht init). Qed.
Print Assumptions seekable_dest_exact.

(** Non-seekable stream (through C16's theorems): the history is consistent
    and covers the object, so the stream received exactly the object, each
    write starting where the previous one ended (each byte once, in order). *)
Theorem nonseekable_dest_exact : forall obj io_chunk max_attempts parts h,
  1 <= io_chunk -> Forall (part_scripted obj) parts ->
  interleaving (part_deliveries obj io_chunk max_attempts parts) h ->
  Forall (part_ok obj io_chunk max_attempts) parts -> tiles (blen obj) parts ->
  manager_run (DeferQ.init, []) h = (final_state h, obj) /\
  next_offset (final_state h) = blen obj /\
  concat (map snd (emitted h)) = obj /\
  offsets_running 0 (emitted h).
Proof. intros obj io mx parts h Hio Hs Hil Hok Ht. exact (parts_nonseekable_exact obj io mx Hio parts Hs h Hil Hok Ht). Qed.
Print Assumptions nonseekable_dest_exact.

(** ... hence every position of the object is written exactly once and write
    offsets strictly increase across non-empty writes (C16). *)
Theorem nonseekable_each_byte_once : forall h p,
  length (filter (insideb p) (emitted h)) =
    (if (0 <=? p) && (p <? next_offset (final_state h)) then 1%nat else 0%nat) /\
  StronglySorted ends_before (emitted h).
Proof.
  intros h p. destruct (dq_offsets_running h) as [Hr Hn]. split.
  - rewrite Hn. exact (offsets_running_once (emitted h) 0 p Hr).
  - exact (offsets_running_sorted (emitted h) 0 Hr).
Qed.
Print Assumptions nonseekable_each_byte_once.

(* ------------------------------------------------------------------ *)
(** ** Planning *)

(** The requests planned for an object (one GET below the threshold, ranged
    GETs from the threshold on; any size including 0 and non-multiples of the
    chunk size) lie inside the object and tile it. *)
Theorem plan_tiles_object : forall obj thr chunk fs rs, 0 < chunk ->
  Forall (part_scripted obj) (plan_parts (blen obj) (dl_plan (blen obj) thr chunk) fs rs) /\
  tiles (blen obj) (plan_parts (blen obj) (dl_plan (blen obj) thr chunk) fs rs).
Proof. intros. split; [now apply plan_parts_scripted|now apply plan_parts_tile]. Qed.
Print Assumptions plan_tiles_object.

(** Single GET or ranged mode, as the request log shows it. *)
Theorem C02_manager_modes : forall kind init obj cfg fs rs sched,
  map fst (dl_parts (manager_download kind init obj cfg fs rs sched)) =
  if blen obj <? c_threshold cfg then [None]
  else map Some (download_ranges (blen obj) (c_chunk cfg)).
Proof. exact manager_plan_modes. Qed.
Print Assumptions C02_manager_modes.

(* ------------------------------------------------------------------ *)
(** ** C02 for the transfer manager *)

(** Whenever the download future reports success the destination -- file
    path (temp file, renamed), seekable stream, non-seekable stream; single
    GET or ranged -- holds exactly the object: for every object, every
    positive configuration, ALL fault scripts, ALL read-size scripts and ALL
    schedules.  For the non-seekable stream moreover the writes are in order,
    each byte once. *)
Theorem C02_manager_exact : forall kind init obj cfg fs rs sched,
  cfg_ok cfg -> (length init <= length obj)%nat ->
  let r := manager_download kind init obj cfg fs rs sched in
  dl_out r = DlOk ->
  dl_content r = Some obj /\
  (kind = DStream ->
     concat (map snd (dl_writes r)) = obj /\ offsets_running 0 (dl_writes r)).
Proof. exact manager_success_exact. Qed.
Print Assumptions C02_manager_exact.

(** ... and success is what happens under the statement's fault hypothesis:
    fewer than num_download_attempts striking faults per request, all
    retryable, at arbitrary byte positions, with arbitrary short reads. *)
Theorem C02_manager_succeeds : forall kind init obj cfg fs rs sched,
  cfg_ok cfg -> scripts_ok obj cfg fs rs ->
  dl_out (manager_download kind init obj cfg fs rs sched) = DlOk.
Proof. exact manager_scripted_succeeds. Qed.
Print Assumptions C02_manager_succeeds.

(** The empty object: one GetObject without Range; the successful attempt
    hands exactly one (empty) chunk to the destination and failed attempts
    none, so the temp file of a path download exists for the rename. *)
Theorem empty_object_one_write : forall kind init cfg fs rs sched,
  1 <= c_threshold cfg ->
  let r := manager_download kind init [] cfg fs rs sched in
  map fst (dl_parts r) = [None] /\
  (dl_out r <> DlFailed ->
     dl_out r = DlOk /\ dl_writes r = [(0, [])] /\
     dl_content r = Some (match kind with DSeekable => init | _ => [] end)).
Proof. exact manager_empty_object. Qed.
Print Assumptions empty_object_one_write.

(** The request log: per planned request its Range and the number of
    GetObject calls of its task ... *)
Theorem C02_request_log : forall kind init obj cfg fs rs sched,
  dl_parts (manager_download kind init obj cfg fs rs sched) =
  map (fun p => (p_range p, g_requests (part_result obj (c_io_chunk cfg) (c_attempts cfg) p)))
      (manager_parts obj cfg fs rs).
Proof. exact manager_dl_parts. Qed.
Print Assumptions C02_request_log.

(** ... at most num_download_attempts per request, and a non-retryable error
    is never retried (Retry's [attempt_bound], [nonretryable_not_retried]). *)
Theorem C02_attempts : forall obj cfg fs rs p,
  0 < c_chunk cfg -> 1 <= c_io_chunk cfg -> In p (manager_parts obj cfg fs rs) ->
  let r := part_result obj (c_io_chunk cfg) (c_attempts cfg) p in
  Z.of_nat (g_requests r) <= Z.max 0 (c_attempts cfg) /\
  (forall pre f post, p_faults p = pre ++ f :: post ->
     Forall (fun g => fires g (p_len p) = true /\ retryable_of g = true) pre ->
     fires f (p_len p) = true -> retryable_of f = false ->
     Z.of_nat (length pre) < c_attempts cfg ->
     g_outcome r = Raised /\ g_requests r = S (length pre)).
Proof. exact manager_attempts. Qed.
Print Assumptions C02_attempts.

(* ------------------------------------------------------------------ *)
(** ** C02 for the process-pool downloader *)

(** The temp file is allocated to the object's size; every attempt of a job
    seeks to the job's offset and writes sequentially; jobs of different
    workers interleave arbitrarily.  Success implies the file holds exactly
    the object. *)
Theorem pool_dest_exact : forall max_attempts obj thr chunk io_chunk fs rs sched,
  0 < chunk -> 1 <= io_chunk ->
  let r := pool_download_with max_attempts obj thr chunk io_chunk fs rs sched in
  dl_out r = DlOk -> dl_content r = Some obj.
Proof. exact pool_success_exact. Qed.
Print Assumptions pool_dest_exact.

Theorem C02_pool_exact : forall obj thr chunk io_chunk fs rs sched,
  0 < chunk -> 1 <= io_chunk ->
  let r := pool_download obj thr chunk io_chunk fs rs sched in
  dl_out r = DlOk -> dl_content r = Some obj.
Proof. intros obj thr chunk io fs rs sched. apply pool_success_exact. Qed.
Print Assumptions C02_pool_exact.

(** Success under fewer than max_attempts retryable faults per job (for a
    non-empty object: allocating 0 bytes fails, see model/DownloadDest.v), and
    the bound on requests per job. *)
Theorem pool_succeeds : forall max_attempts obj thr chunk io_chunk fs rs sched,
  0 < chunk -> 1 <= io_chunk -> 0 < blen obj ->
  Forall (part_faults_ok max_attempts) (plan_parts (blen obj) (dl_plan (blen obj) thr chunk) fs rs) ->
  dl_out (pool_download_with max_attempts obj thr chunk io_chunk fs rs sched) = DlOk.
Proof. exact pool_scripted_succeeds. Qed.
Print Assumptions pool_succeeds.

Theorem pool_attempts_bounded : forall max_attempts obj io_chunk p,
  1 <= io_chunk -> part_scripted obj p ->
  Z.of_nat (snd (fst (pool_job obj io_chunk max_attempts p))) <= Z.max 0 max_attempts.
Proof. exact pool_attempt_bound. Qed.
Print Assumptions pool_attempts_bounded.

(* ------------------------------------------------------------------ *)
(** ** For the record: the non-seekable destination before the repairs *)

(** With the deferred-write queue and the immediate path as they were before
    the fixes for F3 and F4 (model/DeferQOld.v) the statement is false: a
    ranged download whose first request is retried after a 3-byte read loses
    bytes (only "abc" of "abcdefgh" reaches the stream) and a single GET
    retried after 3 bytes duplicates them ("abcabcdefgh") -- both under the
    statement's fault hypothesis; the repaired code writes the object. *)
Theorem C02_nonseekable_unrepaired_refuted :
  (exists obj cfg fs rs sched, cfg_ok cfg /\ scripts_ok obj cfg fs rs /\
     blen obj <? c_threshold cfg = false /\
     old_stream_content obj cfg fs rs sched = firstn 3 obj /\
     old_stream_content obj cfg fs rs sched <> obj /\
     dl_content (manager_download DStream [] obj cfg fs rs sched) = Some obj) /\
  (exists obj cfg fs rs sched, cfg_ok cfg /\ scripts_ok obj cfg fs rs /\
     blen obj <? c_threshold cfg = true /\
     old_stream_content obj cfg fs rs sched = firstn 3 obj ++ obj /\
     old_stream_content obj cfg fs rs sched <> obj /\
     dl_content (manager_download DStream [] obj cfg fs rs sched) = Some obj).
Proof.
  split.
  - exists w_obj, w3_cfg, w3_faults, w3_reads, []. destruct w3_scripts_ok as [H1 H2].
    split; [exact H1|]. split; [exact H2|]. vm_compute. repeat split; discriminate.
  - exists w_obj, w4_cfg, w4_faults, [], []. destruct w4_scripts_ok as [H1 H2].
    split; [exact H1|]. split; [exact H2|]. vm_compute. repeat split; discriminate.
Qed.
Print Assumptions C02_nonseekable_unrepaired_refuted.

(* ------------------------------------------------------------------ *)
(** ** Non-vacuity *)

(** 10 bytes, threshold 4, chunk 3 (4 ranges, the last 1 byte), io chunk 2,
    3 attempts; range 1 fails after 2 bytes (1-byte reads), then on the
    request, then succeeds; range 3 fails before its first byte; deliveries of
    the four tasks interleaved (range 3 first, range 0 late).  The hypotheses
    of [C02_manager_succeeds]/[C02_manager_exact] hold; the seekable
    destination receives 9 writes, two of them from failed attempts, out of
    offset order. *)
Example C02_nonvacuous_seekable :
  cfg_ok ex_cfg /\ scripts_ok ex_obj10 ex_cfg ex_faults ex_reads /\
  manager_download DSeekable [] ex_obj10 ex_cfg ex_faults ex_reads ex_sched =
    mkDl DlOk (Some ex_obj10)
      [(9, [19]); (3, [13]); (6, [16]); (4, [14]); (0, [10; 11]); (7, [17; 18]);
       (3, [13; 14]); (5, [15]); (2, [12])]
      [(Some (0, Some 2), 1%nat); (Some (3, Some 5), 3%nat); (Some (6, Some 8), 1%nat);
       (Some (9, None), 2%nat)].
Proof.
  destruct ex_scripts_ok as [H1 H2]. split; [exact H1|]. split; [exact H2|].
  vm_compute. reflexivity.
Qed.

(** The same download into a non-seekable stream: the queue withholds ranges
    3, 1, 2 until range 0 arrives and drops the re-delivered bytes. *)
Example C02_nonvacuous_stream :
  dl_writes (manager_download DStream [] ex_obj10 ex_cfg ex_faults ex_reads ex_sched) =
    [(0, [10; 11]); (2, [12]); (3, [13]); (4, [14]); (5, [15]); (6, [16]); (7, [17; 18]); (9, [19])] /\
  dl_content (manager_download DStream [] ex_obj10 ex_cfg ex_faults ex_reads ex_sched) = Some ex_obj10.
Proof. vm_compute. split; reflexivity. Qed.

(** The same object through the process pool (5 attempts per job). *)
Example C02_nonvacuous_pool :
  dl_out (pool_download ex_obj10 4 3 2 ex_faults ex_reads ex_sched) = DlOk /\
  dl_content (pool_download ex_obj10 4 3 2 ex_faults ex_reads ex_sched) = Some ex_obj10 /\
  map snd (dl_parts (pool_download ex_obj10 4 3 2 ex_faults ex_reads ex_sched)) = [1; 3; 1; 2]%nat.
Proof. vm_compute. repeat split. Qed.

(** An empty object whose first two requests fail: three GetObject calls,
    one empty write, the temp file exists. *)
Example C02_nonvacuous_empty :
  manager_download DPath [] [] ex_cfg [[FaultOnRequest true; FaultAfter 0 true]] [] [] =
    mkDl DlOk (Some []) [(0, [])] [(None, 3%nat)].
Proof. vm_compute. reflexivity. Qed.

(** A seekable destination that already holds more than the object keeps its
    tail: the hypothesis [length init <= length obj] of [C02_manager_exact]
    cannot be dropped. *)
Example C02_stale_tail_remains :
  dl_content (manager_download DSeekable [1; 2; 3; 4; 5] [7; 8] ex_cfg [] [] []) = Some [7; 8; 3; 4; 5].
Proof. vm_compute. reflexivity. Qed.
