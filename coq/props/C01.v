(** C01 -- Upload and copy produce a byte-exact destination object.

    Only statements, each closed by [exact]/[apply] of a lemma from
    proofs/UploadSrcProofs.v (model: model/UploadSrc.v, model/S3Spec.v, on top
    of Plan.v (C14) and Chunk.v (C09)), each followed by Print Assumptions.

    Reading.  The three upload input managers cut the source -- the file, or
    the stream from its position at call time to EOF -- into bodies whose
    concatenation in part-number order is the source (part numbers 1..n
    ascending, no empty part, every part but the last exactly the effective
    chunk size), for every size, chunk size > 0, threshold, start offset and,
    for streams (seekable or not), EVERY short-read script.  Whatever a client does
    to a body before its last attempt (sign reads, partial sends, rewinds),
    the last complete send delivers the body's bytes.  The part tasks may run
    in ANY order: complete receives [(ETag_k, k)] for k = 1..n in ascending
    order with the ETag (and checksum) the service returned for that very
    part, is called exactly once, is accepted, and the reference S3 then holds
    an object equal to the source.  Same for copies (CopySourceRange slices)
    and for the legacy S3Transfer.upload_file. *)
From Coq Require Import ZArith List Bool Lia Permutation.
From S3V Require Import gen.Tables model.Plan model.Chunk model.Progress model.S3Spec
  model.UploadSrc proofs.PlanProofs proofs.ChunkProofs proofs.UploadSrcProofs.
Import ListNotations.
Open Scope Z_scope.

(** ** The bodies tile the source *)

(** Filename manager: part k is the window [c(k-1), min(ck, size)) of the file. *)
Theorem filename_parts_tile : forall f c, 0 < c ->
  let parts := plan_part_bytes (fn_parts f c) in
  concat (map snd parts) = f /\
  map fst parts = zseq 1 (length parts) /\
  Forall nonempty (map snd parts) /\
  all_but_last_len (Z.to_nat c) (map snd parts).
Proof. exact filename_parts_tile_pf. Qed.
Print Assumptions filename_parts_tile.

(** Seekable manager, stream at position [p]: the parts are the stream from
    [p] to EOF -- for EVERY short-read script [scr] (each part is read in a
    loop until it is full or the stream ends). *)
Theorem seekable_parts_tile : forall data p c scr, 0 < c -> 0 <= p ->
  let parts := plan_part_bytes (fst (sk_parts data p c scr)) in
  concat (map snd parts) = skipn (Z.to_nat p) data /\
  map fst parts = zseq 1 (length parts) /\
  Forall nonempty (map snd parts) /\
  all_but_last_len (Z.to_nat c) (map snd parts).
Proof. exact seekable_parts_tile_pf. Qed.
Print Assumptions seekable_parts_tile.

(** ... true only since the repair: with one raw read per part (the part count
    being fixed from the measured size) a short read lost the stream's tail. *)
Theorem seekable_short_reads_unrepaired_refuted :
  exists data p c scr, 0 < c /\ 0 <= p <= Z.of_nat (length data) /\
    concat (map snd (plan_part_bytes (fst (sk_parts_unrepaired data p c scr))))
      <> skipn (Z.to_nat p) data.
Proof. exact seekable_short_reads_unrepaired_refuted_pf. Qed.
Print Assumptions seekable_short_reads_unrepaired_refuted.

(** Non-seekable manager: threshold pre-read into _initial_data, then _read
    until an empty result -- for EVERY short-read script [scr]. *)
Theorem nonseekable_parts_tile : forall d scr thr c, 0 < c ->
  let im := fst (ns_preread (mkStream d scr []) thr) in
  let st := snd (ns_preread (mkStream d scr []) thr) in
  let parts := fst (ns_parts im st c) in
  concat (map snd parts) = d /\
  map fst parts = zseq 1 (length parts) /\
  Forall nonempty (map snd parts) /\
  all_but_last_len (Z.to_nat c) (map snd parts).
Proof. exact nonseekable_parts_tile_pf. Qed.
Print Assumptions nonseekable_parts_tile.

(** get_put_object_body = _initial_data + read() is the whole stream. *)
Theorem nonseekable_put_body_exact : forall d scr thr,
  fst (ns_put_body (fst (ns_preread (mkStream d scr []) thr))
                   (snd (ns_preread (mkStream d scr []) thr))) = d.
Proof. exact nonseekable_put_body_exact_pf. Qed.
Print Assumptions nonseekable_put_body_exact.

(** Multipart exactly when the stream has at least [thr] bytes, whatever the
    short reads. *)
Theorem nonseekable_multipart_iff : forall d scr thr,
  ns_requires_multipart (fst (ns_preread (mkStream d scr []) thr)) thr = true <->
  thr <= Z.of_nat (length d).
Proof. exact nonseekable_multipart_iff_pf. Qed.
Print Assumptions nonseekable_multipart_iff.

(** ... which is true only since the short-read repair: with one raw read per
    _read a long stream is sent as a single request, and parts come out
    shorter than the chunk size. *)
Theorem nonseekable_unrepaired_refuted :
  (exists d scr thr, 0 < thr /\ thr <= Z.of_nat (length d) /\
     ns_requires_multipart (fst (ns_preread_unrepaired (mkStream d scr []) thr)) thr = false) /\
  (exists d scr thr c, 0 < thr /\ 0 < c /\
     let im := fst (ns_preread_unrepaired (mkStream d scr []) thr) in
     let st := snd (ns_preread_unrepaired (mkStream d scr []) thr) in
     ns_requires_multipart im thr = true /\
     ~ all_but_last_len (Z.to_nat c) (map snd (fst (ns_parts_unrepaired im st c)))).
Proof. exact nonseekable_unrepaired_refuted_pf. Qed.
Print Assumptions nonseekable_unrepaired_refuted.

(** Legacy MultipartUploader: part k reads start (k-1) ps, length ps. *)
Theorem legacy_parts_tile : forall f ps, 0 < ps ->
  let parts := legacy_part_bytes (legacy_parts f ps) in
  concat (map snd parts) = f /\
  map fst parts = zseq 1 (length parts) /\
  Forall nonempty (map snd parts) /\
  all_but_last_len (Z.to_nat ps) (map snd parts).
Proof. exact legacy_parts_tile_pf. Qed.
Print Assumptions legacy_parts_tile.

(** Copies: the bytes the planned CopySourceRange headers denote concatenate
    to the source object (intervals by C14's [range_total_same] and
    [part_interval_eq]); the effective part size is the adjuster's. *)
Theorem copy_ranges_tile : forall mn mx mp (o : bytes) cfg cplan,
  0 < mn -> mn <= mx -> 1 <= mp -> 0 < cfg ->
  copy_plan_with mn mx mp (Z.of_nat (length o)) cfg = Some cplan ->
  exists c, adjust_chunksize_with mn mx mp cfg (Some (Z.of_nat (length o))) = Some c /\
            mn <= c <= mx /\
            let parts := copy_task_bytes o (copy_tasks cplan) in
            concat (map snd parts) = o /\
            map fst parts = zseq 1 (length parts) /\
            Forall nonempty (map snd parts) /\
            all_but_last_len (Z.to_nat c) (map snd parts).
Proof. exact copy_ranges_tile_pf. Qed.
Print Assumptions copy_ranges_tile.

(** The pieces are C14's cut slices (so the concatenation is C14's
    [plan_tiles_bytes]). *)
Theorem pieces_are_plan_cuts : forall (l : list byte) (P n : nat),
  pieces P l n = cuts_slices l 0 (plan_cuts P (length l) 1 n).
Proof. intros l P n. exact (pieces_eq_cuts l P n 0). Qed.
Print Assumptions pieces_are_plan_cuts.

(** ** Retries *)

(** Whatever was done to the body before ([ss_history]: ANY operations --
    signer reads, partial sends, any number of rewinds), the attempt that
    ends the request -- Sign's seek(0).enable, then reads of any positive
    sizes until one returns nothing -- delivers exactly the body's bytes
    (from C09's [chunk_send_exact] machinery). *)
Theorem retries_do_not_change_bytes : forall c sc d,
  wf c -> Forall (fun n => 0 < n) (ss_sizes sc) ->
  final_send c sc = Some d -> d = chunk_bytes c.
Proof. exact final_send_exact. Qed.
Print Assumptions retries_do_not_change_bytes.

(** The legacy ReadFileChunk: after any seek, seek(0) and a complete send
    deliver the window. *)
Theorem legacy_retries_do_not_change_bytes : forall c where_ sizes out,
  0 <= l_start c -> 0 <= l_size c -> l_start c + l_size c <= Z.of_nat (length (l_file c)) ->
  Forall (fun n => 0 < n) sizes ->
  l_send_loop (l_seek (l_seek c where_) 0) sizes [] = Some out -> out = lchunk_bytes c.
Proof. exact legacy_send_exact_pf. Qed.
Print Assumptions legacy_retries_do_not_change_bytes.

(** ** The complete call *)

(** Part tasks (part number, bytes) numbered 1..n, run in ANY order (a
    permutation): complete is called with one entry per task in submission
    order -- part numbers 1..n ascending -- each carrying the ETag (and, when an
    algorithm is in use, the checksum) of the service's answer to that very
    part, which holds that task's bytes; one complete record is added. *)
Theorem complete_lists_parts_in_order :
  forall min_part alg s key tasks order s' uid ok parts,
  map fst tasks = zseq 1 (length tasks) -> tasks <> [] ->
  sizes_ok min_part (map snd tasks) = true ->
  Permutation order tasks ->
  run_multipart min_part alg s key tasks order = Some (s', uid, ok, parts) ->
  map pm_num parts = zseq 1 (length tasks) /\
  Forall2 (fun t p => exists etag,
             p = mkPartMeta etag (fst t) (if alg then Some (checksum_of etag) else None) /\
             s3_part s' uid (fst t) = Some (mkPartRec etag (snd t))) tasks parts /\
  s_completes s' = mkCompleteRec uid parts true :: s_completes s.
Proof. exact complete_lists_parts_in_order_pf. Qed.
Print Assumptions complete_lists_parts_in_order.

(** A schedule given as a permutation of the task indices runs a permutation
    of the tasks. *)
Theorem any_schedule_is_a_permutation : forall (tasks : list (Z * bytes)) order,
  Permutation order (seq 0 (length tasks)) ->
  Permutation (reorder (0, []) tasks order) tasks.
Proof. intros tasks order. apply any_order_is_permutation. Qed.
Print Assumptions any_schedule_is_a_permutation.

(** ** End results *)

(** Upload, any source kind (seekable: positioned inside its data), any
    thresholds/chunk sizes/adjuster limits, any request script per body (any
    history, positive read sizes), any order of the part tasks: whenever the
    run completes the service accepted it ([ok]), the object IS the source;
    single request exactly below the threshold; otherwise one accepted
    complete whose Parts are 1..n ascending with the right ETags. *)
Theorem C01_upload_exact :
  forall mn mx mp thr cfg alg src s key pl c reads scripts order s' ok parts,
  0 < mn -> mn <= mx -> 1 <= mp -> 0 < thr -> 0 < cfg -> src_ok src ->
  upload_plan_src mn mx mp thr cfg src = Some (pl, c, reads) ->
  scripts_ok scripts ->
  Permutation order (seq 0 (plan_len pl)) ->
  run_upload mn alg s key pl scripts order = Some (s', ok, parts) ->
  ok = true /\ s3_object s' key = Some (source_bytes src) /\
  match pl with
  | PlanPut _ =>
      Z.of_nat (length (source_bytes src)) < thr /\ parts = [] /\
      s_completes s' = s_completes s
  | PlanParts chunks =>
      thr <= Z.of_nat (length (source_bytes src)) /\
      parts_tile c (source_bytes src) (plan_part_bytes chunks) /\
      map pm_num parts = zseq 1 (length chunks) /\
      exists uid, s_completes s' = mkCompleteRec uid parts true :: s_completes s /\
                  Forall2 (listed alg s' uid) (plan_part_bytes chunks) parts
  end.
Proof. exact upload_exact_pf. Qed.
Print Assumptions C01_upload_exact.

(** Copy: below the threshold one CopyObject, otherwise UploadPartCopy of the
    planned ranges in any order and one accepted complete; the destination is
    the source object. *)
Theorem C01_copy_exact :
  forall mn mx mp thr cfg alg s src dst o order s' ok parts,
  0 < mn -> mn <= mx -> 1 <= mp -> 0 < thr -> 0 < cfg ->
  s3_object s src = Some o ->
  (forall cplan, copy_plan_with mn mx mp (Z.of_nat (length o)) cfg = Some cplan ->
                 Permutation order (seq 0 (length cplan))) ->
  run_copy mn mx mp thr cfg alg s src dst order = Some (s', ok, parts) ->
  ok = true /\ s3_object s' dst = Some o /\
  if is_multipart (Z.of_nat (length o)) thr then
    exists uid cplan c,
      copy_plan_with mn mx mp (Z.of_nat (length o)) cfg = Some cplan /\
      parts_tile c o (copy_task_bytes o (copy_tasks cplan)) /\
      map pm_num parts = zseq 1 (length cplan) /\
      s_completes s' = mkCompleteRec uid parts true :: s_completes s /\
      Forall2 (listed alg s' uid) (copy_task_bytes o (copy_tasks cplan)) parts
  else parts = [] /\ s_completes s' = s_completes s.
Proof. exact copy_exact_pf. Qed.
Print Assumptions C01_copy_exact.

(** Legacy S3Transfer.upload_file (no chunk size adjustment: the service's
    minimum part size must not exceed the configured one). *)
Theorem C01_legacy_upload_exact :
  forall min_part s key f thr ps sizes order s' ok parts,
  0 < thr -> 0 < ps -> min_part <= ps ->
  Forall (fun sz => Forall (fun n => 0 < n) sz) sizes ->
  Permutation order (seq 0 (length (legacy_parts f ps))) ->
  run_legacy_upload min_part s key f thr ps sizes order = Some (s', ok, parts) ->
  ok = true /\ s3_object s' key = Some f /\
  if is_multipart (Z.of_nat (length f)) thr then
    parts_tile ps f (legacy_part_bytes (legacy_parts f ps)) /\
    map pm_num parts = zseq 1 (length (legacy_parts f ps)) /\
    exists uid, s_completes s' = mkCompleteRec uid parts true :: s_completes s /\
                Forall2 (listed false s' uid) (legacy_part_bytes (legacy_parts f ps)) parts
  else parts = [] /\ s_completes s' = s_completes s.
Proof. exact legacy_upload_exact_pf. Qed.
Print Assumptions C01_legacy_upload_exact.

(** ** Non-vacuity *)

(** A seekable stream positioned at 2 (7 bytes to EOF) with short reads 1,1,2,
    threshold 3, chunk 2
    (limits 2..9, 4 parts max): four parts.  Every body first sees a signer
    read, a partial send and a rewind; the part tasks run in the order
    4, 2, 1, 3.  The run completes, is accepted, stores the 7 bytes, and the
    Parts list is 1..4 with the ETags in completion order 3, 2, 4, 1. *)
Example C01_nonvacuous_upload :
  let src := SrcSeekable [9; 9; 1; 2; 3; 4; 5; 6; 7] 2 [1; 1; 2] in
  let hist := [Disable; Read (Some 1); Seek 0 0; Enable; Read (Some 1); Seek 0 0; Disable; Tell] in
  let sc := mkSendScript hist [1; 5; 1] in
  src_ok src /\ scripts_ok [sc; sc; sc; sc] /\
  exists pl s' parts,
    upload_plan_src 2 9 4 3 2 src = Some (pl, 2, [2; 1; 2; 2; 2; 1]) /\
    plan_len pl = 4%nat /\
    run_upload 2 true s3_empty 7 pl [sc; sc; sc; sc] [3; 1; 0; 2]%nat = Some (s', true, parts) /\
    s3_object s' 7 = Some [1; 2; 3; 4; 5; 6; 7] /\
    map pm_num parts = [1; 2; 3; 4] /\ map pm_etag parts = [3; 2; 4; 1] /\
    length (s_completes s') = 1%nat.
Proof.
  cbv zeta. split; [cbn; lia|]. split.
  { repeat constructor. }
  eexists _, _, _. vm_compute. repeat split; reflexivity.
Qed.

(** A non-seekable stream with short reads 1,1,2,1 and a single-request
    stream; a multipart copy; a legacy multipart upload. *)
Example C01_nonvacuous_others :
  (exists bodies parts,
     upload_seq 2 9 4 3 2 true (SrcStream [1; 2; 3; 4; 5; 6; 7] [1; 1; 2; 1]) =
       Some (bodies, 2, [3; 2; 1; 1; 2; 2; 1; 2], parts, true, Some [1; 2; 3; 4; 5; 6; 7]) /\
     map snd bodies = [[1; 2]; [3; 4]; [5; 6]; [7]] /\ map pm_num parts = [1; 2; 3; 4]) /\
  upload_seq 2 9 4 8 2 true (SrcStream [1; 2; 3; 4; 5; 6; 7] [1; 1; 2; 1]) =
    Some ([(0, [1; 2; 3; 4; 5; 6; 7])], 0, [8; 7; 6; 4; 3; 1; -1], [], true, Some [1; 2; 3; 4; 5; 6; 7]) /\
  (exists ranges parts,
     copy_seq 2 9 4 3 2 false [1; 2; 3; 4; 5; 6; 7] = Some (ranges, parts, true, Some [1; 2; 3; 4; 5; 6; 7]) /\
     map snd ranges = [(0, Some 1); (2, Some 3); (4, Some 5); (6, Some 6)]) /\
  (exists bodies parts,
     legacy_seq [1; 2; 3; 4; 5; 6; 7] 3 3 = Some (bodies, parts, true, Some [1; 2; 3; 4; 5; 6; 7]) /\
     map snd bodies = [[1; 2; 3]; [4; 5; 6]; [7]] /\ map pm_num parts = [1; 2; 3]).
Proof.
  split; [eexists _, _; vm_compute; repeat split; reflexivity|].
  split; [vm_compute; reflexivity|].
  split; [eexists _, _; vm_compute; repeat split; reflexivity|].
  eexists _, _; vm_compute; repeat split; reflexivity.
Qed.
