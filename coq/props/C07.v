(** C07 -- cancellation is effective, clean and truthfully reported
    (protocol part; the argument plumbing of the entry points is C07's
    differential part).  Statements over every state reachable in the protocol
    model [model/Sys.v] from [init] with arbitrary parameters: all schedules,
    all fault choices, any number of concurrent transfers.  Each theorem is
    closed by a lemma of proofs/SysQuiesce.v and followed by Print Assumptions.

    Reading guide.  [find_coord t (coords s)] is the TransferCoordinator of
    transfer [t]; [ECancel a t e] is the locked section of
    TransferCoordinator.cancel() executed by actor [a] with exception [e];
    [quiet s t]: every task of [t] is a submission task whose phase is 0
    (main begun, status not yet queued) or >= 3 (error recorded / waited /
    announced) -- never 1 or 2 --, and no S3 request and no multipart upload of
    [t] exists. *)
From Coq Require Import ZArith List Bool Lia.
From S3V Require Import model.Sys proofs.SysBase proofs.SysCoord proofs.SysCoordInv proofs.SysTask proofs.SysQuiesce.
Import ListNotations.
Open Scope Z_scope.

(** A transfer whose status is still not-started has no task but its
    submission task (which has not yet set the status to queued), no S3 request
    and no multipart upload. *)
Theorem C07_notstarted_shape :
  forall w_sub w_req w_io q_sub q_req q_io up down s t c,
  reachable (init w_sub w_req w_io q_sub q_req q_io up down) s ->
  find_coord t (coords s) = Some c -> c_status c = NotStarted ->
  (forall k x, find_task k (tasks s) = Some x -> k_t x = t -> k_kind x = KSubmission /\ k_phase x = 0) /\
  (forall q, In q (reqs s) -> r_t q <> t) /\
  (forall u, In u (uploads s) -> u_t u <> t).
Proof. exact notstarted_shape. Qed.
Print Assumptions C07_notstarted_shape.

(** cancel() takes effect iff the transfer is not done; then the status is
    cancelled and the exception is the one passed. A done transfer keeps its
    outcome. (Any state, reachable or not: a local fact of the critical section.) *)
Theorem C07_cancel_applies_iff_not_done :
  forall s a t e s', step s (ECancel a t e) = Some s' ->
  exists c c', find_coord t (coords s) = Some c /\ find_coord t (coords s') = Some c' /\
    (is_done (c_status c) = true -> c' = c) /\
    (is_done (c_status c) = false -> c_status c' = Cancelled /\ c_exc c' = Some e).
Proof. exact cancel_applies_iff_not_done. Qed.
Print Assumptions C07_cancel_applies_iff_not_done.

(** A cancelled status is replaced only by the final task's set_result (made
    from inside its main) or by an overriding set_exception. *)
Theorem C07_cancelled_stays_cancelled :
  forall s e s' t c c',
  step s e = Some s' -> find_coord t (coords s) = Some c -> find_coord t (coords s') = Some c' ->
  c_status c = Cancelled ->
  c_status c' = Cancelled \/
  (exists k x, e = ESetResult k /\ find_task k (tasks s) = Some x /\ k_t x = t /\ k_final x = true /\ k_st x = TMain) \/
  (exists a x, e = ESetException a t x true).
Proof. exact cancelled_stays_cancelled_step. Qed.
Print Assumptions C07_cancelled_stays_cancelled.

(** Cancel applied to a not-started transfer: in every continuation [tr] of the
    run the transfer stays quiet and done; every S3 request for it (abort
    included) and every submission of a task other than a first submission
    task is rejected; the status stays cancelled unless the trace contains an
    overriding set_exception (set_result is impossible: no final task ever
    exists). *)
Theorem C07_cancel_before_start_no_requests :
  forall w_sub w_req w_io q_sub q_req q_io up down s a t e c s1,
  reachable (init w_sub w_req w_io q_sub q_req q_io up down) s ->
  find_coord t (coords s) = Some c -> c_status c = NotStarted ->
  step s (ECancel a t e) = Some s1 ->
  forall tr s2, run s1 tr = Some s2 ->
    quiet s2 t /\ coord_done s2 t = true /\
    (forall a' r op uid, step s2 (ES3Begin a' r op t uid) = None) /\
    (forall a' k g fin deps kind, kind <> KSubmission -> step s2 (ESubmit a' k t g fin deps kind) = None) /\
    (exists c2, find_coord t (coords s2) = Some c2 /\
       (c_status c2 = Cancelled \/ exists a' x, In (ESetException a' t x true) tr)).
Proof. exact cancel_before_start_no_requests. Qed.
Print Assumptions C07_cancel_before_start_no_requests.

(* ------------------------------------------------------------------ *)
(** Non-vacuity: the user creates transfer 1 and its submission task 0, cancels
    before the task starts (the canceller owes the announce), announces
    (cleanups, event, callbacks); the submission task later starts, finds the
    transfer done and skips its main.  The hypotheses of
    [C07_cancel_before_start_no_requests] hold at the cancel, and its
    conclusion can be observed at the end. *)
Definition c07_prefix : list event :=
  [ENewTransfer (-1) 1; EAddCallback (-1) 1 50;
   ESubmit (-1) 0 1 SSub false [] KSubmission; EAcquire (-1) 0 SEM_SUB; EEnqueue (-1) 0].
Definition c07_suffix : list event :=
  [EAnnBegin (-1) 1; ECleanupsBegin (-1) 1; ECleanupsEnd (-1) 1; EEventSet (-1) 1;
   ECallbacksBegin (-1) 1; ECallback (-1) 1 50; ECallbacksEnd (-1) 1; EAnnEnd (-1) 1;
   EResult (-2) 1 true;
   ETaskStart 0; EDepsDone 0; EDoneCheck 0 true; ETaskEnd 0; ERelease 0].

Example C07_nonvacuous :
  (* at the cancel the transfer is not started *)
  option_map (fun s => map c_status (coords s)) (run (init 1 2 1 10 10 10 2 2) c07_prefix)
    = Some [NotStarted] /\
  (* the whole run is accepted; outcome *)
  option_map (fun s2 =>
      (map (fun x => (c_status x, c_exc x, c_event x, c_ran_callbacks x)) (coords s2),
       map (fun x => (k_id x, k_st x, k_skipped x, k_ran_main x)) (tasks s2),
       reqs s2))
    (run (init 1 2 1 10 10 10 2 2) (c07_prefix ++ [ECancel (-1) 1 9] ++ c07_suffix))
    = Some ([(Cancelled, Some 9, true, [50])], [(0, TEnded, true, false)], []).
Proof. split; vm_compute; reflexivity. Qed.
