(** C18 -- Shutdown is a barrier (protocol part).
    Statements only; each is closed by [exact] of a lemma of proofs/SysStage.v
    and followed by Print Assumptions.

    Reading guide.  [shutdown_phase s]: 0 no shutdown, 1 _shutdown running,
    2 _shutdown returned (event EShutdownReturn, enabled only when the
    submission, request and IO executors have all been joined).
    [after_shutdown_events s]: ghost counter bumped by every S3 request begin,
    failure cleanup, done callback, progress callback and file operation that
    happens while [shutdown_phase = 2].  [user_quiet s]: no *user thread*
    (actor < 0) holds the cleanups lock or the done-callbacks lock of any
    transfer, i.e. no user thread is in the middle of the announce that its own
    cancel() of a not-started transfer owes. *)
From Coq Require Import ZArith List Bool Lia.
From S3V Require Import model.Sys proofs.SysBase proofs.SysTask proofs.SysStage.
Import ListNotations.
Open Scope Z_scope.

(** The barrier.  In every run, if while shutdown has returned no user thread
    is running cleanups / done callbacks (the real cancel() announces
    synchronously inside cancel(), and _shutdown's own cancels precede the
    joins, so only a *different* user thread calling future.cancel()
    concurrently with shutdown could), then after shutdown returned no S3
    request begins, no cleanup or done callback runs, no progress callback is
    delivered and no file operation happens.  Worker threads need no
    hypothesis: they are covered by the join order and by the invariant that a
    task which owes or runs an announce is inside its main / its announce. *)
Theorem C18_shutdown_barrier : forall w_sub w_req w_io q_sub q_req q_io up down tr s,
  run (init w_sub w_req w_io q_sub q_req q_io up down) tr = Some s ->
  (forall n s1, run (init w_sub w_req w_io q_sub q_req q_io up down) (firstn n tr) = Some s1 ->
                shutdown_phase s1 = 2 -> user_quiet s1) ->
  after_shutdown_events s = 0.
Proof. exact shutdown_barrier. Qed.
Print Assumptions C18_shutdown_barrier.

(** The hypothesis is needed in the model (it is outside C18's quantifier in
    the real code): a second user thread cancelling a not-started transfer
    after shutdown returned runs that transfer's done callbacks. *)
Theorem C18_shutdown_barrier_unconditional_refuted :
  exists s, run (init 1 2 1 10 10 10 2 2) barrier_counterexample = Some s /\
            shutdown_phase s = 2 /\ after_shutdown_events s = 1.
Proof. exact shutdown_barrier_unconditional_refuted. Qed.
Print Assumptions C18_shutdown_barrier_unconditional_refuted.

(** What holds at (and after) the return of shutdown, unconditionally: every
    executor is joined, shut, idle and empty; no task is started-and-not-ended
    (executor tasks are either never enqueued or ended, inline tasks are
    either never called or ended); every request other than an abort has
    ended. *)
Theorem C18_all_done_at_shutdown_return_partial : forall w_sub w_req w_io q_sub q_req q_io up down s,
  reachable (init w_sub w_req w_io q_sub q_req q_io up down) s -> shutdown_phase s = 2 ->
  (forall g0, g0 <> SInline ->
     g_joined (get_stage s g0) = true /\ g_shut (get_stage s g0) = true /\
     g_running (get_stage s g0) = 0 /\ g_queue (get_stage s g0) = []) /\
  (forall k x, find_task k (tasks s) = Some x ->
     running_st (k_st x) = false /\
     (k_stage x <> SInline -> k_st x = TSubmitting \/ k_st x = TEnded) /\
     (k_stage x = SInline -> k_st x = TQueued \/ k_st x = TEnded)) /\
  (forall q, In q (reqs s) -> r_op q <> OpAbort -> r_ended q = true).
Proof. exact all_done_at_shutdown_return_partial. Qed.
Print Assumptions C18_all_done_at_shutdown_return_partial.

(** A worker that holds the cleanups lock or the done-callbacks lock of a
    transfer is a task of that transfer inside its main (the submission
    task's error path) or inside announce_done (the final task). *)
Theorem C18_runner_is_running : forall w_sub w_req w_io q_sub q_req q_io up down s t co r,
  reachable (init w_sub w_req w_io q_sub q_req q_io up down) s ->
  find_coord t (coords s) = Some co ->
  c_cl_runner co = Some r \/ c_cb_runner co = Some r -> is_user r = false ->
  exists x, find_task r (tasks s) = Some x /\ k_t x = t /\ (k_st x = TMain \/ k_st x = TAnn).
Proof. exact runner_is_running. Qed.
Print Assumptions C18_runner_is_running.

(** Shutdown phases only move forward, [EShutdownReturn] needs the three
    joins, and a joined executor accepts no task (it is shut). *)
Theorem C18_shutdown_invariant : forall w_sub w_req w_io q_sub q_req q_io up down s,
  reachable (init w_sub w_req w_io q_sub q_req q_io up down) s -> shutdown_inv s.
Proof. exact shutdown_inv_reachable. Qed.
Print Assumptions C18_shutdown_invariant.

(** A concrete reachable state (non-vacuity): shutdown begins while the final
    PutObject task of a transfer is still queued; the submission executor is
    joined, the task runs, sets the result, announces, ends; the request and
    IO executors are joined and shutdown returns. *)
Definition C18_trace : list event :=
  [ ENewTransfer (-1) 0;
    ESubmit (-1) 0 0 SSub false [] KSubmission; EAcquire (-1) 0 SEM_SUB; EEnqueue (-1) 0;
    ETaskStart 0; EDepsDone 0; EDoneCheck 0 false; EMainBegin 0;
    EStatus 0 false true; EStatus 0 true true;
    ESubmit 0 1 0 SReq true [] KData; EAcquire 0 1 SEM_REQ; EEnqueue 0 1; EAssoc 0 1;
    EMainEnd 0 true; ETaskEnd 0; ERelease 0;
    EShutdownBegin; EStageShutdown SSub; EStageJoined SSub;
    ETaskStart 1; EDepsDone 1; EDoneCheck 1 false; EMainBegin 1;
    ES3Begin 1 100 OpData 0 0; ES3Effect 100 0; ES3End 100 true; ESetResult 1; EMainEnd 1 true;
    EAnnBegin 1 0; EEventSet 1 0; ECallbacksBegin 1 0; ECallbacksEnd 1 0; EAnnEnd 1 0;
    ETaskEnd 1; ERelease 1; EDissoc 1;
    EStageShutdown SReq; EStageJoined SReq; EStageShutdown SIO; EStageJoined SIO;
    EShutdownReturn ].

Example C18_example : exists s co,
  run (init 1 2 1 10 10 10 2 2) C18_trace = Some s /\
  shutdown_phase s = 2 /\ after_shutdown_events s = 0 /\
  find_coord 0 (coords s) = Some co /\ c_status co = Success /\ c_event co = true /\
  find_sem SEM_REQ (sems s) = Some 10 /\ find_sem SEM_SUB (sems s) = Some 10.
Proof.
  eexists. eexists. split; [vm_compute; reflexivity|].
  split; [reflexivity|]. split; [reflexivity|]. split; [vm_compute; reflexivity|].
  repeat split; reflexivity.
Qed.
