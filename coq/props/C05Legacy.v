(** C05, legacy front-end (s3transfer/__init__.py MultipartUploader /
    S3Transfer.upload_file).  Only statements closed by exact/apply of lemmas
    from proofs/LegacyProofs.v.  To be merged into the C05 property file. *)
From Coq Require Import ZArith List Bool Permutation.
From S3V Require Import model.Plan model.Legacy proofs.LegacyProofs.
Import ListNotations.
Open Scope Z_scope.

(** For ALL part counts, fault choices (create / each part / complete /
    abort), numbers of parts already picked up by a worker when the failure
    surfaced ([started]) and completion orders: the request log is
      create . part^n . complete            with outcome Success (n = all parts, all ok), or
      create . part^m . [complete_fail] . abort   with a raising outcome (m <= n), or
      create_fail                           alone, raising the create error;
    and the parts issued are a permutation of parts 1..m. *)
Theorem C05_legacy_shape : forall create_ok parts_ok started order complete_ok abort_ok,
  Permutation order (seq 0 (length (canonical_parts parts_ok started))) ->
  let (log, out) := legacy_multipart_upload create_ok parts_ok started order complete_ok abort_ok in
  c05_shape (length parts_ok) log out /\
  (create_ok = true ->
   exists ps, Permutation ps (canonical_parts parts_ok started) /\
              exists tl, log = UCreate true :: ps ++ tl /\
                (tl = [UComplete true] \/ tl = [UAbort abort_ok] \/
                 tl = [UComplete false; UAbort abort_ok])).
Proof. exact upload_shape. Qed.
Print Assumptions C05_legacy_shape.

(** the parts issued are numbered 1..m, m <= n, and every part up to the
    first failing one is among them; m = n when no part failed *)
Theorem C05_legacy_parts_issued : forall parts_ok started,
  map part_no (canonical_parts parts_ok started) =
    map (fun i => Z.of_nat (S i)) (seq 0 (parts_run parts_ok started)) /\
  (parts_run parts_ok started <= length parts_ok)%nat /\
  (forall f, first_fail parts_ok = Some f -> (f < parts_run parts_ok started)%nat) /\
  (first_fail parts_ok = None -> parts_run parts_ok started = length parts_ok).
Proof.
  intros parts_ok started. split; [apply canonical_numbers|]. split; [apply parts_run_le|].
  split; [intros f; apply parts_run_covers_first_fail|apply parts_run_all_ok].
Qed.
Print Assumptions C05_legacy_parts_issued.

(** Consequences of the shape, for every log of that shape:
    success iff a successful complete is in the log; never both a successful
    complete and an abort; at most one complete and one abort; the abort is
    the last request (after every part and after the complete); the id was
    received and the call raised => an abort was issued. *)
Theorem C05_legacy_discipline : forall n log out, c05_shape n log out ->
  (out = USuccess <-> In (UComplete true) log) /\
  ~ (In (UComplete true) log /\ exists b, In (UAbort b) log) /\
  (length (filter is_complete log) <= 1)%nat /\ (length (filter is_abort log) <= 1)%nat /\
  (forall b, In (UAbort b) log ->
     exists pre, log = pre ++ [UAbort b] /\ forallb (fun e => negb (is_abort e)) pre = true) /\
  (In (UCreate true) log -> out <> USuccess -> exists b, In (UAbort b) log).
Proof.
  intros n log out S.
  split; [exact (shape_success_iff n log out S)|].
  split; [exact (shape_not_both n log out S)|].
  split; [exact (proj1 (shape_counts n log out S))|].
  split; [exact (proj2 (shape_counts n log out S))|].
  split; [exact (shape_abort_last n log out S)|exact (shape_failure_aborts n log out S)].
Qed.
Print Assumptions C05_legacy_discipline.

(** upload_file takes the multipart path exactly from the threshold on, with
    ceil(size/chunk) parts; below it a single put_object and no upload id *)
Theorem C05_legacy_paths : forall size thr chunk c p s o co ao po,
  (thr <= size ->
   legacy_upload size thr chunk c p s o co ao po =
   legacy_multipart_upload c (firstn (Z.to_nat (num_parts size chunk))
                                (p ++ repeat true (Z.to_nat (num_parts size chunk)))) s o co ao) /\
  (size < thr ->
   legacy_upload size thr chunk c p s o co ao po = ([UPut po], if po then USuccess else UPutErr)).
Proof.
  intros. split; [apply legacy_upload_multipart|apply legacy_upload_single].
Qed.
Print Assumptions C05_legacy_paths.

(** The model variant with the complete after the try/except (the code
    before the repair): a failing complete is not followed by an abort. *)
Theorem C05_legacy_unrepaired_refuted :
  let (log, out) := legacy_multipart_upload_unrepaired true [true; true] 2 [1%nat; 0%nat] false true in
  In (UCreate true) log /\ out <> USuccess /\ forall b, ~ In (UAbort b) log.
Proof. exact unrepaired_leaks. Qed.
Print Assumptions C05_legacy_unrepaired_refuted.

(** Non-vacuity: 5 parts, part 2 fails, 3 parts were started, completion
    order 3,1,2; and a failing complete. *)
Example C05_legacy_nonvacuous :
  legacy_multipart_upload true [true; false; true; true; true] 3 [2%nat; 0%nat; 1%nat] true true =
    ([UCreate true; UPart 3 true; UPart 1 true; UPart 2 false; UAbort true], UFailed) /\
  legacy_multipart_upload true [true; true] 0 [0%nat; 1%nat] false true =
    ([UCreate true; UPart 1 true; UPart 2 true; UComplete false; UAbort true], UFailed) /\
  legacy_upload 10 4 4 true [] 0 [0%nat; 1%nat; 2%nat] true true true =
    ([UCreate true; UPart 1 true; UPart 2 true; UPart 3 true; UComplete true], USuccess).
Proof. vm_compute. repeat split. Qed.
