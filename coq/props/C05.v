(** C05 -- no orphaned or doubly-finished multipart uploads (protocol part).
    Statements over every state reachable in the protocol model [model/Sys.v]
    from [init] (all schedules, all fault choices, any number of concurrent
    transfers); the theorems that need the FIFO/single-worker argument for the
    IO executor fix its number of workers to 1 (third parameter of [init]; this
    is s3transfer's IOTaskExecutor).  Each theorem is closed by a lemma of
    proofs/SysQuiesce.v and followed by Print Assumptions.

    Reading guide.  [uploads s]: one record per multipart upload id the
    library received ([ES3Effect] of a create request); its ghost fields are
    maintained by the request events only: [u_inflight] part/complete requests
    begun and not ended, [u_begun_after_abort] a part/complete began after the
    abort began, [u_abort_while_inflight] the abort began while another request
    for the id was in flight, [u_completes_ok] completes that took effect.
    [c_ann_started c]: some announce_done of the transfer has begun. *)
From Coq Require Import ZArith List Bool Lia.
From S3V Require Import model.Sys proofs.SysBase proofs.SysCoord proofs.SysCoordInv proofs.SysTask proofs.SysQuiesce.
Import ListNotations.
Open Scope Z_scope.

(** T1.  The final task past its main, and the submission task on its error
    path, see a done coordinator; so does everything an announce does. *)
Theorem C05_final_post_done :
  forall w_sub w_req w_io q_sub q_req q_io up down s k x,
  reachable (init w_sub w_req w_io q_sub q_req q_io up down) s ->
  find_task k (tasks s) = Some x -> k_final x = true -> past_main (k_st x) = true ->
  coord_done s (k_t x) = true.
Proof. exact final_post_done. Qed.
Print Assumptions C05_final_post_done.

Theorem C05_sub_phase3_done :
  forall w_sub w_req w_io q_sub q_req q_io up down s k x,
  reachable (init w_sub w_req w_io q_sub q_req q_io up down) s ->
  find_task k (tasks s) = Some x -> k_kind x = KSubmission -> 3 <= k_phase x ->
  coord_done s (k_t x) = true.
Proof. exact sub_phase3_done. Qed.
Print Assumptions C05_sub_phase3_done.

Theorem C05_ann_started_done :
  forall w_sub w_req w_io q_sub q_req q_io up down s t c,
  reachable (init w_sub w_req w_io q_sub q_req q_io up down) s ->
  find_coord t (coords s) = Some c ->
  c_ann_started c = true \/ c_owing c <> [] \/ c_announcers c <> [] \/ c_event c = true \/
  c_ran_cleanups c <> [] \/ c_ran_callbacks c <> [] \/ c_cl_runner c <> None \/ c_cb_runner c <> None ->
  is_done (c_status c) = true.
Proof. exact ann_started_done. Qed.
Print Assumptions C05_ann_started_done.

(** T3.  The submit window: a task not yet added to the coordinator's
    associated futures keeps its submitter (a task of the same transfer, with a
    smaller id, in its main or done-callbacks) busy. *)
Theorem C05_unassoc_has_busy_parent :
  forall w_sub w_req q_sub q_req q_io up down s k x,
  reachable (init w_sub w_req 1 q_sub q_req q_io up down) s ->
  find_task k (tasks s) = Some x ->
  k_kind x <> KSubmission -> k_stage x <> SInline -> k_assoc x = 0 ->
  exists p, find_task (k_parent x) (tasks s) = Some p /\ k_t p = k_t x /\
            (k_st p = TMain \/ k_st p = TPost) /\ busy s (k_parent x) = true /\ k_parent x < k.
Proof. exact unassoc_has_busy_parent. Qed.
Print Assumptions C05_unassoc_has_busy_parent.

(** The single IO worker: at most one IO task is started and not ended. *)
Theorem C05_io_exclusive :
  forall w_sub w_req q_sub q_req q_io up down s k1 x1 k2 x2,
  reachable (init w_sub w_req 1 q_sub q_req q_io up down) s ->
  find_task k1 (tasks s) = Some x1 -> find_task k2 (tasks s) = Some x2 ->
  io_active x1 = true -> io_active x2 = true -> k1 = k2.
Proof. exact io_exclusive. Qed.
Print Assumptions C05_io_exclusive.

(** T4.  QUIESCENCE AT ANNOUNCE.  Once an announce_done has begun for transfer
    [t] (by the final task, by the submission task's error path, or by a
    canceller that found the transfer not started -- also while that canceller
    still owes it), the coordinator is done and no task of [t] other than the
    submission task is in its main or has passed a negative done-check; and
    this stays so in every continuation of the run (tasks submitted later skip
    their main). *)
Theorem C05_announce_quiescent :
  forall w_sub w_req q_sub q_req q_io up down s t c,
  reachable (init w_sub w_req 1 q_sub q_req q_io up down) s ->
  find_coord t (coords s) = Some c ->
  c_ann_started c = true \/ c_owing c <> [] ->
  is_done (c_status c) = true /\
  (forall k x, find_task k (tasks s) = Some x -> k_t x = t -> k_kind x <> KSubmission ->
               k_st x <> TReady /\ k_st x <> TMain) /\
  (forall tr s2, run s tr = Some s2 ->
     coord_done s2 t = true /\
     forall k x, find_task k (tasks s2) = Some x -> k_t x = t -> k_kind x <> KSubmission ->
                 k_st x <> TReady /\ k_st x <> TMain).
Proof. exact announce_quiescent. Qed.
Print Assumptions C05_announce_quiescent.

(** T5.  The per-id discipline. *)
Theorem C05_abort_discipline :
  forall w_sub w_req q_sub q_req q_io up down s u,
  reachable (init w_sub w_req 1 q_sub q_req q_io up down) s -> In u (uploads s) ->
  u_begun_after_abort u = false /\
  u_abort_while_inflight u = false /\
  0 <= u_completes_ok u <= 1 /\
  u_inflight u = cnt (pc_open (u_id u)) (reqs s) /\
  (u_abort_begun u = true ->
     exists c, find_coord (u_t u) (coords s) = Some c /\ c_ann_started c = true /\
               is_done (c_status c) = true /\ c_status c <> Success) /\
  (forall c, find_coord (u_t u) (coords s) = Some c -> c_status c = Success -> u_abort_begun u = false).
Proof. exact abort_discipline. Qed.
Print Assumptions C05_abort_discipline.

(** Cleanups.  No step drops a registered cleanup: the sequence
    "run ++ pending" only grows (by registrations at its end). *)
Theorem C05_cleanups_never_dropped :
  forall s e s' t c c',
  step s e = Some s' -> find_coord t (coords s) = Some c -> find_coord t (coords s') = Some c' ->
  exists l, c_ran_cleanups c' ++ c_cleanups c' = (c_ran_cleanups c ++ c_cleanups c) ++ l.
Proof.
  intros s e s' t c c' H Hc Hc'.
  destruct (coord_persists_step _ _ _ _ _ H Hc) as (c'' & Hc'' & Hcs).
  rewrite Hc' in Hc''. injection Hc'' as <-. now apply cleanups_never_dropped.
Qed.
Print Assumptions C05_cleanups_never_dropped.

(** The cleanup phase ends only when every registered cleanup has been run. *)
Theorem C05_cleanups_end_all_run :
  forall s a t s', step s (ECleanupsEnd a t) = Some s' ->
  exists c, find_coord t (coords s) = Some c /\ c_cl_runner c = Some a /\ c_cleanups c = [] /\
            ann_phase a (c_announcers c) = Some 1.
Proof. exact cleanups_end_inv. Qed.
Print Assumptions C05_cleanups_end_all_run.

(** Under a non-success status the done event (which unblocks result()) is set
    by an announcer only after that announcer's cleanup phase has ended. *)
Theorem C05_cleanups_before_event_on_failure :
  forall w_sub w_req w_io q_sub q_req q_io up down tr s a t s' c,
  run (init w_sub w_req w_io q_sub q_req q_io up down) tr = Some s ->
  step s (EEventSet a t) = Some s' ->
  find_coord t (coords s) = Some c -> c_status c <> Success ->
  In (ECleanupsEnd a t) tr.
Proof. exact cleanups_before_event_on_failure. Qed.
Print Assumptions C05_cleanups_before_event_on_failure.

(* ------------------------------------------------------------------ *)
(** Non-vacuity: a three-task multipart upload (create 1, part 2, complete 3 =
    final) of transfer 1; the part request fails; the complete task finds the
    transfer done, skips its main, announces: the abort cleanup runs (request
    102) with nothing in flight, then the event, then on_done.  Every event is
    accepted, i.e. the final state is reachable. *)
Definition c05_trace : list event :=
  [ENewTransfer (-1) 1; EAddCallback (-1) 1 50;
   ESubmit (-1) 0 1 SSub false [] KSubmission; EAcquire (-1) 0 SEM_SUB; EEnqueue (-1) 0;
   ETaskStart 0; EDepsDone 0; EDoneCheck 0 false; EMainBegin 0;
   EStatus 0 false true; EOnQueued 0; EStatus 0 true true;
   ESubmit 0 1 1 SReq false [] KCreate; EAcquire 0 1 SEM_REQ; EEnqueue 0 1; EAssoc 0 1;
   ESubmit 0 2 1 SReq false [1] KPart; EAcquire 0 2 SEM_REQ; EEnqueue 0 2; EAssoc 0 2;
   ESubmit 0 3 1 SReq true [1; 2] KComplete; EAcquire 0 3 SEM_REQ; EEnqueue 0 3; EAssoc 0 3;
   EMainEnd 0 true; ETaskEnd 0;
   ETaskStart 1; EDepsDone 1; EDoneCheck 1 false; EMainBegin 1;
   ES3Begin 1 100 OpCreate 1 0; ES3Effect 100 77; ES3End 100 true; EAddCleanup 1 1 5;
   EMainEnd 1 true; ETaskEnd 1;
   ETaskStart 2; EDepsDone 2; EDoneCheck 2 false; EMainBegin 2;
   ES3Begin 2 101 OpPart 1 77; EOnProgress 2 1; ES3End 101 false;
   EMainEnd 2 false; ESetException 2 1 8 false; ETaskEnd 2;
   ETaskStart 3; EDepsDone 3; EDoneCheck 3 true;
   EAnnBegin 3 1; ECleanupsBegin 3 1;
   ES3Begin 3 102 OpAbort 1 77; ES3Effect 102 77; ES3End 102 true; ECleanup 3 1 5; ECleanupsEnd 3 1;
   EEventSet 3 1; ECallbacksBegin 3 1; ECallback 3 1 50; ECallbacksEnd 3 1; EAnnEnd 3 1; ETaskEnd 3].

Example C05_nonvacuous :
  option_map (fun s =>
      (map (fun c => (c_status c, c_exc c, c_event c, c_ran_cleanups c, c_ran_callbacks c,
                      c_progress_after_done c, c_ann_started c)) (coords s),
       map (fun x => (k_id x, k_st x, k_skipped x)) (tasks s),
       map (fun u => (u_id u, u_inflight u, u_completes_ok u, u_abort_begun u, u_abort_count u,
                      u_begun_after_abort u, u_abort_while_inflight u)) (uploads s),
       map (fun q => (r_id q, r_op q, r_ended q, r_ok q)) (reqs s)))
    (run (init 1 2 1 10 10 10 2 2) c05_trace)
  = Some ([(Failed, Some 8, true, [5], [50], false, true)],
          [(0, TEnded, false); (1, TEnded, false); (2, TEnded, false); (3, TEnded, true)],
          [(77, 0, 0, true, 1, false, false)],
          [(100, OpCreate, true, true); (101, OpPart, true, false); (102, OpAbort, true, true)]).
Proof. vm_compute. reflexivity. Qed.
