(** C08 -- "on_done runs only after all of the transfer's requests and cleanups
    have returned", for the path on which the submission task itself fails:
    before it announces done it waits, round after round, for every future that
    it or the tasks it started associated with the transfer
    (model/WaitLoop.v; SubmissionTask._wait_for_all_submitted_futures_to_complete).
    Statements only; each closed by [exact] of a lemma of proofs/WaitLoopProofs.v.
    Quantified over every script of children, every choice of removal callbacks
    running late, every pattern of futures completing on their own, any number
    of rounds.  The loop also terminates: with the futures drawn from a finite
    universe it is left within 4|U| + 2 rounds (it never runs out of fuel). *)
From Coq Require Import List Arith.
From S3V Require Import model.WaitLoop proofs.WaitLoopProofs proofs.WaitLoopTerm.
Import ListNotations.

(** When the loop is left, every future ever associated with the transfer has
    completed. *)
Theorem C08_wait_loop_exit_means_all_complete : forall sc init pre bg fuel s r,
  run sc init pre bg fuel = (s, Exit, r) -> forall x, In x (added s) -> In x (done s).
Proof. intros sc init pre bg fuel s r H. exact (proj1 (run_exit_all_done sc init pre bg fuel s r H)). Qed.
Print Assumptions C08_wait_loop_exit_means_all_complete.

Theorem C08_wait_loop_exit_nothing_pending : forall sc init pre bg fuel s r,
  run sc init pre bg fuel = (s, Exit, r) -> pending s = [].
Proof. exact run_exit_nothing_pending. Qed.
Print Assumptions C08_wait_loop_exit_nothing_pending.

(** ... and nothing can be associated afterwards: whatever completions and
    removals are still attempted, the set of futures ever associated stays the
    same and all of them are complete. *)
Theorem C08_wait_loop_exit_is_final : forall sc init pre bg fuel s r t,
  run sc init pre bg fuel = (s, Exit, r) -> steps sc s t ->
  (forall x, In x (added t) -> In x (done t)) /\ added t = added s.
Proof. exact run_exit_stable. Qed.
Print Assumptions C08_wait_loop_exit_is_final.

(** The hypotheses are met by a run with children, grandchildren, late removals
    and a future completing on its own: three rounds. *)
Theorem C08_wait_loop_nonvacuous :
  run [mkFut [2; 3] true; mkFut [] false; mkFut [4] false; mkFut [] true; mkFut [] false] [0; 1] [] [([], [3]); ([], [])] 10
  = (mkSt [] [4; 2; 3; 1; 0] [] [0; 1; 2; 3; 4], Exit, [[0; 1]; [0; 2; 3]; [4]]).
Proof. exact run_example. Qed.
Print Assumptions C08_wait_loop_nonvacuous.

(** Taking the second snapshot before the wait instead of after it is wrong: the
    loop is left with a future still running. *)
Theorem C08_wait_loop_early_snapshot_refuted : exists sc init fuel s r,
  loop_early sc fuel (init_state init) init [] [] = (s, Exit, r) /\ pending s <> [].
Proof. exact loop_early_refuted. Qed.
Print Assumptions C08_wait_loop_early_snapshot_refuted.

(** The loop terminates: when every future that can ever be associated belongs
    to a finite universe [U] ([closed]: the children of every future are in [U]),
    [4 * |U| + 2] rounds are enough -- whatever completes on its own and however
    late removals run. *)
Theorem C08_wait_loop_terminates : forall U sc init pre bg fuel,
  closed U sc -> (forall x, In x init -> In x U) -> 4 * length U + 2 <= fuel ->
  snd (fst (run sc init pre bg fuel)) = Exit.
Proof. exact run_never_out_of_fuel. Qed.
Print Assumptions C08_wait_loop_terminates.

(** Total correctness: the loop is left, and then everything has completed. *)
Theorem C08_wait_loop_total : forall U sc init pre bg fuel,
  closed U sc -> (forall x, In x init -> In x U) -> 4 * length U + 2 <= fuel ->
  exists s r, run sc init pre bg fuel = (s, Exit, r) /\ pending s = [].
Proof.
  intros U sc init pre bg fuel C HI Hf.
  pose proof (run_never_out_of_fuel U sc init pre bg fuel C HI Hf) as H.
  destruct (run sc init pre bg fuel) as [[s v] r] eqn:E. cbn in H. subst v.
  exists s, r. split; [reflexivity | exact (run_exit_nothing_pending sc init pre bg fuel s r E)].
Qed.
Print Assumptions C08_wait_loop_total.
