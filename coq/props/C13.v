(** C13 -- Bandwidth limit is respected without starving or over-throttling.

    Clauses of the statement (DESIGN.md 5.C13):
      (a) bytes in any window of length T <= 1.25 max T + burst
      (b) <= max T + burst when every stream is saturated
      (c) traffic whose demand stays below the limit is never delayed
      (d) a throttled read is granted after ONE wait <= (waiting reads + own)/max
      (e) no starvation / permanent slow-down, also after abandoned waiters
      (f) a read of a failed or cancelled transfer raises that error.

    Proved here, for ALL histories of bucket operations (any number of
    tokens, any amounts >= 0, and -- except where a hypothesis says otherwise
    -- any clock readings): (d) [C13_wait_formula], [C13_one_wait];
    (e) [C13_abandoned_token_removed], [C13_live_waiters];
    (f) [C13_failed_transfer_raises]; (c) [C13_under_limit_never_refused]
    under the hypothesis that the tracked rate is not already above max;
    (a) for grants decided by the rate test [C13_immediate_grant_bound],
    [C13_immediate_window], [C13_immediate_bytes_mixed]; (b) [C13_scheduled_window],
    [C13_scheduled_window_streams] (which with the previous gives 2.25 max T +
    burst for mixed windows).
    Refuted with explicit witnesses: (a) in its stated form for mixed windows
    [C13_rate_125_refuted] (F10), (c) without the side condition
    [C13_inf_poisoning_refuted] (F11); and (e) for the loop as it was before
    the repair of F9 [C13_leak_unrepaired_refuted].

    Only statements; proofs are in proofs/BandwidthProofs.v. *)
From Coq Require Import ZArith QArith List Bool Lia.
From S3V Require Import gen.Tables model.Bandwidth proofs.BandwidthProofs.
Import ListNotations.
Open Scope Q_scope.

(** (d), first half.  In every reachable state the scheduler's accumulated
    wait is the time the limit needs for the amounts currently scheduled, and
    the wait handed to a refused request is that plus the time for its own
    amount: (sum of scheduled amounts + amt) / max. *)
Theorem C13_wait_formula : forall mx b, 0 < mx -> reachable mx b ->
  total_wait (sch b) == inject_Z (sum_amt (tokens (sch b))) / mx /\
  forall amt tok now b' w,
    consume mx amt tok now b = (b', Refused w) ->
    w == inject_Z (sum_amt (tokens (sch b)) + amt) / mx /\
    is_scheduled tok (sch b) = false /\ is_scheduled tok (sch b') = true /\ trk b' = trk b.
Proof.
  intros mx b Hm Hr. pose proof (reachable_inv mx b Hm Hr) as Hi.
  split; [now apply wait_formula_state|]. intros amt tok now b' w Hc.
  destruct (refused_wait _ _ _ _ _ _ _ _ Hm Hi Hc) as (H1 & H2 & _ & _ & _ & H6).
  repeat split; try assumption. exact (refused_is_scheduled _ _ _ _ _ _ _ _ Hc).
Qed.
Print Assumptions C13_wait_formula.

(** (d), second half.  A refused request is granted by its next consume --
    whatever the other tokens do in between (consume, be refused, be released,
    be cancelled), at whatever time it comes back. *)
Theorem C13_one_wait : forall mx b amt tok now b1 w ops amt' now',
  consume mx amt tok now b = (b1, Refused w) ->
  Forall (fun op => op_tok op <> tok) ops ->
  snd (consume mx amt' tok now' (run_state BW_ALPHA mx b1 ops)) = Granted.
Proof. intros mx b amt tok now b1 w ops amt' now'. apply one_wait_gen. Qed.
Print Assumptions C13_one_wait.

(** (a) for grants decided by the rate test: such a grant (other than the very
    first consume of the bucket) comes strictly after the previous grant, at
    time [lt], and carries at most 1.25 max (now - lt) bytes. *)
Theorem C13_immediate_grant_bound : forall mx b amt tok now lt b',
  0 < mx -> reachable mx b ->
  is_scheduled tok (sch b) = false -> last_time (trk b) = Some lt ->
  consume mx amt tok now b = (b', Granted) ->
  lt < now /\ inject_Z amt <= (5 # 4) * mx * (now - lt).
Proof.
  intros mx b amt tok now lt b' Hm Hr. apply immediate_grant_bound_src; [exact Hm|].
  now apply reachable_inv.
Qed.
Print Assumptions C13_immediate_grant_bound.

(** [lt] above is the clock reading of the most recent grant of the history. *)
Theorem C13_last_time_is_previous_grant : forall mx ops,
  last_time (trk (run_state BW_ALPHA mx bucket0 ops)) =
  last_grant None ops (run_decs BW_ALPHA mx bucket0 ops).
Proof. intros mx ops. apply (last_time_is_last_grant BW_ALPHA mx ops bucket0). Qed.
Print Assumptions C13_last_time_is_previous_grant.

(** (a) for windows that contain only grants decided by the rate test: from
    any reachable state whose last grant was at [t0], a stretch of history
    without scheduled releases moves at most 1.25 max (t1 - t0) bytes, [t1]
    being its last grant -- so a window [u, v] of such grants carries at most
    1.25 max (v - u) plus its first request. *)
Theorem C13_immediate_window : forall mx b seg t0,
  0 < mx -> reachable mx b -> Forall op_ok seg -> last_time (trk b) = Some t0 ->
  only_immediate BW_ALPHA mx b seg ->
  exists t1, last_time (trk (run_state BW_ALPHA mx b seg)) = Some t1 /\ t0 <= t1 /\
    inject_Z (granted_bytes seg (run_decs BW_ALPHA mx b seg)) <= (5 # 4) * mx * (t1 - t0).
Proof.
  intros mx b seg t0 Hm Hr. apply immediate_segment_src; [exact Hm|].
  now apply reachable_inv.
Qed.
Print Assumptions C13_immediate_window.

(** (a), mixed windows, the part decided by the rate test.  Also when
    scheduled releases are interleaved, the grants decided by the rate test
    in a stretch of history with non-decreasing clock readings carry at most
    1.25 max (t1 - t0) bytes.  Together with [C13_scheduled_window] this bounds
    ALL bytes of a window by 2.25 max T + burst + one request; the stated
    1.25 max T + burst is false ([C13_rate_125_refuted]). *)
Theorem C13_immediate_bytes_mixed : forall mx b seg t0 t,
  0 < mx -> reachable mx b -> Forall op_ok seg -> last_time (trk b) = Some t0 -> t0 <= t ->
  clocks_from t seg ->
  exists t1, last_time (trk (run_state BW_ALPHA mx b seg)) = Some t1 /\ t0 <= t1 /\
    inject_Z (immediate_bytes BW_ALPHA mx b seg) <= (5 # 4) * mx * (t1 - t0).
Proof.
  intros mx b seg t0 t Hm Hr. apply immediate_bytes_mixed_src; [exact Hm|].
  now apply reachable_inv.
Qed.
Print Assumptions C13_immediate_bytes_mixed.

(** (c).  From the initial state -- or from any state whose tracked rate is
    at most max -- requests that each ask for no more than the limit allows
    since the previous grant, strictly after it, are never refused. *)
Theorem C13_under_limit_never_refused : forall mx ops b,
  0 < mx -> rate_le mx (trk b) -> under_limit BW_ALPHA mx b ops ->
  Forall (fun d => forall w, d <> Some (Refused w)) (run_decs BW_ALPHA mx b ops) /\
  rate_le mx (trk (run_state BW_ALPHA mx b ops)).
Proof.
  intros mx ops b Hm. destruct alpha_range as [A0 A1].
  apply under_limit_never_refused_gen; [apply Qlt_le_weak, A0|apply Qlt_le_weak, A1|exact Hm].
Qed.
Print Assumptions C13_under_limit_never_refused.

Theorem C13_under_limit_from_start : forall mx ops,
  0 < mx -> under_limit BW_ALPHA mx bucket0 ops ->
  Forall (fun d => forall w, d <> Some (Refused w)) (run_decs BW_ALPHA mx bucket0 ops).
Proof. intros mx ops Hm Hu. now apply (C13_under_limit_never_refused mx ops bucket0 Hm I Hu). Qed.
Print Assumptions C13_under_limit_from_start.

(** (e).  Cancelling a scheduled token (what the stream does when its
    transfer has failed) removes it and gives back exactly its time slot; the
    other scheduled tokens and the tracker are untouched, and the wait formula
    continues to hold -- later waits count live waiters only. *)
Theorem C13_abandoned_token_removed : forall mx b tok e,
  0 < mx -> reachable mx b -> lookup tok (tokens (sch b)) = Some e ->
  is_scheduled tok (sch (cancel tok b)) = false /\
  total_wait (sch (cancel tok b)) == total_wait (sch b) - time_to_consume e /\
  (forall k, k <> tok -> lookup k (tokens (sch (cancel tok b))) = lookup k (tokens (sch b))) /\
  trk (cancel tok b) = trk b /\
  total_wait (sch (cancel tok b)) == inject_Z (sum_amt (tokens (sch (cancel tok b)))) / mx.
Proof.
  intros mx b tok e Hm Hr El.
  destruct (cancel_spec mx b tok e Hm (reachable_inv mx b Hm Hr) El) as (H1 & H2 & _ & H4 & H5 & H6).
  repeat split; try assumption. now apply wait_formula_state.
Qed.
Print Assumptions C13_abandoned_token_removed.

(** (e), several streams on one bucket (every event of every stream, any
    interleaving, transfers failing at any point): the tokens scheduled in the
    bucket are exactly the streams currently asleep in their loop -- no token
    of a stream that has returned or raised stays behind -- and the
    accumulated wait is the time for exactly those streams' pending bytes. *)
Theorem C13_live_waiters : forall mx thr evs, 0 < mx -> Forall ev_ok evs ->
  let y := sys_state thr BW_ALPHA mx sys0 evs in
  (forall sid, is_scheduled sid (sch (y_bucket y)) = true <->
               ss_pending (get_stream sid (y_streams y)) <> PNone) /\
  total_wait (sch (y_bucket y)) == inject_Z (sum_amt (tokens (sch (y_bucket y)))) / mx.
Proof.
  intros mx thr evs Hm Hok y. destruct alpha_range as [A0 A1].
  destruct (sys_state_inv thr BW_ALPHA mx (Qlt_le_weak _ _ A0) (Qlt_le_weak _ _ A1) Hm evs sys0 Hok
              (sys0_inv mx)) as [Hi _ _ Hl].
  split; [exact Hl|now apply wait_formula_state].
Qed.
Print Assumptions C13_live_waiters.

(** (f).  Once the transfer's exception is set, a pass through the stream's
    loop raises without consuming: the tracker is untouched, and the stream's
    token is no longer scheduled. *)
Theorem C13_failed_transfer_raises : forall mx now st b, 0 < mx -> reachable mx b ->
  loop_iter BW_ALPHA mx true now st b = (st, cancel (s_tok st) b, IRaise) /\
  trk (cancel (s_tok st) b) = trk b /\
  is_scheduled (s_tok st) (sch (cancel (s_tok st) b)) = false.
Proof.
  intros mx now st b Hm Hr. split; [reflexivity|]. split; [apply cancel_tracker|].
  apply (cancel_not_scheduled mx); [exact Hm|now apply reachable_inv].
Qed.
Print Assumptions C13_failed_transfer_raises.

(** (d) for a stream running alone: its loop is left (read returns, or the
    transfer's error is raised) after at most two passes, i.e. one sleep --
    however late the sleep returns. *)
Theorem C13_stream_loop_one_sleep : forall mx exc_at wake now st b, 0 < mx ->
  exists r, stream_loop 2 BW_ALPHA mx exc_at wake now st b = Some r.
Proof. intros. now apply stream_loop_two. Qed.
Print Assumptions C13_stream_loop_one_sleep.

(** (b).  Scheduled releases -- under saturation every grant but the first is
    one -- in ANY window [u, v] of a disciplined history (clock readings do
    not decrease; a refused token comes back with the same amount, not before
    its wait is over: "sleeps are not shorter than requested") move at most
    max (v - u) bytes plus the bytes scheduled at any one time ([B]). *)
Theorem C13_scheduled_window : forall mx B ops u v t0,
  0 < mx -> u <= v ->
  disciplined BW_ALPHA mx bucket0 [] t0 ops = true ->
  outstanding_le BW_ALPHA mx B bucket0 ops ->
  inject_Z (released_bytes BW_ALPHA mx u v bucket0 ops) <= mx * (v - u) + inject_Z B.
Proof.
  intros mx B ops u v t0 Hm Huv. destruct alpha_range as [A0 A1].
  apply scheduled_window_gen; try assumption; now apply Qlt_le_weak.
Qed.
Print Assumptions C13_scheduled_window.

(** the same with the burst in terms of streams: N tokens, requests of at
    most [amax] bytes: max (v - u) + N * amax *)
Theorem C13_scheduled_window_streams : forall mx toks amax ops u v t0,
  0 < mx -> u <= v -> (0 <= amax)%Z ->
  disciplined BW_ALPHA mx bucket0 [] t0 ops = true ->
  Forall (op_within toks amax) ops ->
  inject_Z (released_bytes BW_ALPHA mx u v bucket0 ops) <=
  mx * (v - u) + inject_Z (Z.of_nat (length toks) * amax).
Proof.
  intros mx toks amax ops u v t0 Hm Huv Ha. destruct alpha_range as [A0 A1].
  apply scheduled_window_streams; try assumption; now apply Qlt_le_weak.
Qed.
Print Assumptions C13_scheduled_window_streams.

(** (a) REFUTED as stated (finding F10).  max = 1000; stream S (token 1)
    re-requests 1000 bytes the moment it is granted, stream I (token 2)
    requests 390 bytes in the middle of each of S's waits; the history is
    disciplined, no request of I is ever refused, and the 100 cycles in the
    window [0, 100] move 140000 bytes > 1.25 * 1000 * 100 + 4 maximal requests
    for each of the two streams (133000).  The excess is 140 bytes per cycle. *)
Theorem C13_rate_125_refuted : exists mx ops u v,
  0 < mx /\ u <= v /\
  disciplined BW_ALPHA mx bucket0 [] 0 ops = true /\
  never_refused 2 ops (run_decs BW_ALPHA mx bucket0 ops) = true /\
  (5 # 4) * mx * (v - u) + inject_Z (4 * max_amt ops * 2) <
    inject_Z (window_bytes u v ops (run_decs BW_ALPHA mx bucket0 ops)).
Proof. exact rate_125_witness. Qed.
Print Assumptions C13_rate_125_refuted.

(** (c) REFUTED without its side condition (finding F11).  After the
    disciplined four-step history below -- a scheduled release at the clock
    reading of the previous grant -- the tracked rate is +infinity, and it
    stays so: whatever happens next, every request of a token that is not
    already scheduled is refused, at every later time, however idle the link. *)
Theorem C13_inf_poisoning_refuted : exists mx prefix,
  0 < mx /\ disciplined BW_ALPHA mx bucket0 [] 0 prefix = true /\
  forall ops amt tok now,
    let b := run_state BW_ALPHA mx bucket0 (prefix ++ ops) in
    is_scheduled tok (sch b) = false ->
    exists w, snd (consume mx amt tok now b) = Refused w.
Proof.
  exists f11_mx, f11_prefix. destruct f11_prefix_facts as (H1 & _ & H3 & _).
  split; [reflexivity|]. split; [exact H1|]. intros ops amt tok now b Hs.
  apply rate_inf_refuses; [|exact Hs]. subst b. rewrite run_state_app. now apply rate_inf_run.
Qed.
Print Assumptions C13_inf_poisoning_refuted.

(** (e) REFUTED for the loop as it was before the repair of F9 (a stream whose
    transfer failed raised without cancelling its token): the abandoned slot
    stays in the accumulated wait, the only waiter is told to wait 2 s instead
    of 1 s.  With the loop of the current source the same history gives 1 s. *)
Theorem C13_leak_unrepaired_refuted :
  leak_run loop_iter_nocancel = (IRaise, Refused 2, [2; 1]%Z) /\
  leak_run loop_iter = (IRaise, Refused 1, [2]%Z).
Proof. exact leak_witness. Qed.
Print Assumptions C13_leak_unrepaired_refuted.

(** Non-vacuity: a concrete disciplined three-token history that exercises a
    refusal with two waiters (wait = (300 + 500) / 1000), a cancel, a
    scheduled release and an immediate grant under the bound; and the
    hypotheses of the under-limit theorem on a concrete history. *)
Example C13_nonvacuous :
  let ops := [Consume 200 1 0; Consume 300 2 (1 # 100); Consume 500 3 (2 # 100);
              Cancel 2; Consume 500 3 (90 # 100); Consume 100 1 (190 # 100)] in
  disciplined BW_ALPHA 1000 bucket0 [] 0 ops = true /\
  run_decs BW_ALPHA 1000 bucket0 ops =
    [Some Granted; Some (Refused (3 # 10)); Some (Refused (4 # 5)); None;
     Some Granted; Some Granted] /\
  Forall (op_within [1; 2; 3]%Z 500) ops /\
  released_bytes BW_ALPHA 1000 (1 # 2) 1 bucket0 ops = 500%Z /\
  reachable 1000 (run_state BW_ALPHA 1000 bucket0 ops) /\
  under_limit BW_ALPHA 1000 bucket0 [Consume 200 1 0; Consume 500 2 (1 # 2); Consume 250 1 (3 # 4)].
Proof.
  split. { vm_compute; reflexivity. } split. { vm_compute; reflexivity. }
  split. { repeat (apply Forall_cons; [split; [cbn [op_tok In]; auto 6|try lia; exact I]|]); apply Forall_nil. }
  split. { vm_compute; reflexivity. } split.
  - eexists; split; [|reflexivity]. repeat constructor; discriminate.
  - apply under_limit_b_sound. vm_compute. reflexivity.
Qed.
