(** C17 -- a transfer's state only moves forward and stays self-consistent.

    Statements only; every proof is an [exact]/[apply] of a lemma of
    proofs/CoordProofs.v.  All theorems quantify over EVERY sequence [ops] of
    coordinator operations (no length bound; induction over the list), every
    callback environment [E] (done callbacks and failure cleanups are scripts
    over the TransferFuture API, run synchronously under the lock the code
    holds), and -- for the state facts -- both the repaired ([rep = true],
    the code in /repo) and the pre-repair cancel.  Because every method body
    is one critical section and the three phases of announce_done are ops of
    their own, every interleaving of threads calling the methods is one of
    these sequences.

    [run E rep s ops] is the history: (state before, op, outcome, state after)
    for each executed op.  [along Q h] says Q holds of every entry.

    NOT claimed, on purpose: the forward order of the non-done states.  The
    class accepts set_status_to_queued after set_status_to_running (Example
    [C17_class_accepts_queued_after_running]); "not-started -> queued ->
    running" is a fact about the only caller (SubmissionTask._main issues the
    two transitions once, in order) and belongs to the system model. *)
From Coq Require Import ZArith List Bool Lia.
From S3V Require Import model.Coord proofs.CoordProofs.
Import ListNotations.
Open Scope Z_scope.

(** Once done() is true it stays true after any further ops, whatever they
    are, and every later done() call answers True.  (From ANY done state, not
    only reachable ones.) *)
Theorem C17_done_monotone : forall E rep ops s, done s = true ->
  along (fun s0 o r s' =>
           done s0 = true /\ done s' = true /\ (o = OCall CDone -> r = RBool true))
        (run E rep s ops).
Proof.
  intros E rep ops s Hd. eapply Forall_impl; [|exact (done_monotone_run E rep ops s Hd)].
  intros [[[s0 o] r] s']. tauto.
Qed.
Print Assumptions C17_done_monotone.

(** A finished transfer cannot be restarted: from a done state on, every
    set_status_to_queued / set_status_to_running raises RuntimeError and
    leaves the whole state unchanged. *)
Theorem C17_no_restart : forall E rep ops s, done s = true ->
  step E rep s OQueued = (s, RRuntimeError) /\ step E rep s ORunning = (s, RRuntimeError) /\
  along (fun s0 o r s' => (o = OQueued \/ o = ORunning) -> r = RRuntimeError /\ s' = s0)
        (run E rep s ops).
Proof.
  intros E rep ops s Hd. destruct (no_restart_step E rep s Hd) as [A B]. split; [exact A|].
  split; [exact B|]. eapply Forall_impl; [|exact (done_monotone_run E rep ops s Hd)].
  intros [[[s0 o] r] s']. tauto.
Qed.
Print Assumptions C17_no_restart.

(** A done state is frozen: from ANY done state (success included, reachable
    or not), along every history, (status, exception, result) change only by
    set_result, set_exception(override=True) or the user's set_exception (run
    directly or by a callback script).  In particular a late
    set_exception(override=False) or cancel() never turns a success into a
    failure, nor a failure into another one. *)
Theorem C17_done_state_frozen : forall E rep ops s, done s = true ->
  along (fun s0 o r s' => core s' <> core s0 ->
           (exists v, o = OSetResult v) \/ (exists e, o = OSetException e true) \/
           (((exists e, o = OUserSetException e) \/ is_announce_op o = true) /\
            exists l e, s' = cs_run l s0 /\
                        Forall (fun c => allowed no_locks c = true) l /\
                        In (CsUserSetException e) l))
        (run E rep s ops).
Proof. exact done_frozen_run. Qed.
Print Assumptions C17_done_state_frozen.

(** The first failure or cancellation recorded is kept: in every reachable
    state with a stored exception, set_exception(override=False), cancel()
    and cancel's critical section change nothing at all. *)
Theorem C17_first_failure_kept : forall E rep ops,
  along (fun s0 o r s' => forall e0, st_exc s0 = Some e0 ->
           ((exists e, o = OSetException e false) \/ (exists m k, o = OCancel m k) \/
            (exists m k, o = OCancelCS m k)) -> s' = s0)
        (run E rep init ops).
Proof. intros E rep ops. exact (first_failure_run E rep ops). Qed.
Print Assumptions C17_first_failure_kept.

(** The only things that replace a stored exception: set_result,
    set_exception(override=True), and the user's TransferFuture.set_exception
    -- called directly or by a callback script during an announce -- and that
    one only in a done state.  ([cs_run l s0]: the op is the sequence [l] of
    critical sections, all of kinds a callback thread may execute, and the
    user's set_exception is among them.) *)
Theorem C17_only_result_or_override_replaces : forall E rep ops,
  along (fun s0 o r s' => forall e0, st_exc s0 = Some e0 -> st_exc s' <> Some e0 ->
           (exists v, o = OSetResult v) \/ (exists e, o = OSetException e true) \/
           (done s0 = true /\
            ((exists e, o = OUserSetException e) \/ is_announce_op o = true) /\
            exists l e, s' = cs_run l s0 /\
                        Forall (fun c => allowed no_locks c = true) l /\
                        In (CsUserSetException e) l))
        (run E rep init ops).
Proof. intros E rep ops. exact (replaced_run E rep ops). Qed.
Print Assumptions C17_only_result_or_override_replaces.

(** ... and when callbacks do not call the future, exactly three ops. *)
Theorem C17_replacers_without_scripts : forall rep s o e0,
  inv s -> st_exc s = Some e0 -> st_exc (fst (step no_scripts rep s o)) <> Some e0 ->
  (exists r, o = OSetResult r) \/ (exists e, o = OSetException e true) \/
  (done s = true /\ exists e, o = OUserSetException e).
Proof. exact replaced_plain. Qed.
Print Assumptions C17_replacers_without_scripts.

(** Agreement, at every point of every history: an exception is stored
    exactly when the status is failed or cancelled; once the done event is set
    result() raises exactly the stored exception, and when the status is
    success there is no exception and result() returns the stored result. *)
Theorem C17_agreement : forall E rep ops,
  along (fun s0 o r s' => agrees s0 /\ agrees s' /\ (o = OCall CResult -> r = obs_result s0))
        (run E rep init ops).
Proof. intros E rep ops. exact (agreement_run E rep ops). Qed.
Print Assumptions C17_agreement.

(** The user's set_exception requires done: before, TransferNotDoneError and
    nothing changes; after, it overrides. *)
Theorem C17_user_set_exception_requires_done : forall E rep s e,
  (done s = false -> step E rep s (OUserSetException e) = (s, RNotDone)) /\
  (done s = true ->
   step E rep s (OUserSetException e) = (do_set_exception e true s, RUnit) /\
   st_exc (do_set_exception e true s) = Some e /\ st_status (do_set_exception e true s) = Failed).
Proof. intros E rep s e. exact (user_set_exception_step E rep s e). Qed.
Print Assumptions C17_user_set_exception_requires_done.

(** Done callbacks: over any history with any number of announces (whole or
    phase by phase, nested or not), the callbacks run so far are a prefix of
    the registrations, in registration order -- so each registration is run at
    most once -- and while no thread hangs, the ones not yet run are exactly
    the pending list. *)
Theorem C17_callbacks_once : forall E rep ops,
  let s := fst (final E rep init ops) in
  (exists rest, cb_ids (st_log s) ++ rest = registered_callbacks ops) /\
  (forall id, (count_occ Z.eq_dec (cb_ids (st_log s)) id <=
               count_occ Z.eq_dec (registered_callbacks ops) id)%nat) /\
  (snd (final E rep init ops) = false ->
   cb_ids (st_log s) ++ st_callbacks s = registered_callbacks ops).
Proof.
  intros E rep ops s. destruct (final_cb E rep ops init [] eq_refl) as [[rest A] B].
  split; [now exists rest|]. split; [|exact B].
  intros id. exact (prefix_count _ rest _ id A).
Qed.
Print Assumptions C17_callbacks_once.

(** An announce (or its callback phase) that returns leaves nothing pending:
    a callback added after one announce is run by the next. *)
Theorem C17_announce_runs_pending : forall E rep ops o,
  (o = OAnnounce \/ o = OCallbacks) ->
  snd (final E rep init ops) = false ->
  let s := fst (final E rep init ops) in
  hangs (snd (step E rep s o)) = false ->
  st_callbacks (fst (step E rep s o)) = [] /\
  cb_ids (st_log (fst (step E rep s o))) = registered_callbacks ops.
Proof.
  intros E rep ops o Ho Hf s Hh. apply announce_runs_pending; [exact Ho| |exact Hh].
  destruct (final_cb E rep ops init [] eq_refl) as [_ B]. exact (B Hf).
Qed.
Print Assumptions C17_announce_runs_pending.

(** Failure cleanups: the same run-once / registration-order facts, and they
    are run only by an op that starts in a non-success state. *)
Theorem C17_cleanups_once_and_only_on_nonsuccess : forall E rep ops,
  let s := fst (final E rep init ops) in
  (exists rest, cl_ids (st_log s) ++ rest = registered_cleanups ops) /\
  (forall id, (count_occ Z.eq_dec (cl_ids (st_log s)) id <=
               count_occ Z.eq_dec (registered_cleanups ops) id)%nat) /\
  (snd (final E rep init ops) = false ->
   cl_ids (st_log s) ++ st_cleanups s = registered_cleanups ops) /\
  along (fun s0 o r s' => st_status s0 = Success -> cl_ids (st_log s') = cl_ids (st_log s0))
        (run E rep init ops).
Proof.
  intros E rep ops s. destruct (final_cl E rep ops init [] eq_refl) as [[rest A] B].
  split; [now exists rest|]. split; [|split; [exact B|apply cleanups_nonsuccess_run]].
  intros id. exact (prefix_count _ rest _ id A).
Qed.
Print Assumptions C17_cleanups_once_and_only_on_nonsuccess.

(** * Re-entrancy (reused by C04) *)

(** In the repaired code the only way a thread can need a coordinator lock it
    already holds is an announce issued while the transfer is NOT done. *)
Theorem C04_coord_no_self_deadlock : forall E ops s,
  along (fun s0 o r s' => r = RSelfDeadlock -> done s0 = false /\ is_announce_op o = true)
        (run E true s ops).
Proof. exact no_self_deadlock_run. Qed.
Print Assumptions C04_coord_no_self_deadlock.

(** Hence under the discipline of every caller in the library (announce only
    after set_result / set_exception / cancel, i.e. in a done state -- and by
    [C17_done_monotone] it then stays done) no op sequence with any callback
    scripts over the public API self-deadlocks, and the model's nesting bound
    is never hit. *)
Theorem C04_coord_no_self_deadlock_disciplined : forall E ops s,
  along (fun s0 o r s' => is_announce_op o = true -> done s0 = true) (run E true s ops) ->
  along (fun s0 o r s' => r <> RSelfDeadlock /\ r <> RStuck) (run E true s ops).
Proof. exact no_self_deadlock_disciplined. Qed.
Print Assumptions C04_coord_no_self_deadlock_disciplined.

Theorem C04_never_stuck : forall E rep ops s,
  along (fun s0 o r s' => r <> RStuck) (run E rep s ops).
Proof. exact never_stuck_run. Qed.
Print Assumptions C04_never_stuck.

(** When the failure cleanups do not call the future (the library's own do
    not), cancel() returns from every state and announce_done returns in
    every done state: in particular result() called by a done callback is
    never blocked (the event is set before the callbacks run). *)
Theorem C04_cancel_and_announce_return : forall E s m k,
  (forall id, cl_script E id = []) ->
  snd (step E true s (OCancel m k)) = RUnit /\
  (done s = true -> snd (step E true s OAnnounce) = RUnit).
Proof.
  intros E s m k Hs. split; [now apply cancel_returns|now apply announce_returns_when_done].
Qed.
Print Assumptions C04_cancel_and_announce_return.

(** The full-strength claim "no op sequence self-deadlocks" is false of the
    class taken alone: announce_done() issued at not-started with an on_done
    that cancels needs _done_callbacks_lock twice.  (No caller does this.) *)
Definition E_cancel : env :=
  mkEnv (fun id => if id =? 1 then [CCancel 0 KCancelled] else []) (fun _ => []).

Theorem C04_announce_before_done_refuted :
  exists E ops, Exists (fun t => snd (fst t) = RSelfDeadlock) (run E true init ops).
Proof.
  exists E_cancel, [OAddCallback 1; OAnnounce]. vm_compute. right. left. reflexivity.
Qed.
Print Assumptions C04_announce_before_done_refuted.

(** Before the repair of F2 (cancel at not-started announced while holding
    _lock) the disciplined claim was false too: an on_done that calls
    set_exception on its finished future deadlocks inside cancel(). *)
Definition E_set_exception : env :=
  mkEnv (fun id => if id =? 1 then [CSetException (mkExn KOther 7)] else []) (fun _ => []).

Theorem C04_reentrancy_unrepaired_refuted :
  exists E ops,
    along (fun s0 o r s' => is_announce_op o = true -> done s0 = true) (run E false init ops) /\
    Exists (fun t => snd (fst t) = RSelfDeadlock) (run E false init ops).
Proof.
  exists E_set_exception, [OAddCallback 1; OCancel 0 KCancelled]. split.
  - vm_compute. repeat constructor; discriminate.
  - vm_compute. right. left. reflexivity.
Qed.
Print Assumptions C04_reentrancy_unrepaired_refuted.

(** * Non-vacuity *)

Definition e1 := mkExn KOther 1.
Definition e2 := mkExn KOther 2.

(** the same script is harmless in the repaired code: the callback overrides
    the cancellation with its own exception and cancel() returns *)
Example C17_repaired_runs_the_witness :
  map (fun t => snd (fst t)) (run E_set_exception true init [OAddCallback 1; OCancel 0 KCancelled])
    = [RUnit; RUnit] /\
  let s := fst (final E_set_exception true init [OAddCallback 1; OCancel 0 KCancelled]) in
  st_status s = Failed /\ st_exc s = Some (mkExn KOther 7) /\ st_event s = true /\
  st_log s = [RanCallback 1; ScriptRes RUnit] /\ st_callbacks s = [].
Proof. vm_compute. repeat split. Qed.

(** a history exercising every clause: failure kept against a later
    set_exception and cancel, announce, a late callback run by the second
    announce, set_result replacing the failure, the user's override *)
Example C17_nonvacuous :
  let ops := [OAddCallback 1; OAddCleanup 5; OQueued; ORunning; OSetException e1 false;
              OSetException e2 false; OCancel 3 KFatal; OAnnounce; OCall CResult;
              OAddCallback 2; OAnnounce; OQueued; OSetResult 9; OCall CResult;
              OUserSetException e2; OCall CResult; OAnnounce] in
  map (fun t => snd (fst t)) (run no_scripts true init ops) =
    [RUnit; RUnit; RUnit; RUnit; RUnit; RUnit; RUnit; RUnit; RRaises e1; RUnit; RUnit;
     RRuntimeError; RUnit; RReturns (Some 9); RUnit; RRaises e2; RUnit] /\
  let s := fst (final no_scripts true init ops) in
  st_status s = Failed /\ st_exc s = Some e2 /\ st_result s = Some 9 /\
  st_log s = [RanCleanup 5; RanCallback 1; RanCallback 2] /\
  registered_callbacks ops = [1; 2] /\ registered_cleanups ops = [5].
Proof. vm_compute. repeat split. Qed.

(** cleanups are skipped by an announce that observes success, and kept for a
    later one that does not *)
Example C17_cleanups_skipped_on_success :
  let ops := [OAddCleanup 5; OSetResult 1; OAnnounce; OSetException e1 true; OAnnounce] in
  map (fun t => cl_ids (st_log (snd t))) (run no_scripts true init ops) = [[]; []; []; []; [5]].
Proof. vm_compute. reflexivity. Qed.

(** what is NOT claimed: the class itself accepts queued after running *)
Example C17_class_accepts_queued_after_running :
  map (fun t => (snd (fst t), st_status (snd t))) (run no_scripts true init [ORunning; OQueued])
    = [(RUnit, Running); (RUnit, Queued)].
Proof. vm_compute. reflexivity. Qed.

(** two announcers interleaved phase by phase: each callback still once *)
Example C17_two_announcers_interleaved :
  let ops := [OAddCallback 1; OAddCallback 2; OSetException e1 false;
              OCleanups; OCleanups; OEvent; OCallbacks; OEvent; OCallbacks] in
  cb_ids (st_log (fst (final no_scripts true init ops))) = [1; 2].
Proof. vm_compute. reflexivity. Qed.
