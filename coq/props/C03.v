(** C03 -- A future never reports success unless every step succeeded
    (protocol part; the retry budget is in proofs/RetryProofs.v).
    Statements only; each is closed by [exact] of a lemma of proofs/SysStage.v
    and followed by Print Assumptions.

    Reading guide.  [reachable (init ...) s]: [s] is the state after ANY
    accepted event list of model/Sys.v (all schedules, fault choices -- a fault
    is an [EMainEnd k false] / [ES3End r false] -- and any number of concurrent
    transfers).  Per task: [k_ran_main] main began, [k_main_ok] main returned
    normally, [k_skipped] the done-check of Task.__call__ answered "done" and
    main was skipped; [past_main (k_st x)]: the task is at or after its
    done-callbacks (TPost, TAnn, TAnnDone, TEnded).  TFailed is the position
    between main raising and [set_exception]. *)
From Coq Require Import ZArith List Bool Lia.
From S3V Require Import model.Sys proofs.SysBase proofs.SysTask proofs.SysStage.
Import ListNotations.
Open Scope Z_scope.

(** A failure is recorded before the task goes on: a task past its main whose
    main did not return normally (it raised, or it was skipped) belongs to a
    transfer that is done (failed, cancelled -- or already successful). *)
Theorem C03_failed_implies_done : forall w_sub w_req w_io q_sub q_req q_io up down s k x,
  reachable (init w_sub w_req w_io q_sub q_req q_io up down) s ->
  find_task k (tasks s) = Some x -> past_main (k_st x) = true -> k_main_ok x = false ->
  exists co, find_coord (k_t x) (coords s) = Some co /\ is_done (c_status co) = true.
Proof. exact failed_implies_done. Qed.
Print Assumptions C03_failed_implies_done.

Theorem C03_recorded_or_ok : forall w_sub w_req w_io q_sub q_req q_io up down s k x,
  reachable (init w_sub w_req w_io q_sub q_req q_io up down) s -> find_task k (tasks s) = Some x ->
  (k_skipped x = true -> past_main (k_st x) = true /\ k_main_ok x = false /\ k_ran_main x = false) /\
  (k_main_ok x = true -> k_ran_main x = true /\ k_skipped x = false /\ past_main (k_st x) = true).
Proof. exact recorded_or_ok. Qed.
Print Assumptions C03_recorded_or_ok.

(** When a done-check answers "not done", no task of the transfer has been
    skipped, every task of the transfer that is past its main ran it to normal
    completion, and the transfer is neither failed nor cancelled. *)
Theorem C03_no_skip_before_nondone_check : forall w_sub w_req w_io q_sub q_req q_io up down s k s' x,
  reachable (init w_sub w_req w_io q_sub q_req q_io up down) s ->
  step s (EDoneCheck k false) = Some s' -> find_task k (tasks s) = Some x ->
  (exists co, find_coord (k_t x) (coords s) = Some co /\ is_done (c_status co) = false) /\
  forall ky y, find_task ky (tasks s) = Some y -> k_t y = k_t x ->
    k_skipped y = false /\ (past_main (k_st y) = true -> k_main_ok y = true /\ k_ran_main y = true).
Proof. exact no_skip_before_nondone_check. Qed.
Print Assumptions C03_no_skip_before_nondone_check.

(** Only set_result of a final task inside its main makes a transfer
    successful (every other event keeps or leaves "success"). *)
Theorem C03_success_only_by_set_result : forall s e s',
  step s e = Some s' ->
  no_new_success (coords s) (coords s') \/
  (exists k x, e = ESetResult k /\ busy s k = false /\ find_task k (tasks s) = Some x /\
               k_st x = TMain /\ k_final x = true /\ tasks s' = tasks s /\
               forall t c c', find_coord t (coords s) = Some c -> find_coord t (coords s') = Some c' ->
                 c_status c' = Success -> c_status c = Success \/ t = k_t x).
Proof. exact success_only_by_set_result. Qed.
Print Assumptions C03_success_only_by_set_result.

(** Success implies every step succeeded.  If the transfer's status is
    success then: its (unique) final task [F] ran its main (so its done-check
    answered "not done"); all dependencies of [F] are tasks of the transfer
    that have ended; no task of the transfer was created after [F]; and every
    other task of the transfer -- except the submission task and, when [F] is
    an IO task, IO tasks that are not dependencies of [F] (see the report: the
    plan guard of Sys.v does not order them) -- is past its main, ran it to
    normal completion and was not skipped.  Dependencies of dependencies are
    tasks of the transfer, hence covered. *)
Theorem C03_success_implies_all_ok : forall w_sub w_req w_io q_sub q_req q_io up down s t co,
  reachable (init w_sub w_req w_io q_sub q_req q_io up down) s ->
  find_coord t (coords s) = Some co -> c_status co = Success ->
  exists kf F, find_task kf (tasks s) = Some F /\ k_final F = true /\ k_t F = t /\
    k_ran_main F = true /\ k_skipped F = false /\
    (forall kf' F', find_task kf' (tasks s) = Some F' -> k_final F' = true -> k_t F' = t -> kf' = kf) /\
    (forall d, In d (k_deps F) -> exists x, find_task d (tasks s) = Some x /\ k_t x = t /\ k_st x = TEnded) /\
    (forall kx x, find_task kx (tasks s) = Some x -> k_t x = t -> kx <> kf ->
       kx < kf /\
       (k_kind x <> KSubmission ->
        In kx (k_deps F) \/ ~ (k_stage x = SIO /\ k_stage F = SIO) ->
        past_main (k_st x) = true /\ k_main_ok x = true /\ k_skipped x = false /\ k_ran_main x = true)).
Proof. exact success_implies_all_ok. Qed.
Print Assumptions C03_success_implies_all_ok.

(** The plan facts as invariants of every reachable state. *)
Theorem C03_plan_invariants : forall w_sub w_req w_io q_sub q_req q_io up down s,
  reachable (init w_sub w_req w_io q_sub q_req q_io up down) s -> plan_inv s.
Proof. exact plan_inv_reachable. Qed.
Print Assumptions C03_plan_invariants.

(** A concrete reachable state (non-vacuity): a two-step transfer (create,
    then the final complete depending on it) that ends successful. *)
Definition C03_trace : list event :=
  [ ENewTransfer (-1) 0;
    ESubmit (-1) 0 0 SSub false [] KSubmission; EAcquire (-1) 0 SEM_SUB; EEnqueue (-1) 0;
    ETaskStart 0; EDepsDone 0; EDoneCheck 0 false; EMainBegin 0;
    EStatus 0 false true; EStatus 0 true true;
    ESubmit 0 1 0 SReq false [] KCreate; EAcquire 0 1 SEM_REQ; EEnqueue 0 1; EAssoc 0 1;
    ESubmit 0 2 0 SReq true [1] KComplete; EAcquire 0 2 SEM_REQ; EEnqueue 0 2; EAssoc 0 2;
    EMainEnd 0 true;
    ETaskStart 1; EDepsDone 1; EDoneCheck 1 false; EMainBegin 1;
    ES3Begin 1 100 OpCreate 0 0; ES3Effect 100 7; ES3End 100 true; EMainEnd 1 true; ETaskEnd 1;
    ETaskStart 2; EDepsDone 2; EDoneCheck 2 false; EMainBegin 2;
    ES3Begin 2 101 OpComplete 0 7; ES3Effect 101 7; ES3End 101 true;
    ESetResult 2; EMainEnd 2 true ].

Example C03_example : exists s co F,
  run (init 1 2 1 10 10 10 2 2) C03_trace = Some s /\
  find_coord 0 (coords s) = Some co /\ c_status co = Success /\
  find_task 2 (tasks s) = Some F /\ k_final F = true /\ k_main_ok F = true /\ k_deps F = [1] /\
  task_in s 1 TEnded = true.
Proof.
  eexists. eexists. eexists. split; [vm_compute; reflexivity|].
  split; [vm_compute; reflexivity|]. split; [reflexivity|].
  split; [vm_compute; reflexivity|]. repeat split; reflexivity.
Qed.

(** the same run with the create request failing: the final task is skipped
    and the transfer is failed *)
Definition C03_trace_fail : list event :=
  [ ENewTransfer (-1) 0;
    ESubmit (-1) 0 0 SSub false [] KSubmission; EAcquire (-1) 0 SEM_SUB; EEnqueue (-1) 0;
    ETaskStart 0; EDepsDone 0; EDoneCheck 0 false; EMainBegin 0;
    EStatus 0 false true; EStatus 0 true true;
    ESubmit 0 1 0 SReq false [] KCreate; EAcquire 0 1 SEM_REQ; EEnqueue 0 1; EAssoc 0 1;
    ESubmit 0 2 0 SReq true [1] KComplete; EAcquire 0 2 SEM_REQ; EEnqueue 0 2; EAssoc 0 2;
    EMainEnd 0 true;
    ETaskStart 1; EDepsDone 1; EDoneCheck 1 false; EMainBegin 1;
    ES3Begin 1 100 OpCreate 0 0; ES3End 100 false; EMainEnd 1 false; ESetException 1 0 55 false; ETaskEnd 1;
    ETaskStart 2; EDepsDone 2; EDoneCheck 2 true ].

Example C03_example_fail : exists s co F,
  run (init 1 2 1 10 10 10 2 2) C03_trace_fail = Some s /\
  find_coord 0 (coords s) = Some co /\ c_status co = Failed /\ c_exc co = Some 55 /\
  find_task 2 (tasks s) = Some F /\ k_skipped F = true /\ k_ran_main F = false.
Proof.
  eexists. eexists. eexists. split; [vm_compute; reflexivity|].
  split; [vm_compute; reflexivity|]. split; [reflexivity|]. split; [reflexivity|].
  split; [vm_compute; reflexivity|]. split; reflexivity.
Qed.
