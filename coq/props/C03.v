(** C03 -- A future never reports success unless every step succeeded
    (protocol part; the retry budget is in proofs/RetryProofs.v).
    Statements only; each is closed by [exact] of a lemma of proofs/SysStage.v
    and followed by Print Assumptions.

    Reading guide.  [reachable (init ...) s]: [s] is the state after ANY
    accepted event list of model/Sys.v (all schedules, fault choices -- a fault
    is an [EMainEnd k false] / [ES3End r false] -- and any number of concurrent
    transfers).  Per task: [k_ran_main] main began, [k_main_ok] main returned
    normally, [k_skipped] the done-check of Task.__call__ answered "done" and
    main was skipped; [past_main (k_st x)]: the task is at or after its
    done-callbacks (TPost, TAnn, TAnnDone, TEnded).  TFailed is the position
    between main raising and [set_exception]. *)
From Coq Require Import ZArith List Bool Lia.
From S3V Require Import model.Sys proofs.SysBase proofs.SysTask proofs.SysStage.
Import ListNotations.
Open Scope Z_scope.

(** A failure is recorded before the task goes on: a task past its main whose
    main did not return normally (it raised, or it was skipped) belongs to a
    transfer that is done (failed, cancelled -- or already successful). *)
Theorem C03_failed_implies_done : forall w_sub w_req w_io q_sub q_req q_io up down s k x,
  reachable (init w_sub w_req w_io q_sub q_req q_io up down) s ->
  find_task k (tasks s) = Some x -> past_main (k_st x) = true -> k_main_ok x = false ->
  exists co, find_coord (k_t x) (coords s) = Some co /\ is_done (c_status co) = true.
Proof. exact failed_implies_done. Qed.
Print Assumptions C03_failed_implies_done.

Theorem C03_recorded_or_ok : forall w_sub w_req w_io q_sub q_req q_io up down s k x,
  reachable (init w_sub w_req w_io q_sub q_req q_io up down) s -> find_task k (tasks s) = Some x ->
  (k_skipped x = true -> past_main (k_st x) = true /\ k_main_ok x = false /\ k_ran_main x = false) /\
  (k_main_ok x = true -> k_ran_main x = true /\ k_skipped x = false /\ past_main (k_st x) = true).
Proof. exact recorded_or_ok. Qed.
Print Assumptions C03_recorded_or_ok.

(** When a done-check answers "not done", no task of the transfer has been
    skipped, every task of the transfer that is past its main ran it to normal
    completion, and the transfer is neither failed nor cancelled. *)
Theorem C03_no_skip_before_nondone_check : forall w_sub w_req w_io q_sub q_req q_io up down s k s' x,
  reachable (init w_sub w_req w_io q_sub q_req q_io up down) s ->
  step s (EDoneCheck k false) = Some s' -> find_task k (tasks s) = Some x ->
  (exists co, find_coord (k_t x) (coords s) = Some co /\ is_done (c_status co) = false) /\
  forall ky y, find_task ky (tasks s) = Some y -> k_t y = k_t x ->
    k_skipped y = false /\ (past_main (k_st y) = true -> k_main_ok y = true /\ k_ran_main y = true).
Proof. exact no_skip_before_nondone_check. Qed.
Print Assumptions C03_no_skip_before_nondone_check.

(** Only set_result of a final task inside its main makes a transfer
    successful (every other event keeps or leaves "success"). *)
Theorem C03_success_only_by_set_result : forall s e s',
  step s e = Some s' ->
  no_new_success (coords s) (coords s') \/
  (exists k x, e = ESetResult k /\ busy s k = false /\ find_task k (tasks s) = Some x /\
               k_st x = TMain /\ k_final x = true /\ tasks s' = tasks s /\
               forall t c c', find_coord t (coords s) = Some c -> find_coord t (coords s') = Some c' ->
                 c_status c' = Success -> c_status c = Success \/ t = k_t x).
Proof. exact success_only_by_set_result. Qed.
Print Assumptions C03_success_only_by_set_result.

(** Success implies every step succeeded.  If the transfer's status is
    success then: its (unique) final task [F] ran its main (so its done-check
    answered "not done"), is not in the failed position, and once past its
    main it returned normally (set_result is the last statement of a final
    task's main); all dependencies of [F] are tasks of the transfer that have
    ended; no task of the transfer was created after [F]; and every other
    task of the transfer except the submission task is past its main, ran it
    to normal completion and was not skipped -- for an IO final task and an IO
    task that is not one of its dependencies this uses the single IO worker
    ([w_io = 1], as in TransferManager: the IO executor has one thread; FIFO +
    the plan fact that the earlier IO task is already enqueued when [F] is
    submitted); for every other pair it holds for any number of workers.
    Dependencies of dependencies are tasks of the transfer, hence covered. *)
Theorem C03_success_implies_all_ok : forall w_sub w_req w_io q_sub q_req q_io up down s t co,
  0 <= w_sub -> 0 <= w_req -> 0 <= w_io ->
  reachable (init w_sub w_req w_io q_sub q_req q_io up down) s ->
  find_coord t (coords s) = Some co -> c_status co = Success ->
  exists kf F, find_task kf (tasks s) = Some F /\ k_final F = true /\ k_t F = t /\
    k_ran_main F = true /\ k_skipped F = false /\ k_st F <> TFailed /\
    (past_main (k_st F) = true -> k_main_ok F = true) /\
    (forall kf' F', find_task kf' (tasks s) = Some F' -> k_final F' = true -> k_t F' = t -> kf' = kf) /\
    (forall d, In d (k_deps F) -> exists x, find_task d (tasks s) = Some x /\ k_t x = t /\ k_st x = TEnded) /\
    (forall kx x, find_task kx (tasks s) = Some x -> k_t x = t -> kx <> kf ->
       kx < kf /\
       (k_kind x <> KSubmission ->
        In kx (k_deps F) \/ ~ (k_stage x = SIO /\ k_stage F = SIO) \/ w_io = 1 ->
        past_main (k_st x) = true /\ k_main_ok x = true /\ k_skipped x = false /\ k_ran_main x = true)).
Proof. exact success_implies_all_ok. Qed.
Print Assumptions C03_success_implies_all_ok.

(** With the single IO worker of the TransferManager: no exclusion at all. *)
Corollary C03_success_implies_all_ok_single_io_worker :
  forall w_sub w_req q_sub q_req q_io up down s t co,
  0 <= w_sub -> 0 <= w_req ->
  reachable (init w_sub w_req 1 q_sub q_req q_io up down) s ->
  find_coord t (coords s) = Some co -> c_status co = Success ->
  exists kf F, find_task kf (tasks s) = Some F /\ k_final F = true /\ k_t F = t /\
    k_ran_main F = true /\ (past_main (k_st F) = true -> k_main_ok F = true) /\
    (forall kx x, find_task kx (tasks s) = Some x -> k_t x = t -> kx <> kf -> k_kind x <> KSubmission ->
       past_main (k_st x) = true /\ k_main_ok x = true /\ k_skipped x = false /\ k_ran_main x = true).
Proof.
  intros w_sub w_req q_sub q_req q_io up down s t co Ha Hb Hr Hc Hs.
  destruct (success_implies_all_ok w_sub w_req 1 q_sub q_req q_io up down s t co Ha Hb ltac:(lia) Hr Hc Hs)
    as (kf & F & H1 & H2 & H3 & H4 & _ & _ & H7 & _ & _ & H10).
  exists kf, F. split; [exact H1|]. split; [exact H2|]. split; [exact H3|]. split; [exact H4|].
  split; [exact H7|]. intros kx x Hx Ht Hne Hk.
  destruct (H10 kx x Hx Ht Hne) as [_ G]. exact (G Hk (or_intror (or_intror eq_refl))).
Qed.
Print Assumptions C03_success_implies_all_ok_single_io_worker.

(** A final task whose transfer is successful did not fail. *)
Theorem C03_final_ok : forall w_sub w_req w_io q_sub q_req q_io up down s,
  reachable (init w_sub w_req w_io q_sub q_req q_io up down) s -> final_ok_inv s.
Proof. exact final_ok_inv_reachable. Qed.
Print Assumptions C03_final_ok.

(** The plan facts as invariants of every reachable state. *)
Theorem C03_plan_invariants : forall w_sub w_req w_io q_sub q_req q_io up down s,
  reachable (init w_sub w_req w_io q_sub q_req q_io up down) s -> plan_inv s.
Proof. exact plan_inv_reachable. Qed.
Print Assumptions C03_plan_invariants.

(** A concrete reachable state (non-vacuity): a two-step transfer (create,
    then the final complete depending on it) that ends successful. *)
Definition C03_trace : list event :=
  [ ENewTransfer (-1) 0;
    ESubmit (-1) 0 0 SSub false [] KSubmission; EAcquire (-1) 0 SEM_SUB; EEnqueue (-1) 0;
    ETaskStart 0; EDepsDone 0; EDoneCheck 0 false; EMainBegin 0;
    EStatus 0 false true; EStatus 0 true true;
    ESubmit 0 1 0 SReq false [] KCreate; EAcquire 0 1 SEM_REQ; EEnqueue 0 1; EAssoc 0 1;
    ESubmit 0 2 0 SReq true [1] KComplete; EAcquire 0 2 SEM_REQ; EEnqueue 0 2; EAssoc 0 2;
    EMainEnd 0 true;
    ETaskStart 1; EDepsDone 1; EDoneCheck 1 false; EMainBegin 1;
    ES3Begin 1 100 OpCreate 0 0; ES3Effect 100 7; ES3End 100 true; EMainEnd 1 true; ETaskEnd 1;
    ETaskStart 2; EDepsDone 2; EDoneCheck 2 false; EMainBegin 2;
    ES3Begin 2 101 OpComplete 0 7; ES3Effect 101 7; ES3End 101 true;
    ESetResult 2; EMainEnd 2 true ].

Example C03_example : exists s co F,
  run (init 1 2 1 10 10 10 2 2) C03_trace = Some s /\
  find_coord 0 (coords s) = Some co /\ c_status co = Success /\
  find_task 2 (tasks s) = Some F /\ k_final F = true /\ k_main_ok F = true /\ k_deps F = [1] /\
  task_in s 1 TEnded = true.
Proof.
  eexists. eexists. eexists. split; [vm_compute; reflexivity|].
  split; [vm_compute; reflexivity|]. split; [reflexivity|].
  split; [vm_compute; reflexivity|]. repeat split; reflexivity.
Qed.

(** the same run with the create request failing: the final task is skipped
    and the transfer is failed *)
Definition C03_trace_fail : list event :=
  [ ENewTransfer (-1) 0;
    ESubmit (-1) 0 0 SSub false [] KSubmission; EAcquire (-1) 0 SEM_SUB; EEnqueue (-1) 0;
    ETaskStart 0; EDepsDone 0; EDoneCheck 0 false; EMainBegin 0;
    EStatus 0 false true; EStatus 0 true true;
    ESubmit 0 1 0 SReq false [] KCreate; EAcquire 0 1 SEM_REQ; EEnqueue 0 1; EAssoc 0 1;
    ESubmit 0 2 0 SReq true [1] KComplete; EAcquire 0 2 SEM_REQ; EEnqueue 0 2; EAssoc 0 2;
    EMainEnd 0 true;
    ETaskStart 1; EDepsDone 1; EDoneCheck 1 false; EMainBegin 1;
    ES3Begin 1 100 OpCreate 0 0; ES3End 100 false; EMainEnd 1 false; ESetException 1 0 55 false; ETaskEnd 1;
    ETaskStart 2; EDepsDone 2; EDoneCheck 2 true ].

Example C03_example_fail : exists s co F,
  run (init 1 2 1 10 10 10 2 2) C03_trace_fail = Some s /\
  find_coord 0 (coords s) = Some co /\ c_status co = Failed /\ c_exc co = Some 55 /\
  find_task 2 (tasks s) = Some F /\ k_skipped F = true /\ k_ran_main F = false.
Proof.
  eexists. eexists. eexists. split; [vm_compute; reflexivity|].
  split; [vm_compute; reflexivity|]. split; [reflexivity|]. split; [reflexivity|].
  split; [vm_compute; reflexivity|]. split; reflexivity.
Qed.

(** a download to a file with the single IO worker: the GetObject task queues
    an IO write, its done-callback phase submits the final IO task behind it;
    the write has ended when the final task renames the file and sets the
    result (the case of [C03_success_implies_all_ok] that uses w_io = 1) *)
Definition C03_trace_download : list event :=
  [ ENewTransfer (-1) 0;
    ESubmit (-1) 0 0 SSub false [] KSubmission; EAcquire (-1) 0 SEM_SUB; EEnqueue (-1) 0;
    ETaskStart 0; EDepsDone 0; EDoneCheck 0 false; EMainBegin 0;
    EStatus 0 false true; EStatus 0 true true;
    ESubmit 0 1 0 SReq false [] KGet; EAcquire 0 1 SEM_REQ; EEnqueue 0 1; EAssoc 0 1; EMainEnd 0 true;
    ETaskStart 1; EDepsDone 1; EDoneCheck 1 false; EMainBegin 1;
    ES3Begin 1 100 OpGet 0 0; ES3Effect 100 0; ES3End 100 true;
    ESubmit 1 2 0 SIO false [] KIOWrite; EAcquire 1 2 SEM_IO; EEnqueue 1 2; EAssoc 1 2;
    EMainEnd 1 true;
    ESubmit 1 3 0 SIO true [] KIOFinal; EAcquire 1 3 SEM_IO; EEnqueue 1 3; EAssoc 1 3; ETaskEnd 1;
    ETaskStart 2; EDepsDone 2; EDoneCheck 2 false; EMainBegin 2;
    EFs 2 0 FOpen; EFs 2 0 FWrite; EMainEnd 2 true; ETaskEnd 2;
    ETaskStart 3; EDepsDone 3; EDoneCheck 3 false; EMainBegin 3;
    EFs 3 0 FClose; EFs 3 0 FRename; ESetResult 3; EMainEnd 3 true ].

Example C03_example_download : exists s co F,
  run (init 1 2 1 10 10 10 2 2) C03_trace_download = Some s /\
  find_coord 0 (coords s) = Some co /\ c_status co = Success /\
  find_task 3 (tasks s) = Some F /\ k_final F = true /\ k_stage F = SIO /\ k_deps F = [] /\
  task_in s 2 TEnded = true /\ g_history (st_io s) = [2; 3].
Proof.
  eexists. eexists. eexists. split; [vm_compute; reflexivity|].
  split; [vm_compute; reflexivity|]. split; [reflexivity|].
  split; [vm_compute; reflexivity|]. repeat split; reflexivity.
Qed.
