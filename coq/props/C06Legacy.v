(** C06, legacy front-end (S3Transfer.download_file, single and ranged).
    To be merged into the C06 property file. *)
From Coq Require Import ZArith List Bool.
From S3V Require Import model.Plan model.Legacy proofs.LegacyProofs.
Import ListNotations.
Open Scope Z_scope.

(** For all thresholds, chunk sizes, attempt limits, objects, previous
    destination contents and ALL oracle choices (head fault; request faults;
    stream fault after k bytes on any attempt with any read sizes; open/write
    faults; IO-thread open/write fault; rename fault; any IO-queue schedule;
    any number of ranges started before a failure surfaced):
    - at EVERY prefix of the sequence of atomic events the destination holds
      its old content (or is absent as before) or the complete object;
    - success: destination = object, no temp file;
    - any failure: destination = old, no temp file. *)
Theorem C06_legacy_atomic : forall thr chunk max obj o old, 0 < chunk ->
  let (evs, out) := legacy_download thr chunk max obj o in
  (forall k, old_or_complete old obj (final_fs old (firstn k evs))) /\
  (out = DSuccess -> final_fs old evs = {| temp := None; dest := Some obj |}) /\
  (out <> DSuccess -> final_fs old evs = {| temp := None; dest := old |}).
Proof. exact legacy_download_atomic. Qed.
Print Assumptions C06_legacy_atomic.

(** The shape before the repair (rename in the try's else branch): a failing
    rename leaves the temporary file. *)
Theorem C06_legacy_rename_fault_unrepaired_refuted :
  let (evs, out) := legacy_download_unrepaired 100 4 3 [1; 2; 3] rename_fault_oracle in
  out = DRenameErr /\ final_fs (Some [9]) evs = {| temp := Some [1; 2; 3]; dest := Some [9] |}.
Proof. exact unrepaired_rename_leaves_temp. Qed.
Print Assumptions C06_legacy_rename_fault_unrepaired_refuted.

(** Non-vacuity: a ranged download (10 bytes, chunk 4) whose range 1 is hit
    by a stream fault after 2 bytes and retried, IO writes interleaved; a
    single GET failing for good; a failing rename. *)
Definition nv6_obj : bytes := [10; 11; 12; 13; 14; 15; 16; 17; 18; 19].
Definition nv6_fault : attempt :=
  {| a_get := None; a_open := None; a_reads := [1; 3]; a_fail_after := Some (2, Retryable);
     a_write_fail := None |}.
Definition nv6_oracle (rename_ok : bool) : doracle :=
  {| o_head_ok := true; o_single := [nv6_fault; nv6_fault]; o_ranged := [[]; [nv6_fault]];
     o_started := 3; o_sched := [2%nat; 1%nat; 1%nat; 0%nat]; o_io_open_ok := true;
     o_io_fail := None; o_rename_ok := rename_ok |}.

Example C06_legacy_nonvacuous :
  (let (evs, out) := legacy_download 5 4 2 nv6_obj (nv6_oracle true) in
   out = DSuccess /\ length evs = 12%nat /\
   final_fs (Some [7]) evs = {| temp := None; dest := Some nv6_obj |} /\
   final_fs (Some [7]) (firstn 11 evs) = {| temp := Some nv6_obj; dest := Some [7] |}) /\
  (let (evs, out) := legacy_download 50 4 2 nv6_obj (nv6_oracle true) in
   out = DRetriesExceeded /\ final_fs (Some [7]) evs = {| temp := None; dest := Some [7] |} /\
   final_fs (Some [7]) (firstn 9 evs) = {| temp := Some [10; 11]; dest := Some [7] |}) /\
  (let (evs, out) := legacy_download 5 4 2 nv6_obj (nv6_oracle false) in
   out = DRenameErr /\ final_fs None evs = {| temp := None; dest := None |}).
Proof. vm_compute. repeat split. Qed.
