(** C08 -- subscriber callbacks: exactly once, in order, after the work
    (protocol part: the safety half; "some announce always happens" is C04's
    progress theorem).  Statements over every state reachable in the protocol
    model [model/Sys.v] from [init] (all schedules, all fault choices, any
    number of concurrent transfers; the IO executor has one worker where the
    quiescence argument is used).  Each theorem is closed by a lemma of
    proofs/SysQuiesce.v and followed by Print Assumptions.

    Reading guide.  [c_callbacks c]/[c_ran_callbacks c]: done callbacks
    registered and not yet run / run, in order; [c_cb_runner c]: the holder of
    the done-callbacks lock; [c_queued_cbs c]: number of on_queued callbacks
    run; [c_progress_after_done c]: ghost flag set by [EOnProgress] iff a done
    callback had begun; [c_event c]: the done event (result() unblocked). *)
From Coq Require Import ZArith List Bool Lia.
From S3V Require Import model.Sys proofs.SysBase proofs.SysCoord proofs.SysCoordInv proofs.SysTask proofs.SysQuiesce.
Import ListNotations.
Open Scope Z_scope.

(** on_queued runs from the submission task at phase 1 (status queued, not yet
    running): that task is the only task of its transfer, and no S3 request and
    no upload of the transfer exists. *)
Theorem C08_on_queued_before_requests :
  forall w_sub w_req w_io q_sub q_req q_io up down s k s',
  reachable (init w_sub w_req w_io q_sub q_req q_io up down) s ->
  step s (EOnQueued k) = Some s' ->
  exists S, find_task k (tasks s) = Some S /\ k_kind S = KSubmission /\ k_phase S = 1 /\ k_st S = TMain /\
    (forall k' x, find_task k' (tasks s) = Some x -> k_t x = k_t S -> k' = k) /\
    (forall q, In q (reqs s) -> r_t q <> k_t S) /\
    (forall u, In u (uploads s) -> u_t u <> k_t S).
Proof. exact on_queued_before_requests. Qed.
Print Assumptions C08_on_queued_before_requests.

(** ... and the counter of on_queued callbacks changes at no other event
    (never, in particular, for a transfer cancelled before it started, whose
    submission task never reaches phase 1: C07). *)
Theorem C08_queued_cbs_only_at_onqueued :
  forall s e s' t c c',
  step s e = Some s' -> find_coord t (coords s) = Some c -> find_coord t (coords s') = Some c' ->
  c_queued_cbs c' = c_queued_cbs c \/
  (exists k S, e = EOnQueued k /\ find_task k (tasks s) = Some S /\ k_t S = t /\ k_phase S = 1 /\
               c_queued_cbs c' = c_queued_cbs c + 1).
Proof. exact queued_cbs_only_at_onqueued. Qed.
Print Assumptions C08_queued_cbs_only_at_onqueued.

(** Each done callback runs at most once (no duplicate in the run list, and a
    callback that ran is no longer registered); a callback runs only from the
    announcer that holds the callbacks lock, in its callback phase, and has not
    run before. *)
Theorem C08_on_done_exactly_once_safety :
  forall w_sub w_req w_io q_sub q_req q_io up down s,
  reachable (init w_sub w_req w_io q_sub q_req q_io up down) s ->
  (forall t c, find_coord t (coords s) = Some c ->
     NoDup (c_ran_callbacks c) /\ (forall id, In id (c_ran_callbacks c) -> ~ In id (c_callbacks c))) /\
  (forall a t id s', step s (ECallback a t id) = Some s' ->
     exists c, find_coord t (coords s) = Some c /\ c_cb_runner c = Some a /\
               ann_phase a (c_announcers c) = Some 4 /\ ~ In id (c_ran_callbacks c)).
Proof. exact on_done_exactly_once_safety. Qed.
Print Assumptions C08_on_done_exactly_once_safety.

(** While the done callbacks run and ever after: result() is unblocked, the
    outcome is final (done; it can change only by an override), the runner's own
    cleanup phase is over, no request of the transfer other than a failure
    cleanup's abort is in flight, no task other than the submission task is in
    (or about to enter) its main -- hence no part/complete/data/get request
    can begin: their guard needs such a task --, and no on_progress has been
    delivered since the first on_done began. *)
Theorem C08_on_done_after_everything :
  forall w_sub w_req q_sub q_req q_io up down s t c,
  reachable (init w_sub w_req 1 q_sub q_req q_io up down) s ->
  find_coord t (coords s) = Some c ->
  c_cb_runner c <> None \/ c_ran_callbacks c <> [] ->
  c_event c = true /\ is_done (c_status c) = true /\ c_ann_started c = true /\
  (forall a, c_cb_runner c = Some a -> ann_phase a (c_announcers c) = Some 4 /\ c_cl_runner c <> Some a) /\
  (forall q, In q (reqs s) -> r_t q = t -> r_op q <> OpAbort -> r_ended q = true) /\
  (forall k x, find_task k (tasks s) = Some x -> k_t x = t -> k_kind x <> KSubmission ->
               k_st x <> TReady /\ k_st x <> TMain) /\
  c_progress_after_done c = false.
Proof. exact on_done_after_everything. Qed.
Print Assumptions C08_on_done_after_everything.

(** and quiescence persists (stated once in C05): *)
Theorem C08_announce_quiescent :
  forall w_sub w_req q_sub q_req q_io up down s t c,
  reachable (init w_sub w_req 1 q_sub q_req q_io up down) s ->
  find_coord t (coords s) = Some c ->
  c_ann_started c = true \/ c_owing c <> [] ->
  is_done (c_status c) = true /\
  (forall k x, find_task k (tasks s) = Some x -> k_t x = t -> k_kind x <> KSubmission ->
               k_st x <> TReady /\ k_st x <> TMain) /\
  (forall tr s2, run s tr = Some s2 ->
     coord_done s2 t = true /\
     forall k x, find_task k (tasks s2) = Some x -> k_t x = t -> k_kind x <> KSubmission ->
                 k_st x <> TReady /\ k_st x <> TMain).
Proof. exact announce_quiescent. Qed.
Print Assumptions C08_announce_quiescent.

(* ------------------------------------------------------------------ *)
(** Non-vacuity: a single-request upload of transfer 1 with two subscribers'
    done callbacks 50, 51: on_queued at phase 1, the final task 1 (PutObject)
    with a progress callback inside the request, set_result, announce (success:
    no cleanup phase), event, the two callbacks in registration order.  The
    state just before the last callback satisfies the hypothesis of
    [C08_on_done_after_everything] (lock held, one callback run). *)
Definition c08_trace : list event :=
  [ENewTransfer (-1) 1; EAddCallback (-1) 1 50; EAddCallback (-1) 1 51;
   ESubmit (-1) 0 1 SSub false [] KSubmission; EAcquire (-1) 0 SEM_SUB; EEnqueue (-1) 0;
   ETaskStart 0; EDepsDone 0; EDoneCheck 0 false; EMainBegin 0;
   EStatus 0 false true; EOnQueued 0; EOnQueued 0; EStatus 0 true true;
   ESubmit 0 1 1 SReq true [] KData; EAcquire 0 1 SEM_REQ; EEnqueue 0 1; EAssoc 0 1;
   ETaskStart 1; EDepsDone 1; EDoneCheck 1 false; EMainBegin 1;
   ES3Begin 1 100 OpData 1 0; EOnProgress 1 1; ES3Effect 100 0; ES3End 100 true;
   ESetResult 1; EMainEnd 1 true;
   EMainEnd 0 true; ETaskEnd 0;
   EAnnBegin 1 1; EEventSet 1 1; EResult (-1) 1 false;
   ECallbacksBegin 1 1; ECallback 1 1 50].
Definition c08_rest : list event :=
  [ECallback 1 1 51; ECallbacksEnd 1 1; EAnnEnd 1 1; ETaskEnd 1; ERelease 1; EDissoc 1].

Example C08_nonvacuous :
  option_map (fun s =>
      map (fun c => (c_status c, c_event c, c_cb_runner c, c_callbacks c, c_ran_callbacks c,
                     c_queued_cbs c, c_progress_after_done c)) (coords s))
    (run (init 1 2 1 10 10 10 2 2) c08_trace)
  = Some [(Success, true, Some 1, [51], [50], 2, false)] /\
  option_map (fun s =>
      (map (fun c => (c_status c, c_event c, c_cb_runner c, c_callbacks c, c_ran_callbacks c,
                      c_announcers c, c_progress_after_done c)) (coords s),
       map (fun x => (k_id x, k_st x, k_assoc x)) (tasks s),
       map (fun q => (r_id q, r_op q, r_ended q, r_ok q)) (reqs s)))
    (run (init 1 2 1 10 10 10 2 2) (c08_trace ++ c08_rest))
  = Some ([(Success, true, None, [], [50; 51], [], false)],
          [(0, TEnded, 0); (1, TEnded, 2)],
          [(100, OpData, true, true)]).
Proof. split; vm_compute; reflexivity. Qed.
