(** C14 -- Part planning tiles the object and respects S3 limits.
    Only statements, each closed by [exact]/[apply] of a lemma from
    proofs/PlanProofs.v, each followed by Print Assumptions. *)
From Coq Require Import ZArith List Bool Lia Reals.
From Flocq Require Import Core.
From S3V Require Import gen.Tables model.Plan proofs.PlanProofs proofs.FloatCeil.
Import ListNotations.
Open Scope Z_scope.

(** n = num_parts size ps is the least n with n * ps >= size (and >= 1 for a
    non-empty object). *)
Theorem C14_num_parts_least : forall size ps, 0 <= size -> 0 < ps ->
  size <= num_parts size ps * ps /\
  (forall n, size <= n * ps -> num_parts size ps <= n) /\
  (num_parts size ps = 0 <-> size = 0).
Proof.
  intros size ps Hs Hp. split; [|split].
  - apply (ceil_div_spec size ps Hs Hp).
  - intros n. apply ceil_div_least; assumption.
  - apply ceil_div_zero_iff; assumption.
Qed.
Print Assumptions C14_num_parts_least.

(** The byte interval denoted by the i-th Range header (download form, last
    range open-ended) is [i*ps, min((i+1)*ps, size)): consecutive,
    non-overlapping, non-empty, starting at 0 and ending at the last byte. *)
Theorem C14_ranges_consecutive : forall size ps i,
  0 <= size -> 0 < ps -> 0 <= i < num_parts size ps ->
  let n := num_parts size ps in
  part_interval size ps n i = (i * ps, Z.min ((i + 1) * ps) size) /\
  i * ps < Z.min ((i + 1) * ps) size /\
  (i = 0 -> fst (part_interval size ps n i) = 0) /\
  (i + 1 < n -> snd (part_interval size ps n i) = fst (part_interval size ps n (i + 1))) /\
  (i = n - 1 -> snd (part_interval size ps n i) = size).
Proof.
  intros size ps i Hs Hp Hi n. subst n.
  rewrite (part_interval_eq size ps i Hs Hp Hi). cbn [fst snd].
  split; [reflexivity|]. split; [now apply part_interval_nonempty|].
  split; [intros ->; reflexivity|]. split.
  - intros Hn. rewrite (part_interval_eq size ps (i + 1) Hs Hp ltac:(lia)). cbn [fst].
    unfold num_parts in *. pose proof (ceil_div_spec size ps Hs Hp). nia.
  - intros ->. apply last_interval_ends_at_size; [|exact Hp].
    unfold num_parts in *. pose proof (ceil_div_zero_iff size ps Hs Hp). lia.
Qed.
Print Assumptions C14_ranges_consecutive.

(** The closed form used for copies (CopySourceRange with the total size)
    denotes the same bytes, and the per-part size passed to progress callbacks
    is the length of that interval. *)
Theorem C14_copy_ranges : forall size ps i,
  0 <= size -> 0 < ps -> 0 <= i < num_parts size ps ->
  range_interval size (range_param ps i (num_parts size ps) (Some size)) =
    (i * ps, Z.min ((i + 1) * ps) size) /\
  copy_part_size ps i (num_parts size ps) size = Z.min ((i + 1) * ps) size - i * ps.
Proof.
  intros size ps i Hs Hp Hi. split.
  - rewrite range_total_same by assumption. now apply part_interval_eq.
  - now apply copy_part_size_is_interval_length.
Qed.
Print Assumptions C14_copy_ranges.

(** On byte strings: cutting any object at the plan's boundaries and
    concatenating the pieces in part order gives the object back. *)
Theorem C14_parts_concat_to_object : forall (A : Type) (obj : list A) (ps n : nat),
  (0 < ps)%nat -> (length obj <= n * ps)%nat ->
  concat (cuts_slices obj 0 (plan_cuts ps (length obj) 1 n)) = obj.
Proof. intros A obj ps n. apply plan_tiles_bytes. Qed.
Print Assumptions C14_parts_concat_to_object.

(** Multipart exactly when size >= threshold (known size), and for a stream of
    unknown size whose pre-read returns min(size, threshold) bytes. *)
Theorem C14_multipart_iff_threshold : forall size thr,
  (is_multipart size thr = true <-> thr <= size) /\
  (0 <= size -> is_multipart_preread (Z.min size thr) thr = true <-> thr <= size).
Proof.
  intros size thr. unfold is_multipart, is_multipart_preread. split.
  - apply Z.leb_le.
  - intros _. destruct (Z.min size thr <? thr) eqn:E; cbn; lia.
Qed.
Print Assumptions C14_multipart_iff_threshold.

(** The limits the source declares are S3's: 5 MiB, 5 GiB, 10,000 parts, and
    the adjuster's defaults are those limits. *)
Theorem C14_limits_are_S3s :
  MIN_UPLOAD_CHUNKSIZE = 5 * 2 ^ 20 /\ MAX_SINGLE_UPLOAD_SIZE = 5 * 2 ^ 30 /\
  MAX_PARTS = 10000 /\ ADJ_DEFAULT_MIN_SIZE = MIN_UPLOAD_CHUNKSIZE /\
  ADJ_DEFAULT_MAX_SIZE = MAX_SINGLE_UPLOAD_SIZE /\ ADJ_DEFAULT_MAX_PARTS = MAX_PARTS.
Proof. vm_compute. repeat split. Qed.
Print Assumptions C14_limits_are_S3s.

(** Chunk size adjustment with the source's limits (regenerated Tables.v):
    always returns (the fuel suffices), result within [5 MiB, 5 GiB],
    at most MAX_PARTS parts for every size up to 5 TiB (indeed up to
    MAX_SIZE * MAX_PARTS), unchanged when already legal, and otherwise
    c * 2^k for the least k that fits, clamped. *)
Theorem C14_adjust : forall c size, 0 < c -> 0 <= size ->
  exists c', adjust_chunksize c (Some size) = Some c' /\
    MIN_UPLOAD_CHUNKSIZE <= c' <= MAX_SINGLE_UPLOAD_SIZE /\
    (size <= 5 * 2 ^ 40 -> num_parts size c' <= MAX_PARTS) /\
    (MIN_UPLOAD_CHUNKSIZE <= c <= MAX_SINGLE_UPLOAD_SIZE ->
       num_parts size c <= MAX_PARTS -> c' = c) /\
    exists k : nat,
      c' = adjust_limits (c * 2 ^ Z.of_nat k) MIN_UPLOAD_CHUNKSIZE MAX_SINGLE_UPLOAD_SIZE /\
      num_parts size (c * 2 ^ Z.of_nat k) <= MAX_PARTS /\
      forall j : nat, (j < k)%nat -> MAX_PARTS < num_parts size (c * 2 ^ Z.of_nat j).
Proof.
  intros c size Hc Hs. destruct default_limits_ok as (H1 & H2 & H3).
  assert (Hsame : ADJ_DEFAULT_MIN_SIZE = MIN_UPLOAD_CHUNKSIZE /\
                  ADJ_DEFAULT_MAX_SIZE = MAX_SINGLE_UPLOAD_SIZE /\
                  ADJ_DEFAULT_MAX_PARTS = MAX_PARTS /\
                  5 * 2 ^ 40 <= MAX_SINGLE_UPLOAD_SIZE * MAX_PARTS).
  { vm_compute. repeat split; discriminate. }
  destruct Hsame as (E1 & E2 & E3 & E4). rewrite <- E1, <- E2, <- E3.
  unfold adjust_chunksize.
  destruct (adjust_with_total ADJ_DEFAULT_MIN_SIZE ADJ_DEFAULT_MAX_SIZE
              ADJ_DEFAULT_MAX_PARTS H3 c size Hc Hs) as [c' Hc'].
  exists c'. split; [exact Hc'|].
  split; [exact (adjust_with_in_limits _ _ _ H2 _ _ _ Hc')|].
  split; [intros Hsz; apply (adjust_with_parts_le_max _ _ _ H1 H2 H3 c size c' Hc Hs); [lia|exact Hc']|].
  split.
  - intros Hin Hfit.
    rewrite (adjust_with_identity ADJ_DEFAULT_MIN_SIZE ADJ_DEFAULT_MAX_SIZE
               ADJ_DEFAULT_MAX_PARTS c size Hin Hfit) in Hc'. congruence.
  - exact (adjust_with_minimal _ _ _ c size c' Hc Hc').
Qed.
Print Assumptions C14_adjust.

(** Unknown size (non-seekable stream): only the [5 MiB, 5 GiB] clamp. *)
Theorem C14_adjust_unknown_size : forall c,
  exists c', adjust_chunksize c None = Some c' /\
    MIN_UPLOAD_CHUNKSIZE <= c' <= MAX_SINGLE_UPLOAD_SIZE /\
    (MIN_UPLOAD_CHUNKSIZE <= c <= MAX_SINGLE_UPLOAD_SIZE -> c' = c).
Proof.
  intros c. destruct default_limits_ok as (H1 & H2 & H3).
  assert (Hsame : ADJ_DEFAULT_MIN_SIZE = MIN_UPLOAD_CHUNKSIZE /\
                  ADJ_DEFAULT_MAX_SIZE = MAX_SINGLE_UPLOAD_SIZE) by (vm_compute; split; reflexivity).
  destruct Hsame as (E1 & E2). rewrite <- E1, <- E2.
  eexists; split; [reflexivity|]. split; [now apply adjust_limits_in_range|].
  intros Hin. now apply adjust_limits_id.
Qed.
Print Assumptions C14_adjust_unknown_size.

(** Part numbers of upload and copy plans are 1..n in order. *)
Theorem C14_part_numbers : forall size c plan,
  (upload_plan size c = Some plan ->
     map (fun p => fst (fst p)) plan = zseq 1 (length plan)) /\
  (forall cplan, copy_plan size c = Some cplan ->
     map (fun p => fst (fst p)) cplan = zseq 1 (length cplan)).
Proof.
  assert (G : forall n s, map (fun i => i + 1) (zseq s n) = zseq (s + 1) n).
  { induction n as [|n IH]; intros s; cbn [zseq map]; [reflexivity|]. now rewrite IH. }
  intros size c plan. split.
  - unfold upload_plan, upload_plan_with. destruct (adjust_chunksize_with _ _ _ c (Some size)); [|discriminate].
    intros [= <-]. rewrite map_map, map_length, zseq_length. cbn [fst]. apply (G _ 0).
  - intros cplan. unfold copy_plan, copy_plan_with. destruct (adjust_chunksize_with _ _ _ c (Some size)); [|discriminate].
    intros [= <-]. rewrite map_map, map_length, zseq_length. cbn [fst]. apply (G _ 0).
Qed.
Print Assumptions C14_part_numbers.

(** The code computes part counts as [int(math.ceil(size / float(part_size)))]:
    one correctly rounded binary64 division (both operands are exact below
    2^53) followed by an exact ceiling.  On the whole domain C14 quantifies over
    (5 TiB and 5 GiB are far below 2^53) this IS integer ceiling division, so
    the integer model above is the code's arithmetic.  (Depends on the standard
    library's real-number axioms; see Print Assumptions.) *)
Theorem C14_float_ceiling_is_integer_ceiling : forall size part_size : Z,
  0 <= size < 2 ^ 53 -> 0 < part_size < 2 ^ 53 ->
  Zceil (round radix2 (FLT_exp (-1074) 53) ZnearestE (IZR size / IZR part_size)) = num_parts size part_size.
Proof. exact float_ceil_div_exact. Qed.
Print Assumptions C14_float_ceiling_is_integer_ceiling.

(** ... and the bound is needed: beyond 2^53 the conversion to float already rounds. *)
Theorem C14_float_ceiling_breaks_beyond_2_53 : exists a b : Z,
  0 <= a /\ 0 < b /\
  Zceil (round radix2 (FLT_exp (-1074) 53) ZnearestE
           (round radix2 (FLT_exp (-1074) 53) ZnearestE (IZR a) / IZR b))
  <> (a + b - 1) / b.
Proof. exact float_ceil_div_breaks_beyond. Qed.
Print Assumptions C14_float_ceiling_breaks_beyond_2_53.

(** Non-vacuity: a concrete 5 TiB object with an 8 MiB configured chunk. *)
Example C14_nonvacuous :
  adjust_chunksize 8388608 (Some (5 * 2 ^ 40)) = Some 1073741824 /\
  num_parts (5 * 2 ^ 40) 1073741824 = 5120 /\
  download_ranges 10 4 = [(0, Some 3); (4, Some 7); (8, None)].
Proof. vm_compute. repeat split. Qed.
