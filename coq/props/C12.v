(** C12 -- Semaphores: sliding-window semantics and permit conservation.
    Only statements, each closed by [exact]/[apply] of lemmas from
    proofs/SemaProofs.v and proofs/SemaConcProofs.v, each followed by
    Print Assumptions.  All quantify over arbitrary capacities, tags, tokens
    and operation lists / schedules of any length.

    A history is a list of [OAcq tag blocking] / [ORel tag token].
    [wf cap ops] (model/Sema.v, a computable predicate): every release that the
    semaphore accepts names a token that was granted earlier in the history and
    whose release was not accepted before.  [grun] returns the final state and
    the ghost record (granted tokens, accepted releases) of a history. *)
From Coq Require Import ZArith List Bool Lia.
From S3V Require Import model.Sema model.SemaConc proofs.SemaProofs proofs.SemaConcProofs.
Import ListNotations.
Open Scope Z_scope.

(** Tokens of a tag are handed out 0,1,2,... in acquisition order -- for
    every history, well-formed or not; and the next sequence number of the
    tag is the number of grants. *)
Theorem C12_tokens_in_order : forall cap ops t,
  grants_of t ops (fst (run (sw_init cap) ops)) =
    zseq 0 (length (grants_of t ops (fst (run (sw_init cap) ops)))) /\
  t_next (get (snd (run (sw_init cap) ops)) t) =
    Z.of_nat (length (grants_of t ops (fst (run (sw_init cap) ops)))).
Proof. intros cap ops t. exact (grants_run t ops (sw_init cap) (basic_init cap)). Qed.
Print Assumptions C12_tokens_in_order.

(** count = cap - Σ_tag (next - lowest) after every history whatsoever. *)
Theorem C12_count_formula_all_histories : forall cap ops,
  sw_count (snd (run (sw_init cap) ops)) =
    cap - sum_out (sw_tags (snd (run (sw_init cap) ops))).
Proof. intros cap ops. exact (proj2 (run_basic_bal cap ops _ (basic_init cap) (bal_init cap))). Qed.
Print Assumptions C12_count_formula_all_histories.

(** Capacity formula: after every well-formed history, the free capacity is
    cap minus, summed over tags, the number of tokens from the least
    unreleased one (= lowest) up to and including the newest (= next - 1);
    the granted tokens of a tag are exactly 0..next-1; the released ones are
    exactly those below lowest plus the pending list. *)
Theorem C12_capacity_formula : forall cap ops, wf cap ops = true ->
  let s := fst (grun (sw_init cap) ghost0 ops) in
  let g := snd (grun (sw_init cap) ghost0 ops) in
  s = snd (run (sw_init cap) ops) /\
  sw_count s = cap - sum_out (sw_tags s) /\
  0 <= sum_out (sw_tags s) /\
  forall t,
    least_unreleased g t (t_low (get s t)) /\
    (forall m, least_unreleased g t m -> m = t_low (get s t)) /\
    t_low (get s t) <= t_next (get s t) /\
    (forall k, In (t, k) (g_granted g) <-> 0 <= k < t_next (get s t)) /\
    (forall k, In (t, k) (g_released g) <->
               0 <= k < t_low (get s t) \/ In k (t_pend (get s t))).
Proof.
  intros cap ops Hw s g. pose proof (wf_inv cap ops Hw) as Hi. fold s g in Hi.
  assert (Hs : s = snd (run (sw_init cap) ops)) by apply grun_is_run.
  split; [exact Hs|]. split; [rewrite Hs; apply C12_count_formula_all_histories|].
  split; [exact (inv_sum_nonneg s g Hi)|]. intros t.
  pose proof (inv_lowest_least s g t Hi) as Hl. destruct Hi as [_ Ht].
  destruct (Ht t) as (H1 & _ & _ & H4 & H5).
  split; [exact Hl|]. split; [intros m Hm; exact (least_unreleased_unique g t _ _ Hm Hl)|].
  split; [apply H1|]. split; [exact H4|exact H5].
Qed.
Print Assumptions C12_capacity_formula.

(** The pending list is strictly decreasing (reverse-sorted, no duplicates)
    and lies strictly between lowest and next. *)
Theorem C12_pending_sorted_between : forall cap ops t, wf cap ops = true ->
  let r := get (snd (run (sw_init cap) ops)) t in
  sdesc (t_pend r) /\ forall x, In x (t_pend r) -> t_low r < x < t_next r.
Proof.
  intros cap ops t Hw. rewrite <- (grun_is_run ops (sw_init cap) ghost0).
  destruct (wf_inv cap ops Hw) as [_ Ht]. destruct (Ht t) as (_ & H2 & H3 & _). split; assumption.
Qed.
Print Assumptions C12_pending_sorted_between.

(** An out-of-order release (lowest < k < next) is accepted and frees
    nothing: count, lowest, next unchanged, k joins the pending list, other
    tags untouched.  Any state. *)
Theorem C12_out_of_order_frees_nothing : forall s t k,
  t_low (get s t) < k < t_next (get s t) ->
  exists s',
    sw_release s t k = (ROk, s') /\ sw_count s' = sw_count s /\
    t_low (get s' t) = t_low (get s t) /\ t_next (get s' t) = t_next (get s t) /\
    t_pend (get s' t) = sort_desc (t_pend (get s t) ++ [k]) /\
    (forall t', t' <> t -> get s' t' = get s t').
Proof. exact release_pending_frees_nothing. Qed.
Print Assumptions C12_out_of_order_frees_nothing.

(** Releasing the lowest token frees the whole released run: the new lowest
    m is the next unreleased token (everything strictly between was pending,
    m itself is not), exactly m - lowest permits come back, the pending list
    keeps exactly the entries above m.  After any well-formed history. *)
Theorem C12_release_lowest_frees_run : forall cap ops t, wf cap ops = true ->
  let s := snd (run (sw_init cap) ops) in
  t_low (get s t) < t_next (get s t) ->
  exists s' m,
    sw_release s t (t_low (get s t)) = (ROk, s') /\
    t_low (get s t) < m <= t_next (get s t) /\
    (forall j, t_low (get s t) < j < m -> In j (t_pend (get s t))) /\
    ~ In m (t_pend (get s t)) /\
    sw_count s' = sw_count s + (m - t_low (get s t)) /\
    t_low (get s' t) = m /\ t_next (get s' t) = t_next (get s t) /\
    (forall x, In x (t_pend (get s' t)) <-> In x (t_pend (get s t)) /\ m < x) /\
    (forall t', t' <> t -> get s' t' = get s t').
Proof.
  intros cap ops t Hw. cbn zeta. rewrite <- (grun_is_run ops (sw_init cap) ghost0).
  apply (release_lowest_run _ _ t (wf_inv cap ops Hw)).
Qed.
Print Assumptions C12_release_lowest_frees_run.

(** At zero capacity a non-blocking acquire raises NoResourcesAvailable, a
    blocking one waits; neither touches the state.  With capacity it returns
    the tag's next sequence number and takes one permit.  Any state. *)
Theorem C12_nonblocking_raises_unchanged : forall s t,
  (sw_count s = 0 -> sw_acquire s t false = (RNoRes, s) /\ sw_acquire s t true = (RWouldBlock, s)) /\
  (sw_count s <> 0 -> forall b, exists s',
     sw_acquire s t b = (RTok (t_next (get s t)), s') /\ sw_count s' = sw_count s - 1).
Proof.
  intros s t. split.
  - intros H. split; exact (acquire_at_zero s t _ H).
  - intros H b. exact (acquire_nonzero_grants s t b H).
Qed.
Print Assumptions C12_nonblocking_raises_unchanged.

(** Every operation that raises (or would block) leaves the state unchanged,
    hence the rest of the history behaves as if it had not happened.  Any
    state. *)
Theorem C12_rejected_ops_unchanged : forall s o ops,
  rejected (fst (step s o)) = true ->
  snd (step s o) = s /\ run s (o :: ops) = (fst (step s o) :: fst (run s ops), snd (run s ops)).
Proof.
  intros s o ops H. pose proof (step_rejected_unchanged s o H) as E. split; [exact E|].
  cbn [run]. destruct (step s o) as [x s']. cbn [fst snd] in *. subst s'.
  now destruct (run s ops).
Qed.
Print Assumptions C12_rejected_ops_unchanged.

(** Bad releases are rejected without changing state, in ANY state: an
    unknown tag; a token below the window (already released and drained); a
    token at or above next (never issued) -- including k = next when
    lowest = next, the edge repaired by commit 74b8319. *)
Theorem C12_bad_release_rejected_unchanged : forall s t k,
  (known s t = false \/ k < t_low (get s t) \/ t_next (get s t) <= k) ->
  sw_release s t k = (RValErr, s).
Proof.
  intros s t k [H|H]; [now apply release_unknown_tag|]. apply release_outside_window; lia.
Qed.
Print Assumptions C12_bad_release_rejected_unchanged.

(** Every token that was never handed out (never-issued, negative, or of a
    tag never acquired) is rejected without changing state, after any
    well-formed history. *)
Theorem C12_never_issued_rejected_unchanged : forall cap ops t k, wf cap ops = true ->
  let s := fst (grun (sw_init cap) ghost0 ops) in
  let g := snd (grun (sw_init cap) ghost0 ops) in
  s = snd (run (sw_init cap) ops) /\
  (~ In (t, k) (g_granted g) -> sw_release s t k = (RValErr, s)).
Proof.
  intros cap ops t k Hw. cbn zeta. split; [apply grun_is_run|].
  apply (release_never_granted_rejected _ _ t k (wf_inv cap ops Hw)).
Qed.
Print Assumptions C12_never_issued_rejected_unchanged.

(** Record of finding F13: on the code before commit 74b8319
    ([sw_release_old], first branch testing only lowest == sequence_number)
    the statement above is false -- capacity 2; acquire a -> 0; release a 0;
    release a 1 was accepted and the count exceeded the capacity -- while the
    repaired code rejects the same call unchanged. *)
Theorem C12_never_issued_unrepaired_refuted :
  exists cap ops t k,
    wf cap ops = true /\
    let s := fst (grun (sw_init cap) ghost0 ops) in
    let g := snd (grun (sw_init cap) ghost0 ops) in
    ~ In (t, k) (g_granted g) /\
    fst (sw_release_old s t k) = ROk /\
    sw_count (snd (sw_release_old s t k)) = cap + 1 /\
    sw_release s t k = (RValErr, s).
Proof.
  exists 2, [OAcq 7 false; ORel 7 0], 7, 1. vm_compute.
  split; [reflexivity|]. split; [|repeat split; reflexivity]. intros [H|[]]. discriminate H.
Qed.
Print Assumptions C12_never_issued_unrepaired_refuted.

(** ... in general the old code accepted release(tag, lowest) for every known
    tag, also when lowest = next; the repaired code accepts it exactly when a
    token is outstanding.  Any state. *)
Theorem C12_release_at_lowest_old_vs_repaired : forall s t,
  (known s t = true -> fst (sw_release_old s t (t_low (get s t))) = ROk) /\
  (t_low (get s t) < t_next (get s t) -> fst (sw_release s t (t_low (get s t))) = ROk) /\
  (t_next (get s t) <= t_low (get s t) -> sw_release s t (t_low (get s t)) = (RValErr, s)).
Proof.
  intros s t. split; [|split].
  - intros H. now apply release_old_edge_accepted.
  - apply release_lowest_accepted.
  - intros H. apply release_outside_window. lia.
Qed.
Print Assumptions C12_release_at_lowest_old_vs_repaired.

(** Quiescence: when every granted token has been released, the count is
    back at the capacity and nothing is pending. *)
Theorem C12_quiescent_full : forall cap ops, wf cap ops = true ->
  quiescent (snd (grun (sw_init cap) ghost0 ops)) = true ->
  let s := snd (run (sw_init cap) ops) in
  sw_count s = cap /\ forall t, t_pend (get s t) = [] /\ t_low (get s t) = t_next (get s t).
Proof.
  intros cap ops Hw Hq. cbn zeta. rewrite <- (grun_is_run ops (sw_init cap) ghost0).
  apply (inv_quiescent _ _ cap (wf_inv cap ops Hw)); [|exact Hq].
  rewrite grun_is_run. apply run_basic_bal; [apply basic_init|apply bal_init].
Qed.
Print Assumptions C12_quiescent_full.

(** The strict reading of well-formedness (every release, accepted or not,
    names a granted and not yet released token) implies the one used above. *)
Theorem C12_wf_strict_is_wf : forall cap ops, wf_strict cap ops = true -> wf cap ops = true.
Proof. intros cap ops. apply wf_strict_from_wf. Qed.
Print Assumptions C12_wf_strict_is_wf.

(** TaskSemaphore (threading.Semaphore): value = initial - acquired +
    released for every history; never negative; at zero a non-blocking
    acquire raises / a blocking one waits, value unchanged. *)
Theorem C12_task_sem_conservation : forall cap ops,
  let xs := fst (ts_run cap ops) in
  snd (ts_run cap ops) = cap - count_tres TAcquired xs + count_tres TReleased xs /\
  (0 <= cap -> 0 <= snd (ts_run cap ops)) /\
  (count_tres TAcquired xs = count_tres TReleased xs -> snd (ts_run cap ops) = cap) /\
  (forall b, ts_step 0 (TAcq b) = ((if b then TWouldBlock else TNoRes), 0)).
Proof.
  intros cap ops xs. pose proof (ts_conservation ops cap) as H. fold xs in H.
  split; [exact H|]. split; [apply ts_nonneg|]. split; [intros E; rewrite H, E; lia|].
  intros b. now apply ts_zero_rejects.
Qed.
Print Assumptions C12_task_sem_conservation.

(** * Blocked acquirers (model/SemaConc.v) *)

(** Along every schedule, the sequential part of the concurrent state is the
    state its projected history produces (so all theorems above apply to it). *)
Theorem C12_conc_projects_to_history : forall cap ls c ops,
  crun (cinit cap) ls = Some (c, ops) -> wf cap ops = true ->
  c_sw c = snd (run (sw_init cap) ops).
Proof.
  intros cap ls c ops Hr Hw. destruct (crun_wf_inv cap ls c ops Hr Hw) as (_ & _ & H & _).
  rewrite H. apply grun_is_run.
Qed.
Print Assumptions C12_conc_projects_to_history.

(** A sleeping acquirer always has a waker: a notified thread, or a tag whose
    lowest token is outstanding (granted, not yet released). *)
Theorem C12_waiter_has_waker : forall cap ls c ops, 0 < cap ->
  crun (cinit cap) ls = Some (c, ops) -> wf cap ops = true ->
  c_wait c <> [] ->
  c_noti c <> [] \/
  exists t, let lo := t_low (get (c_sw c) t) in
    lo < t_next (get (c_sw c) t) /\
    In (t, lo) (g_granted (snd (grun (sw_init cap) ghost0 ops))) /\
    ~ In (t, lo) (g_released (snd (grun (sw_init cap) ghost0 ops))).
Proof. exact waiter_has_waker. Qed.
Print Assumptions C12_waiter_has_waker.

(** ... the release of such a token is enabled for every sleeping waiter as
    the one picked by notify(), every enabled form of it moves a sleeping
    waiter to notified, and a notified thread that runs while a permit is
    there takes it (returns the tag's next token) and leaves the blocked set.
    Any state. *)
Theorem C12_release_of_lowest_wakes : forall c t,
  t_low (get (c_sw c) t) < t_next (get (c_sw c) t) ->
  (forall tid tg, find_tid tid (c_wait c) = Some tg ->
     cstep c (LRel t (t_low (get (c_sw c) t)) (Some tid)) <> None) /\
  (c_wait c <> [] -> forall w c' o,
     cstep c (LRel t (t_low (get (c_sw c) t)) w) = Some (c', o) ->
     exists tid tg, w = Some tid /\ find_tid tid (c_wait c) = Some tg /\
       c_noti c' = (tid, tg) :: c_noti c /\ c_wait c' = remove_tid tid (c_wait c)) /\
  (forall tid tg, find_tid tid (c_noti c) = Some tg -> sw_count (c_sw c) <> 0 ->
     exists s', cstep c (LWake tid) =
                  Some (mkC s' (c_wait c) (remove_tid tid (c_noti c)), Some (OAcq tg true)) /\
                sw_acquire (c_sw c) tg true = (RTok (t_next (get (c_sw c) tg)), s')).
Proof.
  intros c t Hk. split; [|split].
  - intros tid tg. now apply release_lowest_enabled.
  - intros Hne w c' o. now apply release_lowest_notifies.
  - intros tid tg. apply notified_takes_permit.
Qed.
Print Assumptions C12_release_of_lowest_wakes.

(** A thread goes to sleep only having seen count = 0 under the lock. *)
Theorem C12_sleeps_only_at_zero : forall c l c' o,
  cstep c l = Some (c', o) -> (length (c_wait c) < length (c_wait c'))%nat ->
  sw_count (c_sw c) = 0 /\ c_sw c' = c_sw c.
Proof. exact sleeps_only_at_zero. Qed.
Print Assumptions C12_sleeps_only_at_zero.

(** No lost wake-up: no schedule reaches a state in which every granted token
    has been released, no thread is notified (nothing inside acquire is
    runnable), and an acquirer is still asleep. *)
Theorem C12_no_lost_wakeup : forall cap ls c ops, 0 < cap ->
  crun (cinit cap) ls = Some (c, ops) -> wf cap ops = true ->
  quiescent (snd (grun (sw_init cap) ghost0 ops)) = true ->
  c_noti c = [] -> c_wait c = [].
Proof. exact no_lost_wakeup. Qed.
Print Assumptions C12_no_lost_wakeup.

(** * Non-vacuity *)

(** A well-formed (even strictly well-formed) history over two tags with
    out-of-order releases, a rejected double release, a non-blocking failure
    and quiescence at the end: capacity 3, tags 1 and 2. *)
Definition ex_ops : list op :=
  [OAcq 1 false; OAcq 1 false; OAcq 2 false; OAcq 2 false; OAcq 1 true;
   ORel 1 1; ORel 2 0; OAcq 1 false; ORel 1 0; ORel 1 2; ORel 2 5].

Example C12_nonvacuous :
  wf 3 ex_ops = true /\
  wf_strict 3 [OAcq 1 false; OAcq 1 false; ORel 1 1; ORel 1 0] = true /\
  fst (run (sw_init 3) ex_ops) =
    [RTok 0; RTok 1; RTok 0; RNoRes; RWouldBlock; ROk; ROk; RTok 2; ROk; ROk; RValErr] /\
  sw_count (snd (run (sw_init 3) ex_ops)) = 3 /\
  quiescent (snd (grun (sw_init 3) ghost0 ex_ops)) = true /\
  (* a double release of a pending token is not well-formed *)
  wf 3 [OAcq 1 false; OAcq 1 false; OAcq 1 false; ORel 1 2; ORel 1 2] = false.
Proof. vm_compute. repeat split. Qed.

(** A concurrent schedule: capacity 1; thread 10 takes tag 1's token 0,
    threads 11 and 12 block; release wakes 11; 11 takes the permit; its
    release wakes 12; at the end nobody sleeps. *)
Example C12_conc_nonvacuous :
  exists c ops,
    crun (cinit 1) [LAcq 10 1 true; LAcq 11 1 true; LAcq 12 2 true; LRel 1 0 (Some 11);
                    LWake 11; LRel 1 1 (Some 12); LWake 12; LRel 2 0 None] = Some (c, ops) /\
    wf 1 ops = true /\ c_wait c = [] /\ c_noti c = [] /\ sw_count (c_sw c) = 1 /\
    quiescent (snd (grun (sw_init 1) ghost0 ops)) = true.
Proof. eexists. eexists. vm_compute. repeat split. Qed.
