(** Proofs about the upload sources (model/UploadSrc.v) and their run against
    the reference S3 (model/S3Spec.v). *)
From Coq Require Import ZArith List Bool Lia ZifyBool Arith Permutation.
From S3V Require Import gen.Tables model.Plan model.Chunk model.Progress model.S3Spec
  model.UploadSrc proofs.PlanProofs proofs.ChunkProofs.
Import ListNotations.
Open Scope Z_scope.
Ltac Zify.zify_post_hook ::= Z.to_euclidean_division_equations.

(** * Lists cut into pieces *)

Section Pieces.
  Context {A : Type}.

  (** [m] consecutive pieces of [cn] elements. *)
  Fixpoint pieces (cn : nat) (l : list A) (m : nat) : list (list A) :=
    match m with
    | O => []
    | S m' => firstn cn l :: pieces cn (skipn cn l) m'
    end.

  (** Pieces of [cn] elements until nothing is left. *)
  Fixpoint chop (fuel cn : nat) (l : list A) : list (list A) :=
    match fuel with
    | O => []
    | S f =>
        match firstn cn l with
        | [] => []
        | d => d :: chop f cn (skipn cn l)
        end
    end.

  (** Every element but the last has exactly [cn] elements. *)
  Fixpoint all_but_last_len (cn : nat) (l : list (list A)) : Prop :=
    match l with
    | [] => True
    | x :: r => match r with [] => True | _ => length x = cn /\ all_but_last_len cn r end
    end.

  Definition nonempty (x : list A) : Prop := x <> [].

  Lemma pieces_length cn l m : length (pieces cn l m) = m.
  Proof. revert l; induction m as [|m IH]; intros l; cbn [pieces length]; [reflexivity|]. now rewrite IH. Qed.

  Lemma pieces_concat cn m : forall l, concat (pieces cn l m) = firstn (m * cn) l.
  Proof.
    induction m as [|m IH]; intros l; cbn [pieces concat]; [reflexivity|].
    rewrite IH. change (S m * cn)%nat with (cn + m * cn)%nat. now rewrite firstn_plus.
  Qed.

  Lemma pieces_concat_all cn m l : (length l <= m * cn)%nat -> concat (pieces cn l m) = l.
  Proof. intros H. rewrite pieces_concat. now apply firstn_all2. Qed.

  Lemma pieces_shape cn m : (0 < cn)%nat -> forall l,
    (m = 0 \/ (m - 1) * cn < length l)%nat ->
    Forall nonempty (pieces cn l m) /\ all_but_last_len cn (pieces cn l m).
  Proof.
    intros Hc. induction m as [|m IH]; intros l H; cbn [pieces]; [split; [constructor|exact I]|].
    destruct H as [H|H]; [discriminate|].
    assert (Hl : (m * cn < length l)%nat) by (replace (S m - 1)%nat with m in H by lia; exact H).
    destruct (IH (skipn cn l)) as [I1 I2].
    { destruct m as [|m']; [now left|right]. rewrite skipn_length.
      replace (S m' - 1)%nat with m' by lia. cbn [Nat.mul] in Hl. lia. }
    split.
    - constructor; [|exact I1]. unfold nonempty. intros E.
      apply (f_equal (@length A)) in E. rewrite firstn_length in E. cbn [length] in E. lia.
    - cbn [all_but_last_len]. destruct m as [|m']; cbn [pieces]; [exact I|].
      split; [|exact I2]. rewrite firstn_length. cbn [Nat.mul] in Hl. lia.
  Qed.

  Lemma chop_spec cn : (0 < cn)%nat -> forall fuel l, (length l < fuel)%nat ->
    concat (chop fuel cn l) = l /\ Forall nonempty (chop fuel cn l) /\
    all_but_last_len cn (chop fuel cn l).
  Proof.
    intros Hc. induction fuel as [|f IH]; intros l Hl; [lia|].
    cbn [chop]. destruct (firstn cn l) as [|x d] eqn:E.
    - assert (l = []) as ->.
      { destruct l as [|y l]; [reflexivity|]. destruct cn; [lia|discriminate E]. }
      cbn. repeat split; constructor.
    - assert (Hne : l <> []) by (intros ->; rewrite firstn_nil in E; discriminate).
      assert (Hlen : (length (skipn cn l) < f)%nat).
      { rewrite skipn_length. destruct l; [congruence|cbn [length] in *; lia]. }
      destruct (IH (skipn cn l) Hlen) as (I1 & I2 & I3).
      repeat split.
      + cbn [concat]. rewrite I1, <- E. apply firstn_skipn.
      + constructor; [unfold nonempty; discriminate|exact I2].
      + cbn [all_but_last_len]. destruct (chop f cn (skipn cn l)) as [|y r] eqn:Ec; [exact I|].
        split; [|exact I3]. rewrite <- E, firstn_length.
        assert (skipn cn l <> []).
        { intros E0. rewrite E0 in Ec. destruct f; cbn in Ec; [discriminate|].
          rewrite firstn_nil in Ec. discriminate. }
        assert (length (skipn cn l) <> 0%nat) by (destruct (skipn cn l); cbn; congruence).
        rewrite skipn_length in *. lia.
  Qed.

  Lemma firstn_min_length (n : nat) (l : list A) : firstn (Nat.min n (length l)) l = firstn n l.
  Proof.
    destruct (Nat.le_ge_cases n (length l)) as [H|H].
    - now rewrite Nat.min_l.
    - rewrite Nat.min_r by exact H. rewrite firstn_all. symmetry. now apply firstn_all2.
  Qed.

  (** What a read of at most [k] elements leaves behind, in terms of what it
      returned. *)
  Lemma firstn_skipn_by_length (k : nat) (l : list A) :
    firstn k l = firstn (length (firstn k l)) l /\ skipn k l = skipn (length (firstn k l)) l.
  Proof.
    rewrite firstn_length. destruct (Nat.le_ge_cases k (length l)) as [H|H].
    - now rewrite Nat.min_l.
    - rewrite Nat.min_r by exact H. rewrite firstn_all, skipn_all. split.
      + now apply firstn_all2.
      + now apply skipn_all2.
  Qed.
End Pieces.

(** Numbering: part numbers k, k+1, ... in list order. *)
Fixpoint numbered {B : Type} (k : Z) (l : list B) : list (Z * B) :=
  match l with
  | [] => []
  | x :: r => (k, x) :: numbered (k + 1) r
  end.

Lemma numbered_fst {B} (l : list B) : forall k, map fst (numbered k l) = zseq k (length l).
Proof. induction l as [|x r IH]; intros k; cbn [numbered map zseq length fst]; [reflexivity|]. now rewrite IH. Qed.

Lemma numbered_snd {B} (l : list B) : forall k, map snd (numbered k l) = l.
Proof. induction l as [|x r IH]; intros k; cbn [numbered map snd]; [reflexivity|]. now rewrite IH. Qed.

Lemma numbered_map {B C} (f : B -> C) (l : list B) : forall k,
  map (fun p => (fst p, f (snd p))) (numbered k l) = numbered k (map f l).
Proof. induction l as [|x r IH]; intros k; cbn [numbered map fst snd]; [reflexivity|]. now rewrite IH. Qed.

(** * The short-read loop delivers exactly what was asked for *)

Lemma raw_read_amount st n : 0 < n ->
  exists k, 1 <= k <= n /\
    fst (raw_read st n) = firstn (Z.to_nat k) (rest st) /\
    rest (snd (raw_read st n)) = skipn (Z.to_nat k) (rest st).
Proof.
  intros Hn. unfold raw_read. destruct (script st) as [|s r].
  - exists n. cbn. repeat split; lia.
  - exists (Z.min n (Z.max 1 s)). cbn. repeat split; lia.
Qed.

Lemma read_loop_spec : forall fuel st n, (length (rest st) < fuel)%nat ->
  fst (read_loop fuel st n) = firstn (Z.to_nat n) (rest st) /\
  rest (snd (read_loop fuel st n)) = skipn (Z.to_nat n) (rest st).
Proof.
  induction fuel as [|f IH]; intros st n Hf; [lia|].
  cbn [read_loop]. destruct (n <=? 0) eqn:En.
  - cbn [fst snd]. replace (Z.to_nat n) with 0%nat by lia. split; reflexivity.
  - destruct (raw_read_amount st n ltac:(lia)) as (k & Hk & R1 & R2).
    destruct (raw_read st n) as [chunk st1] eqn:Er. cbn [fst snd] in R1, R2.
    destruct (firstn_skipn_by_length (Z.to_nat k) (rest st)) as [F1 F2].
    rewrite <- R1 in F1, F2. rewrite <- R2 in F2.
    assert (Hlc : (length chunk <= Z.to_nat k)%nat) by (rewrite R1, firstn_length; lia).
    assert (Hll : (length chunk <= length (rest st))%nat) by (rewrite R1, firstn_length; lia).
    destruct chunk as [|x chunk'].
    + cbn [fst snd].
      assert (E : rest st = []).
      { destruct (rest st) as [|y l]; [reflexivity|].
        destruct (Z.to_nat k) eqn:Ek; [lia|discriminate R1]. }
      rewrite F2, E, firstn_nil, !skipn_nil. split; reflexivity.
    + remember (x :: chunk') as ch eqn:Ech.
      assert (Hc1 : (1 <= length ch)%nat) by (subst ch; cbn [length]; lia).
      assert (Hf1 : (length (rest st1) < f)%nat) by (rewrite F2, skipn_length; lia).
      destruct (IH st1 (n - Z.of_nat (length ch)) Hf1) as [I1 I2].
      destruct (read_loop f st1 (n - Z.of_nat (length ch))) as [more st2].
      cbn [fst snd] in *.
      replace (Z.to_nat (n - Z.of_nat (length ch))) with (Z.to_nat n - length ch)%nat in * by lia.
      split.
      * rewrite I1, F2.
        replace (Z.to_nat n) with (length ch + (Z.to_nat n - length ch))%nat at 2 by lia.
        rewrite firstn_plus, <- F1. reflexivity.
      * rewrite I2, F2, skipn_add. f_equal. lia.
Qed.

Lemma read_from_stream_spec st n :
  fst (read_from_stream st n) = firstn (Z.to_nat n) (rest st) /\
  rest (snd (read_from_stream st n)) = skipn (Z.to_nat n) (rest st).
Proof. apply read_loop_spec. lia. Qed.

(** * _read over _initial_data ++ stream *)

Lemma ns_read_spec im st c : 0 < c ->
  let r := ns_read_with read_from_stream im st c true in
  fst (fst r) = firstn (Z.to_nat c) (im ++ rest st) /\
  snd (fst r) ++ rest (snd r) = skipn (Z.to_nat c) (im ++ rest st).
Proof.
  intros Hc. cbv zeta. unfold ns_read_with.
  destruct (Z.of_nat (length im) =? 0) eqn:E0.
  - assert (im = []) as -> by (destruct im; [reflexivity|cbn [length] in E0; lia]).
    destruct (read_from_stream_spec st c) as [R1 R2].
    destruct (read_from_stream st c) as [d st1]. cbn [fst snd app] in *. split; assumption.
  - destruct (c <=? Z.of_nat (length im)) eqn:E1; cbn [fst snd].
    + split.
      * rewrite firstn_app. replace (Z.to_nat c - length im)%nat with 0%nat by lia.
        cbn [firstn]. now rewrite app_nil_r.
      * rewrite skipn_app. replace (Z.to_nat c - length im)%nat with 0%nat by lia. reflexivity.
    + destruct (read_from_stream_spec st (c - Z.of_nat (length im))) as [R1 R2].
      destruct (read_from_stream st (c - Z.of_nat (length im))) as [d st1]. cbn [fst snd app] in *.
      replace (Z.to_nat (c - Z.of_nat (length im))) with (Z.to_nat c - length im)%nat in * by lia.
      split.
      * rewrite firstn_app, R1. f_equal. symmetry. apply firstn_all2. lia.
      * rewrite skipn_app, R2. rewrite (skipn_all2 im) by lia. reflexivity.
Qed.

Lemma ns_parts_loop_spec c : 0 < c -> forall fuel im st k,
  fst (ns_parts_loop read_from_stream fuel im st c k) =
  numbered k (chop fuel (Z.to_nat c) (im ++ rest st)).
Proof.
  intros Hc. induction fuel as [|f IH]; intros im st k; [reflexivity|].
  cbn [ns_parts_loop chop].
  pose proof (ns_read_spec im st c Hc) as S. cbv zeta in S.
  destruct (ns_read_with read_from_stream im st c true) as [[d im1] st1]. cbn [fst snd] in S.
  destruct S as [S1 S2]. rewrite <- S1, <- S2.
  destruct d as [|x d']; [reflexivity|].
  specialize (IH im1 st1 (k + 1)).
  destruct (ns_parts_loop read_from_stream f im1 st1 c (k + 1)) as [more st2].
  cbn [fst numbered] in *. now rewrite IH.
Qed.

(** The pre-read: _initial_data is the first [thr] bytes, the stream holds the
    rest -- for every short-read script. *)
Lemma ns_preread_spec d scr thr :
  fst (ns_preread (mkStream d scr []) thr) = firstn (Z.to_nat thr) d /\
  rest (snd (ns_preread (mkStream d scr []) thr)) = skipn (Z.to_nat thr) d.
Proof.
  unfold ns_preread, ns_preread_with, ns_read_with. cbn [length Z.of_nat Z.eqb].
  destruct (read_from_stream_spec (mkStream d scr []) thr) as [R1 R2].
  destruct (read_from_stream (mkStream d scr []) thr) as [x st1]. cbn [fst snd rest] in *.
  split; assumption.
Qed.

(** * What "the parts tile the source" means *)

(** [parts] are (part number, bytes) in the order the submission task built
    them: their concatenation is the source, the numbers are 1..n ascending,
    no part is empty, every part but the last has exactly [c] bytes. *)
Definition parts_tile (c : Z) (src : list byte) (parts : list (Z * list byte)) : Prop :=
  concat (map snd parts) = src /\
  map fst parts = zseq 1 (length parts) /\
  Forall nonempty (map snd parts) /\
  all_but_last_len (Z.to_nat c) (map snd parts).

Definition plan_part_bytes (parts : list (Z * chunk)) : list (Z * list byte) :=
  map (fun p => (fst p, chunk_bytes (snd p))) parts.

Lemma numbered_length {B} (l : list B) k : length (numbered k l) = length l.
Proof. rewrite <- (map_length fst), numbered_fst. apply zseq_length. Qed.

Lemma numbered_tile c src (l : list (list byte)) :
  concat l = src -> Forall nonempty l -> all_but_last_len (Z.to_nat c) l ->
  parts_tile c src (numbered 1 l).
Proof.
  intros H1 H2 H3. unfold parts_tile. rewrite numbered_snd, numbered_fst, numbered_length. auto.
Qed.

(** How many pieces: n = num_parts len c covers the list and the last piece is
    not empty. *)
Lemma tile_counts (len : nat) (c : Z) : 0 < c ->
  let n := Z.to_nat (num_parts (Z.of_nat len) c) in
  let C := Z.to_nat c in
  (0 < C)%nat /\ (len <= n * C)%nat /\ (n = 0 \/ (n - 1) * C < len)%nat.
Proof.
  intros Hc n C. unfold num_parts in n.
  pose proof (ceil_div_spec (Z.of_nat len) c ltac:(lia) Hc) as Hs.
  pose proof (ceil_div_nonneg (Z.of_nat len) c ltac:(lia) Hc) as Hn.
  set (nz := ceil_div (Z.of_nat len) c) in *.
  assert (E : Z.of_nat (n * C) = nz * c).
  { subst n C. rewrite Nat2Z.inj_mul, !Z2Nat.id by lia. reflexivity. }
  split; [subst C; lia|]. split; [lia|].
  destruct (Z.eq_dec nz 0) as [Ez|Ez]; [left; subst n; lia|right].
  assert (E2 : Z.of_nat ((n - 1) * C) = (nz - 1) * c).
  { subst n C. rewrite Nat2Z.inj_mul, Nat2Z.inj_sub, !Z2Nat.id by lia. reflexivity. }
  lia.
Qed.

(** * The non-seekable manager *)

Theorem nonseekable_parts_tile_pf d scr thr c : 0 < c ->
  parts_tile c d
    (fst (ns_parts (fst (ns_preread (mkStream d scr []) thr))
                   (snd (ns_preread (mkStream d scr []) thr)) c)).
Proof.
  intros Hc. destruct (ns_preread_spec d scr thr) as [P1 P2].
  destruct (ns_preread (mkStream d scr []) thr) as [im st1]. cbn [fst snd] in *.
  unfold ns_parts, ns_parts_with. rewrite (ns_parts_loop_spec c Hc).
  assert (E : im ++ rest st1 = d) by (rewrite P1, P2; apply firstn_skipn).
  rewrite E.
  assert (Hf : (length d < S (length im + length (rest st1)))%nat).
  { rewrite <- E at 1. rewrite app_length. lia. }
  destruct (chop_spec (Z.to_nat c) ltac:(lia) _ d Hf) as (C1 & C2 & C3).
  now apply numbered_tile.
Qed.

Theorem nonseekable_put_body_exact_pf d scr thr :
  fst (ns_put_body (fst (ns_preread (mkStream d scr []) thr))
                   (snd (ns_preread (mkStream d scr []) thr))) = d.
Proof.
  destruct (ns_preread_spec d scr thr) as [P1 P2].
  destruct (ns_preread (mkStream d scr []) thr) as [im st1]. cbn [fst snd] in *.
  unfold ns_put_body, read_all. cbn [fst]. rewrite P1, P2. apply firstn_skipn.
Qed.

Theorem nonseekable_multipart_iff_pf d scr thr :
  ns_requires_multipart (fst (ns_preread (mkStream d scr []) thr)) thr = true <->
  thr <= Z.of_nat (length d).
Proof.
  destruct (ns_preread_spec d scr thr) as [P1 _]. rewrite P1.
  unfold ns_requires_multipart, is_multipart_preread. rewrite firstn_length.
  destruct (Z.of_nat (Nat.min (Z.to_nat thr) (length d)) <? thr) eqn:E; cbn [negb]; split; intros; try discriminate; try reflexivity; lia.
Qed.

(** Before the repair one raw read decided: a stream of 4 bytes whose first
    read returns 1 byte is sent as a single request although 4 >= threshold 2,
    and a 5-byte stream is cut into parts of 2,1,2 bytes for chunk size 2. *)
Theorem nonseekable_unrepaired_refuted_pf :
  (exists d scr thr, 0 < thr /\ thr <= Z.of_nat (length d) /\
     ns_requires_multipart (fst (ns_preread_unrepaired (mkStream d scr []) thr)) thr = false) /\
  (exists d scr thr c, 0 < thr /\ 0 < c /\
     let im := fst (ns_preread_unrepaired (mkStream d scr []) thr) in
     let st := snd (ns_preread_unrepaired (mkStream d scr []) thr) in
     ns_requires_multipart im thr = true /\
     ~ all_but_last_len (Z.to_nat c) (map snd (fst (ns_parts_unrepaired im st c)))).
Proof.
  split.
  - exists [1; 2; 3; 4], [1], 2. vm_compute. repeat split; discriminate.
  - exists [1; 2; 3; 4; 5], [9; 1; 1], 1, 2. cbv zeta. split; [lia|]. split; [lia|].
    split; [vm_compute; reflexivity|]. vm_compute. intros [_ [H _]]. discriminate H.
Qed.

(** * The seekable manager *)

Lemma chunk_bytes_private d c : (length d <= Z.to_nat c)%nat ->
  chunk_bytes (mk_chunk d 0 c (Z.of_nat (length d)) false) = d.
Proof.
  intros H. unfold chunk_bytes, mk_chunk. cbn [size start_byte file].
  change (Z.to_nat 0) with 0%nat. cbn [skipn].
  replace (Z.to_nat (Z.min (Z.of_nat (length d) - 0) c)) with (length d) by lia.
  apply firstn_all.
Qed.

Lemma sk_parts_loop_spec c : forall n st k, script st = [] ->
  fst (sk_parts_loop n c st k) =
  numbered k (map (fun d => mk_chunk d 0 c (Z.of_nat (length d)) false)
                  (pieces (Z.to_nat c) (rest st) n)).
Proof.
  induction n as [|n IH]; intros st k Hs; [reflexivity|].
  cbn [sk_parts_loop pieces map numbered]. unfold raw_read. rewrite Hs.
  set (st1 := mkStream _ _ _).
  specialize (IH st1 (k + 1) eq_refl).
  destruct (sk_parts_loop n c st1 (k + 1)) as [more st2]. cbn [fst] in *.
  rewrite IH. reflexivity.
Qed.

Lemma pieces_private_bytes c : forall n l,
  map (fun d => chunk_bytes (mk_chunk d 0 c (Z.of_nat (length d)) false))
      (pieces (Z.to_nat c) l n) = pieces (Z.to_nat c) l n.
Proof.
  induction n as [|n IH]; intros l; cbn [pieces map]; [reflexivity|].
  rewrite IH, chunk_bytes_private; [reflexivity|]. rewrite firstn_length. lia.
Qed.

Lemma pieces_tile c l : 0 < c ->
  parts_tile c l (numbered 1 (pieces (Z.to_nat c) l (Z.to_nat (num_parts (Z.of_nat (length l)) c)))).
Proof.
  intros Hc. destruct (tile_counts (length l) c Hc) as (T0 & T1 & T2).
  destruct (pieces_shape (Z.to_nat c) _ T0 l T2) as [S1 S2].
  apply numbered_tile; [now apply pieces_concat_all|exact S1|exact S2].
Qed.

(** Full reads (an empty short-read script): BytesIO, buffered files. *)
Theorem seekable_parts_tile_pf data p c : 0 < c -> 0 <= p ->
  parts_tile c (skipn (Z.to_nat p) data) (plan_part_bytes (fst (sk_parts data p c []))).
Proof.
  intros Hc Hp. unfold sk_parts, plan_part_bytes. rewrite sk_parts_loop_spec by reflexivity.
  rewrite numbered_map, map_map, pieces_private_bytes. cbn [sk_stream rest].
  assert (E' : Z.to_nat (num_parts (sk_size data p) c) =
               Z.to_nat (num_parts (Z.of_nat (length (skipn (Z.to_nat p) data))) c)).
  { unfold sk_size. rewrite skipn_length.
    destruct (Z_le_gt_dec p (Z.of_nat (length data))) as [H|H].
    - do 2 f_equal. lia.
    - replace (Z.of_nat (length data - Z.to_nat p)) with 0 by lia.
      assert (num_parts (Z.of_nat (length data) - p) c <= 0) by (unfold num_parts, ceil_div; nia).
      assert (num_parts 0 c = 0) by (unfold num_parts, ceil_div; nia).
      lia. }
  rewrite E'. now apply pieces_tile.
Qed.

(** The seekable single request: the user's stream from its position. *)
Lemma sk_put_body_bytes data p : 0 <= p ->
  chunk_bytes (sk_put_body data p) = skipn (Z.to_nat p) data.
Proof.
  intros Hp. unfold sk_put_body, chunk_bytes, mk_chunk, sk_size. cbn [size start_byte file].
  apply firstn_all2. rewrite skipn_length. lia.
Qed.

(** * The filename manager (and the legacy slicing) *)

Lemma fn_chunk_bytes f c s : 0 < c ->
  chunk_bytes (mk_chunk f (c * Z.of_nat s) c (Z.of_nat (length f)) false) =
  firstn (Z.to_nat c) (skipn (s * Z.to_nat c) f).
Proof.
  intros Hc. unfold chunk_bytes, mk_chunk. cbn [size start_byte file].
  assert (E : Z.to_nat (c * Z.of_nat s) = (s * Z.to_nat c)%nat).
  { rewrite Z2Nat.inj_mul, Nat2Z.id by lia. apply Nat.mul_comm. }
  rewrite E. rewrite <- (firstn_min_length (Z.to_nat c)). f_equal.
  rewrite skipn_length.
  assert (E2 : Z.of_nat (s * Z.to_nat c) = c * Z.of_nat s).
  { rewrite Nat2Z.inj_mul, Z2Nat.id by lia. apply Z.mul_comm. }
  lia.
Qed.

Lemma fn_parts_from f c : 0 < c -> forall m s,
  map (fun i => (i + 1, chunk_bytes (mk_chunk f (c * i) c (Z.of_nat (length f)) false)))
      (zseq (Z.of_nat s) m) =
  numbered (Z.of_nat s + 1) (pieces (Z.to_nat c) (skipn (s * Z.to_nat c) f) m).
Proof.
  intros Hc. induction m as [|m IH]; intros s; cbn [zseq map pieces numbered]; [reflexivity|].
  rewrite (fn_chunk_bytes f c s Hc). f_equal.
  replace (Z.of_nat s + 1) with (Z.of_nat (S s)) by lia. rewrite IH.
  f_equal. rewrite skipn_add. do 2 f_equal. cbn [Nat.mul]. lia.
Qed.

Lemma fn_parts_bytes f c : 0 < c ->
  plan_part_bytes (fn_parts f c) =
  numbered 1 (pieces (Z.to_nat c) f (Z.to_nat (num_parts (Z.of_nat (length f)) c))).
Proof.
  intros Hc. unfold plan_part_bytes, fn_parts, fn_part. rewrite map_map. cbn [fst snd].
  apply (fn_parts_from f c Hc _ 0%nat).
Qed.

Theorem filename_parts_tile_pf f c : 0 < c -> parts_tile c f (plan_part_bytes (fn_parts f c)).
Proof. intros Hc. rewrite fn_parts_bytes by exact Hc. now apply pieces_tile. Qed.

Lemma fn_put_body_bytes f : chunk_bytes (fn_put_body f) = f.
Proof.
  unfold fn_put_body, chunk_bytes, mk_chunk. cbn [size start_byte file].
  change (Z.to_nat 0) with 0%nat. cbn [skipn]. apply firstn_all2. lia.
Qed.

Definition legacy_part_bytes (parts : list (Z * lchunk)) : list (Z * list byte) :=
  map (fun p => (fst p, lchunk_bytes (snd p))) parts.

Lemma legacy_parts_bytes f ps : 0 < ps ->
  legacy_part_bytes (legacy_parts f ps) =
  numbered 1 (pieces (Z.to_nat ps) f (Z.to_nat (num_parts (Z.of_nat (length f)) ps))).
Proof.
  intros Hc. unfold legacy_part_bytes, legacy_parts. rewrite map_map. cbn [fst snd].
  apply (fn_parts_from f ps Hc _ 0%nat).
Qed.

Theorem legacy_parts_tile_pf f ps : 0 < ps ->
  parts_tile ps f (legacy_part_bytes (legacy_parts f ps)).
Proof. intros Hc. rewrite legacy_parts_bytes by exact Hc. now apply pieces_tile. Qed.

(** * Retries do not change the bytes of the last complete send *)

Lemma closed_step_false c o : closed (step_state c o) = false -> closed c = false.
Proof.
  unfold step_state. destruct o as [amt|w wh| | | |]; cbn [step].
  - unfold do_read. destruct (closed c) eqn:E; cbn; congruence.
  - unfold do_seek. destruct (negb _); [cbn; auto|]. destruct (closed c) eqn:E; cbn; congruence.
  - cbn; auto.
  - cbn; auto.
  - cbn; auto.
  - cbn. discriminate.
Qed.

Lemma send_loop_some_open c sizes acc x : send_loop c sizes acc = Some x -> closed c = false.
Proof.
  destruct sizes as [|n r]; [discriminate|]. cbn [send_loop]. unfold do_read.
  destruct (closed c); [discriminate|reflexivity].
Qed.

Theorem final_send_exact c sc d :
  wf c -> Forall (fun n => 0 < n) (ss_sizes sc) ->
  final_send c sc = Some d -> d = chunk_bytes c.
Proof.
  intros Hwf Hpos. unfold final_send.
  destruct (send_loop _ _ _) as [[[c' out] e]|] eqn:Es; [|discriminate]. intros [= <-].
  pose proof (send_loop_some_open _ _ _ _ Es) as Hcl.
  set (c1 := run_state c (ss_history sc ++ [Seek 0 0; Enable])) in *.
  assert (Hwf1 : wf c1) by (apply run_wf; exact Hwf).
  destruct (run_static c (ss_history sc ++ [Seek 0 0; Enable])) as (F1 & F2 & F3). fold c1 in F1, F2, F3.
  assert (Hcb : chunk_bytes c1 = chunk_bytes c).
  { unfold chunk_bytes. now rewrite F1, F2, F3. }
  assert (Har : amount_read c1 = 0).
  { unfold c1 in *. rewrite run_state_app in *. set (c0 := run_state c (ss_history sc)) in *.
    rewrite run_state_cons, run_state_cons in *. change (run_state ?x []) with x in *.
    apply closed_step_false in Hcl. pose proof (closed_step_false _ _ Hcl) as Hcl0.
    rewrite (seek0_state c0 Hcl0). reflexivity. }
  destruct (send_loop_exact (ss_sizes sc) c1 [] c' out e Hwf1 Hcl Hpos) as [E1 _].
  - destruct Hwf1 as (?&?&?&?&?). lia.
  - rewrite Har. reflexivity.
  - exact Es.
  - congruence.
Qed.

(** The bodies of a plan are well-formed chunks. *)
Lemma wrap_data_wf d : wf (wrap_data d).
Proof. unfold wrap_data. apply mk_chunk_wf; lia. Qed.

Lemma fn_put_body_wf f : wf (fn_put_body f).
Proof. unfold fn_put_body. apply mk_chunk_wf; lia. Qed.

Lemma sk_put_body_wf data p : 0 <= p <= Z.of_nat (length data) -> wf (sk_put_body data p).
Proof. intros H. unfold sk_put_body, sk_size. apply mk_chunk_wf; lia. Qed.

(** * The legacy chunk: after seek(0) a complete send is the window *)

Definition l_to_chunk (c : lchunk) : chunk :=
  mkChunk (l_file c) (l_start c + l_pos c) (l_start c) (l_size c) (l_pos c) false false.

Lemma l_send_sim sizes : forall c acc out,
  0 <= l_start c -> 0 <= l_pos c <= l_size c ->
  l_start c + l_size c <= Z.of_nat (length (l_file c)) ->
  Forall (fun n => 0 < n) sizes ->
  l_send_loop c sizes acc = Some out ->
  exists c' e, send_loop (l_to_chunk c) sizes acc = Some (c', out, e).
Proof.
  induction sizes as [|n sizes IH]; intros c acc out Hs Hp Hb Hpos Hrun; [discriminate|].
  inversion Hpos as [|? ? Hn Hrest]; subst.
  cbn [l_send_loop send_loop] in *.
  assert (Hwf : wf (l_to_chunk c)) by (unfold wf, l_to_chunk; cbn; lia).
  rewrite (do_read_open (l_to_chunk c) (Some n) eq_refl).
  assert (Htr : to_read (l_to_chunk c) (Some n) = Z.min (l_size c - l_pos c) n)
    by (unfold to_read, l_to_chunk; cbn; lia).
  pose proof (read_length (l_to_chunk c) (Some n) Hwf ltac:(cbn; lia)) as Hlen.
  rewrite Htr in *. unfold l_read in Hrun.
  change (file (l_to_chunk c)) with (l_file c) in *.
  change (fpos (l_to_chunk c)) with (l_start c + l_pos c) in *.
  set (d := file_read (l_file c) (l_start c + l_pos c) (Z.min (l_size c - l_pos c) n)) in *.
  destruct d as [|x d'] eqn:Ed.
  - injection Hrun as <-. eauto.
  - rewrite <- Ed in *.
    set (c1 := mkLChunk (l_file c) (l_start c) (l_size c) (l_pos c + Z.of_nat (length d))) in *.
    destruct (IH c1 (acc ++ d) out) as (c' & e & Hr); try assumption.
    + cbn. lia.
    + subst c1; cbn [l_pos l_size]. lia.
    + assert (Eq : set_pos (l_to_chunk c) (l_start c + l_pos c + Z.of_nat (length d))
                     (amount_read (l_to_chunk c) + Z.of_nat (length d)) = l_to_chunk c1).
      { unfold set_pos, l_to_chunk, c1. cbn. f_equal. lia. }
      rewrite Eq, Hr. eauto.
Qed.

Theorem legacy_send_exact_pf c where_ sizes out :
  0 <= l_start c -> 0 <= l_size c -> l_start c + l_size c <= Z.of_nat (length (l_file c)) ->
  Forall (fun n => 0 < n) sizes ->
  l_send_loop (l_seek (l_seek c where_) 0) sizes [] = Some out -> out = lchunk_bytes c.
Proof.
  intros Hs Hz Hb Hpos Hrun.
  set (c0 := l_seek (l_seek c where_) 0) in *.
  destruct (l_send_sim sizes c0 [] out) as (c' & e & Hr); try assumption; try (cbn; lia).
  assert (Hwf : wf (l_to_chunk c0)) by (unfold wf, l_to_chunk; cbn; lia).
  destruct (send_loop_exact sizes (l_to_chunk c0) [] c' out e Hwf eq_refl Hpos) as [E _].
  - cbn. lia.
  - reflexivity.
  - exact Hr.
  - rewrite E. reflexivity.
Qed.

Lemma mk_lchunk_bounds f start rq : 0 <= start <= Z.of_nat (length f) -> 0 <= rq ->
  0 <= l_start (mk_lchunk f start rq) /\ 0 <= l_size (mk_lchunk f start rq) /\
  l_start (mk_lchunk f start rq) + l_size (mk_lchunk f start rq)
    <= Z.of_nat (length (l_file (mk_lchunk f start rq))).
Proof. intros; unfold mk_lchunk; cbn; lia. Qed.

(** * Part tasks in any order, then complete *)

Definition meta_of (alg : bool) (etag pn : Z) : part_meta :=
  mkPartMeta etag pn (if alg then Some (checksum_of etag) else None).

(** Task [t]'s recorded result is the answer to its own UploadPart, and the
    service holds exactly its bytes under its number. *)
Definition good (alg : bool) (uid : Z) (s : s3) (res : list (Z * part_meta)) (t : Z * bytes) : Prop :=
  exists etag, zlookup (fst t) res = Some (meta_of alg etag (fst t)) /\
               s3_part s uid (fst t) = Some (mkPartRec etag (snd t)).

Lemma upload_part_effect s uid pn data s1 etag :
  s3_upload_part s uid pn data = Some (s1, etag) ->
  exists m, zlookup uid (s_mpus s) = Some m /\ m_open m = true /\
    zlookup uid (s_mpus s1) =
      Some (mkMpu (m_key m) ((pn, mkPartRec etag data) :: m_parts m) true) /\
    s_objects s1 = s_objects s /\ s_completes s1 = s_completes s.
Proof.
  unfold s3_upload_part. destruct (zlookup uid (s_mpus s)) as [m|] eqn:E; [|discriminate].
  destruct (m_open m) eqn:Eo; [|discriminate]. intros [= <- <-].
  exists m. cbn [s_mpus s_objects s_completes zlookup]. rewrite Z.eqb_refl. auto.
Qed.

Lemma exec_parts_spec alg uid : forall order s res s' res' done,
  exec_parts alg s uid order res = Some (s', res') ->
  NoDup (map fst order) ->
  (forall t, In t done -> ~ In (fst t) (map fst order)) ->
  (forall t, In t done -> good alg uid s res t) ->
  forall t, In t done \/ In t order -> good alg uid s' res' t.
Proof.
  induction order as [|[pn data] r IH]; intros s res s' res' done Hrun Hnd Hdis Hgood t Ht.
  - injection Hrun as <- <-. destruct Ht as [Ht|[]]. now apply Hgood.
  - cbn [exec_parts] in Hrun.
    destruct (s3_upload_part s uid pn data) as [[s1 etag]|] eqn:Eu; [|discriminate].
    destruct (upload_part_effect _ _ _ _ _ _ Eu) as (m & Em & Eo & Em1 & _ & _).
    cbn [map fst] in Hnd. inversion Hnd as [|? ? Hnotin Hnd']; subst.
    apply (IH s1 _ s' res' ((pn, data) :: done) Hrun Hnd').
    + intros t0 [<-|Ht0]; [exact Hnotin|]. intros Hin. apply (Hdis t0 Ht0). cbn [map fst]. now right.
    + intros t0 [<-|Ht0].
      * exists etag. cbn [fst snd zlookup]. rewrite Z.eqb_refl. split; [reflexivity|].
        unfold s3_part. rewrite Em1. cbn [m_parts zlookup]. now rewrite Z.eqb_refl.
      * destruct (Hgood t0 Ht0) as (e0 & G1 & G2).
        assert (Hne : fst t0 <> pn).
        { intros E. apply (Hdis t0 Ht0). cbn [map fst]. now left. }
        exists e0. cbn [zlookup]. apply Z.eqb_neq in Hne. rewrite Hne. split; [exact G1|].
        unfold s3_part in *. rewrite Em1. rewrite Em in G2. cbn [m_parts zlookup]. now rewrite Hne.
    + destruct Ht as [Ht|[<-|Ht]]; [left; now right|left; now left|now right].
Qed.

Lemma exec_parts_frame alg uid : forall order s res s' res' m,
  exec_parts alg s uid order res = Some (s', res') ->
  zlookup uid (s_mpus s) = Some m -> m_open m = true ->
  s_objects s' = s_objects s /\ s_completes s' = s_completes s /\
  exists m', zlookup uid (s_mpus s') = Some m' /\ m_open m' = true /\ m_key m' = m_key m.
Proof.
  induction order as [|[pn data] r IH]; intros s res s' res' m Hrun Em Eo.
  - injection Hrun as <- <-. eauto.
  - cbn [exec_parts] in Hrun.
    destruct (s3_upload_part s uid pn data) as [[s1 etag]|] eqn:Eu; [|discriminate].
    destruct (upload_part_effect _ _ _ _ _ _ Eu) as (m0 & Em0 & Eo0 & Em1 & Ob & Cp).
    rewrite Em in Em0. injection Em0 as <-.
    destruct (IH s1 _ s' res' _ Hrun Em1 eq_refl) as (A & B & m' & C1 & C2 & C3).
    rewrite A, B, Ob, Cp. eauto.
Qed.

(** Task._get_all_main_kwargs: one result per future, in the list's order. *)
Lemma collect_spec res : forall tasks parts,
  collect tasks res = Some parts ->
  Forall2 (fun t p => zlookup (fst t) res = Some p) tasks parts.
Proof.
  induction tasks as [|[pn d] r IH]; intros parts H; cbn [collect] in H.
  - injection H as <-. constructor.
  - destruct (zlookup pn res) as [m|] eqn:E; [|discriminate].
    destruct (collect r res) as [ms|]; [|discriminate]. injection H as <-.
    constructor; [exact E|]. now apply IH.
Qed.

(** What [complete_lists_parts_in_order] says about one (task, listed part). *)
Definition listed (alg : bool) (s : s3) (uid : Z) (t : Z * bytes) (p : part_meta) : Prop :=
  exists etag, p = meta_of alg etag (fst t) /\
               s3_part s uid (fst t) = Some (mkPartRec etag (snd t)).

Lemma asc_from_zseq : forall n k p, p < k -> asc_from p (zseq k n) = true.
Proof.
  induction n as [|n IH]; intros k p H; cbn [zseq asc_from]; [reflexivity|].
  rewrite IH by lia. apply andb_true_intro. split; [lia|reflexivity].
Qed.

Lemma listed_complete_ok alg s uid m : zlookup uid (s_mpus s) = Some m ->
  forall tasks parts, Forall2 (listed alg s uid) tasks parts ->
  map pm_num parts = map fst tasks /\
  forallb (part_listed_ok m) parts = true /\
  map (part_bytes m) parts = map snd tasks.
Proof.
  intros Em. induction 1 as [|t p tasks parts (etag & -> & Hp) _ IH]; [repeat split|].
  destruct IH as (I1 & I2 & I3). unfold s3_part in Hp. rewrite Em in Hp.
  cbn [map forallb]. rewrite I1, I2, I3.
  unfold part_listed_ok, part_bytes, meta_of. cbn [pm_num pm_etag pm_cks]. rewrite Hp.
  cbn [pr_etag pr_data]. rewrite Z.eqb_refl.
  repeat split. destruct alg; [now rewrite Z.eqb_refl|reflexivity].
Qed.

Theorem run_multipart_exact min_part alg s key tasks order s' uid ok parts :
  map fst tasks = zseq 1 (length tasks) -> tasks <> [] ->
  sizes_ok min_part (map snd tasks) = true ->
  Permutation order tasks ->
  run_multipart min_part alg s key tasks order = Some (s', uid, ok, parts) ->
  ok = true /\
  s3_object s' key = Some (concat (map snd tasks)) /\
  Forall2 (listed alg s' uid) tasks parts /\
  map pm_num parts = zseq 1 (length tasks) /\
  s_completes s' = mkCompleteRec uid parts true :: s_completes s.
Proof.
  intros Hnum Hne Hsz Hperm. unfold run_multipart, s3_create.
  set (uid0 := s_next_upload s + 1).
  set (s1 := mkS3 _ _ _ _ _).
  destruct (exec_parts alg s1 uid0 order []) as [[s2 res]|] eqn:Ex; [|discriminate].
  destruct (collect tasks res) as [parts0|] eqn:Ec; [|discriminate].
  assert (Em1 : zlookup uid0 (s_mpus s1) = Some (mkMpu key [] true)).
  { unfold s1. cbn [s_mpus zlookup]. now rewrite Z.eqb_refl. }
  destruct (exec_parts_frame alg uid0 order s1 [] s2 res _ Ex Em1 eq_refl)
    as (Fo & Fc & m' & Em' & Eo' & Ek'). cbn [m_key] in Ek'.
  assert (Hnd : NoDup (map fst order)).
  { apply (Permutation_NoDup (l := map fst tasks)).
    - apply Permutation_map. now apply Permutation_sym.
    - rewrite Hnum. clear. generalize 1. induction (length tasks) as [|n IH]; intros k; cbn [zseq].
      + constructor.
      + constructor; [|apply IH]. rewrite zseq_In. lia. }
  assert (Hgood : forall t, In t tasks -> good alg uid0 s2 res t).
  { intros t Ht. apply (exec_parts_spec alg uid0 order s1 [] s2 res [] Ex Hnd); try (intros ? []).
    right. apply (Permutation_in t (Permutation_sym Hperm) Ht). }
  assert (Hl : Forall2 (listed alg s2 uid0) tasks parts0).
  { pose proof (collect_spec res tasks parts0 Ec) as Hc.
    clear - Hc Hgood. induction Hc as [|t p tl pl Hp _ IH]; [constructor|].
    constructor.
    - destruct (Hgood t (or_introl eq_refl)) as (etag & G1 & G2).
      exists etag. split; [congruence|exact G2].
    - apply IH. intros t0 Ht0. apply Hgood. now right. }
  destruct (listed_complete_ok alg s2 uid0 m' Em' tasks parts0 Hl) as (L1 & L2 & L3).
  unfold s3_complete. rewrite Em'.
  assert (Hok : complete_ok min_part m' parts0 = true).
  { unfold complete_ok. rewrite Eo', L1, L2, L3, Hsz, Hnum, asc_from_zseq by lia.
    destruct parts0 as [|p0 pr]; [|reflexivity].
    inversion Hl; subst. congruence. }
  rewrite Hok. intros [= <- <- <- <-].
  split; [reflexivity|]. split.
  { unfold s3_object. cbn [s_objects zlookup]. rewrite Ek', Z.eqb_refl, L3. reflexivity. }
  split.
  { clear - Hl Em'. induction Hl as [|t p tl pl (etag & E1 & E2) _ IH]; constructor; [|exact IH].
    exists etag. split; [exact E1|]. unfold s3_part in *. cbn [s_mpus zlookup]. rewrite Z.eqb_refl.
    rewrite Em' in E2. cbn [m_parts]. exact E2. }
  split; [now rewrite L1|].
  cbn [s_completes]. rewrite Fc. reflexivity.
Qed.

(** A schedule given as a permutation of the task indices. *)
Lemma reorder_identity {B} (d : B) (l : list B) : reorder d l (seq 0 (length l)) = l.
Proof.
  unfold reorder. apply nth_ext with (d := d) (d' := d).
  - now rewrite map_length, seq_length.
  - intros n Hn. rewrite map_length, seq_length in Hn.
    rewrite (nth_indep _ d (nth (nth n (seq 0 (length l)) 0%nat) l d)) by (now rewrite map_length, seq_length).
    rewrite (map_nth (fun i => nth i l d)). now rewrite seq_nth.
Qed.

Lemma reorder_permutation {B} (d : B) (l : list B) order :
  Permutation order (seq 0 (length l)) -> Permutation (reorder d l order) l.
Proof.
  intros H. rewrite <- (reorder_identity d l) at 2. unfold reorder. now apply Permutation_map.
Qed.
