(** Proofs about the upload sources (model/UploadSrc.v) and their run against
    the reference S3 (model/S3Spec.v). *)
From Coq Require Import ZArith List Bool Lia ZifyBool Arith Permutation.
From S3V Require Import gen.Tables model.Plan model.Chunk model.Progress model.S3Spec
  model.UploadSrc proofs.PlanProofs proofs.ChunkProofs.
Import ListNotations.
Open Scope Z_scope.
Ltac Zify.zify_post_hook ::= Z.to_euclidean_division_equations.

(** * Lists cut into pieces *)

Section Pieces.
  Context {A : Type}.

  (** [m] consecutive pieces of [cn] elements. *)
  Fixpoint pieces (cn : nat) (l : list A) (m : nat) : list (list A) :=
    match m with
    | O => []
    | S m' => firstn cn l :: pieces cn (skipn cn l) m'
    end.

  (** Pieces of [cn] elements until nothing is left. *)
  Fixpoint chop (fuel cn : nat) (l : list A) : list (list A) :=
    match fuel with
    | O => []
    | S f =>
        match firstn cn l with
        | [] => []
        | d => d :: chop f cn (skipn cn l)
        end
    end.

  (** Every element but the last has exactly [cn] elements. *)
  Fixpoint all_but_last_len (cn : nat) (l : list (list A)) : Prop :=
    match l with
    | [] => True
    | x :: r => match r with [] => True | _ => length x = cn /\ all_but_last_len cn r end
    end.

  Definition nonempty (x : list A) : Prop := x <> [].

  Lemma pieces_length cn l m : length (pieces cn l m) = m.
  Proof. revert l; induction m as [|m IH]; intros l; cbn [pieces length]; [reflexivity|]. now rewrite IH. Qed.

  Lemma pieces_concat cn m : forall l, concat (pieces cn l m) = firstn (m * cn) l.
  Proof.
    induction m as [|m IH]; intros l; cbn [pieces concat]; [reflexivity|].
    rewrite IH. change (S m * cn)%nat with (cn + m * cn)%nat. now rewrite firstn_plus.
  Qed.

  Lemma pieces_concat_all cn m l : (length l <= m * cn)%nat -> concat (pieces cn l m) = l.
  Proof. intros H. rewrite pieces_concat. now apply firstn_all2. Qed.

  Lemma pieces_shape cn m : (0 < cn)%nat -> forall l,
    (m = 0 \/ (m - 1) * cn < length l)%nat ->
    Forall nonempty (pieces cn l m) /\ all_but_last_len cn (pieces cn l m).
  Proof.
    intros Hc. induction m as [|m IH]; intros l H; cbn [pieces]; [split; [constructor|exact I]|].
    destruct H as [H|H]; [discriminate|].
    assert (Hl : (m * cn < length l)%nat) by (replace (S m - 1)%nat with m in H by lia; exact H).
    destruct (IH (skipn cn l)) as [I1 I2].
    { destruct m as [|m']; [now left|right]. rewrite skipn_length.
      replace (S m' - 1)%nat with m' by lia. cbn [Nat.mul] in Hl. lia. }
    split.
    - constructor; [|exact I1]. unfold nonempty. intros E.
      apply (f_equal (@length A)) in E. rewrite firstn_length in E. cbn [length] in E. lia.
    - cbn [all_but_last_len]. destruct m as [|m']; cbn [pieces]; [exact I|].
      split; [|exact I2]. rewrite firstn_length. cbn [Nat.mul] in Hl. lia.
  Qed.

  Lemma chop_spec cn : (0 < cn)%nat -> forall fuel l, (length l < fuel)%nat ->
    concat (chop fuel cn l) = l /\ Forall nonempty (chop fuel cn l) /\
    all_but_last_len cn (chop fuel cn l).
  Proof.
    intros Hc. induction fuel as [|f IH]; intros l Hl; [lia|].
    cbn [chop]. destruct (firstn cn l) as [|x d] eqn:E.
    - assert (l = []) as ->.
      { destruct l as [|y l]; [reflexivity|]. destruct cn; [lia|discriminate E]. }
      cbn. repeat split; constructor.
    - assert (Hne : l <> []) by (intros ->; rewrite firstn_nil in E; discriminate).
      assert (Hlen : (length (skipn cn l) < f)%nat).
      { rewrite skipn_length. destruct l; [congruence|cbn [length] in *; lia]. }
      destruct (IH (skipn cn l) Hlen) as (I1 & I2 & I3).
      repeat split.
      + cbn [concat]. rewrite I1, <- E. apply firstn_skipn.
      + constructor; [unfold nonempty; discriminate|exact I2].
      + cbn [all_but_last_len]. destruct (chop f cn (skipn cn l)) as [|y r] eqn:Ec; [exact I|].
        split; [|exact I3]. rewrite <- E, firstn_length.
        assert (skipn cn l <> []).
        { intros E0. rewrite E0 in Ec. destruct f; cbn in Ec; [discriminate|].
          rewrite firstn_nil in Ec. discriminate. }
        assert (length (skipn cn l) <> 0%nat) by (destruct (skipn cn l); cbn; congruence).
        rewrite skipn_length in *. lia.
  Qed.

  Lemma firstn_min_length (n : nat) (l : list A) : firstn (Nat.min n (length l)) l = firstn n l.
  Proof.
    destruct (Nat.le_ge_cases n (length l)) as [H|H].
    - now rewrite Nat.min_l.
    - rewrite Nat.min_r by exact H. rewrite firstn_all. symmetry. now apply firstn_all2.
  Qed.

  (** What a read of at most [k] elements leaves behind, in terms of what it
      returned. *)
  Lemma firstn_skipn_by_length (k : nat) (l : list A) :
    firstn k l = firstn (length (firstn k l)) l /\ skipn k l = skipn (length (firstn k l)) l.
  Proof.
    rewrite firstn_length. destruct (Nat.le_ge_cases k (length l)) as [H|H].
    - now rewrite Nat.min_l.
    - rewrite Nat.min_r by exact H. rewrite firstn_all, skipn_all. split.
      + now apply firstn_all2.
      + now apply skipn_all2.
  Qed.
End Pieces.

(** Numbering: part numbers k, k+1, ... in list order. *)
Fixpoint numbered {B : Type} (k : Z) (l : list B) : list (Z * B) :=
  match l with
  | [] => []
  | x :: r => (k, x) :: numbered (k + 1) r
  end.

Lemma numbered_fst {B} (l : list B) : forall k, map fst (numbered k l) = zseq k (length l).
Proof. induction l as [|x r IH]; intros k; cbn [numbered map zseq length fst]; [reflexivity|]. now rewrite IH. Qed.

Lemma numbered_snd {B} (l : list B) : forall k, map snd (numbered k l) = l.
Proof. induction l as [|x r IH]; intros k; cbn [numbered map snd]; [reflexivity|]. now rewrite IH. Qed.

Lemma numbered_map {B C} (f : B -> C) (l : list B) : forall k,
  map (fun p => (fst p, f (snd p))) (numbered k l) = numbered k (map f l).
Proof. induction l as [|x r IH]; intros k; cbn [numbered map fst snd]; [reflexivity|]. now rewrite IH. Qed.

(** * The short-read loop delivers exactly what was asked for *)

Lemma raw_read_amount st n : 0 < n ->
  exists k, 1 <= k <= n /\
    fst (raw_read st n) = firstn (Z.to_nat k) (rest st) /\
    rest (snd (raw_read st n)) = skipn (Z.to_nat k) (rest st).
Proof.
  intros Hn. unfold raw_read. destruct (script st) as [|s r].
  - exists n. cbn. repeat split; lia.
  - exists (Z.min n (Z.max 1 s)). cbn. repeat split; lia.
Qed.

Lemma read_loop_spec : forall fuel st n, (length (rest st) < fuel)%nat ->
  fst (read_loop fuel st n) = firstn (Z.to_nat n) (rest st) /\
  rest (snd (read_loop fuel st n)) = skipn (Z.to_nat n) (rest st).
Proof.
  induction fuel as [|f IH]; intros st n Hf; [lia|].
  cbn [read_loop]. destruct (n <=? 0) eqn:En.
  - cbn [fst snd]. replace (Z.to_nat n) with 0%nat by lia. split; reflexivity.
  - destruct (raw_read_amount st n ltac:(lia)) as (k & Hk & R1 & R2).
    destruct (raw_read st n) as [chunk st1] eqn:Er. cbn [fst snd] in R1, R2.
    destruct (firstn_skipn_by_length (Z.to_nat k) (rest st)) as [F1 F2].
    rewrite <- R1 in F1, F2. rewrite <- R2 in F2.
    assert (Hlc : (length chunk <= Z.to_nat k)%nat) by (rewrite R1, firstn_length; lia).
    assert (Hll : (length chunk <= length (rest st))%nat) by (rewrite R1, firstn_length; lia).
    destruct chunk as [|x chunk'].
    + cbn [fst snd].
      assert (E : rest st = []).
      { destruct (rest st) as [|y l]; [reflexivity|].
        destruct (Z.to_nat k) eqn:Ek; [lia|discriminate R1]. }
      rewrite F2, E, firstn_nil, !skipn_nil. split; reflexivity.
    + remember (x :: chunk') as ch eqn:Ech.
      assert (Hc1 : (1 <= length ch)%nat) by (subst ch; cbn [length]; lia).
      assert (Hf1 : (length (rest st1) < f)%nat) by (rewrite F2, skipn_length; lia).
      destruct (IH st1 (n - Z.of_nat (length ch)) Hf1) as [I1 I2].
      destruct (read_loop f st1 (n - Z.of_nat (length ch))) as [more st2].
      cbn [fst snd] in *.
      replace (Z.to_nat (n - Z.of_nat (length ch))) with (Z.to_nat n - length ch)%nat in * by lia.
      split.
      * rewrite I1, F2.
        replace (Z.to_nat n) with (length ch + (Z.to_nat n - length ch))%nat at 2 by lia.
        rewrite firstn_plus, <- F1. reflexivity.
      * rewrite I2, F2, skipn_add. f_equal. lia.
Qed.

Lemma read_from_stream_spec st n :
  fst (read_from_stream st n) = firstn (Z.to_nat n) (rest st) /\
  rest (snd (read_from_stream st n)) = skipn (Z.to_nat n) (rest st).
Proof. apply read_loop_spec. lia. Qed.

(** * _read over _initial_data ++ stream *)

Lemma ns_read_spec im st c : 0 < c ->
  let r := ns_read_with read_from_stream im st c true in
  fst (fst r) = firstn (Z.to_nat c) (im ++ rest st) /\
  snd (fst r) ++ rest (snd r) = skipn (Z.to_nat c) (im ++ rest st).
Proof.
  intros Hc. cbv zeta. unfold ns_read_with.
  destruct (Z.of_nat (length im) =? 0) eqn:E0.
  - assert (im = []) as -> by (destruct im; [reflexivity|cbn [length] in E0; lia]).
    destruct (read_from_stream_spec st c) as [R1 R2].
    destruct (read_from_stream st c) as [d st1]. cbn [fst snd app] in *. split; assumption.
  - destruct (c <=? Z.of_nat (length im)) eqn:E1; cbn [fst snd].
    + split.
      * rewrite firstn_app. replace (Z.to_nat c - length im)%nat with 0%nat by lia.
        cbn [firstn]. now rewrite app_nil_r.
      * rewrite skipn_app. replace (Z.to_nat c - length im)%nat with 0%nat by lia. reflexivity.
    + destruct (read_from_stream_spec st (c - Z.of_nat (length im))) as [R1 R2].
      destruct (read_from_stream st (c - Z.of_nat (length im))) as [d st1]. cbn [fst snd app] in *.
      replace (Z.to_nat (c - Z.of_nat (length im))) with (Z.to_nat c - length im)%nat in * by lia.
      split.
      * rewrite firstn_app, R1. f_equal. symmetry. apply firstn_all2. lia.
      * rewrite skipn_app, R2. rewrite (skipn_all2 im) by lia. reflexivity.
Qed.

Lemma ns_parts_loop_spec c : 0 < c -> forall fuel im st k,
  fst (ns_parts_loop read_from_stream fuel im st c k) =
  numbered k (chop fuel (Z.to_nat c) (im ++ rest st)).
Proof.
  intros Hc. induction fuel as [|f IH]; intros im st k; [reflexivity|].
  cbn [ns_parts_loop chop].
  pose proof (ns_read_spec im st c Hc) as S. cbv zeta in S.
  destruct (ns_read_with read_from_stream im st c true) as [[d im1] st1]. cbn [fst snd] in S.
  destruct S as [S1 S2]. rewrite <- S1, <- S2.
  destruct d as [|x d']; [reflexivity|].
  specialize (IH im1 st1 (k + 1)).
  destruct (ns_parts_loop read_from_stream f im1 st1 c (k + 1)) as [more st2].
  cbn [fst numbered] in *. now rewrite IH.
Qed.

(** The pre-read: _initial_data is the first [thr] bytes, the stream holds the
    rest -- for every short-read script. *)
Lemma ns_preread_spec d scr thr :
  fst (ns_preread (mkStream d scr []) thr) = firstn (Z.to_nat thr) d /\
  rest (snd (ns_preread (mkStream d scr []) thr)) = skipn (Z.to_nat thr) d.
Proof.
  unfold ns_preread, ns_preread_with, ns_read_with. cbn [length Z.of_nat Z.eqb].
  destruct (read_from_stream_spec (mkStream d scr []) thr) as [R1 R2].
  destruct (read_from_stream (mkStream d scr []) thr) as [x st1]. cbn [fst snd rest] in *.
  split; assumption.
Qed.

(** * What "the parts tile the source" means *)

(** [parts] are (part number, bytes) in the order the submission task built
    them: their concatenation is the source, the numbers are 1..n ascending,
    no part is empty, every part but the last has exactly [c] bytes. *)
Definition parts_tile (c : Z) (src : list byte) (parts : list (Z * list byte)) : Prop :=
  concat (map snd parts) = src /\
  map fst parts = zseq 1 (length parts) /\
  Forall nonempty (map snd parts) /\
  all_but_last_len (Z.to_nat c) (map snd parts).

Definition plan_part_bytes (parts : list (Z * chunk)) : list (Z * list byte) :=
  map (fun p => (fst p, chunk_bytes (snd p))) parts.

Lemma numbered_length {B} (l : list B) k : length (numbered k l) = length l.
Proof. rewrite <- (map_length fst), numbered_fst. apply zseq_length. Qed.

Lemma numbered_tile c src (l : list (list byte)) :
  concat l = src -> Forall nonempty l -> all_but_last_len (Z.to_nat c) l ->
  parts_tile c src (numbered 1 l).
Proof.
  intros H1 H2 H3. unfold parts_tile. rewrite numbered_snd, numbered_fst, numbered_length. auto.
Qed.

(** How many pieces: n = num_parts len c covers the list and the last piece is
    not empty. *)
Lemma tile_counts (len : nat) (c : Z) : 0 < c ->
  let n := Z.to_nat (num_parts (Z.of_nat len) c) in
  let C := Z.to_nat c in
  (0 < C)%nat /\ (len <= n * C)%nat /\ (n = 0 \/ (n - 1) * C < len)%nat.
Proof.
  intros Hc n C. unfold num_parts in n.
  pose proof (ceil_div_spec (Z.of_nat len) c ltac:(lia) Hc) as Hs.
  pose proof (ceil_div_nonneg (Z.of_nat len) c ltac:(lia) Hc) as Hn.
  set (nz := ceil_div (Z.of_nat len) c) in *.
  assert (E : Z.of_nat (n * C) = nz * c).
  { subst n C. rewrite Nat2Z.inj_mul, !Z2Nat.id by lia. reflexivity. }
  split; [subst C; lia|]. split; [lia|].
  destruct (Z.eq_dec nz 0) as [Ez|Ez]; [left; subst n; lia|right].
  assert (E2 : Z.of_nat ((n - 1) * C) = (nz - 1) * c).
  { subst n C. rewrite Nat2Z.inj_mul, Nat2Z.inj_sub, !Z2Nat.id by lia. reflexivity. }
  lia.
Qed.

(** * The non-seekable manager *)

Theorem nonseekable_parts_tile_pf d scr thr c : 0 < c ->
  parts_tile c d
    (fst (ns_parts (fst (ns_preread (mkStream d scr []) thr))
                   (snd (ns_preread (mkStream d scr []) thr)) c)).
Proof.
  intros Hc. destruct (ns_preread_spec d scr thr) as [P1 P2].
  destruct (ns_preread (mkStream d scr []) thr) as [im st1]. cbn [fst snd] in *.
  unfold ns_parts, ns_parts_with. rewrite (ns_parts_loop_spec c Hc).
  assert (E : im ++ rest st1 = d) by (rewrite P1, P2; apply firstn_skipn).
  rewrite E.
  assert (Hf : (length d < S (length im + length (rest st1)))%nat).
  { rewrite <- E at 1. rewrite app_length. lia. }
  destruct (chop_spec (Z.to_nat c) ltac:(lia) _ d Hf) as (C1 & C2 & C3).
  now apply numbered_tile.
Qed.

Theorem nonseekable_put_body_exact_pf d scr thr :
  fst (ns_put_body (fst (ns_preread (mkStream d scr []) thr))
                   (snd (ns_preread (mkStream d scr []) thr))) = d.
Proof.
  destruct (ns_preread_spec d scr thr) as [P1 P2].
  destruct (ns_preread (mkStream d scr []) thr) as [im st1]. cbn [fst snd] in *.
  unfold ns_put_body, read_all. cbn [fst]. rewrite P1, P2. apply firstn_skipn.
Qed.

Theorem nonseekable_multipart_iff_pf d scr thr :
  ns_requires_multipart (fst (ns_preread (mkStream d scr []) thr)) thr = true <->
  thr <= Z.of_nat (length d).
Proof.
  destruct (ns_preread_spec d scr thr) as [P1 _]. rewrite P1.
  unfold ns_requires_multipart, is_multipart_preread. rewrite firstn_length.
  destruct (Z.of_nat (Nat.min (Z.to_nat thr) (length d)) <? thr) eqn:E; cbn [negb]; split; intros; try discriminate; try reflexivity; lia.
Qed.

(** Before the repair one raw read decided: a stream of 4 bytes whose first
    read returns 1 byte is sent as a single request although 4 >= threshold 2,
    and a 5-byte stream is cut into parts of 2,1,2 bytes for chunk size 2. *)
Theorem nonseekable_unrepaired_refuted_pf :
  (exists d scr thr, 0 < thr /\ thr <= Z.of_nat (length d) /\
     ns_requires_multipart (fst (ns_preread_unrepaired (mkStream d scr []) thr)) thr = false) /\
  (exists d scr thr c, 0 < thr /\ 0 < c /\
     let im := fst (ns_preread_unrepaired (mkStream d scr []) thr) in
     let st := snd (ns_preread_unrepaired (mkStream d scr []) thr) in
     ns_requires_multipart im thr = true /\
     ~ all_but_last_len (Z.to_nat c) (map snd (fst (ns_parts_unrepaired im st c)))).
Proof.
  split.
  - exists [1; 2; 3; 4], [1], 2. vm_compute. repeat split; discriminate.
  - exists [1; 2; 3; 4; 5], [9; 1; 1], 1, 2. cbv zeta. split; [lia|]. split; [lia|].
    split; [vm_compute; reflexivity|]. vm_compute. intros [_ [H _]]. discriminate H.
Qed.

(** * The seekable manager *)

Lemma chunk_bytes_private d c : (length d <= Z.to_nat c)%nat ->
  chunk_bytes (mk_chunk d 0 c (Z.of_nat (length d)) false) = d.
Proof.
  intros H. unfold chunk_bytes, mk_chunk. cbn [size start_byte file].
  change (Z.to_nat 0) with 0%nat. cbn [skipn].
  replace (Z.to_nat (Z.min (Z.of_nat (length d) - 0) c)) with (length d) by lia.
  apply firstn_all.
Qed.

Lemma sk_parts_loop_spec c : forall n st k,
  fst (sk_parts_loop n c st k) =
  numbered k (map (fun d => mk_chunk d 0 c (Z.of_nat (length d)) false)
                  (pieces (Z.to_nat c) (rest st) n)).
Proof.
  unfold sk_parts_loop. induction n as [|n IH]; intros st k; [reflexivity|].
  cbn [sk_parts_loop_with pieces map numbered].
  destruct (read_from_stream_spec st c) as [R1 R2].
  destruct (read_from_stream st c) as [d st1]. cbn [fst snd] in R1, R2.
  specialize (IH st1 (k + 1)).
  destruct (sk_parts_loop_with read_from_stream n c st1 (k + 1)) as [more st2]. cbn [fst] in *.
  rewrite IH, R1, R2. reflexivity.
Qed.

Lemma pieces_private_bytes c : forall n l,
  map (fun d => chunk_bytes (mk_chunk d 0 c (Z.of_nat (length d)) false))
      (pieces (Z.to_nat c) l n) = pieces (Z.to_nat c) l n.
Proof.
  induction n as [|n IH]; intros l; cbn [pieces map]; [reflexivity|].
  rewrite IH, chunk_bytes_private; [reflexivity|]. rewrite firstn_length. lia.
Qed.

Lemma pieces_tile c l : 0 < c ->
  parts_tile c l (numbered 1 (pieces (Z.to_nat c) l (Z.to_nat (num_parts (Z.of_nat (length l)) c)))).
Proof.
  intros Hc. destruct (tile_counts (length l) c Hc) as (T0 & T1 & T2).
  destruct (pieces_shape (Z.to_nat c) _ T0 l T2) as [S1 S2].
  apply numbered_tile; [now apply pieces_concat_all|exact S1|exact S2].
Qed.

(** For EVERY short-read script of the seekable stream. *)
Theorem seekable_parts_tile_pf data p c scr : 0 < c -> 0 <= p ->
  parts_tile c (skipn (Z.to_nat p) data) (plan_part_bytes (fst (sk_parts data p c scr))).
Proof.
  intros Hc Hp. unfold sk_parts, plan_part_bytes. rewrite sk_parts_loop_spec.
  rewrite numbered_map, map_map, pieces_private_bytes. cbn [sk_stream rest].
  assert (E' : Z.to_nat (num_parts (sk_size data p) c) =
               Z.to_nat (num_parts (Z.of_nat (length (skipn (Z.to_nat p) data))) c)).
  { unfold sk_size. rewrite skipn_length.
    destruct (Z_le_gt_dec p (Z.of_nat (length data))) as [H|H].
    - do 2 f_equal. lia.
    - replace (Z.of_nat (length data - Z.to_nat p)) with 0 by lia.
      assert (num_parts (Z.of_nat (length data) - p) c <= 0) by (unfold num_parts, ceil_div; nia).
      assert (num_parts 0 c = 0) by (unfold num_parts, ceil_div; nia).
      lia. }
  rewrite E'. now apply pieces_tile.
Qed.

(** The seekable single request: the user's stream from its position. *)
Lemma sk_put_body_bytes data p : 0 <= p ->
  chunk_bytes (sk_put_body data p) = skipn (Z.to_nat p) data.
Proof.
  intros Hp. unfold sk_put_body, chunk_bytes, mk_chunk, sk_size. cbn [size start_byte file].
  apply firstn_all2. rewrite skipn_length. lia.
Qed.

(** * The filename manager (and the legacy slicing) *)

Lemma fn_chunk_bytes f c s : 0 < c ->
  chunk_bytes (mk_chunk f (c * Z.of_nat s) c (Z.of_nat (length f)) false) =
  firstn (Z.to_nat c) (skipn (s * Z.to_nat c) f).
Proof.
  intros Hc. unfold chunk_bytes, mk_chunk. cbn [size start_byte file].
  assert (E : Z.to_nat (c * Z.of_nat s) = (s * Z.to_nat c)%nat).
  { rewrite Z2Nat.inj_mul, Nat2Z.id by lia. apply Nat.mul_comm. }
  rewrite E. rewrite <- (firstn_min_length (Z.to_nat c)). f_equal.
  rewrite skipn_length.
  assert (E2 : Z.of_nat (s * Z.to_nat c) = c * Z.of_nat s).
  { rewrite Nat2Z.inj_mul, Z2Nat.id by lia. apply Z.mul_comm. }
  lia.
Qed.

Lemma fn_parts_from f c : 0 < c -> forall m s,
  map (fun i => (i + 1, chunk_bytes (mk_chunk f (c * i) c (Z.of_nat (length f)) false)))
      (zseq (Z.of_nat s) m) =
  numbered (Z.of_nat s + 1) (pieces (Z.to_nat c) (skipn (s * Z.to_nat c) f) m).
Proof.
  intros Hc. induction m as [|m IH]; intros s; cbn [zseq map pieces numbered]; [reflexivity|].
  rewrite (fn_chunk_bytes f c s Hc). f_equal.
  replace (Z.of_nat s + 1) with (Z.of_nat (S s)) by lia. rewrite IH.
  f_equal. rewrite skipn_add. do 2 f_equal. cbn [Nat.mul]. lia.
Qed.

Lemma fn_parts_bytes f c : 0 < c ->
  plan_part_bytes (fn_parts f c) =
  numbered 1 (pieces (Z.to_nat c) f (Z.to_nat (num_parts (Z.of_nat (length f)) c))).
Proof.
  intros Hc. unfold plan_part_bytes, fn_parts, fn_part. rewrite map_map. cbn [fst snd].
  apply (fn_parts_from f c Hc _ 0%nat).
Qed.

Theorem filename_parts_tile_pf f c : 0 < c -> parts_tile c f (plan_part_bytes (fn_parts f c)).
Proof. intros Hc. rewrite fn_parts_bytes by exact Hc. now apply pieces_tile. Qed.

Lemma fn_put_body_bytes f : chunk_bytes (fn_put_body f) = f.
Proof.
  unfold fn_put_body, chunk_bytes, mk_chunk. cbn [size start_byte file].
  change (Z.to_nat 0) with 0%nat. cbn [skipn]. apply firstn_all2. lia.
Qed.

Definition legacy_part_bytes (parts : list (Z * lchunk)) : list (Z * list byte) :=
  map (fun p => (fst p, lchunk_bytes (snd p))) parts.

Lemma legacy_parts_bytes f ps : 0 < ps ->
  legacy_part_bytes (legacy_parts f ps) =
  numbered 1 (pieces (Z.to_nat ps) f (Z.to_nat (num_parts (Z.of_nat (length f)) ps))).
Proof.
  intros Hc. unfold legacy_part_bytes, legacy_parts. rewrite map_map. cbn [fst snd].
  apply (fn_parts_from f ps Hc _ 0%nat).
Qed.

Theorem legacy_parts_tile_pf f ps : 0 < ps ->
  parts_tile ps f (legacy_part_bytes (legacy_parts f ps)).
Proof. intros Hc. rewrite legacy_parts_bytes by exact Hc. now apply pieces_tile. Qed.

(** * Retries do not change the bytes of the last complete send *)

Lemma closed_step_false c o : closed (step_state c o) = false -> closed c = false.
Proof.
  unfold step_state. destruct o as [amt|w wh| | | |]; cbn [step].
  - unfold do_read. destruct (closed c) eqn:E; cbn; congruence.
  - unfold do_seek. destruct (negb _); [cbn; auto|]. destruct (closed c) eqn:E; cbn; congruence.
  - cbn; auto.
  - cbn; auto.
  - cbn; auto.
  - cbn. discriminate.
Qed.

Lemma send_loop_some_open c sizes acc x : send_loop c sizes acc = Some x -> closed c = false.
Proof.
  destruct sizes as [|n r]; [discriminate|]. cbn [send_loop]. unfold do_read.
  destruct (closed c); [discriminate|reflexivity].
Qed.

Theorem final_send_exact c sc d :
  wf c -> Forall (fun n => 0 < n) (ss_sizes sc) ->
  final_send c sc = Some d -> d = chunk_bytes c.
Proof.
  intros Hwf Hpos. unfold final_send.
  destruct (send_loop _ _ _) as [[[c' out] e]|] eqn:Es; [|discriminate]. intros [= <-].
  pose proof (send_loop_some_open _ _ _ _ Es) as Hcl.
  set (c1 := run_state c (ss_history sc ++ [Seek 0 0; Enable])) in *.
  assert (Hwf1 : wf c1) by (apply run_wf; exact Hwf).
  destruct (run_static c (ss_history sc ++ [Seek 0 0; Enable])) as (F1 & F2 & F3). fold c1 in F1, F2, F3.
  assert (Hcb : chunk_bytes c1 = chunk_bytes c).
  { unfold chunk_bytes. now rewrite F1, F2, F3. }
  assert (Har : amount_read c1 = 0).
  { unfold c1 in *. rewrite run_state_app in *. set (c0 := run_state c (ss_history sc)) in *.
    rewrite run_state_cons, run_state_cons in *. change (run_state ?x []) with x in *.
    apply closed_step_false in Hcl. pose proof (closed_step_false _ _ Hcl) as Hcl0.
    rewrite (seek0_state c0 Hcl0). reflexivity. }
  destruct (send_loop_exact (ss_sizes sc) c1 [] c' out e Hwf1 Hcl Hpos) as [E1 _].
  - destruct Hwf1 as (?&?&?&?&?). lia.
  - rewrite Har. reflexivity.
  - exact Es.
  - congruence.
Qed.

(** The bodies of a plan are well-formed chunks. *)
Lemma wrap_data_wf d : wf (wrap_data d).
Proof. unfold wrap_data. apply mk_chunk_wf; lia. Qed.

Lemma fn_put_body_wf f : wf (fn_put_body f).
Proof. unfold fn_put_body. apply mk_chunk_wf; lia. Qed.

Lemma sk_put_body_wf data p : 0 <= p <= Z.of_nat (length data) -> wf (sk_put_body data p).
Proof. intros H. unfold sk_put_body, sk_size. apply mk_chunk_wf; lia. Qed.

(** * The legacy chunk: after seek(0) a complete send is the window *)

Definition l_to_chunk (c : lchunk) : chunk :=
  mkChunk (l_file c) (l_start c + l_pos c) (l_start c) (l_size c) (l_pos c) false false.

Lemma l_send_sim sizes : forall c acc out,
  0 <= l_start c -> 0 <= l_pos c <= l_size c ->
  l_start c + l_size c <= Z.of_nat (length (l_file c)) ->
  Forall (fun n => 0 < n) sizes ->
  l_send_loop c sizes acc = Some out ->
  exists c' e, send_loop (l_to_chunk c) sizes acc = Some (c', out, e).
Proof.
  induction sizes as [|n sizes IH]; intros c acc out Hs Hp Hb Hpos Hrun; [discriminate|].
  inversion Hpos as [|? ? Hn Hrest]; subst.
  cbn [l_send_loop send_loop] in *.
  assert (Hwf : wf (l_to_chunk c)) by (unfold wf, l_to_chunk; cbn; lia).
  rewrite (do_read_open (l_to_chunk c) (Some n) eq_refl).
  assert (Htr : to_read (l_to_chunk c) (Some n) = Z.min (l_size c - l_pos c) n)
    by (unfold to_read, l_to_chunk; cbn; lia).
  pose proof (read_length (l_to_chunk c) (Some n) Hwf ltac:(cbn; lia)) as Hlen.
  rewrite Htr in *. unfold l_read in Hrun.
  change (file (l_to_chunk c)) with (l_file c) in *.
  change (fpos (l_to_chunk c)) with (l_start c + l_pos c) in *.
  set (d := file_read (l_file c) (l_start c + l_pos c) (Z.min (l_size c - l_pos c) n)) in *.
  destruct d as [|x d'] eqn:Ed.
  - injection Hrun as <-. eauto.
  - rewrite <- Ed in *.
    set (c1 := mkLChunk (l_file c) (l_start c) (l_size c) (l_pos c + Z.of_nat (length d))) in *.
    assert (H1 : 0 <= l_start c1) by exact Hs.
    assert (H2 : 0 <= l_pos c1 <= l_size c1) by (subst c1; cbn [l_pos l_size]; lia).
    assert (H3 : l_start c1 + l_size c1 <= Z.of_nat (length (l_file c1))) by exact Hb.
    destruct (IH c1 (acc ++ d) out H1 H2 H3 Hrest Hrun) as (c' & e & Hr).
    assert (Eq : set_pos (l_to_chunk c) (l_start c + l_pos c + Z.of_nat (length d))
                   (amount_read (l_to_chunk c) + Z.of_nat (length d)) = l_to_chunk c1).
    { unfold set_pos, l_to_chunk, c1. cbn. f_equal. lia. }
    rewrite Eq, Hr. eauto.
Qed.

Theorem legacy_send_exact_pf c where_ sizes out :
  0 <= l_start c -> 0 <= l_size c -> l_start c + l_size c <= Z.of_nat (length (l_file c)) ->
  Forall (fun n => 0 < n) sizes ->
  l_send_loop (l_seek (l_seek c where_) 0) sizes [] = Some out -> out = lchunk_bytes c.
Proof.
  intros Hs Hz Hb Hpos Hrun.
  set (c0 := l_seek (l_seek c where_) 0) in *.
  destruct (l_send_sim sizes c0 [] out) as (c' & e & Hr); try assumption; try (cbn; lia).
  assert (Hwf : wf (l_to_chunk c0)) by (unfold wf, l_to_chunk; cbn; lia).
  destruct (send_loop_exact sizes (l_to_chunk c0) [] c' out e Hwf eq_refl Hpos) as [E _].
  - cbn. lia.
  - reflexivity.
  - exact Hr.
  - rewrite E. reflexivity.
Qed.

Lemma mk_lchunk_bounds f start rq : 0 <= start <= Z.of_nat (length f) -> 0 <= rq ->
  0 <= l_start (mk_lchunk f start rq) /\ 0 <= l_size (mk_lchunk f start rq) /\
  l_start (mk_lchunk f start rq) + l_size (mk_lchunk f start rq)
    <= Z.of_nat (length (l_file (mk_lchunk f start rq))).
Proof. intros; unfold mk_lchunk; cbn; lia. Qed.

(** * Part tasks in any order, then complete *)

Definition meta_of (alg : bool) (etag pn : Z) : part_meta :=
  mkPartMeta etag pn (if alg then Some (checksum_of etag) else None).

(** Task [t]'s recorded result is the answer to its own UploadPart, and the
    service holds exactly its bytes under its number. *)
Definition good (alg : bool) (uid : Z) (s : s3) (res : list (Z * part_meta)) (t : Z * bytes) : Prop :=
  exists etag, zlookup (fst t) res = Some (meta_of alg etag (fst t)) /\
               s3_part s uid (fst t) = Some (mkPartRec etag (snd t)).

Lemma upload_part_effect s uid pn data s1 etag :
  s3_upload_part s uid pn data = Some (s1, etag) ->
  exists m, zlookup uid (s_mpus s) = Some m /\ m_open m = true /\
    zlookup uid (s_mpus s1) =
      Some (mkMpu (m_key m) ((pn, mkPartRec etag data) :: m_parts m) true) /\
    s_objects s1 = s_objects s /\ s_completes s1 = s_completes s.
Proof.
  unfold s3_upload_part. destruct (zlookup uid (s_mpus s)) as [m|] eqn:E; [|discriminate].
  destruct (m_open m) eqn:Eo; [|discriminate]. intros [= <- <-].
  exists m. cbn [s_mpus s_objects s_completes zlookup]. rewrite Z.eqb_refl. auto.
Qed.

Lemma exec_parts_spec alg uid : forall order s res s' res' done,
  exec_parts alg s uid order res = Some (s', res') ->
  NoDup (map fst order) ->
  (forall t, In t done -> ~ In (fst t) (map fst order)) ->
  (forall t, In t done -> good alg uid s res t) ->
  forall t, In t done \/ In t order -> good alg uid s' res' t.
Proof.
  induction order as [|[pn data] r IH]; intros s res s' res' done Hrun Hnd Hdis Hgood t Ht.
  - injection Hrun as <- <-. destruct Ht as [Ht|[]]. now apply Hgood.
  - cbn [exec_parts] in Hrun.
    destruct (s3_upload_part s uid pn data) as [[s1 etag]|] eqn:Eu; [|discriminate].
    destruct (upload_part_effect _ _ _ _ _ _ Eu) as (m & Em & Eo & Em1 & _ & _).
    cbn [map fst] in Hnd. inversion Hnd as [|? ? Hnotin Hnd']; subst.
    apply (IH s1 _ s' res' ((pn, data) :: done) Hrun Hnd').
    + intros t0 [<-|Ht0]; [exact Hnotin|]. intros Hin. apply (Hdis t0 Ht0). cbn [map fst]. now right.
    + intros t0 [<-|Ht0].
      * exists etag. cbn [fst snd zlookup]. rewrite Z.eqb_refl. split; [reflexivity|].
        unfold s3_part. rewrite Em1. cbn [m_parts zlookup]. now rewrite Z.eqb_refl.
      * destruct (Hgood t0 Ht0) as (e0 & G1 & G2).
        assert (Hne : fst t0 <> pn).
        { intros E. apply (Hdis t0 Ht0). cbn [map fst]. now left. }
        exists e0. cbn [zlookup]. apply Z.eqb_neq in Hne. rewrite Hne. split; [exact G1|].
        unfold s3_part in *. rewrite Em1. rewrite Em in G2. cbn [m_parts zlookup]. now rewrite Hne.
    + destruct Ht as [Ht|[<-|Ht]]; [left; now right|left; now left|now right].
Qed.

Lemma exec_parts_frame alg uid : forall order s res s' res' m,
  exec_parts alg s uid order res = Some (s', res') ->
  zlookup uid (s_mpus s) = Some m -> m_open m = true ->
  s_objects s' = s_objects s /\ s_completes s' = s_completes s /\
  exists m', zlookup uid (s_mpus s') = Some m' /\ m_open m' = true /\ m_key m' = m_key m.
Proof.
  induction order as [|[pn data] r IH]; intros s res s' res' m Hrun Em Eo.
  - injection Hrun as <- <-. split; [reflexivity|]. split; [reflexivity|]. exists m. auto.
  - cbn [exec_parts] in Hrun.
    destruct (s3_upload_part s uid pn data) as [[s1 etag]|] eqn:Eu; [|discriminate].
    destruct (upload_part_effect _ _ _ _ _ _ Eu) as (m0 & Em0 & Eo0 & Em1 & Ob & Cp).
    rewrite Em in Em0. injection Em0 as <-.
    destruct (IH s1 _ s' res' _ Hrun Em1 eq_refl) as (A & B & m' & C1 & C2 & C3).
    rewrite A, B, Ob, Cp. split; [reflexivity|]. split; [reflexivity|]. exists m'. auto.
Qed.

(** Task._get_all_main_kwargs: one result per future, in the list's order. *)
Lemma collect_spec res : forall tasks parts,
  collect tasks res = Some parts ->
  Forall2 (fun t p => zlookup (fst t) res = Some p) tasks parts.
Proof.
  induction tasks as [|[pn d] r IH]; intros parts H; cbn [collect] in H.
  - injection H as <-. constructor.
  - destruct (zlookup pn res) as [m|] eqn:E; [|discriminate].
    destruct (collect r res) as [ms|]; [|discriminate]. injection H as <-.
    constructor; [exact E|]. now apply IH.
Qed.

(** What [complete_lists_parts_in_order] says about one (task, listed part). *)
Definition listed (alg : bool) (s : s3) (uid : Z) (t : Z * bytes) (p : part_meta) : Prop :=
  exists etag, p = meta_of alg etag (fst t) /\
               s3_part s uid (fst t) = Some (mkPartRec etag (snd t)).

Lemma asc_from_zseq : forall n k p, p < k -> asc_from p (zseq k n) = true.
Proof.
  induction n as [|n IH]; intros k p H; cbn [zseq asc_from]; [reflexivity|].
  rewrite IH by lia. apply andb_true_intro. split; [lia|reflexivity].
Qed.

Lemma listed_complete_ok alg s uid m : zlookup uid (s_mpus s) = Some m ->
  forall tasks parts, Forall2 (listed alg s uid) tasks parts ->
  map pm_num parts = map fst tasks /\
  forallb (part_listed_ok m) parts = true /\
  map (part_bytes m) parts = map snd tasks.
Proof.
  intros Em. induction 1 as [|t p tasks parts (etag & -> & Hp) _ IH]; [repeat split|].
  destruct IH as (I1 & I2 & I3). unfold s3_part in Hp. rewrite Em in Hp.
  cbn [map forallb]. rewrite I1, I2, I3.
  unfold part_listed_ok, part_bytes, meta_of. cbn [pm_num pm_etag pm_cks]. rewrite Hp.
  cbn [pr_etag pr_data]. rewrite Z.eqb_refl.
  repeat split. destruct alg; [now rewrite Z.eqb_refl|reflexivity].
Qed.

Theorem run_multipart_exact min_part alg s key tasks order s' uid ok parts :
  map fst tasks = zseq 1 (length tasks) -> tasks <> [] ->
  sizes_ok min_part (map snd tasks) = true ->
  Permutation order tasks ->
  run_multipart min_part alg s key tasks order = Some (s', uid, ok, parts) ->
  ok = true /\
  s3_object s' key = Some (concat (map snd tasks)) /\
  Forall2 (listed alg s' uid) tasks parts /\
  map pm_num parts = zseq 1 (length tasks) /\
  s_completes s' = mkCompleteRec uid parts true :: s_completes s.
Proof.
  intros Hnum Hne Hsz Hperm. unfold run_multipart, s3_create.
  set (uid0 := s_next_upload s + 1).
  set (s1 := mkS3 _ _ _ _ _).
  destruct (exec_parts alg s1 uid0 order []) as [[s2 res]|] eqn:Ex; [|discriminate].
  destruct (collect tasks res) as [parts0|] eqn:Ec; [|discriminate].
  assert (Em1 : zlookup uid0 (s_mpus s1) = Some (mkMpu key [] true)).
  { unfold s1. cbn [s_mpus zlookup]. now rewrite Z.eqb_refl. }
  destruct (exec_parts_frame alg uid0 order s1 [] s2 res _ Ex Em1 eq_refl)
    as (Fo & Fc & m' & Em' & Eo' & Ek'). cbn [m_key] in Ek'.
  assert (Hnd : NoDup (map fst order)).
  { apply (Permutation_NoDup (l := map fst tasks)).
    - apply Permutation_map. now apply Permutation_sym.
    - rewrite Hnum. clear. generalize 1. induction (length tasks) as [|n IH]; intros k; cbn [zseq].
      + constructor.
      + constructor; [|apply IH]. rewrite zseq_In. lia. }
  assert (Hgood : forall t, In t tasks -> good alg uid0 s2 res t).
  { intros t Ht. apply (exec_parts_spec alg uid0 order s1 [] s2 res [] Ex Hnd); try (intros ? []).
    right. apply (Permutation_in t (Permutation_sym Hperm) Ht). }
  assert (Hl : Forall2 (listed alg s2 uid0) tasks parts0).
  { pose proof (collect_spec res tasks parts0 Ec) as Hc.
    clear - Hc Hgood. induction Hc as [|t p tl pl Hp _ IH]; [constructor|].
    constructor.
    - destruct (Hgood t (or_introl eq_refl)) as (etag & G1 & G2).
      exists etag. split; [congruence|exact G2].
    - apply IH. intros t0 Ht0. apply Hgood. now right. }
  destruct (listed_complete_ok alg s2 uid0 m' Em' tasks parts0 Hl) as (L1 & L2 & L3).
  unfold s3_complete. rewrite Em'.
  assert (Hok : complete_ok min_part m' parts0 = true).
  { unfold complete_ok. rewrite Eo', L1, L2, L3, Hsz, Hnum, asc_from_zseq by lia.
    destruct parts0 as [|p0 pr]; [|reflexivity].
    inversion Hl; subst. congruence. }
  rewrite Hok. intros [= <- <- <- <-].
  split; [reflexivity|]. split.
  { unfold s3_object. cbn [s_objects zlookup]. rewrite Ek', Z.eqb_refl, L3. reflexivity. }
  split.
  { clear - Hl Em'. induction Hl as [|t p tl pl (etag & E1 & E2) _ IH]; constructor; [|exact IH].
    exists etag. split; [exact E1|]. unfold s3_part in *. cbn [s_mpus zlookup]. rewrite Z.eqb_refl.
    rewrite Em' in E2. cbn [m_parts]. exact E2. }
  split; [now rewrite L1|].
  cbn [s_completes]. rewrite Fc. reflexivity.
Qed.

(** A schedule given as a permutation of the task indices. *)
Lemma reorder_identity {B} (d : B) (l : list B) : reorder d l (seq 0 (length l)) = l.
Proof.
  unfold reorder. apply nth_ext with (d := d) (d' := d).
  - now rewrite map_length, seq_length.
  - intros n Hn. rewrite map_length, seq_length in Hn.
    rewrite (nth_indep _ d (nth (nth n (seq 0 (length l)) 0%nat) l d)) by (now rewrite map_length, seq_length).
    rewrite (map_nth (fun i => nth i l d)). now rewrite seq_nth.
Qed.

Lemma reorder_permutation {B} (d : B) (l : list B) order :
  Permutation order (seq 0 (length l)) -> Permutation (reorder d l order) l.
Proof.
  intros H. rewrite <- (reorder_identity d l) at 2. unfold reorder. now apply Permutation_map.
Qed.

(** * Pieces are C14's cut slices *)

Lemma pieces_eq_cuts {A} (l : list A) (P : nat) : forall m s,
  pieces P (skipn (s * P) l) m =
  cuts_slices l (Nat.min (s * P) (length l)) (plan_cuts P (length l) (S s) m).
Proof.
  induction m as [|m IH]; intros s; cbn [pieces plan_cuts cuts_slices]; [reflexivity|].
  f_equal.
  - unfold slice. destruct (Nat.le_gt_cases (s * P) (length l)) as [H|H].
    + rewrite (Nat.min_l (s * P)) by exact H.
      rewrite <- (firstn_min_length P). f_equal. rewrite skipn_length. cbn [Nat.mul]. lia.
    + rewrite (Nat.min_r (s * P)) by lia. rewrite !skipn_all2 by lia. now rewrite !firstn_nil.
  - rewrite skipn_add. replace (s * P + P)%nat with (S s * P)%nat by (cbn [Nat.mul]; lia).
    apply IH.
Qed.

(** The concatenation, through C14's tiling theorem. *)
Lemma pieces_concat_via_cuts {A} (l : list A) (P n : nat) :
  (0 < P)%nat -> (length l <= n * P)%nat -> concat (pieces P l n) = l.
Proof.
  intros HP Hn. pose proof (pieces_eq_cuts l P n 0) as E. cbn [Nat.mul skipn Nat.min] in E.
  rewrite E. now apply plan_tiles_bytes.
Qed.

Lemma pieces_from_zseq (f : list byte) (P : nat) (body : Z -> list byte) (bound : nat) :
  (forall s, (s < bound)%nat -> body (Z.of_nat s) = firstn P (skipn (s * P) f)) ->
  forall m s, (s + m <= bound)%nat ->
  map (fun i => (i + 1, body i)) (zseq (Z.of_nat s) m) =
  numbered (Z.of_nat s + 1) (pieces P (skipn (s * P) f) m).
Proof.
  intros Hb. induction m as [|m IH]; intros s Hs; cbn [zseq map pieces numbered]; [reflexivity|].
  rewrite (Hb s) by lia. f_equal.
  replace (Z.of_nat s + 1) with (Z.of_nat (S s)) by lia. rewrite IH by lia.
  f_equal. rewrite skipn_add. do 2 f_equal. cbn [Nat.mul]. lia.
Qed.

(** * Copies: the CopySourceRange slices *)

(** One planned range denotes one piece (intervals from C14's lemmas
    [range_total_same] and [part_interval_eq]). *)
Lemma range_bytes_piece (o : bytes) ps (s : nat) : 0 < ps ->
  let L := Z.of_nat (length o) in
  Z.of_nat s < num_parts L ps ->
  range_bytes o (range_param ps (Z.of_nat s) (num_parts L ps) (Some L)) =
  firstn (Z.to_nat ps) (skipn (s * Z.to_nat ps) o).
Proof.
  intros Hp L Hs. unfold range_bytes. fold L.
  assert (Hi : 0 <= Z.of_nat s < num_parts L ps) by lia.
  rewrite (range_total_same L ps (Z.of_nat s) ltac:(lia) Hp Hi).
  pose proof (part_interval_eq L ps (Z.of_nat s) ltac:(lia) Hp Hi) as E.
  unfold part_interval in E. rewrite E.
  pose proof (part_interval_nonempty L ps (Z.of_nat s) ltac:(lia) Hp Hi) as Hne.
  assert (E1 : Z.to_nat (Z.of_nat s * ps) = (s * Z.to_nat ps)%nat).
  { rewrite Z2Nat.inj_mul, Nat2Z.id by lia. reflexivity. }
  assert (E2 : Z.of_nat (s * Z.to_nat ps) = Z.of_nat s * ps).
  { rewrite Nat2Z.inj_mul, Z2Nat.id by lia. reflexivity. }
  rewrite E1. rewrite <- (firstn_min_length (Z.to_nat ps)). f_equal.
  rewrite skipn_length. subst L. lia.
Qed.

Definition copy_tasks (cplan : list (Z * (Z * option Z) * Z)) : list (Z * (Z * option Z)) :=
  map (fun p => (fst (fst p), snd (fst p))) cplan.

Definition copy_task_bytes (o : bytes) (tasks : list (Z * (Z * option Z))) : list (Z * bytes) :=
  map (fun t => (fst t, range_bytes o (snd t))) tasks.

Theorem copy_ranges_tile_pf mn mx mp (o : bytes) cfg cplan :
  0 < mn -> mn <= mx -> 1 <= mp -> 0 < cfg ->
  copy_plan_with mn mx mp (Z.of_nat (length o)) cfg = Some cplan ->
  exists c, adjust_chunksize_with mn mx mp cfg (Some (Z.of_nat (length o))) = Some c /\
            mn <= c <= mx /\
            parts_tile c o (copy_task_bytes o (copy_tasks cplan)).
Proof.
  intros Hmn Hmx Hmp Hcfg. unfold copy_plan_with.
  destruct (adjust_chunksize_with mn mx mp cfg (Some (Z.of_nat (length o)))) as [c|] eqn:Ea; [|discriminate].
  intros [= <-]. exists c. split; [reflexivity|].
  pose proof (adjust_with_in_limits mn mx mp Hmx cfg _ c Ea) as Hin. split; [exact Hin|].
  assert (Hc : 0 < c) by lia.
  unfold copy_task_bytes, copy_tasks. rewrite !map_map. cbn [fst snd].
  set (L := Z.of_nat (length o)). set (n := Z.to_nat (num_parts L c)).
  pose proof (pieces_from_zseq o (Z.to_nat c)
                (fun i => range_bytes o (range_param c i (num_parts L c) (Some L))) n) as Hpz.
  cbv beta in Hpz.
  assert (Hb : forall s : nat, (s < n)%nat ->
            range_bytes o (range_param c (Z.of_nat s) (num_parts L c) (Some L)) =
            firstn (Z.to_nat c) (skipn (s * Z.to_nat c) o)).
  { intros s Hs. apply range_bytes_piece; [exact Hc|]. subst n. fold L. lia. }
  assert (E : map (fun x : Z => (x + 1, range_bytes o (range_param c x (num_parts L c) (Some L))))
                  (zseq 0 n) = numbered 1 (pieces (Z.to_nat c) o n)).
  { apply (Hpz Hb n 0%nat). lia. }
  rewrite E. subst n L. now apply pieces_tile.
Qed.

Lemma exec_copy_as_parts alg uid src o : forall order s res,
  s3_object s src = Some o ->
  exec_copy_parts alg s uid src order res =
  exec_parts alg s uid (copy_task_bytes o order) res.
Proof.
  induction order as [|[pn rg] r IH]; intros s res Ho; [reflexivity|].
  cbn [exec_copy_parts copy_task_bytes map exec_parts fst snd].
  unfold s3_upload_part_copy. rewrite Ho.
  destruct (s3_upload_part s uid pn (range_bytes o rg)) as [[s1 etag]|] eqn:Eu; [|reflexivity].
  destruct (upload_part_effect _ _ _ _ _ _ Eu) as (m & _ & _ & _ & Ob & _).
  apply IH. unfold s3_object in *. now rewrite Ob.
Qed.

Lemma collect_keys_eq res : forall (l : list (Z * bytes)), collect_keys (map fst l) res = collect l res.
Proof. induction l as [|[pn d] r IH]; cbn [map fst collect_keys collect]; [reflexivity|]. now rewrite IH. Qed.

Lemma reorder_map {B C} (g : B -> C) (d : B) (l : list B) order :
  reorder (g d) (map g l) order = map g (reorder d l order).
Proof. unfold reorder. rewrite map_map. apply map_ext. intros i. apply map_nth. Qed.

(** * Sizes *)

Lemma abl_sizes_ok (C : nat) (min_part : Z) : min_part <= Z.of_nat C -> forall l : list bytes,
  all_but_last_len C l -> sizes_ok min_part l = true.
Proof.
  intros Hm. induction l as [|x r IH]; intros H; [reflexivity|].
  destruct r as [|y r']; [reflexivity|].
  cbn [all_but_last_len] in H. destruct H as [H1 H2].
  change (sizes_ok min_part (x :: y :: r')) with
    ((min_part <=? Z.of_nat (length x)) && sizes_ok min_part (y :: r')).
  rewrite (IH H2). apply andb_true_intro. split; [lia|reflexivity].
Qed.

(** * From request scripts to the bytes the service receives *)

Definition scripts_ok (scripts : list send_script) : Prop :=
  Forall (fun sc => Forall (fun n => 0 < n) (ss_sizes sc)) scripts.

Lemma plan_tasks_exact : forall chunks scripts tasks,
  Forall (fun p => wf (snd p)) chunks -> scripts_ok scripts ->
  plan_tasks chunks scripts = Some tasks -> tasks = plan_part_bytes chunks.
Proof.
  induction chunks as [|[pn c] pr IH]; intros scripts tasks Hwf Hsc H.
  - destruct scripts; [|discriminate]. injection H as <-. reflexivity.
  - destruct scripts as [|sc sr]; [discriminate|]. cbn [plan_tasks] in H.
    inversion Hwf as [|? ? W1 W2]; subst. inversion Hsc as [|? ? S1 S2]; subst.
    destruct (final_send c sc) as [d|] eqn:Ef; [|discriminate].
    destruct (plan_tasks pr sr) as [r|] eqn:Er; [|discriminate]. injection H as <-.
    cbn [plan_part_bytes map fst snd]. rewrite (final_send_exact c sc d W1 S1 Ef).
    f_equal. now apply IH with (scripts := sr).
Qed.

Lemma plan_part_bytes_length chunks : length (plan_part_bytes chunks) = length chunks.
Proof. apply map_length. Qed.

(** The heart of C01 for a multipart plan whose bodies tile the source. *)
Theorem run_upload_parts_exact min_part alg s key chunks scripts order c src s' ok parts :
  Forall (fun p => wf (snd p)) chunks ->
  parts_tile c src (plan_part_bytes chunks) -> src <> [] ->
  0 < c -> min_part <= c ->
  scripts_ok scripts ->
  Permutation order (seq 0 (length chunks)) ->
  run_upload min_part alg s key (PlanParts chunks) scripts order = Some (s', ok, parts) ->
  ok = true /\ s3_object s' key = Some src /\
  map pm_num parts = zseq 1 (length chunks) /\
  exists uid, s_completes s' = mkCompleteRec uid parts true :: s_completes s /\
              Forall2 (listed alg s' uid) (plan_part_bytes chunks) parts.
Proof.
  intros Hwf (T1 & T2 & T3 & T4) Hsrc Hc Hmin Hsc Hperm. cbn [run_upload].
  destruct (plan_tasks chunks scripts) as [tasks|] eqn:Et; [|discriminate].
  pose proof (plan_tasks_exact chunks scripts tasks Hwf Hsc Et) as ->.
  remember (plan_part_bytes chunks) as tasks eqn:Etasks.
  destruct (run_multipart min_part alg s key tasks (reorder (0, []) tasks order))
    as [[[[s1 uid] ok1] ps]|] eqn:Er; [|discriminate].
  intros [= <- <- <-].
  assert (Hne : tasks <> []).
  { intros E. rewrite E in T1. cbn in T1. congruence. }
  assert (Hlen : length tasks = length chunks) by (subst tasks; apply plan_part_bytes_length).
  destruct (run_multipart_exact min_part alg s key tasks (reorder (0, []) tasks order) s1 uid ok1 ps T2 Hne)
    as (R1 & R2 & R3 & R4 & R5).
  - apply (abl_sizes_ok (Z.to_nat c)); [lia|exact T4].
  - apply reorder_permutation. assert (Hp2 : Permutation order (seq 0 (length tasks))) by (rewrite Hlen; exact Hperm). exact Hp2.
  - exact Er.
  - split; [exact R1|]. split; [rewrite <- T1; exact R2|]. split; [rewrite <- Hlen; exact R4|].
    exists uid. split; [exact R5|exact R3].
Qed.

Theorem run_upload_put_exact min_part alg s key body scripts order s' ok parts :
  wf body -> scripts_ok scripts ->
  run_upload min_part alg s key (PlanPut body) scripts order = Some (s', ok, parts) ->
  ok = true /\ s3_object s' key = Some (chunk_bytes body) /\ parts = [] /\
  s_completes s' = s_completes s.
Proof.
  intros Hwf Hsc. cbn [run_upload]. destruct scripts as [|sc [|sc2 r]]; try discriminate.
  destruct (final_send body sc) as [d|] eqn:Ef; [|discriminate]. intros [= <- <- <-].
  inversion Hsc as [|? ? S1 _]; subst.
  rewrite (final_send_exact body sc d Hwf S1 Ef).
  unfold s3_object, s3_put. cbn [s_objects s_completes zlookup]. rewrite Z.eqb_refl. auto.
Qed.

(** * The plans of the three source kinds are sound *)

(** Seekable streams: positioned inside the data. *)
Definition src_ok (src : source) : Prop :=
  match src with
  | SrcPath _ => True
  | SrcSeekable d p scr => 0 <= p <= Z.of_nat (length d)
  | SrcStream _ _ => True
  end.

Lemma Forall_numbered {B} (P : B -> Prop) (l : list B) : forall k,
  Forall P l -> Forall (fun p => P (snd p)) (numbered k l).
Proof. induction l as [|x r IH]; intros k H; cbn [numbered]; inversion H; subst; constructor; auto. Qed.

Lemma wrap_parts_bytes (l : list (Z * list byte)) : plan_part_bytes (wrap_parts l) = l.
Proof.
  unfold plan_part_bytes, wrap_parts. rewrite map_map. cbn [fst snd].
  induction l as [|[k d] r IH]; cbn [map fst snd]; [reflexivity|]. rewrite IH. f_equal. f_equal.
  unfold wrap_data. apply chunk_bytes_private. lia.
Qed.

Lemma wrap_parts_wf (l : list (Z * list byte)) : Forall (fun p => wf (snd p)) (wrap_parts l).
Proof.
  unfold wrap_parts. apply Forall_forall. intros p Hp. apply in_map_iff in Hp as (q & <- & _).
  cbn [snd]. apply wrap_data_wf.
Qed.

Lemma fn_parts_wf f c : 0 < c -> Forall (fun p => wf (snd p)) (fn_parts f c).
Proof.
  intros Hc. unfold fn_parts. apply Forall_forall. intros p Hp.
  apply in_map_iff in Hp as (i & <- & Hi). apply zseq_In in Hi. unfold fn_part. cbn [snd].
  pose proof (ceil_div_spec (Z.of_nat (length f)) c ltac:(lia) Hc) as Hs.
  pose proof (ceil_div_nonneg (Z.of_nat (length f)) c ltac:(lia) Hc) as Hn.
  unfold num_parts in Hi. rewrite Z2Nat.id in Hi by lia.
  apply mk_chunk_wf; try lia. nia.
Qed.

Lemma sk_parts_wf data p c scr : 0 < c -> Forall (fun q => wf (snd q)) (fst (sk_parts data p c scr)).
Proof.
  intros Hc. unfold sk_parts. rewrite sk_parts_loop_spec.
  apply Forall_numbered. apply Forall_forall. intros ch Hch.
  apply in_map_iff in Hch as (d & <- & _). apply mk_chunk_wf; lia.
Qed.

Theorem upload_plan_sound mn mx mp thr cfg src pl c reads :
  0 < mn -> mn <= mx -> 1 <= mp -> 0 < thr -> 0 < cfg -> src_ok src ->
  upload_plan_src mn mx mp thr cfg src = Some (pl, c, reads) ->
  match pl with
  | PlanPut body =>
      wf body /\ chunk_bytes body = source_bytes src /\
      Z.of_nat (length (source_bytes src)) < thr
  | PlanParts chunks =>
      Forall (fun p => wf (snd p)) chunks /\
      parts_tile c (source_bytes src) (plan_part_bytes chunks) /\
      thr <= Z.of_nat (length (source_bytes src)) /\ mn <= c <= mx
  end.
Proof.
  intros Hmn Hmx Hmp Hthr Hcfg Hok. destruct src as [f|d p scr|d scr]; cbn [upload_plan_src source_bytes].
  - (* path *)
    unfold is_multipart. destruct (thr <=? Z.of_nat (length f)) eqn:Em.
    + destruct (adjust_chunksize_with mn mx mp cfg (Some (Z.of_nat (length f)))) as [c'|] eqn:Ea; [|discriminate].
      intros [= <- <- <-]. pose proof (adjust_with_in_limits mn mx mp Hmx cfg _ c' Ea) as Hin.
      split; [apply fn_parts_wf; lia|]. split; [apply filename_parts_tile_pf; lia|]. split; [lia|exact Hin].
    + intros [= <- <- <-]. split; [apply fn_put_body_wf|]. split; [apply fn_put_body_bytes|lia].
  - (* seekable *)
    cbn [src_ok] in Hok. pose proof Hok as Hp.
    assert (Hlen : Z.of_nat (length (skipn (Z.to_nat p) d)) = sk_size d p).
    { unfold sk_size. rewrite skipn_length. lia. }
    unfold is_multipart. destruct (thr <=? sk_size d p) eqn:Em.
    + destruct (adjust_chunksize_with mn mx mp cfg (Some (sk_size d p))) as [c'|] eqn:Ea; [|discriminate].
      pose proof (adjust_with_in_limits mn mx mp Hmx cfg _ c' Ea) as Hin.
      pose proof (sk_parts_wf d p c' scr ltac:(lia)) as W.
      pose proof (seekable_parts_tile_pf d p c' scr ltac:(lia) ltac:(lia)) as T.
      destruct (sk_parts d p c' scr) as [parts st]. cbn [fst] in *. intros [= <- <- <-].
      split; [exact W|]. split; [exact T|]. split; [lia|exact Hin].
    + intros [= <- <- <-]. split; [apply sk_put_body_wf; exact Hp|].
      split; [apply sk_put_body_bytes; lia|lia].
  - (* non-seekable stream *)
    pose proof (nonseekable_multipart_iff_pf d scr thr) as Hiff.
    pose proof (nonseekable_put_body_exact_pf d scr thr) as Hput.
    destruct (ns_preread (mkStream d scr []) thr) as [im st1] eqn:Ep. cbn [fst snd] in *.
    destruct (ns_requires_multipart im thr) eqn:Em.
    + unfold adjust_chunksize_with.
      pose proof (nonseekable_parts_tile_pf d scr thr (adjust_limits cfg mn mx)
                    ltac:(pose proof (adjust_limits_in_range cfg mn mx Hmx); lia)) as T.
      rewrite Ep in T. cbn [fst snd] in T.
      destruct (ns_parts im st1 (adjust_limits cfg mn mx)) as [parts st2]. cbn [fst] in T.
      intros [= <- <- <-]. split; [apply wrap_parts_wf|]. rewrite wrap_parts_bytes.
      split; [exact T|]. split; [now apply Hiff|]. now apply adjust_limits_in_range.
    + destruct (ns_put_body im st1) as [d1 st2]. cbn [fst] in Hput. intros [= <- <- <-].
      split; [apply wrap_data_wf|]. split.
      * unfold wrap_data. rewrite chunk_bytes_private by lia. exact Hput.
      * destruct (Z_lt_le_dec (Z.of_nat (length d)) thr) as [H|H]; [exact H|].
        apply Hiff in H. congruence.
Qed.

(** * C01 for uploads *)

Theorem upload_exact_pf mn mx mp thr cfg alg src s key pl c reads scripts order s' ok parts :
  0 < mn -> mn <= mx -> 1 <= mp -> 0 < thr -> 0 < cfg -> src_ok src ->
  upload_plan_src mn mx mp thr cfg src = Some (pl, c, reads) ->
  scripts_ok scripts ->
  Permutation order (seq 0 (plan_len pl)) ->
  run_upload mn alg s key pl scripts order = Some (s', ok, parts) ->
  ok = true /\ s3_object s' key = Some (source_bytes src) /\
  match pl with
  | PlanPut _ =>
      Z.of_nat (length (source_bytes src)) < thr /\ parts = [] /\
      s_completes s' = s_completes s
  | PlanParts chunks =>
      thr <= Z.of_nat (length (source_bytes src)) /\
      parts_tile c (source_bytes src) (plan_part_bytes chunks) /\
      map pm_num parts = zseq 1 (length chunks) /\
      exists uid, s_completes s' = mkCompleteRec uid parts true :: s_completes s /\
                  Forall2 (listed alg s' uid) (plan_part_bytes chunks) parts
  end.
Proof.
  intros Hmn Hmx Hmp Hthr Hcfg Hok Hplan Hsc Hperm Hrun.
  pose proof (upload_plan_sound mn mx mp thr cfg src pl c reads Hmn Hmx Hmp Hthr Hcfg Hok Hplan) as S.
  destruct pl as [body|chunks].
  - destruct S as (W & B & L).
    destruct (run_upload_put_exact mn alg s key body scripts order s' ok parts W Hsc Hrun) as (R1 & R2 & R3 & R4).
    rewrite B in R2. auto.
  - destruct S as (W & T & L & Hin).
    assert (Hne : source_bytes src <> []).
    { intros E. rewrite E in L. cbn [length] in L. lia. }
    destruct (run_upload_parts_exact mn alg s key chunks scripts order c (source_bytes src) s' ok parts
                W T Hne ltac:(lia) ltac:(lia) Hsc Hperm Hrun) as (R1 & R2 & R3 & uid & R4 & R5).
    split; [exact R1|]. split; [exact R2|]. split; [exact L|]. split; [exact T|]. split; [exact R3|].
    exists uid. auto.
Qed.

(** * C01 for copies *)

Lemma run_copy_multipart_eq mn mx mp thr cfg alg s src dst o order cplan :
  s3_object s src = Some o ->
  is_multipart (Z.of_nat (length o)) thr = true ->
  copy_plan_with mn mx mp (Z.of_nat (length o)) cfg = Some cplan ->
  run_copy mn mx mp thr cfg alg s src dst order =
  match run_multipart mn alg s dst (copy_task_bytes o (copy_tasks cplan))
          (copy_task_bytes o (reorder (0, (0, None)) (copy_tasks cplan) order)) with
  | Some (s', _, ok, ps) => Some (s', ok, ps)
  | None => None
  end.
Proof.
  intros Ho Hm Hp. unfold run_copy, run_multipart. rewrite Ho, Hm, Hp. fold (copy_tasks cplan).
  unfold s3_create. rewrite (exec_copy_as_parts alg _ src o) by exact Ho.
  destruct (exec_parts alg _ _ _ []) as [[s2 res]|]; [|reflexivity].
  replace (collect_keys (map fst (copy_tasks cplan)) res)
    with (collect (copy_task_bytes o (copy_tasks cplan)) res).
  - destruct (collect _ res) as [parts|]; [|reflexivity].
    destruct (s3_complete mn s2 (s_next_upload s + 1) parts). reflexivity.
  - rewrite <- collect_keys_eq. unfold copy_task_bytes. now rewrite map_map.
Qed.

Theorem copy_exact_pf mn mx mp thr cfg alg s src dst o order s' ok parts :
  0 < mn -> mn <= mx -> 1 <= mp -> 0 < thr -> 0 < cfg ->
  s3_object s src = Some o ->
  (forall cplan, copy_plan_with mn mx mp (Z.of_nat (length o)) cfg = Some cplan ->
                 Permutation order (seq 0 (length cplan))) ->
  run_copy mn mx mp thr cfg alg s src dst order = Some (s', ok, parts) ->
  ok = true /\ s3_object s' dst = Some o /\
  if is_multipart (Z.of_nat (length o)) thr then
    exists uid cplan c,
      copy_plan_with mn mx mp (Z.of_nat (length o)) cfg = Some cplan /\
      parts_tile c o (copy_task_bytes o (copy_tasks cplan)) /\
      map pm_num parts = zseq 1 (length cplan) /\
      s_completes s' = mkCompleteRec uid parts true :: s_completes s /\
      Forall2 (listed alg s' uid) (copy_task_bytes o (copy_tasks cplan)) parts
  else parts = [] /\ s_completes s' = s_completes s.
Proof.
  intros Hmn Hmx Hmp Hthr Hcfg Ho Hperm Hrun.
  destruct (is_multipart (Z.of_nat (length o)) thr) eqn:Em.
  - destruct (adjust_with_total mn mx mp Hmp cfg (Z.of_nat (length o)) Hcfg ltac:(lia)) as [c0 Ea].
    destruct (copy_plan_with mn mx mp (Z.of_nat (length o)) cfg) as [cplan|] eqn:Ep.
    2:{ unfold copy_plan_with in Ep. rewrite Ea in Ep. discriminate. }
    destruct (copy_ranges_tile_pf mn mx mp o cfg cplan Hmn Hmx Hmp Hcfg Ep) as (c & _ & Hin & T).
    rewrite (run_copy_multipart_eq mn mx mp thr cfg alg s src dst o order cplan Ho Em Ep) in Hrun.
    set (tasks := copy_task_bytes o (copy_tasks cplan)) in *.
    destruct (run_multipart mn alg s dst tasks _) as [[[[s1 uid] ok1] ps]|] eqn:Er; [|discriminate].
    injection Hrun as <- <- <-.
    destruct T as (T1 & T2 & T3 & T4).
    assert (Hlen : length tasks = length cplan).
    { unfold tasks, copy_task_bytes, copy_tasks. now rewrite !map_length. }
    assert (Hne : tasks <> []).
    { intros E. rewrite E in T1. cbn in T1. unfold is_multipart in Em.
      rewrite <- T1 in Em. cbn [length] in Em. lia. }
    assert (Hsz : sizes_ok mn (map snd tasks) = true)
      by (apply (abl_sizes_ok (Z.to_nat c)); [lia|exact T4]).
    assert (Hp : Permutation (copy_task_bytes o (reorder (0, (0, None)) (copy_tasks cplan) order)) tasks).
    { unfold tasks. unfold copy_task_bytes at 1.
      rewrite <- (reorder_map (fun t : Z * (Z * option Z) => (fst t, range_bytes o (snd t)))).
      apply reorder_permutation. fold (copy_task_bytes o (copy_tasks cplan)). fold tasks.
      assert (Hp2 : Permutation order (seq 0 (length tasks))) by (rewrite Hlen; now apply Hperm).
      exact Hp2. }
    destruct (run_multipart_exact mn alg s dst tasks _ s1 uid ok1 ps T2 Hne Hsz Hp Er)
      as (R1 & R2 & R3 & R4 & R5).
    split; [exact R1|]. split; [rewrite <- T1; exact R2|].
    exists uid, cplan, c. split; [reflexivity|]. split; [repeat split; assumption|].
    split; [rewrite <- Hlen; exact R4|]. split; [exact R5|exact R3].
  - unfold run_copy in Hrun. rewrite Ho, Em in Hrun. unfold s3_copy_object in Hrun. rewrite Ho in Hrun.
    injection Hrun as <- <- <-. unfold s3_object. cbn [s_objects s_completes zlookup].
    rewrite Z.eqb_refl. auto.
Qed.

(** * C01 for the legacy uploader *)

Lemma legacy_tasks_exact f ps : 0 < ps -> forall (idx : list Z) sizes tasks,
  (forall i, In i idx -> 0 <= i < num_parts (Z.of_nat (length f)) ps) ->
  Forall (fun sz => Forall (fun n => 0 < n) sz) sizes ->
  legacy_tasks (map (fun i => (i + 1, mk_lchunk f (ps * i) ps)) idx) sizes = Some tasks ->
  tasks = legacy_part_bytes (map (fun i => (i + 1, mk_lchunk f (ps * i) ps)) idx).
Proof.
  intros Hp. induction idx as [|i idx IH]; intros sizes tasks Hi Hs H.
  - destruct sizes; [|discriminate]. injection H as <-. reflexivity.
  - destruct sizes as [|sz sr]; [discriminate|]. cbn [map legacy_tasks] in H.
    inversion Hs as [|? ? S1 S2]; subst.
    destruct (l_send_loop _ sz []) as [d|] eqn:El; [|discriminate].
    destruct (legacy_tasks _ sr) as [r|] eqn:Er; [|discriminate]. injection H as <-.
    cbn [legacy_part_bytes map fst snd]. f_equal.
    + f_equal.
      pose proof (Hi i (or_introl eq_refl)) as Hb.
      pose proof (ceil_div_spec (Z.of_nat (length f)) ps ltac:(lia) Hp) as Hc. unfold num_parts in Hb.
      destruct (mk_lchunk_bounds f (ps * i) ps ltac:(nia) ltac:(lia)) as (B1 & B2 & B3).
      apply (legacy_send_exact_pf (mk_lchunk f (ps * i) ps) 0 sz d B1 B2 B3 S1). exact El.
    + apply (IH sr r); [intros j Hj; apply Hi; now right|exact S2|exact Er].
Qed.

Theorem legacy_upload_exact_pf min_part s key f thr ps sizes order s' ok parts :
  0 < thr -> 0 < ps -> min_part <= ps ->
  Forall (fun sz => Forall (fun n => 0 < n) sz) sizes ->
  Permutation order (seq 0 (length (legacy_parts f ps))) ->
  run_legacy_upload min_part s key f thr ps sizes order = Some (s', ok, parts) ->
  ok = true /\ s3_object s' key = Some f /\
  if is_multipart (Z.of_nat (length f)) thr then
    parts_tile ps f (legacy_part_bytes (legacy_parts f ps)) /\
    map pm_num parts = zseq 1 (length (legacy_parts f ps)) /\
    exists uid, s_completes s' = mkCompleteRec uid parts true :: s_completes s /\
                Forall2 (listed false s' uid) (legacy_part_bytes (legacy_parts f ps)) parts
  else parts = [] /\ s_completes s' = s_completes s.
Proof.
  intros Hthr Hps Hmin Hs Hperm. unfold run_legacy_upload.
  destruct (is_multipart (Z.of_nat (length f)) thr) eqn:Em.
  - destruct (legacy_tasks (legacy_parts f ps) sizes) as [tasks|] eqn:Et; [|discriminate].
    assert (Etasks : tasks = legacy_part_bytes (legacy_parts f ps)).
    { unfold legacy_parts in *. apply (legacy_tasks_exact f ps Hps _ sizes tasks); [|exact Hs|exact Et].
      intros i Hi. apply zseq_In in Hi.
      pose proof (ceil_div_nonneg (Z.of_nat (length f)) ps ltac:(lia) Hps). unfold num_parts in *.
      rewrite Z2Nat.id in Hi by lia. lia. }
    destruct (run_multipart min_part false s key tasks _) as [[[[s1 uid] ok1] pm]|] eqn:Er; [|discriminate].
    intros [= <- <- <-].
    pose proof (legacy_parts_tile_pf f ps Hps) as T. rewrite <- Etasks in T.
    destruct T as (T1 & T2 & T3 & T4).
    assert (Hlen : length tasks = length (legacy_parts f ps)).
    { rewrite Etasks. apply map_length. }
    assert (Hne : tasks <> []).
    { intros E. rewrite E in T1. cbn in T1. unfold is_multipart in Em.
      rewrite <- T1 in Em. cbn [length] in Em. lia. }
    assert (Hsz : sizes_ok min_part (map snd tasks) = true)
      by (apply (abl_sizes_ok (Z.to_nat ps)); [lia|exact T4]).
    assert (Hp : Permutation (reorder (0, []) tasks order) tasks).
    { apply reorder_permutation.
      assert (Hp2 : Permutation order (seq 0 (length tasks))) by (rewrite Hlen; exact Hperm).
      exact Hp2. }
    destruct (run_multipart_exact min_part false s key tasks _ s1 uid ok1 pm T2 Hne Hsz Hp Er)
      as (R1 & R2 & R3 & R4 & R5).
    split; [exact R1|]. split; [rewrite <- T1; exact R2|]. rewrite <- Etasks.
    split; [repeat split; assumption|]. split; [rewrite <- Hlen; exact R4|].
    exists uid. split; [exact R5|exact R3].
  - destruct sizes as [|sz [|sz2 r]]; try discriminate.
    destruct (l_send_loop _ sz []) as [d|] eqn:El; [|discriminate]. intros [= <- <- <-].
    inversion Hs as [|? ? S1 _]; subst.
    destruct (mk_lchunk_bounds f 0 (Z.of_nat (length f)) ltac:(lia) ltac:(lia)) as (B1 & B2 & B3).
    pose proof (legacy_send_exact_pf (legacy_put_body f) 0 sz d B1 B2 B3 S1 El) as ->.
    split; [reflexivity|]. split; [|auto].
    unfold s3_object, s3_put. cbn [s_objects zlookup]. rewrite Z.eqb_refl. f_equal.
    unfold lchunk_bytes, legacy_put_body, mk_lchunk. cbn [l_size l_start l_file].
    change (Z.to_nat 0) with 0%nat. cbn [skipn]. apply firstn_all2. lia.
Qed.

(** * Corollaries in the shape props/C01.v states them *)

Theorem complete_lists_parts_in_order_pf min_part alg s key tasks order s' uid ok parts :
  map fst tasks = zseq 1 (length tasks) -> tasks <> [] ->
  sizes_ok min_part (map snd tasks) = true ->
  Permutation order tasks ->
  run_multipart min_part alg s key tasks order = Some (s', uid, ok, parts) ->
  map pm_num parts = zseq 1 (length tasks) /\
  Forall2 (listed alg s' uid) tasks parts /\
  s_completes s' = mkCompleteRec uid parts true :: s_completes s.
Proof.
  intros H1 H2 H3 H4 H5.
  destruct (run_multipart_exact min_part alg s key tasks order s' uid ok parts H1 H2 H3 H4 H5)
    as (_ & _ & R3 & R4 & R5). auto.
Qed.

(** Before the repair ("F15") the seekable manager did one raw read per part
    while the part count was already fixed from the measured size: a seekable
    stream that returns a short read lost its tail (4 bytes, chunk 2, first
    read returns 1 byte: parts [1], [2;3]). *)
Theorem seekable_short_reads_unrepaired_refuted_pf :
  exists data p c scr, 0 < c /\ 0 <= p <= Z.of_nat (length data) /\
    concat (map snd (plan_part_bytes (fst (sk_parts_unrepaired data p c scr))))
      <> skipn (Z.to_nat p) data.
Proof. exists [1; 2; 3; 4], 0, 2, [1]. vm_compute. repeat split; discriminate. Qed.

(** Any schedule of the tasks is a permutation of them. *)
Theorem any_order_is_permutation {B} (d : B) (l : list B) order :
  Permutation order (seq 0 (length l)) -> Permutation (reorder d l order) l.
Proof. apply reorder_permutation. Qed.
