(** Basic facts about the Sys transition system: reachability, frame lemmas
    for the stores, and the per-coordinator step relation [cstep] extracted
    once from [step] (every coordinator invariant is then a case analysis over
    [cstep] instead of over all events). *)
From Coq Require Import ZArith List Bool Lia.
From S3V Require Import model.Sys.
Import ListNotations.
Open Scope Z_scope.

(** * Reachability *)
Definition reachable (s0 s : state) : Prop := exists tr, run s0 tr = Some s.

Lemma run_app s tr1 tr2 :
  run s (tr1 ++ tr2) = match run s tr1 with Some s1 => run s1 tr2 | None => None end.
Proof.
  revert s; induction tr1 as [|e r IH]; intros s; cbn [run app]; [reflexivity|].
  destruct (step s e); [apply IH|reflexivity].
Qed.

Lemma reachable_refl s : reachable s s.
Proof. exists []. reflexivity. Qed.

Lemma reachable_step s0 s e s' : reachable s0 s -> step s e = Some s' -> reachable s0 s'.
Proof.
  intros [tr H] Hs. exists (tr ++ [e]). rewrite run_app, H. cbn [run]. now rewrite Hs.
Qed.

Theorem invariant_reachable (P : state -> Prop) s0 :
  P s0 -> (forall s e s', P s -> step s e = Some s' -> P s') ->
  forall s, reachable s0 s -> P s.
Proof.
  intros H0 Hstep s [tr Hr]. revert s0 H0 Hr.
  induction tr as [|e r IH]; intros s0 H0 Hr; cbn [run] in Hr.
  - now injection Hr as <-.
  - destruct (step s0 e) as [s1|] eqn:E; [|discriminate].
    eapply IH; [|exact Hr]. eapply Hstep; eauto.
Qed.

(** Invariants that need a second, already established invariant. *)
Theorem invariant_reachable2 (Q P : state -> Prop) s0 :
  (forall s, reachable s0 s -> Q s) ->
  P s0 -> (forall s e s', Q s -> P s -> step s e = Some s' -> P s') ->
  forall s, reachable s0 s -> P s.
Proof.
  intros HQ H0 Hstep s [tr Hr].
  assert (G : forall tr s1 s, reachable s0 s1 -> P s1 -> run s1 tr = Some s -> P s).
  { clear tr s Hr. induction tr as [|e r IH]; intros s1 s Hre HP Hr; cbn [run] in Hr.
    - now injection Hr as <-.
    - destruct (step s1 e) as [s2|] eqn:E; [|discriminate].
      apply (IH s2 s); [eapply reachable_step; eauto| |exact Hr].
      eapply Hstep; eauto. }
  eapply G; [apply reachable_refl|exact H0|exact Hr].
Qed.

(** * Store lemmas *)
Lemma find_coord_upd t t' f l :
  (forall x, c_id (f x) = c_id x) ->
  find_coord t (upd_coord t' f l) =
  if t =? t' then option_map f (find_coord t l) else find_coord t l.
Proof.
  intros Hid. induction l as [|x r IH]; cbn [upd_coord map find_coord].
  - now destruct (t =? t').
  - change (map _ r) with (upd_coord t' f r).
    destruct (c_id x =? t') eqn:E1.
    + rewrite Hid. destruct (c_id x =? t) eqn:E2.
      * assert (t =? t' = true) by lia. now rewrite H.
      * exact IH.
    + destruct (c_id x =? t) eqn:E2.
      * assert (t =? t' = false) by lia. now rewrite H.
      * exact IH.
Qed.

Lemma find_coord_some_id t l c : find_coord t l = Some c -> c_id c = t.
Proof.
  induction l as [|x r IH]; cbn [find_coord]; [discriminate|].
  destruct (c_id x =? t) eqn:E; [intros [= <-]; lia|exact IH].
Qed.

Lemma find_coord_app t l x :
  find_coord t (l ++ [x]) =
  match find_coord t l with Some c => Some c | None => if c_id x =? t then Some x else None end.
Proof.
  induction l as [|y r IH]; cbn [app find_coord]; [reflexivity|].
  destruct (c_id y =? t); [reflexivity|exact IH].
Qed.

Lemma find_task_upd k k' f l :
  (forall x, k_id (f x) = k_id x) ->
  find_task k (upd_task k' f l) =
  if k =? k' then option_map f (find_task k l) else find_task k l.
Proof.
  intros Hid. induction l as [|x r IH]; cbn [upd_task map find_task].
  - now destruct (k =? k').
  - change (map _ r) with (upd_task k' f r).
    destruct (k_id x =? k') eqn:E1.
    + rewrite Hid. destruct (k_id x =? k) eqn:E2.
      * assert (k =? k' = true) by lia. now rewrite H.
      * exact IH.
    + destruct (k_id x =? k) eqn:E2.
      * assert (k =? k' = false) by lia. now rewrite H.
      * exact IH.
Qed.

Lemma find_task_some_id k l x : find_task k l = Some x -> k_id x = k.
Proof.
  induction l as [|y r IH]; cbn [find_task]; [discriminate|].
  destruct (k_id y =? k) eqn:E; [intros [= <-]; lia|exact IH].
Qed.

Lemma find_task_app k l x :
  find_task k (l ++ [x]) =
  match find_task k l with Some c => Some c | None => if k_id x =? k then Some x else None end.
Proof.
  induction l as [|y r IH]; cbn [app find_task]; [reflexivity|].
  destruct (k_id y =? k); [reflexivity|exact IH].
Qed.

(** [on_coord] / [on_task] inversion *)
Lemma on_coord_inv s t f s' :
  on_coord s t f = Some s' ->
  exists c y, find_coord t (coords s) = Some c /\ f c = Some y /\
              s' = set_coords s (upd_coord t (fun _ => y) (coords s)).
Proof.
  unfold on_coord. destruct (find_coord t (coords s)) as [c|]; [|discriminate].
  destruct (f c) as [y|] eqn:E; [|discriminate]. intros [= <-]. eauto.
Qed.

Lemma on_task_inv s k f s' :
  on_task s k f = Some s' ->
  exists x y, find_task k (tasks s) = Some x /\ f x = Some y /\
              s' = set_tasks s (upd_task k (fun _ => y) (tasks s)).
Proof.
  unfold on_task. destruct (find_task k (tasks s)) as [x|]; [|discriminate].
  destruct (f x) as [y|] eqn:E; [|discriminate]. intros [= <-]. eauto.
Qed.

Lemma on_task_coords s k f s' : on_task s k f = Some s' -> coords s' = coords s.
Proof. intros H. apply on_task_inv in H. destruct H as (x & y & _ & _ & ->). reflexivity. Qed.

Lemma on_coord_tasks s t f s' : on_coord s t f = Some s' -> tasks s' = tasks s.
Proof. intros H. apply on_coord_inv in H. destruct H as (x & y & _ & _ & ->). reflexivity. Qed.

Lemma bump_coords s : coords (bump_after_shutdown s) = coords s.
Proof. unfold bump_after_shutdown. now destruct (shutdown_phase s =? 2). Qed.
Lemma bump_tasks s : tasks (bump_after_shutdown s) = tasks s.
Proof. unfold bump_after_shutdown. now destruct (shutdown_phase s =? 2). Qed.
Lemma bump_uploads s : uploads (bump_after_shutdown s) = uploads s.
Proof. unfold bump_after_shutdown. now destruct (shutdown_phase s =? 2). Qed.
Lemma bump_reqs s : reqs (bump_after_shutdown s) = reqs s.
Proof. unfold bump_after_shutdown. now destruct (shutdown_phase s =? 2). Qed.

Lemma bump_files s : files (bump_after_shutdown s) = files s.
Proof. unfold bump_after_shutdown. now destruct (shutdown_phase s =? 2). Qed.

Lemma set_stage_coords s g x : coords (set_stage s g x) = coords s.
Proof. now destruct g. Qed.
Lemma set_stage_tasks s g x : tasks (set_stage s g x) = tasks s.
Proof. now destruct g. Qed.
Lemma set_stage_uploads s g x : uploads (set_stage s g x) = uploads s.
Proof. now destruct g. Qed.

(** * The per-coordinator step relation *)
Definition fresh_coord (t : Z) : coord :=
  mkCoord t NotStarted None [] [] false None None [] [] [] [] 0 false false 0 false false.

Inductive cstep : coord -> coord -> Prop :=
  | cs_refl c : cstep c c
  | cs_addcb c id :
      mem_z id (c_callbacks c) = false -> mem_z id (c_ran_callbacks c) = false ->
      cstep c (c_with_lists c (c_cleanups c) (c_callbacks c ++ [id]))
  | cs_addcl c id : cstep c (c_with_lists c (c_cleanups c ++ [id]) (c_callbacks c))
  | cs_result c : cstep c (c_with c Success None)
  | cs_exc c e ov :
      is_done (c_status c) = false \/ ov = true -> cstep c (c_with c Failed (Some e))
  | cs_cancel c e :
      is_done (c_status c) = false -> status_eqb (c_status c) NotStarted = false ->
      cstep c (c_with c Cancelled (Some e))
  | cs_cancel_ns c e a :
      c_status c = NotStarted ->
      cstep c (c_with_ann (c_with c Cancelled (Some e)) (a :: c_owing c) (c_announcers c))
  | cs_status c st :
      is_done (c_status c) = false -> st = Queued \/ st = Running ->
      cstep c (c_with c st (c_exc c))
  | cs_ghost c q p : cstep c (c_with_ghost c q p)
  | cs_count c n f g : cstep c (c_with_count c n f g)
  | cs_ann_owing c a :
      ann_phase a (c_announcers c) = None -> mem_z a (c_owing c) = true ->
      cstep c (c_with_started (c_with_ann c (remove_z a (c_owing c)) (ann_set a 0 (c_announcers c))))
  | cs_ann_begin c a :
      ann_phase a (c_announcers c) = None -> mem_z a (c_owing c) = false ->
      cstep c (c_with_started (c_with_ann c (c_owing c) (ann_set a 0 (c_announcers c))))
  | cs_cl_begin c a :
      ann_phase a (c_announcers c) = Some 0 -> c_cl_runner c = None ->
      status_eqb (c_status c) Success = false ->
      cstep c (c_with_ann (c_with_runners c (Some a) (c_cb_runner c)) (c_owing c) (ann_set a 1 (c_announcers c)))
  | cs_cleanup c a h rest :
      c_cl_runner c = Some a -> c_cleanups c = h :: rest ->
      cstep c (c_with_ran (c_with_lists c rest (c_callbacks c)) (c_ran_cleanups c ++ [h]) (c_ran_callbacks c))
  | cs_cl_end c a :
      c_cl_runner c = Some a -> ann_phase a (c_announcers c) = Some 1 -> c_cleanups c = [] ->
      cstep c (c_with_ann (c_with_runners (c_with_lists c [] (c_callbacks c)) None (c_cb_runner c))
                          (c_owing c) (ann_set a 2 (c_announcers c)))
  | cs_event c a p :
      ann_phase a (c_announcers c) = Some p ->
      p = 2 \/ (p = 0 /\ c_status c = Success) ->
      cstep c (c_with_ann (c_with_event c) (c_owing c) (ann_set a 3 (c_announcers c)))
  | cs_cb_begin c a :
      ann_phase a (c_announcers c) = Some 3 -> c_cb_runner c = None ->
      cstep c (c_with_ann (c_with_runners c (c_cl_runner c) (Some a)) (c_owing c) (ann_set a 4 (c_announcers c)))
  | cs_callback c a h rest :
      c_cb_runner c = Some a -> c_callbacks c = h :: rest ->
      cstep c (c_with_ran (c_with_lists c (c_cleanups c) rest) (c_ran_cleanups c) (c_ran_callbacks c ++ [h]))
  | cs_cb_end c a :
      c_cb_runner c = Some a -> ann_phase a (c_announcers c) = Some 4 -> c_callbacks c = [] ->
      cstep c (c_with_ann (c_with_runners c (c_cl_runner c) None) (c_owing c) (ann_set a 5 (c_announcers c)))
  | cs_ann_end c a :
      ann_phase a (c_announcers c) = Some 5 ->
      cstep c (c_with_ann c (c_owing c) (ann_del a (c_announcers c))).

Lemma status_eqb_eq a b : status_eqb a b = true <-> a = b.
Proof. destruct a, b; cbn; split; intros H; try reflexivity; discriminate. Qed.

Lemma tst_eqb_eq a b : tst_eqb a b = true <-> a = b.
Proof. destruct a, b; cbn; split; intros H; try reflexivity; discriminate. Qed.

Lemma stage_eqb_eq a b : stage_eqb a b = true <-> a = b.
Proof. destruct a, b; cbn; split; intros H; try reflexivity; discriminate. Qed.

Lemma s3op_eqb_eq a b : s3op_eqb a b = true <-> a = b.
Proof. destruct a, b; cbn; split; intros H; try reflexivity; discriminate. Qed.

(** Generic inversion of guards written with [if] and [match] on options. *)
Ltac inv_guard H :=
  repeat match type of H with
         | (if ?b then _ else _) = Some _ => destruct b eqn:?; [|discriminate H]
         | (if ?b then _ else _) = Some _ => destruct b eqn:?; [discriminate H|]
         | match ?x with Some _ => _ | None => _ end = Some _ => destruct x eqn:?; [|discriminate H]
         | None = Some _ => discriminate H
         end.

Ltac clean_but H :=
  repeat match goal with
         | Hs : Some ?a = Some ?b |- _ =>
             tryif constr_eq Hs H then fail else
             first [ is_var a; injection Hs as -> | is_var b; injection Hs as <- ]
         | Hs : None = None |- _ => clear Hs
         end.

Ltac inv H := inv_guard H; clean_but H.

Ltac clean_somes :=
  repeat match goal with
         | Hs : Some ?a = Some ?b |- _ => first [ is_var a; injection Hs as -> | is_var b; injection Hs as <- ]
         end.

(** The coordinators of the next state: every old coordinator made a [cstep];
    a new coordinator is fresh. *)
Definition coords_step (l l' : list coord) : Prop :=
  (forall t c, find_coord t l = Some c -> exists c', find_coord t l' = Some c' /\ cstep c c') /\
  (forall t c', find_coord t l' = Some c' -> find_coord t l = None -> c' = fresh_coord t).

Lemma coords_step_refl l : coords_step l l.
Proof.
  split; [intros t c H; exists c; split; [exact H|constructor]|].
  intros t c' H1 H2; congruence.
Qed.

Lemma coords_step_upd_f l t c f :
  find_coord t l = Some c -> cstep c (f c) -> (forall x, c_id (f x) = c_id x) ->
  coords_step l (upd_coord t f l).
Proof.
  intros Hf Hc Hid. split.
  - intros t0 c0 H0. rewrite (find_coord_upd t0 t f l Hid). destruct (t0 =? t) eqn:E.
    + assert (t0 = t) by lia. subst t0. rewrite Hf in H0. injection H0 as <-.
      rewrite Hf. exists (f c). split; [reflexivity|exact Hc].
    + exists c0. split; [exact H0|constructor].
  - intros t0 c' H1 H2. rewrite (find_coord_upd t0 t f l Hid) in H1. destruct (t0 =? t) eqn:E.
    + rewrite H2 in H1. discriminate.
    + congruence.
Qed.

Lemma coords_step_upd l t c y :
  find_coord t l = Some c -> cstep c y -> c_id y = c_id c ->
  coords_step l (upd_coord t (fun _ => y) l).
Proof.
  intros Hf Hc Hid. pose proof (find_coord_some_id _ _ _ Hf) as Hcid.
  (* the constant update does not preserve ids of other entries with the same
     id; go through lookups directly *)
  assert (Hfind : forall t0, find_coord t0 (upd_coord t (fun _ => y) l) =
                            if t0 =? t then Some y else find_coord t0 l).
  { intros t0. revert Hf. induction l as [|x r IH]; intros Hf; cbn [upd_coord map find_coord] in *.
    - discriminate Hf.
    - change (map _ r) with (upd_coord t (fun _ => y) r).
      destruct (c_id x =? t) eqn:E1.
      + injection Hf as ->. destruct (c_id y =? t0) eqn:E2.
        * assert (t0 =? t = true) by lia. now rewrite H.
        * assert (t0 =? t = false) by lia. rewrite H.
          assert (Hc0 : c_id c =? t0 = false) by lia. rewrite Hc0.
          clear IH. induction r as [|z r' IHr]; cbn [upd_coord map find_coord]; [reflexivity|].
          change (map _ r') with (upd_coord t (fun _ => y) r').
          destruct (c_id z =? t) eqn:E3.
          -- rewrite E2. destruct (c_id z =? t0) eqn:E5; [lia|]. exact IHr.
          -- destruct (c_id z =? t0) eqn:E5; [reflexivity|]. exact IHr.
      + destruct (c_id x =? t0) eqn:E2.
        * assert (t0 =? t = false) by lia. now rewrite H.
        * apply IH. exact Hf. }
  split.
  - intros t0 c0 H0. rewrite Hfind. destruct (t0 =? t) eqn:E.
    + assert (t0 = t) by lia. subst t0. rewrite Hf in H0. injection H0 as <-.
      exists y. split; [reflexivity|exact Hc].
    + exists c0. split; [exact H0|constructor].
  - intros t0 c' H1 H2. rewrite Hfind in H1. destruct (t0 =? t) eqn:E.
    + assert (t0 = t) by lia. subst t0. congruence.
    + congruence.
Qed.
