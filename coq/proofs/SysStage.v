(** Stage accounting (C10), the shutdown barrier (C18) and "no success
    without every step" (C03) for every reachable state of [Sys.v].

    Part 1: [sstep], the effect of one step on tasks / stages / semaphores,
    extracted once from [step]. *)
From Coq Require Import ZArith List Bool Lia.
From S3V Require Import model.Sys proofs.SysBase proofs.SysCoord proofs.SysCoordInv proofs.SysTask.
Import ListNotations.
Open Scope Z_scope.

(** * Small projections *)
Lemma bump_st_sub s : st_sub (bump_after_shutdown s) = st_sub s.
Proof. unfold bump_after_shutdown. now destruct (shutdown_phase s =? 2). Qed.
Lemma bump_st_req s : st_req (bump_after_shutdown s) = st_req s.
Proof. unfold bump_after_shutdown. now destruct (shutdown_phase s =? 2). Qed.
Lemma bump_st_io s : st_io (bump_after_shutdown s) = st_io s.
Proof. unfold bump_after_shutdown. now destruct (shutdown_phase s =? 2). Qed.
Lemma bump_sems s : sems (bump_after_shutdown s) = sems s.
Proof. unfold bump_after_shutdown. now destruct (shutdown_phase s =? 2). Qed.
Lemma bump_get_stage s g : get_stage (bump_after_shutdown s) g = get_stage s g.
Proof. unfold bump_after_shutdown. destruct (shutdown_phase s =? 2); now destruct g. Qed.
Lemma bump_shutdown_phase s : shutdown_phase (bump_after_shutdown s) = shutdown_phase s.
Proof. unfold bump_after_shutdown. now destruct (shutdown_phase s =? 2). Qed.

Lemma get_set_same s g v : g <> SInline -> get_stage (set_stage s g v) g = v.
Proof. destruct g; intros H; try reflexivity. congruence. Qed.
Lemma get_set_other s g g' v : g' <> g -> get_stage (set_stage s g v) g' = get_stage s g'.
Proof. destruct g, g'; intros H; try reflexivity; congruence. Qed.
Lemma set_stage_sems s g v : sems (set_stage s g v) = sems s.
Proof. now destruct g. Qed.
Lemma set_stage_shutdown_phase s g v : shutdown_phase (set_stage s g v) = shutdown_phase s.
Proof. now destruct g. Qed.
Lemma set_stage_after s g v : after_shutdown_events (set_stage s g v) = after_shutdown_events s.
Proof. now destruct g. Qed.

(** * Classes of task positions *)
Definition cls (v : tst) : Z :=
  match v with TSubmitting => 0 | TQueued => 1 | TEnded => 3 | _ => 2 end.
Definition running_st (v : tst) : bool :=
  match v with
  | TStarted | TDeps | TReady | TMain | TFailed | TPost | TAnn | TAnnDone => true
  | _ => false
  end.
Definition acting_st (v : tst) : bool := match v with TMain | TPost => true | _ => false end.

Lemma running_cls v : running_st v = true <-> cls v = 2.
Proof. destruct v; cbn; split; intros; try reflexivity; try discriminate; lia. Qed.

(** * The step relation on tasks / stages / semaphores *)
Definition same_stages (s s' : state) : Prop := forall g, get_stage s' g = get_stage s g.
Definition stage_set (s s' : state) (g : stage) (v : stg) : Prop :=
  get_stage s' g = v /\ forall g', g' <> g -> get_stage s' g' = get_stage s g'.

Record inner_ok (s s' : state) (k : Z) (x y : task) : Prop := {
  io_permit : k_permit y = k_permit x;
  io_released : k_released y = k_released x;
  io_cls : k_stage x = SInline \/ cls (k_st y) = cls (k_st x);
  io_inl : k_stage x = SInline -> k_st x = TQueued -> k_st y <> TQueued ->
           busy s (k_parent x) = false /\ acting_task s (k_parent x) (k_t x) = true;
  io_busy : acting_st (k_st x) = true -> acting_st (k_st y) = false -> busy s k = false;
  io_main : k_st x = TMain -> k_st y <> TMain -> busy s k = false;
  io_exc : (k_st x = TFailed /\ k_st y = TPost) \/ (k_phase x < 3 /\ k_phase y = 3) ->
           coord_done s' (k_t x) = true;
  io_status : k_phase y = k_phase x + 1 -> k_phase x <= 1 ->
              exists c', find_coord (k_t x) (coords s') = Some c' /\
                         (c_status c' = Queued \/ c_status c' = Running);
  io_annend : (k_st x = TAnn /\ k_st y = TAnnDone) \/ (k_phase x = 4 /\ k_phase y = 5) ->
              exists t c, find_coord t (coords s) = Some c /\ ann_phase k (c_announcers c) = Some 5 /\
                coords s' = upd_coord t (fun c0 => c_with_ann c0 (c_owing c0) (ann_del k (c_announcers c0))) (coords s)
}.

Record submit_ok (s : state) (a : actor) (k t : Z) (g : stage) (final : bool) (deps : list Z) (kind : Z) : Prop := {
  so_who : (if kind =? KSubmission
            then is_user a && stage_eqb g SSub && negb final
                 && negb (existsb (fun x => k_t x =? t) (tasks s))
            else negb (busy s a) && acting_task s a t) = true;
  so_deps : forallb (fun d => match find_task d (tasks s) with
                              | Some x => (k_t x =? t) && stage_eqb (k_stage x) g
                              | None => false end) deps = true;
  so_coord : exists c, find_coord t (coords s) = Some c;
  so_phase : match find_task a (tasks s) with
             | Some x => if k_kind x =? KSubmission then k_phase x =? 2 else true
             | None => true end = true;
  so_kind : kind_stage_ok kind g = true;
  so_nonneg : 0 <= k;
  so_nofinal : existsb (fun x => (k_t x =? t) && k_final x) (tasks s) = false;
  so_final : final = true ->
     forallb (fun x => negb (k_t x =? t) || (k_kind x =? KSubmission)
                       || mem_z (k_id x) deps || past_main (k_st x)
                       || (stage_eqb (k_stage x) SIO && stage_eqb g SIO
                           && negb (tst_eqb (k_st x) TSubmitting))) (tasks s) = true;
  so_kindok : (negb (kind =? KIOFinal) || final)
              && (negb (kind =? KIOWrite) ||
                  match find_task a (tasks s) with
                  | Some x => tst_eqb (k_st x) TMain && (k_kind x =? KGet)
                  | None => false
                  end) = true;
  so_ids : forallb (fun x => k_id x <? k) (tasks s) = true
}.

Definition permit_ok (sem : Z) (g : stage) : bool :=
  (sem =? sem_of_stage g) || (((sem =? SEM_UP) || (sem =? SEM_DOWN)) && stage_eqb g SReq).

Inductive sstep (s s' : state) : Prop :=
  | ss_other : tasks s' = tasks s -> same_stages s s' -> sems s' = sems s -> sstep s s'
  | ss_submit k t g a final deps kind :
      find_task k (tasks s) = None -> submit_ok s a k t g final deps kind ->
      tasks s' = tasks s ++ [fresh_task k t g a final deps kind] ->
      coords s' = coords s -> same_stages s s' -> sems s' = sems s -> sstep s s'
  | ss_inner k x f :
      find_task k (tasks s) = Some x -> (forall z, k_id z = k -> k_id (f z) = k) ->
      tstep s x (f x) -> inner_ok s s' k x (f x) ->
      tasks s' = upd_task k f (tasks s) -> same_stages s s' -> sems s' = sems s -> sstep s s'
  | ss_acquire k x sem v :
      find_task k (tasks s) = Some x -> find_sem sem (sems s) = Some v -> 0 < v ->
      k_st x = TSubmitting -> k_permit x = -1 -> permit_ok sem (k_stage x) = true ->
      tasks s' = upd_task k (fun y => with_permit y sem) (tasks s) ->
      sems s' = upd_sem sem (-1) (sems s) -> same_stages s s' -> coords s' = coords s -> sstep s s'
  | ss_enqueue k x :
      find_task k (tasks s) = Some x -> k_st x = TSubmitting -> 0 <= k_permit x -> k_stage x <> SInline ->
      g_shut (get_stage s (k_stage x)) = false ->
      tasks s' = upd_task k (fun y => with_st y TQueued) (tasks s) ->
      stage_set s s' (k_stage x)
        (let g := get_stage s (k_stage x) in
         mkStg (g_queue g ++ [k]) (g_running g) (g_workers g) (g_shut g) (g_joined g) (g_history g ++ [k])) ->
      sems s' = sems s -> coords s' = coords s -> sstep s s'
  | ss_start k x rest :
      find_task k (tasks s) = Some x -> k_st x = TQueued -> k_stage x <> SInline ->
      g_queue (get_stage s (k_stage x)) = k :: rest ->
      g_running (get_stage s (k_stage x)) < g_workers (get_stage s (k_stage x)) ->
      tasks s' = upd_task k (fun y => with_st y TStarted) (tasks s) ->
      stage_set s s' (k_stage x)
        (let g := get_stage s (k_stage x) in
         mkStg rest (g_running g + 1) (g_workers g) (g_shut g) (g_joined g) (g_history g)) ->
      sems s' = sems s -> coords s' = coords s -> sstep s s'
  | ss_end k x :
      find_task k (tasks s) = Some x -> k_stage x <> SInline ->
      (if k_final x then k_st x = TAnnDone else k_st x = TPost) -> busy s k = false ->
      tasks s' = upd_task k (fun y => with_st y TEnded) (tasks s) ->
      stage_set s s' (k_stage x)
        (let g := get_stage s (k_stage x) in
         mkStg (g_queue g) (g_running g - 1) (g_workers g) (g_shut g) (g_joined g) (g_history g)) ->
      sems s' = sems s -> coords s' = coords s -> sstep s s'
  | ss_release k x :
      find_task k (tasks s) = Some x -> k_st x = TEnded -> k_released x = false -> 0 <= k_permit x ->
      tasks s' = upd_task k with_released (tasks s) ->
      sems s' = upd_sem (k_permit x) 1 (sems s) -> same_stages s s' -> coords s' = coords s -> sstep s s'
  | ss_shut g :
      g <> SInline -> tasks s' = tasks s -> sems s' = sems s -> coords s' = coords s ->
      shutdown_phase s = 1 ->
      stage_set s s' g
        (let x := get_stage s g in mkStg (g_queue x) (g_running x) (g_workers x) true (g_joined x) (g_history x)) ->
      sstep s s'
  | ss_join g :
      g <> SInline -> tasks s' = tasks s -> sems s' = sems s -> coords s' = coords s ->
      g_shut (get_stage s g) = true -> g_running (get_stage s g) = 0 -> g_queue (get_stage s g) = [] ->
      stage_set s s' g
        (let x := get_stage s g in mkStg (g_queue x) (g_running x) (g_workers x) true true (g_history x)) ->
      sstep s s'.

Lemma same_stages_set_tasks s l : same_stages s (set_tasks s l).
Proof. intros g; now destruct g. Qed.

Ltac proj_simpl :=
  repeat first
    [ rewrite set_stage_tasks | rewrite bump_tasks | rewrite bump_sems | rewrite set_stage_sems
    | rewrite bump_get_stage | rewrite set_stage_coords | rewrite bump_coords
    | progress cbn [tasks coords sems st_sub st_req st_io set_tasks set_sems set_reqs set_uploads
                    set_shutdown set_coords set_files] ].

Ltac same_st :=
  let g := fresh "g" in
  intros g; destruct g; cbn [get_stage];
  proj_simpl; rewrite ?bump_st_sub, ?bump_st_req, ?bump_st_io; reflexivity.

Ltac other :=
  apply ss_other; [ proj_simpl; reflexivity | same_st | proj_simpl; reflexivity ].

Lemma stage_set_intro s s0 g v :
  g <> SInline -> (forall g', get_stage s0 g' = get_stage s g') ->
  stage_set s (set_stage s0 g v) g v.
Proof.
  intros Hg Hs. split; [now apply get_set_same|].
  intros g' Hne. rewrite get_set_other by exact Hne. apply Hs.
Qed.

Lemma stage_neq_inline g : stage_eqb g SInline = false -> g <> SInline.
Proof. intros H ->. discriminate. Qed.

Ltac io_auto :=
  constructor;
  cbn [k_permit k_released k_st k_stage k_parent k_t k_phase with_st with_flags with_phase with_assoc];
  [ reflexivity | reflexivity
  | first [ right; reflexivity
          | right; match goal with H : k_st _ = _ |- _ => rewrite H; reflexivity end
          | idtac ]
  | intros ?Hi ?Hq ?Hnq; first [ congruence | split; assumption | idtac ]
  | intros ? ?;
    first [ assumption
          | match goal with H : k_st _ = _ |- _ => rewrite H in *; cbn in *; congruence end
          | cbn in *; congruence
          | idtac ]
  | intros ?Hm ?Hnm;
    first [ assumption
          | match goal with H : k_st _ = _ |- _ => rewrite H in *; cbn in *; congruence end
          | cbn in *; congruence
          | idtac ]
  | try solve [ intros [[?Hx ?Hx0]|[?Hx1 ?Hx2]];
                [ first [ match goal with H : k_st _ = _ |- _ => rewrite H in *; discriminate end
                        | cbn in *; congruence ]
                | cbn in *; lia ] ]
  | try solve [ intros ?Hx1 ?Hx2; cbn in *; lia ]
  | try solve [ intros [[?Hx ?Hx0]|[?Hx1 ?Hx2]];
                [ first [ match goal with H : k_st _ = _ |- _ => rewrite H in *; discriminate end
                        | cbn in *; congruence ]
                | cbn in *; lia ] ] ].

Lemma find_coord_upd_const t l c y :
  find_coord t l = Some c -> c_id y = t -> find_coord t (upd_coord t (fun _ => y) l) = Some y.
Proof.
  intros Hf Hy. induction l as [|x r IH]; cbn [upd_coord map find_coord] in *; [discriminate|].
  destruct (c_id x =? t) eqn:E.
  - assert (E2 : c_id y =? t = true) by lia. now rewrite E2.
  - rewrite E. now apply IH.
Qed.

Lemma step_sstep s e s' : step s e = Some s' -> sstep s s'.
Proof.
  intros H. destruct e; cbn [step] in H.
  - (* ENewTransfer *) inv H. injection H as <-. other.
  - (* EAddCallback *) inv H. sub_on_coord H. other.
  - (* EAddCleanup *) inv H. sub_on_coord H. other.
  - (* ESubmit *)
    inv H. injection H as <-. split_ands.
    destruct (find_task k (tasks s)) eqn:Efk; [discriminate|].
    eapply ss_submit with (k := k) (t := t) (g := g) (a := a) (final := final) (deps := deps) (kind := kind);
      [exact Efk| |reflexivity|reflexivity|same_st|reflexivity].
    constructor; try assumption.
    + destruct (find_coord t (coords s)) eqn:Efc; [eauto|discriminate].
    + lia.
    + match goal with Hn : negb (existsb _ _) = true |- _ => now apply negb_true_iff in Hn end.
    + intros ->. assumption.
    + apply andb_true_intro; split; assumption.
  - (* EAcquire *)
    destruct (find_task k (tasks s)) eqn:Eft; [|discriminate].
    destruct (find_sem sem (sems s)) eqn:Efs; [|discriminate].
    inv H. injection H as <-. split_ands.
    eapply ss_acquire with (k := k) (x := t) (sem := sem) (v := z);
      [exact Eft|exact Efs|lia|now apply tst_eqb_true|lia|assumption|reflexivity|reflexivity|same_st|reflexivity].
  - (* EEnqueue *)
    destruct (find_task k (tasks s)) eqn:Eft; [|discriminate].
    inv H. injection H as <-. split_ands.
    match goal with Hn : negb (stage_eqb _ SInline) = true |- _ => apply negb_true_iff in Hn; apply stage_neq_inline in Hn; rename Hn into Hni end.
    eapply ss_enqueue with (k := k) (x := t);
      [exact Eft|now apply tst_eqb_true|lia|exact Hni| |rewrite set_stage_tasks; reflexivity| |
       rewrite set_stage_sems; reflexivity|rewrite set_stage_coords; reflexivity].
    + match goal with Hn : negb (g_shut _) = true |- _ => now apply negb_true_iff in Hn end.
    + apply stage_set_intro; [exact Hni|]. intros g'; now destruct g'.
  - (* EAssoc *)
    inv H. sub_on_task H. inv Hf. injection Hf as <-. split_ands.
    eapply ss_inner with (k := k) (x := x) (f := fun _ => with_assoc x 1);
      [exact Hft|intros z _; cbn; now apply find_task_some_id in Hft| | |reflexivity|same_st|reflexivity].
    + apply ts_assoc; [lia| |unfold KSubmission in *; lia|].
      * intros Hs. rewrite Hs in *. discriminate.
      * intros Hs. rewrite Hs in *. discriminate.
    + io_auto.
  - (* ETaskStart *)
    destruct (find_task k (tasks s)) eqn:Eft; [|discriminate].
    destruct (stage_eqb (k_stage t) SInline) eqn:Einl.
    + inv H. injection H as <-. split_ands.
      assert (Hst : k_st t = TQueued) by now apply tst_eqb_true.
      eapply ss_inner with (k := k) (x := t) (f := fun y => with_st y TStarted);
        [exact Eft|intros z Hz; exact Hz| | |reflexivity|same_st|reflexivity].
      * now apply ts_start.
      * apply stage_eqb_eq in Einl.
        match goal with Hn : negb (busy _ _) = true |- _ => apply negb_true_iff in Hn end.
        io_auto. now left.
    + destruct (g_queue (get_stage s (k_stage t))) eqn:Eq; [discriminate|].
      inv H. injection H as <-. split_ands. apply stage_neq_inline in Einl.
      assert (z = k) by lia. subst z.
      eapply ss_start with (k := k) (x := t) (rest := l);
        [exact Eft|now apply tst_eqb_true|exact Einl|exact Eq|lia|rewrite set_stage_tasks; reflexivity| |
         rewrite set_stage_sems; reflexivity|rewrite set_stage_coords; reflexivity].
      apply stage_set_intro; [exact Einl|]. intros g'; now destruct g'.
  - (* EDepsDone *)
    sub_on_task H. inv Hf. injection Hf as <-. split_ands.
    assert (Hst : k_st x = TStarted) by now apply tst_eqb_true.
    eapply ss_inner with (k := k) (x := x) (f := fun _ => with_st x TDeps);
      [exact Hft|intros z _; cbn; now apply find_task_some_id in Hft| | |reflexivity|same_st|reflexivity].
    + now apply ts_deps.
    + io_auto.
  - (* EDoneCheck *)
    destruct (find_task k (tasks s)) eqn:Eft; [|discriminate].
    destruct (find_coord (k_t t) (coords s)) eqn:Efc; [|discriminate].
    inv H. injection H as <-. split_ands.
    assert (Hst : k_st t = TDeps) by now apply tst_eqb_true.
    match goal with Hb : eqb b _ = true |- _ => apply eqb_prop in Hb; rename Hb into Hbd end.
    eapply ss_inner with (k := k) (x := t)
      (f := fun y => if b then with_st (with_flags y false false true) TPost else with_st y TReady);
      [exact Eft|intros z Hz; now destruct b| | |reflexivity|same_st|reflexivity].
    + destruct b.
      * apply ts_skip; [exact Hst|]. unfold coord_done. now rewrite Efc.
      * apply ts_ready; [exact Hst|]. unfold coord_done. now rewrite Efc.
    + destruct b; io_auto.
  - (* EMainBegin *)
    sub_on_task H. inv Hf. injection Hf as <-.
    assert (Hst : k_st x = TReady) by now apply tst_eqb_true.
    eapply ss_inner with (k := k) (x := x) (f := fun _ => with_st (with_flags x true false false) TMain);
      [exact Hft|intros z _; cbn; now apply find_task_some_id in Hft| | |reflexivity|same_st|reflexivity].
    + now apply ts_main_begin.
    + io_auto.
  - (* EMainEnd *)
    inv H. destruct (find_task k (tasks s)) eqn:Eft; [|discriminate].
    destruct (find_coord (k_t t) (coords s)) eqn:Efc; [|discriminate].
    inv H. injection H as <-. split_ands.
    assert (Hst : k_st t = TMain) by now apply tst_eqb_true.
    eapply ss_inner with (k := k) (x := t)
      (f := fun y => if ok then with_st (with_flags y true true false) TPost else with_st y TFailed);
      [exact Eft|intros z Hz; now destruct ok| | |reflexivity|same_st|reflexivity].
    + destruct ok.
      * apply ts_main_ok; [exact Hst| |].
        -- intros Hfin. rewrite Hfin in *. unfold coord_success. rewrite Efc.
           match goal with Hb : eqb true (status_eqb _ Success) = true |- _ => apply eqb_prop in Hb; now rewrite <- Hb end.
        -- intros Hk. unfold KSubmission in *.
           destruct (k_kind t =? 0) eqn:Ek; [|lia].
           match goal with Hs : true && _ = true |- _ => cbn in Hs; apply orb_prop in Hs as [Hs|Hs]; lia end.
      * apply ts_main_fail; [exact Hst| |].
        -- intros Hk. unfold KSubmission in *. destruct (k_kind t =? 0) eqn:Ek; [|lia].
           match goal with Hs : false && _ = true |- _ => discriminate Hs end.
        -- intros Hfin. rewrite Hfin in *. unfold coord_success. rewrite Efc.
           match goal with Hb : eqb false (status_eqb _ Success) = true |- _ => apply eqb_prop in Hb; now rewrite <- Hb end.
    + destruct ok; io_auto.
  - (* ESetResult *)
    inv H. destruct (find_task k (tasks s)); [|discriminate]. inv H. sub_on_coord H. other.
  - (* ESetException *)
    inv H.
    destruct (is_user a).
    + destruct (find_coord t (coords s)); [|discriminate]. inv H. sub_on_coord H. other.
    + destruct (find_task a (tasks s)) eqn:Eft; [|discriminate].
      destruct (k_t t0 =? t) eqn:Ekt; cbn [negb] in H; [|discriminate].
      destruct override.
      * destruct (find_coord t (coords s)); [|discriminate]. inv H. sub_on_coord H. other.
      * destruct (tst_eqb (k_st t0) TFailed) eqn:Est.
        { unfold bind in H. destruct (on_coord s t _) as [s1|] eqn:E1; [|discriminate].
          sub_on_coord E1. sub_on_task H. injection Hf0 as <-.
          cbn [tasks set_coords] in Hft. rewrite Eft in Hft. injection Hft as <-.
          assert (Hst : k_st t0 = TFailed) by now apply tst_eqb_true.
          eapply ss_inner with (k := a) (x := t0) (f := fun _ => with_st t0 TPost);
            [exact Eft|intros z _; cbn; now apply find_task_some_id in Eft| | |reflexivity|same_st|reflexivity].
          - now apply ts_exc_failed.
          - io_auto. intros _. unfold coord_done. cbn [coords set_tasks set_coords].
            assert (Et : k_t t0 = t) by lia.
            rewrite Et. pose proof (find_coord_some_id _ _ _ Hfc) as Hcid.
            rewrite (find_coord_upd_const _ _ _ y Hfc).
            + destruct (is_done (c_status c)) eqn:Ed; cbn in Hf; injection Hf as <-; [exact Ed|reflexivity].
            + destruct (is_done (c_status c)) eqn:Ed; cbn in Hf; injection Hf as <-; exact Hcid. }
        destruct (tst_eqb (k_st t0) TMain && (k_kind t0 =? KSubmission) && (k_phase t0 <? 3)) eqn:Eg; [|discriminate].
        unfold bind in H. destruct (on_coord s t _) as [s1|] eqn:E1; [|discriminate].
        sub_on_coord E1. sub_on_task H. injection Hf0 as <-.
        cbn [tasks set_coords] in Hft. rewrite Eft in Hft. injection Hft as <-. split_ands.
        assert (Hst : k_st t0 = TMain) by now apply tst_eqb_true.
        eapply ss_inner with (k := a) (x := t0) (f := fun _ => with_phase t0 3);
          [exact Eft|intros z _; cbn; now apply find_task_some_id in Eft| | |reflexivity|same_st|reflexivity].
        -- apply ts_sub_exc; [exact Hst|unfold KSubmission in *; lia|lia].
        -- io_auto. intros _. unfold coord_done. cbn [coords set_tasks set_coords].
           assert (Et : k_t t0 = t) by lia.
           rewrite Et. pose proof (find_coord_some_id _ _ _ Hfc) as Hcid.
           rewrite (find_coord_upd_const _ _ _ y Hfc).
           ++ destruct (is_done (c_status c)) eqn:Ed; cbn in Hf; injection Hf as <-; [exact Ed|reflexivity].
           ++ destruct (is_done (c_status c)) eqn:Ed; cbn in Hf; injection Hf as <-; exact Hcid.
  - (* ECancel *) inv H. sub_on_coord H. other.
  - (* EStatus *)
    inv H. destruct (find_task k (tasks s)) eqn:Eft; [|discriminate].
    destruct (find_coord (k_t t) (coords s)) eqn:Efc; [|discriminate]. inv H.
    destruct ok.
    + unfold bind in H. destruct (on_coord s (k_t t) _) as [s1|] eqn:E1; [|discriminate].
      sub_on_coord E1. sub_on_task H. injection Hf0 as <-.
      cbn [tasks set_coords] in Hft. rewrite Eft in Hft. injection Hft as <-. split_ands.
      assert (Hst : k_st t = TMain) by now apply tst_eqb_true.
      match goal with Hb : eqb true _ = true |- _ => apply eqb_prop in Hb; rename Hb into Hbd end.
      eapply ss_inner with (k := k) (x := t)
        (f := fun _ => with_phase t ((if to_running then 1 else 0) + 1));
        [exact Eft|intros z _; cbn; now apply find_task_some_id in Eft| | |reflexivity|same_st|reflexivity].
      * apply ts_status; [exact Hst|unfold KSubmission in *; lia|lia|destruct to_running; lia|].
        unfold coord_done. rewrite Efc. now destruct (is_done (c_status c)).
      * io_auto; [intros [[Hx _]|[_ Hx]]; [congruence|destruct to_running; lia]|
                  |intros [[Hx _]|[Hx1 Hx2]]; [congruence|split_ands; destruct to_running; lia]].
        intros _ _. cbn [coords set_tasks set_coords].
        injection Hf as <-. pose proof (find_coord_some_id _ _ _ Hfc) as Hcid.
        erewrite find_coord_upd_const; [|exact Hfc|cbn; exact Hcid]. eexists. split; [reflexivity|].
        cbn. destruct to_running; auto.
    + injection H as <-. other.
  - (* EOnQueued *)
    inv H. destruct (find_task k (tasks s)); [|discriminate]. inv H. sub_on_coord H. other.
  - (* EOnProgress *) inv H. sub_on_coord H. other.
  - (* EWaitAll *)
    inv H. destruct (find_task k (tasks s)) eqn:Eft; [|discriminate]. inv H.
    sub_on_task H. injection Hf as <-. rewrite Eft in Hft. injection Hft as <-. split_ands.
    assert (Hst : k_st t = TMain) by now apply tst_eqb_true.
    eapply ss_inner with (k := k) (x := t) (f := fun _ => with_phase t 4);
      [exact Eft|intros z _; cbn; now apply find_task_some_id in Eft| | |reflexivity|same_st|reflexivity].
    + apply ts_waitall; [exact Hst|unfold KSubmission in *; lia|lia|assumption].
    + io_auto.
  - (* EAnnBegin *)
    inv H. destruct (find_coord t (coords s)) eqn:Efc; [|discriminate]. clean_but H.
    destruct (ann_phase a (c_announcers c)); [discriminate|].
    destruct (mem_z a (c_owing c)).
    + sub_on_coord H. other.
    + destruct (find_task a (tasks s)) eqn:Eft; [|discriminate].
      destruct (negb (k_t t0 =? t)); [discriminate|].
      destruct (k_kind t0 =? KSubmission) eqn:Ek.
      * inv H. sub_on_coord H. other.
      * inv H. unfold bind in H. destruct (on_coord s t _) as [s1|] eqn:E1; [|discriminate].
        sub_on_coord E1. sub_on_task H. injection Hf0 as <-.
        cbn [tasks set_coords] in Hft. rewrite Eft in Hft. injection Hft as <-. split_ands.
        assert (Hst : k_st t0 = TPost) by now apply tst_eqb_true.
        eapply ss_inner with (k := a) (x := t0) (f := fun _ => with_st t0 TAnn);
          [exact Eft|intros z _; cbn; now apply find_task_some_id in Eft| | |reflexivity|same_st|reflexivity].
        -- apply ts_ann_begin; [exact Hst|assumption|unfold KSubmission in *; lia].
        -- io_auto.
  - (* ECleanupsBegin *) inv H. sub_on_coord H. other.
  - (* ECleanup *) inv H. sub_on_coord H. other.
  - (* ECleanupsEnd *) inv H. sub_on_coord H. other.
  - (* EEventSet *) inv H. sub_on_coord H. other.
  - (* ECallbacksBegin *) inv H. sub_on_coord H. other.
  - (* ECallback *) inv H. sub_on_coord H. other.
  - (* ECallbacksEnd *) inv H. sub_on_coord H. other.
  - (* EAnnEnd *)
    destruct (busy s a) eqn:Ebusy; [discriminate|].
    destruct (find_coord t (coords s)) eqn:Efc; [|discriminate].
    destruct (ann_phase a (c_announcers c)) as [p|] eqn:Eap; [|discriminate].
    destruct p as [|p|p]; try discriminate. destruct p as [p|p|]; try discriminate.
    destruct p as [p|p|]; try discriminate. destruct p; try discriminate.
    destruct (find_task a (tasks s)) eqn:Eft.
    + destruct (is_user a); [injection H as <-; other|].
      destruct (tst_eqb (k_st t0) TAnn) eqn:Est.
      { sub_on_task H. injection Hf as <-. cbn [tasks set_coords] in *. rewrite Eft in Hft. injection Hft as <-.
        assert (Hst : k_st t0 = TAnn) by now apply tst_eqb_true.
        eapply ss_inner with (k := a) (x := t0) (f := fun _ => with_st t0 TAnnDone);
          [exact Eft|intros z _; cbn; now apply find_task_some_id in Eft| | |reflexivity|same_st|reflexivity].
        - now apply ts_ann_end.
        - io_auto. intros _. exists t, c. auto. }
      destruct ((k_kind t0 =? KSubmission) && (k_phase t0 =? 4)) eqn:Eg.
      { sub_on_task H. injection Hf as <-. cbn [tasks set_coords] in *. rewrite Eft in Hft. injection Hft as <-.
        split_ands.
        eapply ss_inner with (k := a) (x := t0) (f := fun _ => with_phase t0 5);
          [exact Eft|intros z _; cbn; now apply find_task_some_id in Eft| | |reflexivity|same_st|reflexivity].
        - apply ts_sub_ann_end; unfold KSubmission in *; lia.
        - io_auto. intros _. exists t, c. auto. }
      injection H as <-; other.
    + injection H as <-; other.
  - (* ETaskEnd *)
    inv H. destruct (find_task k (tasks s)) eqn:Eft; [|discriminate]. inv H.
    assert (Hst : if k_final t then k_st t = TAnnDone else k_st t = TPost)
      by (destruct (k_final t); now apply tst_eqb_true).
    destruct (stage_eqb (k_stage t) SInline) eqn:Einl; injection H as <-.
    + apply stage_eqb_eq in Einl.
      eapply ss_inner with (k := k) (x := t) (f := fun y => with_st y TEnded);
        [exact Eft|intros z Hz; exact Hz| | |reflexivity|same_st|reflexivity].
      * now apply ts_end.
      * io_auto; [now left|].
        rewrite Hq in Hst. destruct (k_final t); discriminate.
    + apply stage_neq_inline in Einl.
      eapply ss_end with (k := k) (x := t);
        [exact Eft|exact Einl|exact Hst|assumption|rewrite set_stage_tasks; reflexivity| |
         rewrite set_stage_sems; reflexivity|rewrite set_stage_coords; reflexivity].
      replace (get_stage (set_tasks s (upd_task k (fun y => with_st y TEnded) (tasks s))) (k_stage t))
        with (get_stage s (k_stage t)) by now destruct (k_stage t).
      apply stage_set_intro; [exact Einl|]. intros g'; now destruct g'.
  - (* ERelease *)
    destruct (find_task k (tasks s)) eqn:Eft; [|discriminate]. inv H. injection H as <-. split_ands.
    eapply ss_release with (k := k) (x := t);
      [exact Eft|now apply tst_eqb_true|now destruct (k_released t)|lia|reflexivity|reflexivity|same_st|reflexivity].
  - (* EDissoc *)
    sub_on_task H. inv Hf. injection Hf as <-. split_ands.
    assert (Hst : k_st x = TEnded) by now apply tst_eqb_true.
    eapply ss_inner with (k := k) (x := x) (f := fun _ => with_assoc x 2);
      [exact Hft|intros z _; cbn; now apply find_task_some_id in Hft| | |reflexivity|same_st|reflexivity].
    + apply ts_dissoc; [exact Hst|lia].
    + io_auto.
  - (* ECount *) inv H. sub_on_coord H. other.
  - (* ES3Begin *)
    inv H.
    destruct op; try (injection H as <-; other);
      (destruct (find_upload uid _); [|discriminate]; inv H; injection H as <-; other).
  - (* ES3Effect *)
    destruct (find_req r (reqs s)); [|discriminate]. inv H.
    destruct (s3op_eqb (r_op r0) OpCreate).
    + destruct (find_upload uid _); [discriminate|]. injection H as <-. other.
    + injection H as <-. other.
  - (* ES3End *)
    destruct (find_req r (reqs s)); [|discriminate]. inv H.
    destruct (r_op r0); injection H as <-; other.
  - (* EResult *)
    destruct (find_coord t (coords s)); [|discriminate]. inv H. injection H as <-. other.
  - (* EFs *)
    inv H. destruct op; destruct (find_file t (files s)); try discriminate;
      inv H; injection H as <-; other.
  - (* EShutdownBegin *) inv H. injection H as <-. other.
  - (* EStageShutdown *)
    inv H. injection H as <-. split_ands.
    match goal with Hn : negb (stage_eqb _ SInline) = true |- _ => apply negb_true_iff in Hn; apply stage_neq_inline in Hn; rename Hn into Hni end.
    eapply ss_shut with (g := g);
      [exact Hni|rewrite set_stage_tasks; reflexivity|rewrite set_stage_sems; reflexivity
      |rewrite set_stage_coords; reflexivity|lia|].
    apply stage_set_intro; [exact Hni|reflexivity].
  - (* EStageJoined *)
    inv H. injection H as <-. split_ands.
    match goal with Hn : negb (stage_eqb _ SInline) = true |- _ => apply negb_true_iff in Hn; apply stage_neq_inline in Hn; rename Hn into Hni end.
    eapply ss_join with (g := g);
      [exact Hni|rewrite set_stage_tasks; reflexivity|rewrite set_stage_sems; reflexivity
      |rewrite set_stage_coords; reflexivity|assumption|lia| |].
    + destruct (g_queue (get_stage s g)); [reflexivity|discriminate].
    + apply stage_set_intro; [exact Hni|reflexivity].
  - (* EShutdownReturn *) inv H. injection H as <-. other.
Qed.

(** * Part 2: unique ids, counting *)
Lemma tstep_static s x y : tstep s x y ->
  k_id y = k_id x /\ k_t y = k_t x /\ k_stage y = k_stage x /\ k_parent y = k_parent x /\
  k_final y = k_final x /\ k_deps y = k_deps x /\ k_kind y = k_kind x.
Proof. intros H. destruct H; cbn; repeat split; reflexivity. Qed.

Lemma upd_task_ids k f l :
  (forall z, k_id z = k -> k_id (f z) = k) -> map k_id (upd_task k f l) = map k_id l.
Proof.
  intros Hid. induction l as [|x r IH]; cbn [upd_task map]; [reflexivity|].
  fold (upd_task k f r). rewrite IH. f_equal.
  destruct (k_id x =? k) eqn:E; [|reflexivity]. rewrite Hid; lia.
Qed.

Lemma find_task_none_notin k l : find_task k l = None <-> ~ In k (map k_id l).
Proof.
  induction l as [|x r IH]; cbn [find_task map In]; [tauto|].
  destruct (k_id x =? k) eqn:E.
  - split; [discriminate|]. intros Hn. exfalso. apply Hn. left. lia.
  - rewrite IH. split; [intros Hn [Hx|Hx]; [lia|auto]|tauto].
Qed.

Lemma find_task_in k l x : find_task k l = Some x -> In x l /\ k_id x = k.
Proof.
  induction l as [|y r IH]; cbn [find_task In]; [discriminate|].
  destruct (k_id y =? k) eqn:E.
  - intros [= <-]. split; [now left|lia].
  - intros H. destruct (IH H). split; [now right|assumption].
Qed.

Lemma in_find_task l x : NoDup (map k_id l) -> In x l -> find_task (k_id x) l = Some x.
Proof.
  induction l as [|y r IH]; cbn [map In find_task]; [tauto|].
  intros Hnd Hin. inversion Hnd as [|? ? Hy Hr]; subst.
  destruct Hin as [->|Hin]; [now rewrite Z.eqb_refl|].
  destruct (k_id y =? k_id x) eqn:E; [|now apply IH].
  exfalso. apply Hy. assert (k_id y = k_id x) by lia. rewrite H. now apply in_map.
Qed.

Lemma upd_task_notin k f l : ~ In k (map k_id l) -> upd_task k f l = l.
Proof.
  induction l as [|x r IH]; cbn [upd_task map In]; [reflexivity|].
  intros Hn. change (map _ r) with (upd_task k f r). rewrite IH by tauto.
  destruct (k_id x =? k) eqn:E; [exfalso; apply Hn; left; lia|reflexivity].
Qed.

Lemma find_task_upd' k k' f l :
  (forall z, k_id z = k' -> k_id (f z) = k') ->
  find_task k (upd_task k' f l) = if k =? k' then option_map f (find_task k l) else find_task k l.
Proof.
  intros Hid. induction l as [|x r IH]; cbn [upd_task map find_task].
  - now destruct (k =? k').
  - change (map _ r) with (upd_task k' f r).
    destruct (k_id x =? k') eqn:E1.
    + rewrite Hid by lia. destruct (k_id x =? k) eqn:E2.
      * assert (E3 : k' =? k = true) by lia. rewrite E3. assert (E4 : k =? k' = true) by lia. now rewrite E4.
      * assert (E3 : k' =? k = false) by lia. rewrite E3. exact IH.
    + destruct (k_id x =? k) eqn:E2.
      * assert (E4 : k =? k' = false) by lia. now rewrite E4.
      * exact IH.
Qed.

Definition ids_inv (s : state) : Prop := NoDup (map k_id (tasks s)).

Lemma ids_inv_step s e s' : ids_inv s -> step s e = Some s' -> ids_inv s'.
Proof.
  unfold ids_inv. intros I H. apply step_sstep in H.
  destruct H as [Ht _ _|k t g a final deps kind Hn _ Ht _ _ _|k x f Hf Hid _ _ Ht _ _
                |k x sem v Hf _ _ _ _ _ Ht _ _ _|k x Hf _ _ _ _ Ht _ _ _|k x rest Hf _ _ _ _ Ht _ _ _
                |k x Hf _ _ _ Ht _ _ _|k x Hf _ _ _ Ht _ _ _|g _ Ht _ _ _ _|g _ Ht _ _ _ _ _ _];
    rewrite Ht; try exact I; try (rewrite upd_task_ids; [exact I|intros z Hz; exact Hz]).
  - rewrite map_app. cbn [map fresh_task k_id]. apply NoDup_snoc; [exact I|].
    now apply find_task_none_notin.
  - rewrite upd_task_ids; [exact I|exact Hid].
Qed.

Lemma ids_inv_reachable a b c d e f g h s : reachable (init a b c d e f g h) s -> ids_inv s.
Proof.
  apply invariant_reachable; [constructor|]. intros s0 ev s1 I H. eapply ids_inv_step; eauto.
Qed.

Definition b2z (b : bool) : Z := if b then 1 else 0.
Fixpoint count (p : task -> bool) (l : list task) : Z :=
  match l with [] => 0 | x :: r => b2z (p x) + count p r end.

Lemma count_nonneg p l : 0 <= count p l.
Proof. induction l as [|x r IH]; cbn [count]; [lia|]. unfold b2z. destruct (p x); lia. Qed.

Lemma count_app p l1 l2 : count p (l1 ++ l2) = count p l1 + count p l2.
Proof. induction l1 as [|x r IH]; cbn [count app]; [lia|]. rewrite IH. lia. Qed.

Lemma count_upd p k f l x :
  NoDup (map k_id l) -> find_task k l = Some x ->
  count p (upd_task k f l) = count p l - b2z (p x) + b2z (p (f x)).
Proof.
  induction l as [|y r IH]; cbn [map find_task upd_task count]; [discriminate|].
  intros Hnd Hf. inversion Hnd as [|? ? Hy Hr]; subst.
  change (map _ r) with (upd_task k f r).
  destruct (k_id y =? k) eqn:E.
  - injection Hf as ->. assert (k_id x = k) by lia. subst k.
    rewrite upd_task_notin by exact Hy. lia.
  - rewrite IH by assumption. lia.
Qed.

Lemma count_le p q l : (forall x, In x l -> p x = true -> q x = true) -> count p l <= count q l.
Proof.
  induction l as [|x r IH]; cbn [count]; intros H; [lia|].
  assert (count p r <= count q r) by (apply IH; intros y Hy; apply H; now right).
  unfold b2z. destruct (p x) eqn:E; [rewrite (H x (or_introl eq_refl) E)|destruct (q x)]; lia.
Qed.

Lemma count_zero p l : (forall x, In x l -> p x = false) -> count p l = 0.
Proof.
  induction l as [|x r IH]; cbn [count]; intros H; [reflexivity|].
  rewrite (H x (or_introl eq_refl)), IH; [reflexivity|]. intros y Hy. apply H. now right.
Qed.

Lemma count_zero_inv p l x : count p l = 0 -> In x l -> p x = false.
Proof.
  induction l as [|y r IH]; cbn [count In]; [tauto|].
  intros Hc [->|Hin].
  - pose proof (count_nonneg p r). unfold b2z in Hc. destruct (p x); [lia|reflexivity].
  - apply IH; [|exact Hin]. pose proof (count_nonneg p r). unfold b2z in Hc. destruct (p y); lia.
Qed.

Lemma count_pos p l x : In x l -> p x = true -> 1 <= count p l.
Proof.
  induction l as [|y r IH]; cbn [In count]; [tauto|].
  intros [->|Hin] Hp.
  - rewrite Hp. pose proof (count_nonneg p r). cbn [b2z]. lia.
  - specialize (IH Hin Hp). unfold b2z. destruct (p y); lia.
Qed.

(** the effect of a step on a count, for the single-task updates *)
Lemma count_step_upd p s s' k f x :
  ids_inv s -> find_task k (tasks s) = Some x -> tasks s' = upd_task k f (tasks s) ->
  count p (tasks s') = count p (tasks s) - b2z (p x) + b2z (p (f x)).
Proof. intros I Hf ->. now apply count_upd. Qed.

(** * Part 3 (C10): running workers *)
Definition runs_in (g : stage) (x : task) : bool := stage_eqb (k_stage x) g && running_st (k_st x).

Definition run_inv (s : state) : Prop :=
  forall g, g <> SInline -> g_running (get_stage s g) = count (runs_in g) (tasks s).

Lemma running_st_cls v : running_st v = (cls v =? 2).
Proof. now destruct v. Qed.

Lemma stage_eqb_refl g : stage_eqb g g = true.
Proof. now destruct g. Qed.

Lemma stage_eqb_neq a b : a <> b -> stage_eqb a b = false.
Proof. intros H. destruct (stage_eqb a b) eqn:E; [|reflexivity]. apply stage_eqb_eq in E. contradiction. Qed.

Lemma stage_dec (a b : stage) : {a = b} + {a <> b}.
Proof. decide equality. Qed.

Lemma inner_runs_in s s' k x y g :
  inner_ok s s' k x y -> k_stage y = k_stage x -> g <> SInline -> runs_in g y = runs_in g x.
Proof.
  intros [_ _ Hc _ _ _ _ _ _] Hs Hg. unfold runs_in. rewrite Hs.
  destruct Hc as [Hc|Hc].
  - rewrite Hc. rewrite stage_eqb_neq by congruence. reflexivity.
  - now rewrite !running_st_cls, Hc.
Qed.

Lemma stage_set_cases s s' g0 v g :
  stage_set s s' g0 v -> (g = g0 /\ get_stage s' g = v) \/ (g <> g0 /\ get_stage s' g = get_stage s g).
Proof.
  intros [H1 H2]. destruct (stage_dec g g0) as [->|Hne]; [left; auto|right; auto].
Qed.

Lemma run_inv_step s e s' : ids_inv s -> run_inv s -> step s e = Some s' -> run_inv s'.
Proof.
  intros I0 I H g Hg. apply step_sstep in H. specialize (I g Hg).
  destruct H as [Ht Hs _|k t g0 a final deps kind Hn _ Ht _ Hs _|k x f Hf Hid Hts Hio Ht Hs _
                |k x sem v Hf _ _ _ _ _ Ht _ Hs _|k x Hf Hst _ _ _ Ht Hs _ _|k x rest Hf Hst _ _ _ Ht Hs _ _
                |k x Hf _ Hst _ Ht Hs _ _|k x Hf _ _ _ Ht _ Hs _|g0 _ Ht _ _ _ Hs|g0 _ Ht _ _ _ _ _ Hs].
  - now rewrite Hs, Ht.
  - rewrite Hs, Ht, count_app. cbn [count]. rewrite I.
    assert (E : runs_in g (fresh_task k t g0 a final deps kind) = false).
    { unfold runs_in, fresh_task. cbn. destruct (stage_eqb g0 SInline); cbn; apply andb_false_r. }
    rewrite E. cbn. lia.
  - rewrite Hs, (count_step_upd _ _ _ _ _ _ I0 Hf Ht), I.
    rewrite (inner_runs_in _ _ _ _ _ g Hio); [lia| |exact Hg].
    now destruct (tstep_static _ _ _ Hts) as (_ & _ & ? & _).
  - rewrite Hs, (count_step_upd _ _ _ _ _ _ I0 Hf Ht), I.
    replace (runs_in g (with_permit x sem)) with (runs_in g x) by reflexivity. lia.
  - rewrite (count_step_upd _ _ _ _ _ _ I0 Hf Ht).
    unfold runs_in at 2 3. cbn [k_st k_stage with_st]. rewrite Hst. cbn [running_st].
    rewrite !andb_false_r. cbn [b2z].
    destruct (stage_set_cases _ _ _ _ g Hs) as [[-> E]|[_ E]]; rewrite E; cbn [g_running]; lia.
  - rewrite (count_step_upd _ _ _ _ _ _ I0 Hf Ht).
    unfold runs_in at 2 3. cbn [k_st k_stage with_st]. rewrite Hst. cbn [running_st].
    rewrite Bool.andb_false_r, Bool.andb_true_r. cbn [b2z].
    destruct (stage_set_cases _ _ _ _ g Hs) as [[-> E]|[Hne E]]; rewrite E; cbn [g_running].
    + rewrite stage_eqb_refl. cbn [b2z]. lia.
    + rewrite stage_eqb_neq by congruence. cbn [b2z]. lia.
  - rewrite (count_step_upd _ _ _ _ _ _ I0 Hf Ht).
    unfold runs_in at 2 3. cbn [k_st k_stage with_st]. cbn [running_st].
    assert (Er : running_st (k_st x) = true) by (destruct (k_final x); rewrite Hst; reflexivity).
    rewrite Er, Bool.andb_false_r, Bool.andb_true_r. cbn [b2z].
    destruct (stage_set_cases _ _ _ _ g Hs) as [[-> E]|[Hne E]]; rewrite E; cbn [g_running].
    + rewrite stage_eqb_refl. cbn [b2z]. lia.
    + rewrite stage_eqb_neq by congruence. cbn [b2z]. lia.
  - rewrite Hs, (count_step_upd _ _ _ _ _ _ I0 Hf Ht), I.
    replace (runs_in g (with_released x)) with (runs_in g x) by reflexivity. lia.
  - rewrite Ht. destruct (stage_set_cases _ _ _ _ g Hs) as [[-> E]|[Hne E]]; rewrite E; cbn [g_running]; exact I.
  - rewrite Ht. destruct (stage_set_cases _ _ _ _ g Hs) as [[-> E]|[Hne E]]; rewrite E; cbn [g_running]; exact I.
Qed.

Lemma run_inv_reachable a b c d e f g h s : reachable (init a b c d e f g h) s -> run_inv s.
Proof.
  apply invariant_reachable2 with (Q := ids_inv); [apply ids_inv_reachable| |].
  - intros g0 Hg. now destruct g0.
  - intros s0 ev s1 Q I H. eapply run_inv_step; eauto.
Qed.

(** workers are constant; running never exceeds them *)
Definition workers_inv (w : stage -> Z) (s : state) : Prop :=
  forall g, g <> SInline -> g_workers (get_stage s g) = w g /\ g_running (get_stage s g) <= w g.

Lemma workers_inv_step w s e s' : workers_inv w s -> step s e = Some s' -> workers_inv w s'.
Proof.
  intros I H g Hg. apply step_sstep in H. specialize (I g Hg).
  destruct H as [Ht Hs _|k t g0 a final deps kind Hn _ Ht _ Hs _|k x f Hf Hid Hts Hio Ht Hs _
                |k x sem v Hf _ _ _ _ _ Ht _ Hs _|k x Hf Hst _ _ _ Ht Hs _ _|k x rest Hf Hst _ _ Hlt Ht Hs _ _
                |k x Hf _ Hst _ Ht Hs _ _|k x Hf _ _ _ Ht _ Hs _|g0 _ Ht _ _ _ Hs|g0 _ Ht _ _ _ _ _ Hs];
    try (rewrite Hs; exact I);
    destruct (stage_set_cases _ _ _ _ g Hs) as [[-> E]|[Hne E]]; rewrite E; cbn [g_running g_workers];
    try exact I; lia.
Qed.

Definition wk (w_sub w_req w_io : Z) (g : stage) : Z :=
  match g with SSub => w_sub | SReq => w_req | SIO => w_io | SInline => 0 end.

Lemma workers_inv_reachable a b c d e f g h s :
  0 <= a -> 0 <= b -> 0 <= c ->
  reachable (init a b c d e f g h) s -> workers_inv (wk a b c) s.
Proof.
  intros Ha Hb Hc. apply invariant_reachable.
  - intros g0 Hg. destruct g0; cbn; try lia; congruence.
  - intros s0 ev s1 I H. eapply workers_inv_step; eauto.
Qed.

Theorem running_le_workers a b c d e f g h s st :
  1 <= a -> 1 <= b -> 1 <= c ->
  reachable (init a b c d e f g h) s -> st <> SInline ->
  g_running (get_stage s st) = count (runs_in st) (tasks s) /\
  0 <= g_running (get_stage s st) <= g_workers (get_stage s st) /\
  g_workers (get_stage s st) = wk a b c st.
Proof.
  intros Ha Hb Hc Hr Hst.
  pose proof (run_inv_reachable _ _ _ _ _ _ _ _ _ Hr st Hst) as H1.
  destruct (workers_inv_reachable a b c d e f g h s ltac:(lia) ltac:(lia) ltac:(lia) Hr st Hst) as [H2 H3].
  split; [exact H1|]. split; [|exact H2].
  rewrite H2. split; [|exact H3]. rewrite H1. apply count_nonneg.
Qed.

(** * Part 4 (C10): the FIFO queues *)
Definition task_at (s : state) (k : Z) (g : stage) (P : tst -> Prop) : Prop :=
  exists x, find_task k (tasks s) = Some x /\ k_stage x = g /\ P (k_st x).

Record qinv (s : state) (g : stage) : Prop := {
  q_suffix : exists pre, g_history (get_stage s g) = pre ++ g_queue (get_stage s g);
  q_nodup : NoDup (g_history (get_stage s g));
  q_hist : forall k, In k (g_history (get_stage s g)) <-> task_at s k g (fun v => v <> TSubmitting);
  q_queue : forall k, In k (g_queue (get_stage s g)) <-> task_at s k g (fun v => v = TQueued)
}.
Definition queue_inv (s : state) : Prop := forall g, g <> SInline -> qinv s g.

Lemma task_at_upd s s' k f x k0 g P :
  tasks s' = upd_task k f (tasks s) -> find_task k (tasks s) = Some x ->
  (forall z, k_id z = k -> k_id (f z) = k) -> k_stage (f x) = k_stage x ->
  (task_at s' k0 g P <->
   (k0 = k /\ k_stage x = g /\ P (k_st (f x))) \/ (k0 <> k /\ task_at s k0 g P)).
Proof.
  intros Ht Hf Hid Hst. unfold task_at. rewrite Ht, find_task_upd' by exact Hid.
  destruct (k0 =? k) eqn:E.
  - assert (k0 = k) by lia. subst k0. rewrite Hf. cbn [option_map]. split.
    + intros (y & [= <-] & H1 & H2). left. rewrite Hst in H1. auto.
    + intros [(_ & H1 & H2)|(Hne & _)]; [|congruence]. exists (f x). rewrite Hst. auto.
  - assert (k0 <> k) by lia. split.
    + intros Hx. right. auto.
    + intros [(Hk & _)|(_ & Hx)]; [congruence|exact Hx].
Qed.

Lemma task_at_upd_same s s' k f x k0 g P :
  tasks s' = upd_task k f (tasks s) -> find_task k (tasks s) = Some x ->
  (forall z, k_id z = k -> k_id (f z) = k) -> k_stage (f x) = k_stage x ->
  (k_stage x = g -> (P (k_st (f x)) <-> P (k_st x))) ->
  (task_at s' k0 g P <-> task_at s k0 g P).
Proof.
  intros Ht Hf Hid Hst HP. rewrite (task_at_upd _ _ _ _ _ _ _ _ Ht Hf Hid Hst). split.
  - intros [(-> & H1 & H2)|(_ & Hx)]; [|exact Hx]. exists x. split; [exact Hf|]. split; [exact H1|]. now apply HP.
  - intros Hx. destruct (Z.eq_dec k0 k) as [->|Hne]; [left|right; auto].
    destruct Hx as (y & Hy & H1 & H2). rewrite Hf in Hy. injection Hy as <-.
    split; [reflexivity|]. split; [exact H1|]. now apply HP.
Qed.

Lemma qinv_ext s s' g :
  get_stage s' g = get_stage s g ->
  (forall k, task_at s' k g (fun v => v <> TSubmitting) <-> task_at s k g (fun v => v <> TSubmitting)) ->
  (forall k, task_at s' k g (fun v => v = TQueued) <-> task_at s k g (fun v => v = TQueued)) ->
  qinv s g -> qinv s' g.
Proof.
  intros Hs H1 H2 [Q1 Q2 Q3 Q4]. constructor; rewrite Hs; try assumption.
  - intros k. rewrite H1. apply Q3.
  - intros k. rewrite H2. apply Q4.
Qed.

Lemma cls_not_submitting v : v <> TSubmitting <-> cls v <> 0.
Proof. destruct v; cbn; split; intros H; try congruence; try lia. Qed.
Lemma cls_queued v : v = TQueued <-> cls v = 1.
Proof. destruct v; cbn; split; intros H; try congruence; try lia; try discriminate. Qed.

Lemma queue_inv_step s e s' : queue_inv s -> step s e = Some s' -> queue_inv s'.
Proof.
  intros I H g Hg. apply step_sstep in H. specialize (I g Hg).
  destruct H as [Ht Hs _|k t g0 a final deps kind Hn _ Ht _ Hs _|k x f Hf Hid Hts Hio Ht Hs _
                |k x sem v Hf _ _ _ _ _ Ht _ Hs _|k x Hf Hst _ Hni _ Ht Hs _ _|k x rest Hf Hst Hni Hq _ Ht Hs _ _
                |k x Hf Hni Hst _ Ht Hs _ _|k x Hf _ _ _ Ht _ Hs _|g0 _ Ht _ _ _ Hs|g0 _ Ht _ _ _ _ _ Hs].
  - (* other *)
    apply (qinv_ext s s' g (Hs g)); [| |exact I]; intros k; unfold task_at; now rewrite Ht.
  - (* submit *)
    assert (G : forall (P : tst -> Prop) k0, ~ P TSubmitting ->
              (task_at s' k0 g P <-> task_at s k0 g P)).
    { intros P k0 HP. unfold task_at. rewrite Ht, find_task_app.
      destruct (find_task k0 (tasks s)) eqn:E; [reflexivity|].
      cbn [k_id fresh_task]. destruct (k =? k0); [|reflexivity].
      split; [|intros (y & Hy & _); discriminate].
      intros (y & [= <-] & H1 & H2). cbn in H1, H2. subst g0.
      rewrite stage_eqb_neq in H2 by exact Hg. contradiction. }
    apply (qinv_ext s s' g (Hs g)); [| |exact I]; intros k0; apply G.
    + intros Hx; now apply Hx.
    + discriminate.
  - (* inner *)
    destruct (tstep_static _ _ _ Hts) as (_ & _ & Hstage & _).
    apply (qinv_ext s s' g (Hs g)); [| |exact I]; intros k0;
      apply (task_at_upd_same _ _ _ _ _ _ _ _ Ht Hf Hid Hstage); intros Hxg;
      destruct (io_cls _ _ _ _ _ Hio) as [Hc|Hc]; try congruence.
    + now rewrite !cls_not_submitting, Hc.
    + now rewrite !cls_queued, Hc.
  - (* acquire *)
    apply (qinv_ext s s' g (Hs g)); [| |exact I]; intros k0;
      apply (task_at_upd_same _ _ _ _ _ _ _ _ Ht Hf); try reflexivity; auto.
  - (* enqueue *)
    destruct (stage_set_cases _ _ _ _ g Hs) as [[-> E]|[Hne E]].
    + destruct I as [[pre Q1] Q2 Q3 Q4].
      assert (Hnk : ~ In k (g_history (get_stage s (k_stage x)))).
      { intros Hin. apply Q3 in Hin as (y & Hy & _ & Hy2). congruence. }
      constructor; rewrite E; cbn [g_history g_queue].
      * exists pre. rewrite Q1 at 1. now rewrite app_assoc.
      * now apply NoDup_snoc.
      * intros k0. rewrite (task_at_upd _ _ _ _ _ _ _ _ Ht Hf); [|auto|reflexivity].
        cbn [k_st with_st]. rewrite in_app_iff, Q3. cbn [In]. split.
        -- intros [Hx|[<-|[]]]; [|left; repeat split; discriminate].
           destruct (Z.eq_dec k0 k) as [->|Hn]; [|right; auto].
           left. repeat split; discriminate.
        -- intros [(-> & _)|(_ & Hx)]; [right; now left|now left].
      * intros k0. rewrite (task_at_upd _ _ _ _ _ _ _ _ Ht Hf); [|auto|reflexivity].
        cbn [k_st with_st]. rewrite in_app_iff, Q4. cbn [In]. split.
        -- intros [Hx|[<-|[]]]; [|left; repeat split].
           destruct (Z.eq_dec k0 k) as [->|Hn]; [|right; auto].
           left. repeat split.
        -- intros [(-> & _)|(_ & Hx)]; [right; now left|now left].
    + apply (qinv_ext s s' g E); [| |exact I]; intros k0;
        apply (task_at_upd_same _ _ _ _ _ _ _ _ Ht Hf); try reflexivity; auto; congruence.
  - (* start *)
    destruct (stage_set_cases _ _ _ _ g Hs) as [[-> E]|[Hne E]].
    + destruct I as [[pre Q1] Q2 Q3 Q4]. rewrite Hq in *.
      assert (Hnk : ~ In k rest).
      { rewrite Q1 in Q2. apply NoDup_remove_2 in Q2. intros Hin. apply Q2. apply in_or_app. now right. }
      constructor; rewrite E; cbn [g_history g_queue].
      * exists (pre ++ [k]). rewrite Q1. now rewrite <- app_assoc.
      * exact Q2.
      * intros k0. rewrite Q3. symmetry.
        apply (task_at_upd_same _ _ _ _ _ _ _ _ Ht Hf); try reflexivity; auto.
        intros _. cbn [k_st with_st]. rewrite Hst. split; discriminate.
      * intros k0. rewrite (task_at_upd _ _ _ _ _ _ _ _ Ht Hf); [|auto|reflexivity].
        cbn [k_st with_st]. split.
        -- intros Hin. right. split; [congruence|]. apply Q4. now right.
        -- intros [(_ & _ & Hx)|(Hn & Hx)]; [discriminate|].
           apply Q4 in Hx as [Hx|Hx]; [congruence|exact Hx].
    + apply (qinv_ext s s' g E); [| |exact I]; intros k0;
        apply (task_at_upd_same _ _ _ _ _ _ _ _ Ht Hf); try reflexivity; auto; congruence.
  - (* end *)
    assert (Hx1 : k_st x <> TSubmitting /\ k_st x <> TQueued)
      by (destruct (k_final x); rewrite Hst; split; discriminate).
    assert (E : g_history (get_stage s' g) = g_history (get_stage s g) /\
                g_queue (get_stage s' g) = g_queue (get_stage s g)).
    { destruct (stage_set_cases _ _ _ _ g Hs) as [[-> E]|[Hne E]]; rewrite E; auto. }
    destruct E as [E1 E2]. destruct I as [Q1 Q2 Q3 Q4].
    constructor; rewrite ?E1, ?E2; try assumption.
    + intros k0. rewrite Q3. symmetry.
      apply (task_at_upd_same _ _ _ _ _ _ _ _ Ht Hf); try reflexivity; auto.
      intros _. cbn [k_st with_st]. split; [tauto|discriminate].
    + intros k0. rewrite Q4. symmetry.
      apply (task_at_upd_same _ _ _ _ _ _ _ _ Ht Hf); try reflexivity; auto.
      intros _. cbn [k_st with_st]. split; [discriminate|tauto].
  - (* release *)
    apply (qinv_ext s s' g (Hs g)); [| |exact I]; intros k0;
      apply (task_at_upd_same _ _ _ _ _ _ _ _ Ht Hf); try reflexivity; auto.
  - (* shut *)
    assert (E : g_history (get_stage s' g) = g_history (get_stage s g) /\
                g_queue (get_stage s' g) = g_queue (get_stage s g)).
    { destruct (stage_set_cases _ _ _ _ g Hs) as [[-> E]|[Hne E]]; rewrite E; auto. }
    destruct E as [E1 E2]. destruct I as [Q1 Q2 Q3 Q4].
    constructor; rewrite ?E1, ?E2; try assumption; intros k0; unfold task_at; rewrite Ht; [apply Q3|apply Q4].
  - (* join *)
    assert (E : g_history (get_stage s' g) = g_history (get_stage s g) /\
                g_queue (get_stage s' g) = g_queue (get_stage s g)).
    { destruct (stage_set_cases _ _ _ _ g Hs) as [[-> E]|[Hne E]]; rewrite E; auto. }
    destruct E as [E1 E2]. destruct I as [Q1 Q2 Q3 Q4].
    constructor; rewrite ?E1, ?E2; try assumption; intros k0; unfold task_at; rewrite Ht; [apply Q3|apply Q4].
Qed.

Lemma queue_inv_reachable a b c d e f g h s : reachable (init a b c d e f g h) s -> queue_inv s.
Proof.
  apply invariant_reachable.
  - intros g0 Hg. constructor.
    + exists []. now destruct g0.
    + destruct g0; constructor.
    + intros k. split; [destruct g0; intros []|intros (x & Hx & _); discriminate].
    + intros k. split; [destruct g0; intros []|intros (x & Hx & _); discriminate].
  - intros s0 ev s1 I H. eapply queue_inv_step; eauto.
Qed.

(** * Part 5: what one step does to each task (with the guard facts) *)
Record leave_ok (s s' : state) (k : Z) (x y : task) : Prop := {
  lo_main : k_st x = TMain -> k_st y <> TMain -> busy s k = false;
  lo_act : acting_st (k_st x) = true -> acting_st (k_st y) = false -> busy s k = false;
  lo_inl : k_stage x = SInline -> k_st x = TQueued -> k_st y <> TQueued ->
           busy s (k_parent x) = false /\ acting_task s (k_parent x) (k_t x) = true;
  lo_exc : (k_st x = TFailed /\ k_st y = TPost) \/ (k_phase x < 3 /\ k_phase y = 3) ->
           coord_done s' (k_t x) = true;
  lo_status : k_phase y = k_phase x + 1 -> k_phase x <= 1 ->
              exists c', find_coord (k_t x) (coords s') = Some c' /\
                         (c_status c' = Queued \/ c_status c' = Running);
  lo_annend : (k_st x = TAnn /\ k_st y = TAnnDone) \/ (k_phase x = 4 /\ k_phase y = 5) ->
              exists t c, find_coord t (coords s) = Some c /\ ann_phase k (c_announcers c) = Some 5 /\
                coords s' = upd_coord t (fun c0 => c_with_ann c0 (c_owing c0) (ann_del k (c_announcers c0))) (coords s);
  lo_permit : k_permit y <> k_permit x -> permit_ok (k_permit y) (k_stage y) = true
}.

Lemma leave_ok_same_st s s' k x y :
  k_st y = k_st x -> k_phase y = k_phase x -> k_permit y = k_permit x -> leave_ok s s' k x y.
Proof.
  intros E E2 E3. constructor; rewrite ?E, ?E2; intros; try congruence; try lia.
  - destruct H as [[H1 H2]|[H1 H2]]; [congruence|lia].
  - destruct H as [[H1 H2]|[H1 H2]]; [congruence|lia].
Qed.

Definition tasks_evolve (s s' : state) : Prop :=
  (forall k x, find_task k (tasks s) = Some x ->
     exists y, find_task k (tasks s') = Some y /\ tstep s x y /\ leave_ok s s' k x y) /\
  (forall k y, find_task k (tasks s') = Some y -> find_task k (tasks s) = None ->
     exists a t g final deps kind,
       y = fresh_task k t g a final deps kind /\ submit_ok s a k t g final deps kind) /\
  (forall k1 k2 y1 y2, find_task k1 (tasks s) = None -> find_task k2 (tasks s) = None ->
     find_task k1 (tasks s') = Some y1 -> find_task k2 (tasks s') = Some y2 -> k1 = k2) /\
  (* at most one task changes *)
  (forall k1 k2 x1 x2 y1 y2, find_task k1 (tasks s) = Some x1 -> find_task k2 (tasks s) = Some x2 ->
     find_task k1 (tasks s') = Some y1 -> find_task k2 (tasks s') = Some y2 ->
     y1 <> x1 -> y2 <> x2 -> k1 = k2).

Lemma evolve_upd s s' k x f :
  find_task k (tasks s) = Some x -> (forall z, k_id z = k -> k_id (f z) = k) ->
  tasks s' = upd_task k f (tasks s) -> tstep s x (f x) -> leave_ok s s' k x (f x) ->
  tasks_evolve s s'.
Proof.
  intros Hf Hid Ht Hts Hl. split; [|split; [|split]].
  - intros k0 x0 H0. rewrite Ht, find_task_upd' by exact Hid.
    destruct (k0 =? k) eqn:E.
    + assert (k0 = k) by lia. subst k0. rewrite Hf in H0. injection H0 as <-.
      rewrite Hf. exists (f x). auto.
    + exists x0. split; [exact H0|]. split; [constructor|now apply leave_ok_same_st].
  - intros k0 y Hy Hn. rewrite Ht, find_task_upd' in Hy by exact Hid.
    destruct (k0 =? k); [rewrite Hn in Hy; discriminate|congruence].
  - intros k1 k2 y1 y2 H1 _ Hy1 _. rewrite Ht, find_task_upd' in Hy1 by exact Hid.
    destruct (k1 =? k); [rewrite H1 in Hy1; discriminate|congruence].
  - intros k1 k2 x1 x2 y1 y2 H1 H2 Hy1 Hy2 N1 N2.
    rewrite Ht, find_task_upd' in Hy1, Hy2 by exact Hid.
    destruct (k1 =? k) eqn:E1; [|congruence]. destruct (k2 =? k) eqn:E2; [lia|congruence].
Qed.

Ltac lo_tac :=
  constructor; cbn [k_st k_phase k_permit with_st];
  [ intros ?H1 ?H2 | intros ?H1 ?H2 | intros ?H1 ?H2 ?H3 | intros [[?H1 ?H2]|[?H1 ?H2]] | intros ?H1 ?H2
  | intros [[?H1 ?H2]|[?H1 ?H2]] | intros ?H1 ];
  try lia; try assumption; try contradiction; try congruence;
  try (match goal with Hst : k_st _ = _ |- _ => rewrite Hst in *; cbn in *; congruence end);
  try (match goal with Hst : if k_final ?x then _ else _ |- _ => destruct (k_final x); congruence end).

Lemma sstep_tasks s s' : sstep s s' -> tasks_evolve s s'.
Proof.
  intros H.
  destruct H as [Ht Hs _|k t g0 a final deps kind Hn Hso Ht _ Hs _|k x f Hf Hid Hts Hio Ht Hs _
                |k x sem v Hf _ _ Hst Hp Hpok Ht _ Hs _|k x Hf Hst Hp Hni _ Ht Hs _ _|k x rest Hf Hst Hni Hq _ Ht Hs _ _
                |k x Hf Hni Hst Hb Ht Hs _ _|k x Hf Hst Hr _ Ht _ Hs _|g0 _ Ht _ _ _ Hs|g0 _ Ht _ _ _ _ _ Hs].
  - split; [|split; [|split]]; rewrite Ht.
    + intros k x Hx. exists x. split; [exact Hx|]. split; [constructor|now apply leave_ok_same_st].
    + intros; congruence.
    + intros; congruence.
    + intros; congruence.
  - split; [|split; [|split]]; rewrite Ht.
    + intros k0 x Hx. rewrite find_task_app, Hx. exists x. split; [reflexivity|].
      split; [constructor|now apply leave_ok_same_st].
    + intros k0 y Hy Hn0. rewrite find_task_app, Hn0 in Hy. cbn [k_id fresh_task] in Hy.
      destruct (k =? k0) eqn:E; [|discriminate]. assert (k = k0) by lia. subst k0.
      injection Hy as <-. eauto 10.
    + intros k1 k2 y1 y2 H1 H2 Hy1 Hy2. rewrite find_task_app, H1 in Hy1. rewrite find_task_app, H2 in Hy2.
      cbn [k_id fresh_task] in *.
      destruct (k =? k1) eqn:E1; [|discriminate]. destruct (k =? k2) eqn:E2; [|discriminate]. lia.
    + intros k1 k2 x1 x2 y1 y2 H1 H2 Hy1 Hy2 N1 N2. rewrite find_task_app, H1 in Hy1. congruence.
  - apply (evolve_upd s s' k x f Hf Hid Ht Hts). destruct Hio. constructor; try assumption. congruence.
  - apply (evolve_upd s s' k x (fun y => with_permit y sem) Hf (fun z Hz => Hz) Ht); [now apply ts_permit|].
    constructor; cbn [k_st k_phase k_permit k_stage with_permit]; intros; try congruence; try lia; try assumption.
    + destruct H as [[H1 H2]|[H1 H2]]; [congruence|lia].
    + destruct H as [[H1 H2]|[H1 H2]]; [congruence|lia].
  - apply (evolve_upd s s' k x (fun y => with_st y TQueued) Hf (fun z Hz => Hz) Ht); [now apply ts_enqueue|]. lo_tac.
  - apply (evolve_upd s s' k x (fun y => with_st y TStarted) Hf (fun z Hz => Hz) Ht); [now apply ts_start|]. lo_tac.
  - apply (evolve_upd s s' k x (fun y => with_st y TEnded) Hf (fun z Hz => Hz) Ht); [now apply ts_end|]. lo_tac.
  - apply (evolve_upd s s' k x with_released Hf (fun z Hz => Hz) Ht); [now apply ts_release|now apply leave_ok_same_st].
  - split; [|split; [|split]]; rewrite Ht.
    + intros k x Hx. exists x. split; [exact Hx|]. split; [constructor|now apply leave_ok_same_st].
    + intros; congruence.
    + intros; congruence.
    + intros; congruence.
  - split; [|split; [|split]]; rewrite Ht.
    + intros k x Hx. exists x. split; [exact Hx|]. split; [constructor|now apply leave_ok_same_st].
    + intros; congruence.
    + intros; congruence.
    + intros; congruence.
Qed.

Lemma step_evolve s e s' : step s e = Some s' -> tasks_evolve s s'.
Proof. intros H. apply sstep_tasks. eapply step_sstep; eauto. Qed.

(** a property of single tasks that holds at creation and along [tstep] *)
Lemma task_inv_reachable (P : task -> Prop) s0 :
  tasks s0 = [] ->
  (forall s a k t g final deps kind, submit_ok s a k t g final deps kind ->
     P (fresh_task k t g a final deps kind)) ->
  (forall s x y, tstep s x y -> P x -> P y) ->
  forall s, reachable s0 s -> forall k x, find_task k (tasks s) = Some x -> P x.
Proof.
  intros H0 Hnew Hstep. apply (invariant_reachable (fun s => forall k x, find_task k (tasks s) = Some x -> P x)).
  - rewrite H0. intros; discriminate.
  - intros s e s' I H k y Hy. apply step_evolve in H as (Hold & Hfresh & _ & _).
    destruct (find_task k (tasks s)) as [x|] eqn:E.
    + destruct (Hold k x E) as (y' & Hy' & Hts & _). rewrite Hy in Hy'. injection Hy' as <-.
      eapply Hstep; eauto.
    + destruct (Hfresh k y Hy E) as (a & t & g & final & deps & kind & -> & Hso). eapply Hnew; eauto.
Qed.

(** * Part 6 (C10/C12): permit conservation *)
Definition holds (i : Z) (x : task) : bool := (k_permit x =? i) && negb (k_released x).

(** a released permit belongs to an ended task *)
Lemma released_ended a b c d e f g h s :
  reachable (init a b c d e f g h) s ->
  forall k x, find_task k (tasks s) = Some x -> k_released x = true -> k_st x = TEnded.
Proof.
  intros Hr. apply (task_inv_reachable (fun x => k_released x = true -> k_st x = TEnded)
                      (init a b c d e f g h)); [reflexivity| | |exact Hr].
  - intros; discriminate.
  - intros s0 x y Hts Hx. destruct Hts; cbn; try exact Hx; try (intros Hy; specialize (Hx Hy); congruence).
    all: try (intros Hy; specialize (Hx Hy); destruct (k_final x); congruence). intros _; assumption.
Qed.

Lemma find_sem_upd i j d l :
  find_sem i (upd_sem j d l) = if i =? j then option_map (fun v => v + d) (find_sem i l) else find_sem i l.
Proof.
  induction l as [|[a v] r IH]; cbn [upd_sem map find_sem fst snd].
  - now destruct (i =? j).
  - fold (upd_sem j d r). destruct (a =? j) eqn:E1; cbn [find_sem].
    + destruct (a =? i) eqn:E2.
      * assert (E3 : i =? j = true) by lia. now rewrite E3.
      * exact IH.
    + destruct (a =? i) eqn:E2.
      * assert (E3 : i =? j = false) by lia. now rewrite E3.
      * exact IH.
Qed.

Definition sem_inv (cap : Z -> option Z) (s : state) : Prop :=
  forall i c, 0 <= i -> cap i = Some c ->
    exists v, find_sem i (sems s) = Some v /\ 0 <= v /\ v + count (holds i) (tasks s) = c.

Lemma sem_inv_step cap a b c d e0 f g h s e s' :
  reachable (init a b c d e0 f g h) s -> sem_inv cap s -> step s e = Some s' -> sem_inv cap s'.
Proof.
  intros Hr I H i cp Hi Hc. pose proof (ids_inv_reachable _ _ _ _ _ _ _ _ _ Hr) as I0.
  pose proof (released_ended _ _ _ _ _ _ _ _ _ Hr) as Hrel.
  apply step_sstep in H. destruct (I i cp Hi Hc) as (v & Hv & Hv0 & Hsum).
  destruct H as [Ht _ Hs|k t g0 a0 final deps kind Hn _ Ht _ _ Hs|k x f0 Hf Hid Hts Hio Ht _ Hs
                |k x sem v0 Hf Hfs Hpos Hst Hp _ Ht Hs _ _|k x Hf Hst _ _ _ Ht _ Hs _|k x rest Hf Hst _ _ _ Ht _ Hs _
                |k x Hf _ Hst _ Ht _ Hs _|k x Hf Hst Hrl Hp Ht Hs _ _|g0 _ Ht Hs _ _ _|g0 _ Ht Hs _ _ _ _ _].
  - exists v. now rewrite Hs, Ht.
  - exists v. rewrite Hs, Ht, count_app. cbn [count]. unfold holds at 2, fresh_task. cbn [k_permit k_released].
    assert (E : (-1 =? i) = false) by lia. rewrite E. cbn. split; [exact Hv|]. split; [exact Hv0|lia].
  - exists v. rewrite Hs, (count_step_upd _ _ _ _ _ _ I0 Hf Ht).
    assert (E : holds i (f0 x) = holds i x).
    { unfold holds. now rewrite (io_permit _ _ _ _ _ Hio), (io_released _ _ _ _ _ Hio). }
    rewrite E. split; [exact Hv|]. split; [exact Hv0|lia].
  - (* acquire *)
    rewrite Hs, find_sem_upd, (count_step_upd _ _ _ _ _ _ I0 Hf Ht).
    assert (Er : k_released x = false).
    { destruct (k_released x) eqn:Er; [|reflexivity]. pose proof (Hrel k x Hf Er). congruence. }
    unfold holds at 2 3. cbn [k_permit k_released with_permit]. rewrite Hp, Er.
    assert (E : (-1 =? i) = false) by lia. rewrite E. cbn [andb negb b2z]. rewrite Bool.andb_true_r.
    destruct (i =? sem) eqn:E2.
    + assert (i = sem) by lia. subst sem. rewrite Hv in *. injection Hfs as <-.
      exists (v + -1). cbn [option_map]. rewrite Z.eqb_refl. cbn [b2z]. repeat split; lia.
    + assert (E3 : sem =? i = false) by lia. rewrite E3. cbn [b2z]. exists v. repeat split; try assumption; lia.
  - exists v. rewrite Hs, (count_step_upd _ _ _ _ _ _ I0 Hf Ht).
    replace (holds i (with_st x TQueued)) with (holds i x) by reflexivity. repeat split; try assumption; lia.
  - exists v. rewrite Hs, (count_step_upd _ _ _ _ _ _ I0 Hf Ht).
    replace (holds i (with_st x TStarted)) with (holds i x) by reflexivity. repeat split; try assumption; lia.
  - exists v. rewrite Hs, (count_step_upd _ _ _ _ _ _ I0 Hf Ht).
    replace (holds i (with_st x TEnded)) with (holds i x) by reflexivity. repeat split; try assumption; lia.
  - (* release *)
    rewrite Hs, find_sem_upd, (count_step_upd _ _ _ _ _ _ I0 Hf Ht).
    unfold holds at 2 3. cbn [k_permit k_released with_released]. rewrite Hrl.
    cbn [negb]. rewrite Bool.andb_true_r, Bool.andb_false_r. cbn [b2z].
    destruct (i =? k_permit x) eqn:E2.
    + assert (E3 : k_permit x =? i = true) by lia. rewrite E3, Hv. cbn [option_map b2z].
      exists (v + 1). repeat split; lia.
    + assert (E3 : k_permit x =? i = false) by lia. rewrite E3. cbn [b2z].
      exists v. repeat split; try assumption; lia.
  - exists v. now rewrite Hs, Ht.
  - exists v. now rewrite Hs, Ht.
Qed.

Definition caps (q_sub q_req q_io up down : Z) (i : Z) : option Z :=
  find_sem i [(SEM_SUB, q_sub); (SEM_REQ, q_req); (SEM_IO, q_io); (SEM_UP, up); (SEM_DOWN, down)].

Lemma sem_inv_reachable a b c d e f g h s :
  0 <= d -> 0 <= e -> 0 <= f -> 0 <= g -> 0 <= h ->
  reachable (init a b c d e f g h) s -> sem_inv (caps d e f g h) s.
Proof.
  intros Hd He Hf Hg Hh Hr.
  assert (G : forall s1, reachable (init a b c d e f g h) s1 ->
              reachable (init a b c d e f g h) s1 /\ sem_inv (caps d e f g h) s1).
  { apply invariant_reachable.
    - split; [apply reachable_refl|]. intros i cp Hi Hc. exists cp. cbn [init sems tasks count].
      split; [exact Hc|]. split; [|lia].
      unfold caps in Hc. cbn [find_sem] in Hc. unfold SEM_SUB, SEM_REQ, SEM_IO, SEM_UP, SEM_DOWN in Hc.
      repeat match type of Hc with (if ?b then _ else _) = _ => destruct b end; try discriminate;
        injection Hc as <-; assumption.
    - intros s0 ev s1 [Hr0 I] H. split; [eapply reachable_step; eauto|]. eapply sem_inv_step; eauto. }
  now apply G.
Qed.

(** * Part 7 (C10): requests *)
Lemma set_stage_reqs s g v : reqs (set_stage s g v) = reqs s.
Proof. now destruct g. Qed.

Inductive rstep (s s' : state) : Prop :=
  | rs_same : reqs s' = reqs s -> rstep s s'
  | rs_begin a r op t uid :
      busy s a = false -> find_req r (reqs s) = None ->
      (op <> OpAbort -> exists x, find_task a (tasks s) = Some x /\ k_t x = t /\ k_st x = TMain /\
                                  kind_allows (k_kind x) op = true) ->
      reqs s' = reqs s ++ [mkReq r a t op uid false false false] -> tasks s' = tasks s -> rstep s s'
  | rs_upd r f :
      (forall v, r_actor (f v) = r_actor v /\ r_op (f v) = r_op v /\ r_t (f v) = r_t v /\
                 r_id (f v) = r_id v /\ (r_ended v = true -> r_ended (f v) = true)) ->
      reqs s' = upd_req r f (reqs s) -> tasks s' = tasks s -> rstep s s'.

Ltac destr H :=
  repeat match type of H with
         | Some _ = Some _ => fail 1
         | None = Some _ => discriminate H
         | context [if ?b then _ else _] => destruct b eqn:?
         | context [match ?x with _ => _ end] => destruct x eqn:?
         end.

Ltac rsame :=
  apply rs_same;
  repeat first [ rewrite bump_reqs | rewrite set_stage_reqs | reflexivity
               | progress cbn [reqs set_tasks set_sems set_reqs set_uploads set_shutdown set_coords set_files] ].

Lemma step_rstep s e s' : step s e = Some s' -> rstep s s'.
Proof.
  intros H. destruct e; cbn [step] in H.
  33: { (* ES3Begin *)
    destruct (busy s a) eqn:Eb; [discriminate|].
    destruct (find_req r (reqs s)) eqn:Efr; [discriminate|]. cbn [andb] in H.
    match type of H with (if ?b then _ else _) = _ => destruct b eqn:Ewho; [|discriminate] end.
    assert (Hwho : op <> OpAbort -> exists x, find_task a (tasks s) = Some x /\ k_t x = t /\ k_st x = TMain /\
                                  kind_allows (k_kind x) op = true).
    { intros Hop. destruct (s3op_eqb op OpAbort) eqn:Eop; [apply s3op_eqb_eq in Eop; contradiction|].
      destruct (find_task a (tasks s)) as [x|]; [|discriminate]. exists x. split; [reflexivity|].
      split_ands. repeat split; try assumption; [lia|now apply tst_eqb_true]. }
    assert (G : forall s2, reqs s2 = reqs s ++ [mkReq r a t op uid false false false] -> tasks s2 = tasks s -> rstep s s2).
    { intros s2 H1 H2. eapply rs_begin; eauto. }
    destruct op; destr H; injection H as <-; apply G;
      cbn [reqs tasks set_uploads set_reqs]; rewrite ?bump_reqs, ?bump_tasks; reflexivity. }
  33: { (* ES3Effect *)
    destruct (find_req r (reqs s)) eqn:Efr; [|discriminate].
    match type of H with (if ?b then _ else _) = _ => destruct b eqn:Eg; [|discriminate] end.
    destr H; injection H as <-;
      (eapply rs_upd with (r := r); [|cbn [reqs set_uploads set_reqs]; reflexivity|reflexivity]);
      intros v; cbn; auto. }
  33: { (* ES3End *)
    destruct (find_req r (reqs s)) eqn:Efr; [|discriminate].
    match type of H with (if ?b then _ else _) = _ => destruct b eqn:Eg; [|discriminate] end.
    destr H; injection H as <-;
      (eapply rs_upd with (r := r); [|cbn [reqs set_uploads set_reqs]; reflexivity|reflexivity]);
      intros v; cbn; auto. }
  all: unfold on_task, on_coord, bind in H; destr H; injection H as <-; rsame.
  all: match goal with Hq : _ = Some ?s0 |- reqs ?s0 = _ => destr Hq; injection Hq as <-; reflexivity end.
Qed.

Definition unended (q : req) : bool := negb (r_ended q).
Definition inflight (s : state) : list req := filter unended (reqs s).

Lemma in_request_spec s a : in_request s a = true <-> In a (map r_actor (inflight s)).
Proof.
  unfold in_request, inflight. rewrite existsb_exists, in_map_iff. split.
  - intros (q & Hq & Hb). apply andb_prop in Hb as [H1 H2]. exists q. split; [lia|].
    apply filter_In. auto.
  - intros (q & Ha & Hq). apply filter_In in Hq as [H1 H2]. exists q. split; [exact H1|].
    unfold unended in H2. rewrite H2. rewrite andb_true_iff. split; [lia|reflexivity].
Qed.

Lemma busy_false_in_request s a : busy s a = false -> ~ In a (map r_actor (inflight s)).
Proof.
  unfold busy. intros H. apply orb_false_elim in H as [H _]. intros Hin.
  apply in_request_spec in Hin. congruence.
Qed.

(** filtering by a stronger predicate after an actor-preserving map keeps NoDup *)
Lemma nodup_sub (g : req -> req) (p q : req -> bool) l :
  (forall v, r_actor (g v) = r_actor v) -> (forall v, q (g v) = true -> p v = true) ->
  (forall a, In a (map r_actor (filter q (map g l))) -> In a (map r_actor (filter p l))) /\
  (NoDup (map r_actor (filter p l)) -> NoDup (map r_actor (filter q (map g l)))).
Proof.
  intros Ha Hq. induction l as [|v r [IH1 IH2]]; cbn [map filter].
  - split; [tauto|intros; constructor].
  - destruct (q (g v)) eqn:E.
    + rewrite (Hq v E). cbn [map]. rewrite Ha. split.
      * intros a [Hx|Hx]; [now left|right; now apply IH1].
      * intros Hnd. inversion Hnd as [|? ? Hn Hr]; subst. constructor; [|now apply IH2].
        intros Hin. apply Hn. now apply IH1.
    + split.
      * intros a Hx. destruct (p v); [right|]; now apply IH1.
      * intros Hnd. apply IH2. destruct (p v); [now inversion Hnd|exact Hnd].
Qed.

Record req_inv (s : state) : Prop := {
  ri_actor : forall q, In q (reqs s) -> r_ended q = false -> r_op q <> OpAbort ->
             exists x, find_task (r_actor q) (tasks s) = Some x /\ k_st x = TMain /\ k_t x = r_t q /\
                       kind_allows (k_kind x) (r_op q) = true;
  ri_nodup : NoDup (map r_actor (inflight s))
}.

Lemma req_inv_step s e s' : req_inv s -> step s e = Some s' -> req_inv s'.
Proof.
  intros [R1 R2] H. pose proof (step_evolve _ _ _ H) as (Hold & _ & _ & _). apply step_rstep in H.
  destruct H as [Hr|a r op t uid Hb Hfr Hwho Hr Ht|r f Hf Hr Ht].
  - constructor; unfold inflight; rewrite Hr; [|exact R2].
    intros q Hq He Hop. destruct (R1 q Hq He Hop) as (x & Hx & Hst & Hxt & Hk).
    destruct (Hold _ _ Hx) as (y & Hy & Hts & Hl). exists y. split; [exact Hy|].
    destruct (tstep_static _ _ _ Hts) as (_ & E1 & _ & _ & _ & _ & E2). rewrite E1, E2.
    split; [|auto].
    destruct (tst_eqb (k_st y) TMain) eqn:E; [now apply tst_eqb_true|].
    exfalso. assert (Hne : k_st y <> TMain) by (intros Hc; rewrite Hc in E; discriminate).
    pose proof (lo_main _ _ _ _ _ Hl Hst Hne) as Hbusy.
    apply (busy_false_in_request _ _ Hbusy). apply in_map. apply filter_In. split; [exact Hq|].
    unfold unended. now rewrite He.
  - constructor; unfold inflight; rewrite Hr, ?Ht.
    + intros q Hq He Hop. apply in_app_or in Hq as [Hq|[<-|[]]]; [now apply R1|].
      cbn in *. destruct (Hwho Hop) as (x & Hx & H1 & H2 & H3). exists x. auto.
    + rewrite filter_app, map_app. cbn. apply NoDup_snoc; [exact R2|].
      now apply busy_false_in_request.
  - constructor; unfold inflight; rewrite Hr, ?Ht.
    + intros q' Hq' He Hop. unfold upd_req in Hq'. apply in_map_iff in Hq' as (q & <- & Hq).
      destruct (Hf q) as (F1 & F2 & F3 & F4 & F5).
      destruct (r_id q =? r).
      * rewrite F1, F2, F3 in *. apply R1; [exact Hq| |exact Hop].
        destruct (r_ended q) eqn:E; [|reflexivity]. rewrite (F5 eq_refl) in He. discriminate.
      * now apply R1.
    + unfold upd_req.
      apply (nodup_sub (fun x => if r_id x =? r then f x else x) unended unended (reqs s)); [| |exact R2].
      * intros v. destruct (r_id v =? r); [apply Hf|reflexivity].
      * intros v. destruct (r_id v =? r); [|auto]. unfold unended. destruct (Hf v) as (_ & _ & _ & _ & F5).
        destruct (r_ended v); [rewrite (F5 eq_refl); discriminate|reflexivity].
Qed.

Lemma req_inv_reachable a b c d e f g h s : reachable (init a b c d e f g h) s -> req_inv s.
Proof.
  apply invariant_reachable.
  - constructor; cbn; [tauto|constructor].
  - intros s0 ev s1 I H. eapply req_inv_step; eauto.
Qed.

Lemma kind_stage_reachable a b c d e f g h s :
  reachable (init a b c d e f g h) s ->
  forall k x, find_task k (tasks s) = Some x -> kind_stage_ok (k_kind x) (k_stage x) = true.
Proof.
  intros Hr. apply (task_inv_reachable (fun x => kind_stage_ok (k_kind x) (k_stage x) = true)
                      (init a b c d e f g h)); [reflexivity| | |exact Hr].
  - intros s0 a0 k t g0 final deps kind Hso. exact (so_kind _ _ _ _ _ _ _ _ Hso).
  - intros s0 x y Hts Hx. destruct (tstep_static _ _ _ Hts) as (_ & _ & E1 & _ & _ & _ & E2).
    now rewrite E1, E2.
Qed.

Definition is_data (op : s3op) : bool :=
  match op with OpAbort | OpHead => false | _ => true end.

Lemma count_length p l : count p l = Z.of_nat (length (filter p l)).
Proof.
  induction l as [|x r IH]; cbn [count filter]; [reflexivity|].
  destruct (p x); cbn [b2z length]; lia.
Qed.

Lemma count_ge_actors (p : task -> bool) l (acts : list Z) :
  NoDup acts -> (forall a, In a acts -> exists x, find_task a l = Some x /\ p x = true) ->
  Z.of_nat (length acts) <= count p l.
Proof.
  intros Hnd Hall. rewrite count_length. apply inj_le.
  rewrite <- (map_length k_id (filter p l)). apply NoDup_incl_length; [exact Hnd|].
  intros a Ha. destruct (Hall a Ha) as (x & Hx & Hp). apply find_task_in in Hx as [Hin Hid].
  rewrite <- Hid. apply in_map. apply filter_In. auto.
Qed.

Theorem data_requests_on_request_workers a b c d e f g h s :
  1 <= a -> 1 <= b -> 1 <= c ->
  reachable (init a b c d e f g h) s ->
  (forall q, In q (reqs s) -> r_ended q = false -> r_op q <> OpAbort ->
     exists x, find_task (r_actor q) (tasks s) = Some x /\ k_st x = TMain /\ k_t x = r_t q /\
               k_stage x = (if s3op_eqb (r_op q) OpHead then SSub else SReq)) /\
  NoDup (map r_actor (inflight s)) /\
  Z.of_nat (length (filter (fun q => unended q && is_data (r_op q)) (reqs s))) <= g_running (st_req s) <= b /\
  Z.of_nat (length (filter (fun q => unended q && s3op_eqb (r_op q) OpHead) (reqs s))) <= g_running (st_sub s) <= a.
Proof.
  intros Ha Hb Hc Hr. destruct (req_inv_reachable _ _ _ _ _ _ _ _ _ Hr) as [R1 R2].
  pose proof (kind_stage_reachable _ _ _ _ _ _ _ _ _ Hr) as Hks.
  assert (G : forall q, In q (reqs s) -> r_ended q = false -> r_op q <> OpAbort ->
     exists x, find_task (r_actor q) (tasks s) = Some x /\ k_st x = TMain /\ k_t x = r_t q /\
               k_stage x = (if s3op_eqb (r_op q) OpHead then SSub else SReq)).
  { intros q Hq He Hop. destruct (R1 q Hq He Hop) as (x & Hx & H1 & H2 & H3).
    exists x. repeat split; try assumption. specialize (Hks _ _ Hx).
    unfold kind_stage_ok, KSubmission, KIOWrite, KIOFinal in Hks.
    unfold kind_allows, KCreate, KPart, KComplete, KData, KGet, KSubmission in H3.
    destruct (r_op q); cbn [s3op_eqb]; try congruence;
      repeat match type of Hks with (if ?bb then _ else _) = _ => destruct bb eqn:? end;
      try (apply stage_eqb_eq in Hks; exact Hks); try lia;
      match goal with Ho : _ || _ = true |- _ => apply orb_prop in Ho as [Ho|Ho]; lia end. }
  split; [exact G|]. split; [exact R2|].
  assert (B : forall (sel : s3op -> bool) st, st <> SInline ->
            (forall op, sel op = true -> op <> OpAbort /\ (if s3op_eqb op OpHead then SSub else SReq) = st) ->
            Z.of_nat (length (filter (fun q => unended q && sel (r_op q)) (reqs s))) <= count (runs_in st) (tasks s)).
  { intros sel st Hst Hsel.
    rewrite <- (map_length r_actor). apply count_ge_actors.
    - apply (proj2 (nodup_sub (fun v => v) unended (fun q => unended q && sel (r_op q)) (reqs s)
                      (fun v => eq_refl) (fun v Hv => proj1 (andb_prop _ _ Hv)))) in R2.
      now rewrite map_id in R2.
    - intros a0 Ha0. apply in_map_iff in Ha0 as (q & <- & Hq). apply filter_In in Hq as [Hq Hb0].
      apply andb_prop in Hb0 as [Hu Hs]. destruct (Hsel _ Hs) as [Hop Hstg].
      destruct (G q Hq) as (x & Hx & H1 & _ & H3); [unfold unended in Hu; now destruct (r_ended q)|exact Hop|].
      exists x. split; [exact Hx|]. unfold runs_in. rewrite H3, Hstg, H1, stage_eqb_refl. reflexivity. }
  destruct (running_le_workers a b c d e f g h s SReq Ha Hb Hc Hr ltac:(discriminate)) as (E1 & [_ E2] & E3).
  destruct (running_le_workers a b c d e f g h s SSub Ha Hb Hc Hr ltac:(discriminate)) as (F1 & [_ F2] & F3).
  cbn [get_stage wk] in *. split; split; try lia.
  - rewrite E1. apply B; [discriminate|]. intros op Hop. destruct op; cbn in *; try discriminate; split; congruence.
  - rewrite F1. apply (B (fun op => s3op_eqb op OpHead) SSub); [discriminate|]. intros op Hop. destruct op; cbn in *; try discriminate; split; congruence.
Qed.

(** * Part 8 (C10): the statements *)
Lemma NoDup_app_r (l1 l2 : list Z) : NoDup (l1 ++ l2) -> NoDup l2.
Proof. induction l1 as [|x r IH]; cbn; [auto|]. intros H. inversion H; auto. Qed.

Theorem queue_is_queued a b c d e f g h s st :
  reachable (init a b c d e f g h) s -> st <> SInline ->
  let G := get_stage s st in
  NoDup (g_queue G) /\ NoDup (g_history G) /\
  (forall k, In k (g_queue G) <-> task_at s k st (fun v => v = TQueued)) /\
  (forall k, In k (g_history G) <-> task_at s k st (fun v => v <> TSubmitting)) /\
  exists started, g_history G = started ++ g_queue G /\
    forall k, In k started -> task_at s k st (fun v => v <> TSubmitting /\ v <> TQueued).
Proof.
  intros Hr Hst G. destruct (queue_inv_reachable _ _ _ _ _ _ _ _ _ Hr st Hst) as [[pre Q1] Q2 Q3 Q4].
  fold G in Q1, Q2, Q3, Q4.
  split; [rewrite Q1 in Q2; now apply NoDup_app_r in Q2|].
  split; [exact Q2|]. split; [exact Q4|]. split; [exact Q3|].
  exists pre. split; [exact Q1|]. intros k Hk.
  assert (Hh : In k (g_history G)) by (rewrite Q1; apply in_or_app; now left).
  apply Q3 in Hh as (x & Hx & Hs & Hn). exists x. split; [exact Hx|]. split; [exact Hs|].
  split; [exact Hn|]. intros Hq.
  assert (Hin : In k (g_queue G)) by (apply Q4; exists x; auto).
  rewrite Q1 in Q2. clear - Q2 Hk Hin. induction pre as [|y r IH]; [contradiction|].
  cbn in Q2. inversion Q2 as [|? ? Hy Hr]; subst. destruct Hk as [->|Hk]; [|now apply IH].
  apply Hy. apply in_or_app. now right.
Qed.

Theorem permit_conservation a b c d e f g h s i cap :
  1 <= d -> 1 <= e -> 1 <= f -> 1 <= g -> 1 <= h ->
  reachable (init a b c d e f g h) s -> 0 <= i -> caps d e f g h i = Some cap ->
  exists free, find_sem i (sems s) = Some free /\ 0 <= free /\
               free + count (holds i) (tasks s) = cap.
Proof.
  intros Hd He Hf Hg Hh Hr Hi Hc.
  exact (sem_inv_reachable a b c d e f g h s ltac:(lia) ltac:(lia) ltac:(lia) ltac:(lia) ltac:(lia) Hr i cap Hi Hc).
Qed.

Definition occupying (v : tst) : bool := (cls v =? 1) || (cls v =? 2).

Theorem stage_occupancy_le_permits a b c d e f g h s i cap :
  1 <= d -> 1 <= e -> 1 <= f -> 1 <= g -> 1 <= h ->
  reachable (init a b c d e f g h) s -> 0 <= i -> caps d e f g h i = Some cap ->
  count (fun x => holds i x && occupying (k_st x)) (tasks s) <= cap.
Proof.
  intros Hd He Hf Hg Hh Hr Hi Hc.
  destruct (permit_conservation a b c d e f g h s i cap Hd He Hf Hg Hh Hr Hi Hc) as (v & _ & Hv & Hs).
  assert (count (fun x => holds i x && occupying (k_st x)) (tasks s) <= count (holds i) (tasks s)).
  { apply count_le. intros x _ Hx. now apply andb_prop in Hx as [Hx _]. }
  lia.
Qed.

(** every queued or running task of a stage holds an unreleased permit *)
Theorem occupying_holds_permit a b c d e f g h s k x :
  reachable (init a b c d e f g h) s -> find_task k (tasks s) = Some x ->
  k_stage x <> SInline -> occupying (k_st x) = true ->
  0 <= k_permit x /\ k_released x = false.
Proof.
  intros Hr Hx Hs Ho. split.
  - revert Hs Ho. revert k x Hx.
    apply (task_inv_reachable (fun x => k_stage x <> SInline -> occupying (k_st x) = true -> 0 <= k_permit x)
             (init a b c d e f g h)); [reflexivity| | |exact Hr].
    + intros s0 a0 k t g0 final deps kind _ Hs Ho. unfold fresh_task in *. cbn [k_stage k_st] in *.
      rewrite stage_eqb_neq in Ho by exact Hs. discriminate Ho.
    + intros s0 x y Hts Hx. destruct Hts; cbn [k_stage k_st k_permit with_st with_flags with_phase with_assoc with_permit with_released];
        try exact Hx; intros Hs Ho; try assumption; try (apply Hx; [exact Hs|]);
        try match goal with H : k_st _ = _ |- _ => rewrite H in *; cbn in *; try discriminate; try reflexivity end;
        try assumption.
      all: try (destruct (k_final x); match goal with H : k_st _ = _ |- _ => rewrite H; reflexivity end).
      all: cbn in Ho; discriminate.
  - destruct (k_released x) eqn:E; [|reflexivity].
    rewrite (released_ended _ _ _ _ _ _ _ _ _ Hr k x Hx E) in Ho. discriminate.
Qed.

Theorem submit_blocks_when_full s a k sem s' :
  step s (EAcquire a k sem) = Some s' -> exists v, find_sem sem (sems s) = Some v /\ 0 < v.
Proof.
  cbn [step]. intros H. destruct (find_task k (tasks s)); [|discriminate].
  destruct (find_sem sem (sems s)) as [v|]; [|discriminate]. exists v. split; [reflexivity|].
  inv H. split_ands. lia.
Qed.

Theorem manager_permits_restored a b c d e f g h s i cap :
  1 <= d -> 1 <= e -> 1 <= f -> 1 <= g -> 1 <= h ->
  reachable (init a b c d e f g h) s -> 0 <= i -> caps d e f g h i = Some cap ->
  (forall x, In x (tasks s) -> k_permit x = -1 \/ k_released x = true) ->
  find_sem i (sems s) = Some cap.
Proof.
  intros Hd He Hf Hg Hh Hr Hi Hc Hall.
  destruct (permit_conservation a b c d e f g h s i cap Hd He Hf Hg Hh Hr Hi Hc) as (v & Hv & _ & Hs).
  rewrite count_zero in Hs.
  - rewrite Hv. f_equal. lia.
  - intros x Hx. unfold holds. destruct (Hall x Hx) as [E|E]; rewrite E.
    + assert (E2 : -1 =? i = false) by lia. now rewrite E2.
    + apply andb_false_r.
Qed.

(** * Part 9 (C03): failures are recorded before a task leaves its main phase *)
Lemma coord_done_step s e s' t : step s e = Some s' -> coord_done s t = true -> coord_done s' t = true.
Proof.
  unfold coord_done. intros H Hd. destruct (find_coord t (coords s)) as [c|] eqn:E; [|discriminate].
  destruct (coord_persists_step _ _ _ _ _ H E) as (c' & Hc' & Hcs). rewrite Hc'.
  eapply done_monotone_cstep; eauto.
Qed.

Definition task_coord_inv (s : state) : Prop :=
  forall k x, find_task k (tasks s) = Some x -> exists c, find_coord (k_t x) (coords s) = Some c.

Lemma task_coord_inv_step s e s' : task_coord_inv s -> step s e = Some s' -> task_coord_inv s'.
Proof.
  intros I H k y Hy. pose proof (step_evolve _ _ _ H) as (Hold & Hnew & _ & _).
  destruct (find_task k (tasks s)) as [x|] eqn:E.
  - destruct (Hold k x E) as (y' & Hy' & Hts & _). rewrite Hy in Hy'. injection Hy' as <-.
    destruct (tstep_static _ _ _ Hts) as (_ & -> & _). destruct (I k x E) as (c & Hc).
    destruct (coord_persists_step _ _ _ _ _ H Hc) as (c' & Hc' & _). eauto.
  - destruct (Hnew k y Hy E) as (a & t & g & final & deps & kind & -> & Hso).
    destruct (so_coord _ _ _ _ _ _ _ _ Hso) as (c & Hc). cbn [k_t fresh_task].
    destruct (coord_persists_step _ _ _ _ _ H Hc) as (c' & Hc' & _). eauto.
Qed.

Lemma task_coord_inv_reachable a b c d e f g h s : reachable (init a b c d e f g h) s -> task_coord_inv s.
Proof.
  apply invariant_reachable; [intros k x Hx; discriminate|].
  intros s0 ev s1 I H. eapply task_coord_inv_step; eauto.
Qed.

(** the flags of a task are frozen once it is past its main *)
Lemma tstep_past_main s x y :
  tstep s x y -> past_main (k_st x) = true ->
  past_main (k_st y) = true /\ k_main_ok y = k_main_ok x /\ k_skipped y = k_skipped x /\
  k_ran_main y = k_ran_main x.
Proof.
  intros H Hp. destruct H; cbn; auto;
    try (match goal with Hst : k_st _ = _ |- _ => rewrite Hst in Hp; discriminate Hp end).
Qed.

Definition failed_done_inv (s : state) : Prop :=
  forall k x, find_task k (tasks s) = Some x -> past_main (k_st x) = true -> k_main_ok x = false ->
    coord_done s (k_t x) = true.

Lemma failed_done_inv_step s e s' : failed_done_inv s -> step s e = Some s' -> failed_done_inv s'.
Proof.
  intros I H k y Hy Hp Hok. pose proof (step_evolve _ _ _ H) as (Hold & Hnew & _ & _).
  destruct (find_task k (tasks s)) as [x|] eqn:E.
  - destruct (Hold k x E) as (y' & Hy' & Hts & Hl). rewrite Hy in Hy'. injection Hy' as <-.
    destruct (tstep_static _ _ _ Hts) as (_ & Et & _). rewrite Et.
    destruct (past_main (k_st x)) eqn:Epx.
    + destruct (tstep_past_main _ _ _ Hts Epx) as (_ & Eok & _).
      eapply coord_done_step; [exact H|]. apply (I k x E Epx). congruence.
    + (* the step took the task past its main *)
      destruct Hts; cbn in Hp, Hok; try congruence;
        try (match goal with Hst : k_st _ = _ |- _ => rewrite Hst in Epx; discriminate Epx end).
      * (* skip *) eapply coord_done_step; eauto.
      * (* exception recorded *)
        apply (lo_exc _ _ _ _ _ Hl). left. cbn. auto.
      * destruct (k_final x); match goal with Hst : k_st _ = _ |- _ => rewrite Hst in Epx; discriminate Epx end.
  - destruct (Hnew k y Hy E) as (a & t & g & final & deps & kind & -> & Hso).
    cbn in Hp. destruct (stage_eqb g SInline); discriminate.
Qed.

Lemma failed_done_inv_reachable a b c d e f g h s : reachable (init a b c d e f g h) s -> failed_done_inv s.
Proof.
  apply invariant_reachable; [intros k x Hx; discriminate|].
  intros s0 ev s1 I H. eapply failed_done_inv_step; eauto.
Qed.

(** a skipped task is past its main with main_ok = false; a task that is in
    its main has ran_main; ran_main implies the done-check was passed *)
Lemma flags_reachable a b c d e f g h s :
  reachable (init a b c d e f g h) s ->
  forall k x, find_task k (tasks s) = Some x ->
    (k_skipped x = true -> past_main (k_st x) = true /\ k_main_ok x = false /\ k_ran_main x = false) /\
    (k_st x = TMain \/ k_st x = TFailed -> k_ran_main x = true /\ k_main_ok x = false) /\
    (k_ran_main x = true -> k_skipped x = false /\
       (k_st x = TMain \/ k_st x = TFailed \/ past_main (k_st x) = true)) /\
    (k_main_ok x = true -> k_ran_main x = true /\ past_main (k_st x) = true).
Proof.
  intros Hr.
  apply (task_inv_reachable (fun x =>
    (k_skipped x = true -> past_main (k_st x) = true /\ k_main_ok x = false /\ k_ran_main x = false) /\
    (k_st x = TMain \/ k_st x = TFailed -> k_ran_main x = true /\ k_main_ok x = false) /\
    (k_ran_main x = true -> k_skipped x = false /\
       (k_st x = TMain \/ k_st x = TFailed \/ past_main (k_st x) = true)) /\
    (k_main_ok x = true -> k_ran_main x = true /\ past_main (k_st x) = true))
    (init a b c d e f g h)); [reflexivity| | |exact Hr].
  - intros s0 a0 k t g0 final deps kind _. unfold fresh_task. cbn [k_st k_skipped k_main_ok k_ran_main].
    split; [discriminate|]. split; [|split; discriminate].
    destruct (stage_eqb g0 SInline); intros [Hx|Hx]; discriminate.
  - intros s0 x y Hts (P1 & P2 & P3 & P4).
    destruct Hts; cbn [k_st k_skipped k_main_ok k_ran_main with_st with_flags with_phase with_assoc with_permit with_released past_main];
      try (repeat split; assumption);
      try match goal with Hf : if k_final ?x then _ else _ |- _ => destruct (k_final x) end;
      try match goal with Hst : k_st _ = _ |- _ => rewrite Hst in * end;
      cbn [past_main] in *;
      intuition (try discriminate; try congruence).
Qed.

(** * Part 10 (C03): only [set_result] of a final task in its main makes a transfer successful *)
Definition no_new_success (l l' : list coord) : Prop :=
  forall t c c', find_coord t l = Some c -> find_coord t l' = Some c' ->
    c_status c' = Success -> c_status c = Success.

Lemma no_new_success_refl l : no_new_success l l.
Proof. intros t c c' H1 H2. rewrite H1 in H2. now injection H2 as <-. Qed.

Lemma find_coord_upd_const_gen t t0 l c y :
  find_coord t l = Some c -> c_id y = t ->
  find_coord t0 (upd_coord t (fun _ => y) l) = if t0 =? t then Some y else find_coord t0 l.
Proof.
  intros Hf Hy. destruct (t0 =? t) eqn:E.
  - assert (t0 = t) by lia. subst t0. now apply find_coord_upd_const with (c := c).
  - clear Hf. induction l as [|x r IH]; cbn [upd_coord map find_coord]; [reflexivity|].
    fold (upd_coord t (fun _ => y) r).
    destruct (c_id x =? t) eqn:E1.
    + assert (E2 : c_id y =? t0 = false) by lia. rewrite E2.
      assert (E3 : c_id x =? t0 = false) by lia. rewrite E3. exact IH.
    + destruct (c_id x =? t0); [reflexivity|exact IH].
Qed.

Lemma on_coord_status s t f s' :
  on_coord s t f = Some s' ->
  (forall c y, f c = Some y -> c_id y = c_id c /\ (c_status y = Success -> c_status c = Success)) ->
  no_new_success (coords s) (coords s').
Proof.
  intros H Hf. apply on_coord_inv in H as (c & y & Hc & Hy & ->). cbn [coords set_coords].
  destruct (Hf c y Hy) as [Hid Hst]. pose proof (find_coord_some_id _ _ _ Hc) as Hcid.
  intros t0 c0 c0' H0 H0' Hs. rewrite (find_coord_upd_const_gen t t0 _ c y Hc) in H0' by lia.
  destruct (t0 =? t) eqn:E; [|rewrite H0 in H0'; now injection H0' as <-].
  assert (t0 = t) by lia. subst t0. injection H0' as <-. rewrite Hc in H0. injection H0 as <-. auto.
Qed.

Ltac destr_to H :=
  repeat match type of H with
         | on_coord _ _ _ = Some _ => fail 1
         | on_task _ _ _ = Some _ => fail 1
         | bind _ _ = Some _ => fail 1
         | Some _ = Some _ => fail 1
         | None = Some _ => discriminate H
         | (if ?b then _ else _) = Some _ => destruct b eqn:?
         | (match ?x with _ => _ end) = Some _ => destruct x eqn:?
         end.

Ltac coords_eq :=
  repeat first [ rewrite set_stage_coords | rewrite bump_coords | reflexivity
               | progress cbn [coords set_tasks set_sems set_reqs set_uploads set_shutdown set_coords set_files] ].

Ltac apply_oc H :=
  eapply on_coord_status; [exact H|];
  let c := fresh "c" in let y := fresh "y" in let Hf := fresh "Hf" in
  intros c y Hf; cbv beta in Hf; destr Hf; injection Hf as <-; cbn;
  (split; [reflexivity
          |first [congruence
                 |let Hs := fresh "Hs" in intros Hs;
                  repeat match type of Hs with context [if ?b then _ else _] => destruct b end; congruence]]).

Ltac nns_fin H :=
  first
    [ injection H as <-;
      first [ apply no_new_success_refl
            | match goal with |- no_new_success (coords ?s) (coords ?s') =>
                let E := fresh in assert (E : coords s' = coords s) by coords_eq; rewrite E; apply no_new_success_refl end ]
    | match type of H with on_task _ _ _ = Some _ =>
        rewrite (on_task_coords _ _ _ _ H); apply no_new_success_refl end
    | match type of H with on_coord (bump_after_shutdown ?s) _ _ = Some _ =>
        rewrite <- (bump_coords s); apply_oc H end
    | apply_oc H
    | match type of H with bind _ _ = Some _ =>
        unfold bind in H;
        match type of H with match ?o with _ => _ end = _ =>
          let E1 := fresh "E1" in destruct o eqn:E1; [|discriminate H];
          rewrite (on_task_coords _ _ _ _ H); apply_oc E1 end end ].

Lemma success_only_by_set_result s e s' :
  step s e = Some s' ->
  no_new_success (coords s) (coords s') \/
  (exists k x, e = ESetResult k /\ busy s k = false /\ find_task k (tasks s) = Some x /\
               k_st x = TMain /\ k_final x = true /\ tasks s' = tasks s /\
               forall t c c', find_coord t (coords s) = Some c -> find_coord t (coords s') = Some c' ->
                 c_status c' = Success -> c_status c = Success \/ t = k_t x).
Proof.
  intros H. destruct e; cbn [step] in H.
  13: { (* ESetResult *)
    right. destruct (busy s k) eqn:Eb; [discriminate|].
    destruct (find_task k (tasks s)) as [x|] eqn:Ex; [|discriminate].
    match type of H with (if ?b then _ else _) = _ => destruct b eqn:Eg; [|discriminate] end.
    apply andb_prop in Eg as [Eg _]. apply andb_prop in Eg as [E1 E2].
    exists k, x. repeat split; try assumption; try reflexivity.
    - now apply tst_eqb_true.
    - now apply on_coord_tasks in H.
    - apply on_coord_inv in H as (c & y & Hc & [= <-] & ->). cbn [coords set_coords].
      pose proof (find_coord_some_id _ _ _ Hc) as Hcid.
      intros t0 c0 c0' H0 H0' Hs.
      rewrite (find_coord_upd_const_gen (k_t x) t0 _ c _ Hc) in H0' by (cbn; lia).
      destruct (t0 =? k_t x) eqn:E; [right; lia|left]. rewrite H0 in H0'. now injection H0' as <-. }
  1: { (* ENewTransfer *)
    left. destr_to H. injection H as <-. cbn [coords set_coords].
    intros t0 c0 c0' H0 H0' Hs. rewrite find_coord_app, H0 in H0'. now injection H0' as <-. }
  26: { (* EAnnEnd: the only non-constant coordinator update *)
    left. destruct (busy s a); [discriminate|].
    destruct (find_coord t (coords s)) as [c|] eqn:Ec; [|discriminate].
    assert (G : no_new_success (coords s)
                  (upd_coord t (fun c0 => c_with_ann c0 (c_owing c0) (ann_del a (c_announcers c0))) (coords s))).
    { intros t0 c0 c0' H0 H0' Hs. rewrite find_coord_upd in H0' by reflexivity.
      destruct (t0 =? t); [|rewrite H0 in H0'; now injection H0' as <-].
      rewrite H0 in H0'. cbn in H0'. injection H0' as <-. exact Hs. }
    destr_to H;
      first [ injection H as <-; exact G
            | rewrite (on_task_coords _ _ _ _ H); exact G ]. }
  all: left; destr_to H; nns_fin H.
Qed.

(** * Part 11 (C03): the plan facts as invariants *)
Lemma evolve_pred s s' k y :
  tasks_evolve s s' -> find_task k (tasks s') = Some y ->
  (exists x, find_task k (tasks s) = Some x /\ tstep s x y /\ leave_ok s s' k x y) \/
  (find_task k (tasks s) = None /\
   exists a t g final deps kind, y = fresh_task k t g a final deps kind /\
                                 submit_ok s a k t g final deps kind).
Proof.
  intros (Hold & Hnew & _ & _) Hy. destruct (find_task k (tasks s)) as [x|] eqn:E.
  - left. destruct (Hold k x E) as (y' & Hy' & H1 & H2). rewrite Hy in Hy'. injection Hy' as <-. eauto.
  - right. split; [reflexivity|]. eapply Hnew; eauto.
Qed.

Lemma tstep_past_main_mono s x y : tstep s x y -> past_main (k_st x) = true -> past_main (k_st y) = true.
Proof. intros H Hp. now destruct (tstep_past_main _ _ _ H Hp). Qed.

Lemma tstep_ended s x y : tstep s x y -> k_st x = TEnded -> k_st y = TEnded.
Proof.
  intros H He. destruct H; cbn; auto; try congruence.
Qed.

Lemma tstep_not_submitting s x y : tstep s x y -> k_st x <> TSubmitting -> k_st y <> TSubmitting.
Proof. intros H Hn. destruct H; cbn; try assumption; discriminate. Qed.

Definition after_deps (v : tst) : bool :=
  match v with TSubmitting | TQueued | TStarted => false | _ => true end.

Record plan_inv (s : state) : Prop := {
  (* no task of a transfer is created after its final task *)
  pi_last : forall kf F kx x, find_task kf (tasks s) = Some F -> find_task kx (tasks s) = Some x ->
            k_final F = true -> k_t x = k_t F -> kx <= kf;
  (* when the final task exists every other task is the submission task, one of
     its dependencies, past its main, or an IO task next to an IO final task *)
  pi_plan : forall kf F kx x, find_task kf (tasks s) = Some F -> find_task kx (tasks s) = Some x ->
            k_final F = true -> k_t x = k_t F -> kx <> kf ->
            k_kind x = KSubmission \/ In kx (k_deps F) \/ past_main (k_st x) = true \/
            (k_stage x = SIO /\ k_stage F = SIO /\ k_st x <> TSubmitting);
  (* a task past its dependency wait has all its dependencies ended *)
  pi_deps : forall kf F d, find_task kf (tasks s) = Some F -> after_deps (k_st F) = true ->
            In d (k_deps F) -> exists x, find_task d (tasks s) = Some x /\ k_st x = TEnded;
  (* dependencies are tasks of the same transfer and stage *)
  pi_dept : forall kf F d, find_task kf (tasks s) = Some F -> In d (k_deps F) ->
            exists x, find_task d (tasks s) = Some x /\ k_t x = k_t F /\ k_stage x = k_stage F
}.

Lemma no_final_absurd s t kf F :
  existsb (fun x => (k_t x =? t) && k_final x) (tasks s) = false ->
  find_task kf (tasks s) = Some F -> k_final F = true -> k_t F = t -> False.
Proof.
  intros Hn HF Hfin Ht. apply find_task_in in HF as [Hin _].
  assert (existsb (fun x => (k_t x =? t) && k_final x) (tasks s) = true); [|congruence].
  apply existsb_exists. exists F. split; [exact Hin|]. rewrite Hfin, Ht, Z.eqb_refl. reflexivity.
Qed.

Lemma plan_inv_step s e s' : plan_inv s -> step s e = Some s' -> plan_inv s'.
Proof.
  intros [I1 I2 I3 I4] H. pose proof (step_evolve _ _ _ H) as Hev.
  constructor.
  - intros kf F' kx x' HF' Hx' Hfin Ht.
    destruct (evolve_pred _ _ _ _ Hev HF') as [(F & HF & HtsF & _)|(HFn & a & t & g & fin & deps & kind & -> & Hso)];
    destruct (evolve_pred _ _ _ _ Hev Hx') as [(x & Hx & Htsx & _)|(Hxn & a2 & t2 & g2 & fin2 & deps2 & kind2 & -> & Hso2)].
    + destruct (tstep_static _ _ _ HtsF) as (_ & E1 & _ & _ & E2 & _).
      destruct (tstep_static _ _ _ Htsx) as (_ & E3 & _).
      eapply I1; eauto; congruence.
    + exfalso. destruct (tstep_static _ _ _ HtsF) as (_ & E1 & _ & _ & E2 & _). cbn in Ht.
      eapply (no_final_absurd s t2); [exact (so_nofinal _ _ _ _ _ _ _ _ Hso2)|exact HF|congruence|congruence].
    + pose proof (so_ids _ _ _ _ _ _ _ _ Hso) as Hids. rewrite forallb_forall in Hids.
      destruct (find_task_in _ _ _ Hx) as [Hin Hid]. specialize (Hids x Hin). lia.
    + destruct Hev as (_ & _ & Huniq & _). rewrite (Huniq _ _ _ _ HFn Hxn HF' Hx'). lia.
  - intros kf F' kx x' HF' Hx' Hfin Ht Hne.
    destruct (evolve_pred _ _ _ _ Hev HF') as [(F & HF & HtsF & _)|(HFn & a & t & g & fin & deps & kind & -> & Hso)];
    destruct (evolve_pred _ _ _ _ Hev Hx') as [(x & Hx & Htsx & _)|(Hxn & a2 & t2 & g2 & fin2 & deps2 & kind2 & -> & Hso2)].
    + destruct (tstep_static _ _ _ HtsF) as (_ & E1 & E1s & _ & E2 & E2d & _).
      destruct (tstep_static _ _ _ Htsx) as (_ & E3 & E3s & _ & _ & _ & E3k).
      rewrite E3k, E2d, E3s, E1s.
      destruct (I2 kf F kx x HF Hx) as [G|[G|[G|(G1 & G2 & G3)]]]; try congruence; auto.
      * right. right. left. eapply tstep_past_main_mono; eauto.
      * right. right. right. repeat split; try assumption. eapply tstep_not_submitting; eauto.
    + exfalso. destruct (tstep_static _ _ _ HtsF) as (_ & E1 & _ & _ & E2 & _). cbn in Ht.
      eapply (no_final_absurd s t2); [exact (so_nofinal _ _ _ _ _ _ _ _ Hso2)|exact HF|congruence|congruence].
    + cbn [k_final k_t k_deps k_stage fresh_task] in *. subst fin.
      pose proof (so_final _ _ _ _ _ _ _ _ Hso eq_refl) as Hall. rewrite forallb_forall in Hall.
      destruct (find_task_in _ _ _ Hx) as [Hin Hid]. specialize (Hall x Hin).
      destruct (tstep_static _ _ _ Htsx) as (_ & E3 & E3s & _ & _ & _ & E3k).
      rewrite E3k, E3s. rewrite E3 in Ht.
      assert (Et : (k_t x =? t) = true) by lia. rewrite Et in Hall. cbn [negb orb] in Hall.
      apply orb_prop in Hall as [Hall|Hall].
      * apply orb_prop in Hall as [Hall|Hall].
        -- apply orb_prop in Hall as [Hall|Hall]; [left; lia|].
           right. left. apply mem_z_true in Hall. now rewrite Hid in Hall.
        -- right. right. left. eapply tstep_past_main_mono; eauto.
      * right. right. right. apply andb_prop in Hall as [G1 G3]. apply andb_prop in G1 as [G1 G2].
        split; [now apply stage_eqb_eq|]. split; [now apply stage_eqb_eq|].
        eapply tstep_not_submitting; [exact Htsx|]. intros Hc. rewrite Hc in G3. discriminate.
    + exfalso. destruct Hev as (_ & _ & Huniq & _). apply Hne. symmetry. exact (Huniq _ _ _ _ HFn Hxn HF' Hx').
  - intros kf F' d HF' Had Hd.
    destruct (evolve_pred _ _ _ _ Hev HF') as [(F & HF & HtsF & _)|(HFn & a & t & g & fin & deps & kind & -> & Hso)].
    + destruct (tstep_static _ _ _ HtsF) as (_ & E1 & _ & _ & _ & E2d & _). rewrite E2d in Hd.
      assert (G : exists x, find_task d (tasks s) = Some x /\ k_st x = TEnded).
      { destruct (after_deps (k_st F)) eqn:EF; [eapply I3; eauto|].
        destruct HtsF; cbn [k_st with_st with_flags with_phase with_assoc with_permit with_released] in Had;
          try congruence;
          try (match goal with Hst : k_st _ = _ |- _ => rewrite Hst in *; discriminate end).
        - (* deps done *)
          rewrite forallb_forall in H1. specialize (H1 d Hd). unfold dep_done, task_in in H1.
          destruct (find_task d (tasks s)) as [x0|] eqn:Ed; [|discriminate].
          exists x0. split; [reflexivity|now apply tst_eqb_true].
        - destruct (k_final x); match goal with Hst : k_st _ = _ |- _ => rewrite Hst in EF; discriminate end. }
      destruct G as (x & Hx & Hxe). destruct Hev as (Hold & _ & _ & _).
      destruct (Hold d x Hx) as (y & Hy & Hts & _). exists y. split; [exact Hy|].
      eapply tstep_ended; eauto.
    + cbn in Had. destruct (stage_eqb g SInline); discriminate.
  - intros kf F' d HF' Hd.
    assert (G : exists x, find_task d (tasks s) = Some x /\ k_t x = k_t F' /\ k_stage x = k_stage F').
    { destruct (evolve_pred _ _ _ _ Hev HF') as [(F & HF & HtsF & _)|(HFn & a & t & g & fin & deps & kind & -> & Hso)].
      - destruct (tstep_static _ _ _ HtsF) as (_ & E1 & E1s & _ & _ & E2d & _). rewrite E2d in Hd. rewrite E1, E1s.
        eapply I4; eauto.
      - cbn [k_deps k_t k_stage fresh_task] in *. pose proof (so_deps _ _ _ _ _ _ _ _ Hso) as Hall.
        rewrite forallb_forall in Hall. specialize (Hall d Hd).
        destruct (find_task d (tasks s)) as [x|]; [|discriminate]. exists x. split; [reflexivity|].
        apply andb_prop in Hall as [G1 G2]. split; [lia|now apply stage_eqb_eq]. }
    destruct G as (x & Hx & Hxt & Hxs). destruct Hev as (Hold & _ & _ & _).
    destruct (Hold d x Hx) as (y & Hy & Hts & _). exists y. split; [exact Hy|].
    destruct (tstep_static _ _ _ Hts) as (_ & E & Es & _). split; congruence.
Qed.

Lemma plan_inv_reachable a b c d e f g h s : reachable (init a b c d e f g h) s -> plan_inv s.
Proof.
  apply invariant_reachable; [constructor; intros; discriminate|].
  intros s0 ev s1 I H. eapply plan_inv_step; eauto.
Qed.

(** * Part 11b (C03): IO tasks of a transfer are enqueued before its IO final task *)
Lemma app_snoc_split (h l1 l2 : list Z) k kf :
  h ++ [k] = l1 ++ kf :: l2 ->
  (l2 = [] /\ h = l1 /\ k = kf) \/ (exists l2', l2 = l2' ++ [k] /\ h = l1 ++ kf :: l2').
Proof.
  destruct l2 as [|z r] using rev_ind; intros E.
  - left. change (l1 ++ [kf]) with (l1 ++ [kf]) in E. apply app_inj_tail in E as [E1 E2]. auto.
  - right. clear IHr. replace (l1 ++ kf :: r ++ [z]) with ((l1 ++ kf :: r) ++ [z]) in E
      by (rewrite <- app_assoc; reflexivity).
    apply app_inj_tail in E as [E1 E2]. subst. eauto.
Qed.

Lemma NoDup_split_unique (a1 b1 a2 b2 : list Z) k :
  NoDup (a1 ++ k :: b1) -> a1 ++ k :: b1 = a2 ++ k :: b2 -> a1 = a2.
Proof.
  revert a2. induction a1 as [|y r IH]; intros a2 Hnd E.
  - destruct a2 as [|z a2']; [reflexivity|]. cbn in E. injection E as E1 E2. subst z.
    inversion Hnd as [|? ? Hn _]. exfalso. apply Hn. rewrite E2. apply in_or_app. right. now left.
  - destruct a2 as [|z a2']; cbn in E; injection E as E1 E2.
    + subst y. inversion Hnd as [|? ? Hn _]. exfalso. apply Hn. apply in_or_app. right. now left.
    + subst z. f_equal. apply IH; [now inversion Hnd|exact E2].
Qed.

Lemma count_two p l (x y : task) :
  In x l -> In y l -> k_id x <> k_id y -> p x = true -> p y = true -> 2 <= count p l.
Proof.
  induction l as [|z r IH]; cbn [In count]; [tauto|].
  intros [->|Hx] [->|Hy] Hne Px Py; try congruence.
  - rewrite Px. pose proof (count_pos p r y Hy Py). cbn [b2z]. lia.
  - rewrite Py. pose proof (count_pos p r x Hx Px). cbn [b2z]. lia.
  - specialize (IH Hx Hy Hne Px Py). unfold b2z. destruct (p z); lia.
Qed.

Lemma hist_io_step s e s' :
  step s e = Some s' ->
  g_history (st_io s') = g_history (st_io s) \/
  exists k x, find_task k (tasks s) = Some x /\ k_st x = TSubmitting /\ k_stage x = SIO /\
              g_history (st_io s') = g_history (st_io s) ++ [k].
Proof.
  intros H. apply step_sstep in H.
  destruct H as [Ht Hs _|k t g0 a final deps kind Hn _ Ht _ Hs _|k x f Hf Hid Hts Hio Ht Hs _
                |k x sem v Hf _ _ _ _ _ Ht _ Hs _|k x Hf Hst _ Hni Hsh Ht Hs _ _|k x rest Hf Hst Hni Hq _ Ht Hs _ _
                |k x Hf Hni Hst _ Ht Hs _ _|k x Hf _ _ _ Ht _ Hs _|g0 Hg0 Ht _ _ _ Hs|g0 Hg0 Ht _ _ Hsh Hrun Hq Hs];
    try (left; exact (f_equal g_history (Hs SIO)));
    (destruct (stage_set_cases _ _ _ _ SIO Hs) as [[E1 E]|[Hne E]];
     [rewrite <- E1 in *|]; cbn [get_stage] in E;
     try (left; rewrite E; reflexivity)).
  right. exists k, x. rewrite E. cbn. auto.
Qed.

Definition io_ord_inv (s : state) : Prop :=
  forall kf F kx x, find_task kf (tasks s) = Some F -> find_task kx (tasks s) = Some x ->
    k_final F = true -> k_t x = k_t F -> kx <> kf -> k_stage x = SIO -> k_stage F = SIO ->
    ~ In kx (k_deps F) -> k_kind x <> KSubmission ->
    forall l1 l2, g_history (st_io s) = l1 ++ kf :: l2 -> In kx l1.

Lemma io_ord_inv_step a b c d e0 f g h s e s' :
  reachable (init a b c d e0 f g h) s -> io_ord_inv s -> step s e = Some s' -> io_ord_inv s'.
Proof.
  intros Hr I H kf F' kx x' HF' Hx' Hfin Ht Hne Hsx HsF Hnd Hk l1 l2 Hh.
  pose proof (step_evolve _ _ _ H) as Hev.
  pose proof (plan_inv_reachable _ _ _ _ _ _ _ _ _ Hr) as [P1 P2 P3 P4].
  destruct (queue_inv_reachable _ _ _ _ _ _ _ _ _ Hr SIO ltac:(discriminate)) as [_ _ Q3 _].
  change (get_stage s SIO) with (st_io s) in Q3.
  assert (Hin_hist : forall k0, find_task k0 (tasks s) = None -> ~ In k0 (g_history (st_io s))).
  { intros k0 Hn Hin. apply Q3 in Hin as (y & Hy & _). congruence. }
  destruct (evolve_pred _ _ _ _ Hev HF') as [(F & HF & HtsF & _)|(HFn & a1 & t & g1 & fin & deps & kind & -> & Hso)].
  2: { (* the final task was just submitted: it is not in the history *)
    exfalso. destruct (hist_io_step _ _ _ H) as [E|(k & y & Hy & _ & _ & E)]; rewrite E in Hh.
    - apply (Hin_hist kf HFn). rewrite Hh. apply in_or_app. right. now left.
    - assert (Hin : In kf (g_history (st_io s) ++ [k])) by (rewrite Hh; apply in_or_app; right; now left).
      apply in_app_or in Hin as [Hin|[<-|[]]]; [now apply (Hin_hist kf HFn)|congruence]. }
  destruct (evolve_pred _ _ _ _ Hev Hx') as [(x & Hx & Htsx & _)|(Hxn & a2 & t2 & g2 & fin2 & deps2 & kind2 & -> & Hso2)].
  2: { exfalso. destruct (tstep_static _ _ _ HtsF) as (_ & E1 & _ & _ & E2 & _). cbn in Ht.
       eapply (no_final_absurd s t2); [exact (so_nofinal _ _ _ _ _ _ _ _ Hso2)|exact HF|congruence|congruence]. }
  destruct (tstep_static _ _ _ HtsF) as (_ & E1 & E1s & _ & E2 & E2d & _).
  destruct (tstep_static _ _ _ Htsx) as (_ & E3 & E3s & _ & _ & _ & E3k).
  assert (Hfin0 : k_final F = true) by congruence. assert (Ht0 : k_t x = k_t F) by congruence.
  assert (Hsx0 : k_stage x = SIO) by congruence. assert (HsF0 : k_stage F = SIO) by congruence.
  assert (Hnd0 : ~ In kx (k_deps F)) by congruence. assert (Hk0 : k_kind x <> KSubmission) by congruence.
  destruct (hist_io_step _ _ _ H) as [E|(k & y & Hy & Hyst & _ & E)]; rewrite E in Hh.
  - exact (I kf F kx x HF Hx Hfin0 Ht0 Hne Hsx0 HsF0 Hnd0 Hk0 l1 l2 Hh).
  - destruct (app_snoc_split _ _ _ _ _ Hh) as [(_ & Hl1 & Hkk)|(l2' & -> & Hh0)].
    + (* the final task is being enqueued: the other IO task is already in the history *)
      rewrite <- Hl1. apply Q3. exists x. split; [exact Hx|]. split; [exact Hsx0|].
      destruct (P2 kf F kx x HF Hx Hfin0 Ht0 Hne) as [G|[G|[G|(_ & _ & G)]]]; try contradiction; [|exact G].
      intros Hc. rewrite Hc in G. discriminate.
    + exact (I kf F kx x HF Hx Hfin0 Ht0 Hne Hsx0 HsF0 Hnd0 Hk0 l1 l2' Hh0).
Qed.

Lemma io_ord_inv_reachable a b c d e f g h s : reachable (init a b c d e f g h) s -> io_ord_inv s.
Proof.
  intros Hr.
  assert (G : forall s1, reachable (init a b c d e f g h) s1 ->
              reachable (init a b c d e f g h) s1 /\ io_ord_inv s1).
  { apply invariant_reachable.
    - split; [apply reachable_refl|]. intros kf F kx x HF. discriminate HF.
    - intros s0 ev s1 [Hr0 I] H. split; [eapply reachable_step; eauto|]. eapply io_ord_inv_step; eauto. }
  now apply G.
Qed.

(** * Part 12 (C03): when the final task passed its done-check every other step had succeeded *)
Definition after_check (F : task) : Prop := k_st F = TReady \/ k_ran_main F = true.
Definition good (x : task) : Prop :=
  past_main (k_st x) = true /\ k_main_ok x = true /\ k_skipped x = false /\ k_ran_main x = true.
(** [wio] is the number of IO workers: with a single IO worker the IO tasks
    enqueued before an IO final task have ended when it starts *)
Definition covered (wio : Z) (F : task) (kx : Z) (x : task) : Prop :=
  k_kind x <> KSubmission /\
  (In kx (k_deps F) \/ ~ (k_stage x = SIO /\ k_stage F = SIO) \/ wio = 1).

Definition good_inv (wio : Z) (s : state) : Prop :=
  forall kf F kx x, find_task kf (tasks s) = Some F -> find_task kx (tasks s) = Some x ->
    k_final F = true -> k_t x = k_t F -> kx <> kf -> after_check F -> covered wio F kx x -> good x.

Lemma good_stable s x y : tstep s x y -> good x -> good y.
Proof.
  intros H (G1 & G2 & G3 & G4). destruct (tstep_past_main _ _ _ H G1) as (E1 & E2 & E3 & E4).
  unfold good. rewrite E1, E2, E3, E4. auto.
Qed.

Lemma good_inv_step a b c d e0 f g h s e s' :
  0 <= a -> 0 <= b -> 0 <= c ->
  reachable (init a b c d e0 f g h) s -> good_inv c s -> step s e = Some s' -> good_inv c s'.
Proof.
  intros Ha0 Hb0 Hc0 Hr I H kf F' kx x' HF' Hx' Hfin Ht Hne Hac Hcov.
  pose proof (step_evolve _ _ _ H) as Hev.
  pose proof (plan_inv_reachable _ _ _ _ _ _ _ _ _ Hr) as [P1 P2 P3 P4].
  pose proof (flags_reachable _ _ _ _ _ _ _ _ _ Hr) as Hfl.
  pose proof (failed_done_inv_reachable _ _ _ _ _ _ _ _ _ Hr) as Hfd.
  destruct (evolve_pred _ _ _ _ Hev HF') as [(F & HF & HtsF & _)|(HFn & a1 & t & g1 & fin & deps & kind & -> & Hso)].
  2: { exfalso. destruct Hac as [Hac|Hac]; cbn in Hac; [destruct (stage_eqb g1 SInline)|]; discriminate. }
  destruct (evolve_pred _ _ _ _ Hev Hx') as [(x & Hx & Htsx & _)|(Hxn & a2 & t2 & g2 & fin2 & deps2 & kind2 & -> & Hso2)].
  2: { exfalso. destruct (tstep_static _ _ _ HtsF) as (_ & E1 & _ & _ & E2 & _). cbn in Ht.
       eapply (no_final_absurd s t2); [exact (so_nofinal _ _ _ _ _ _ _ _ Hso2)|exact HF|congruence|congruence]. }
  destruct (tstep_static _ _ _ HtsF) as (_ & E1 & E1s & _ & E2 & E2d & _).
  destruct (tstep_static _ _ _ Htsx) as (_ & E3 & E3s & _ & _ & _ & E3k).
  assert (Hcov0 : covered c F kx x).
  { destruct Hcov as [C1 C2]. split; [congruence|]. rewrite E2d, E3s, E1s in C2. exact C2. }
  apply (good_stable _ _ _ Htsx).
  assert (Hfin0 : k_final F = true) by congruence. assert (Ht0 : k_t x = k_t F) by congruence.
  (* was the final task already past its done-check? *)
  assert (Hcase : after_check F \/ (k_st F = TDeps /\ coord_done s (k_t F) = false)).
  { destruct (Hfl kf F HF) as (_ & Fl2 & _ & _).
    destruct HtsF; unfold after_check in *; cbn [k_st k_ran_main with_st with_flags with_phase with_assoc with_permit with_released] in Hac;
      auto; try (destruct Hac as [Hac|Hac]; [discriminate Hac|auto]; fail).
    - destruct Hac; discriminate.
    - left. right. apply Fl2. auto. }
  destruct Hcase as [Hac0|[HstF Hnd]]; [exact (I kf F kx x HF Hx Hfin0 Ht0 Hne Hac0 Hcov0)|].
  (* the done-check of the final task just answered false *)
  assert (Hpm : past_main (k_st x) = true).
  { destruct Hcov0 as [C1 C2].
    assert (Hdep : In kx (k_deps F) -> past_main (k_st x) = true).
    { intros Hin. destruct (P3 kf F kx HF) as (x0 & Hx0 & He); [now rewrite HstF|exact Hin|].
      rewrite Hx in Hx0. injection Hx0 as <-. now rewrite He. }
    destruct (P2 kf F kx x HF Hx Hfin0 Ht0 Hne) as [G|[G|[G|(G1 & G2 & G3)]]]; [contradiction|auto|exact G|].
    destruct C2 as [C2|[C2|C2]]; [auto|exfalso; auto|].
    destruct (in_dec Z.eq_dec kx (k_deps F)) as [Hd|Hndep]; [auto|].
    (* single IO worker: the other IO task is before the final task in the history *)
    subst c.
    pose proof (io_ord_inv_reachable _ _ _ _ _ _ _ _ _ Hr kf F kx x HF Hx Hfin0 Ht0 Hne G1 G2 Hndep C1) as Hord.
    destruct (queue_is_queued _ _ _ _ _ _ _ _ _ SIO Hr ltac:(discriminate))
      as (_ & Hnd_h & Hq & Hh & started & Hsplit & Hstarted).
    cbn [get_stage] in *.
    assert (HinF : In kf (g_history (st_io s))).
    { apply Hh. exists F. split; [exact HF|]. split; [exact G2|]. rewrite HstF. discriminate. }
    destruct (in_split _ _ HinF) as (l1 & l2 & Hl). specialize (Hord l1 l2 Hl).
    assert (HFs : In kf started).
    { rewrite Hsplit in HinF. apply in_app_or in HinF as [HinF|HinF]; [exact HinF|].
      apply Hq in HinF as (F0 & HF0 & _ & HF0q). rewrite HF in HF0. injection HF0 as <-. congruence. }
    destruct (in_split _ _ HFs) as (s1 & s2 & Hs12).
    assert (El : l1 = s1).
    { apply (NoDup_split_unique l1 l2 s1 (s2 ++ g_queue (st_io s)) kf); [now rewrite <- Hl|].
      rewrite <- Hl, Hsplit, Hs12, <- app_assoc. reflexivity. }
    assert (Hxs : In kx started) by (rewrite Hs12; apply in_or_app; left; congruence).
    destruct (Hstarted kx Hxs) as (x0 & Hx0 & _ & Hns & Hnq). rewrite Hx in Hx0. injection Hx0 as <-.
    destruct (running_st (k_st x)) eqn:Erx.
    - exfalso.
      destruct (workers_inv_reachable a b 1 d e0 f g h s Ha0 Hb0 Hc0 Hr SIO ltac:(discriminate)) as [_ Hle].
      rewrite (run_inv_reachable _ _ _ _ _ _ _ _ _ Hr SIO ltac:(discriminate)) in Hle. cbn [wk] in Hle.
      destruct (find_task_in _ _ _ HF) as [HinFt HidF]. destruct (find_task_in _ _ _ Hx) as [Hinx Hidx].
      assert (2 <= count (runs_in SIO) (tasks s)); [|lia].
      apply (count_two _ _ x F Hinx HinFt); [congruence| |]; unfold runs_in.
      + now rewrite G1, Erx.
      + now rewrite G2, HstF.
    - destruct (k_st x); try discriminate; try reflexivity; congruence. }
  assert (Hok : k_main_ok x = true).
  { destruct (k_main_ok x) eqn:Eok; [reflexivity|].
    pose proof (Hfd kx x Hx Hpm Eok) as Hdone. rewrite Ht0 in Hdone. congruence. }
  destruct (Hfl kx x Hx) as (Fl1 & _ & _ & Fl4). destruct (Fl4 Hok) as [Hran _].
  repeat split; try assumption.
  destruct (k_skipped x) eqn:Esk; [|reflexivity]. destruct (Fl1 eq_refl) as (_ & Hc & _). congruence.
Qed.

Lemma good_inv_reachable a b c d e f g h s :
  0 <= a -> 0 <= b -> 0 <= c -> reachable (init a b c d e f g h) s -> good_inv c s.
Proof.
  intros Ha0 Hb0 Hc0 Hr.
  assert (G : forall s1, reachable (init a b c d e f g h) s1 ->
              reachable (init a b c d e f g h) s1 /\ good_inv c s1).
  { apply invariant_reachable.
    - split; [apply reachable_refl|]. intros kf F kx x HF. discriminate HF.
    - intros s0 ev s1 [Hr0 I] H. split; [eapply reachable_step; eauto|]. eapply (good_inv_step a b c d e f g h); eauto. }
  now apply G.
Qed.

Definition success_final_inv (s : state) : Prop :=
  forall t c, find_coord t (coords s) = Some c -> c_status c = Success ->
    exists kf F, find_task kf (tasks s) = Some F /\ k_final F = true /\ k_t F = t /\ k_ran_main F = true.

Lemma tstep_ran_main s x y :
  tstep s x y -> k_ran_main x = true ->
  (k_st x = TMain \/ k_st x = TFailed \/ past_main (k_st x) = true) -> k_ran_main y = true.
Proof.
  intros H Hr Hst. destruct H; cbn; auto.
  rewrite H in Hst. destruct Hst as [Hs|[Hs|Hs]]; discriminate.
Qed.

Lemma success_final_inv_step a b c d e0 f g h s e s' :
  reachable (init a b c d e0 f g h) s -> success_final_inv s -> step s e = Some s' -> success_final_inv s'.
Proof.
  intros Hr I H t c' Hc' Hs.
  pose proof (flags_reachable _ _ _ _ _ _ _ _ _ Hr) as Hfl.
  pose proof (step_evolve _ _ _ H) as (Hold & _ & _ & _).
  pose proof (step_coords_step _ _ _ H) as [_ Hfresh].
  destruct (find_coord t (coords s)) as [c0|] eqn:Ec0.
  2: { rewrite (Hfresh t c' Hc' Ec0) in Hs. discriminate Hs. }
  assert (Hkeep : c_status c0 = Success ->
            exists kf F, find_task kf (tasks s') = Some F /\ k_final F = true /\ k_t F = t /\ k_ran_main F = true).
  { intros Hs0. destruct (I t c0 Ec0 Hs0) as (kf & F & HF & Hfin & Ht & Hran).
    destruct (Hold kf F HF) as (F' & HF' & Hts & _). exists kf, F'. split; [exact HF'|].
    destruct (tstep_static _ _ _ Hts) as (_ & E1 & _ & _ & E2 & _). rewrite E1, E2.
    repeat split; try assumption. eapply tstep_ran_main; eauto.
    destruct (Hfl kf F HF) as (_ & _ & Fl3 & _). now destruct (Fl3 Hran). }
  destruct (success_only_by_set_result _ _ _ H) as [Hnn|(k & x & -> & Hb & Hx & Hst & Hfin & Htasks & Hcase)].
  - apply Hkeep. eapply Hnn; eauto.
  - destruct (Hcase t c0 c' Ec0 Hc' Hs) as [Hs0| ->]; [now apply Hkeep|].
    exists k, x. rewrite Htasks. repeat split; try assumption.
    destruct (Hfl k x Hx) as (_ & Fl2 & _ & _). now destruct (Fl2 (or_introl Hst)).
Qed.

Lemma success_final_inv_reachable a b c d e f g h s :
  reachable (init a b c d e f g h) s -> success_final_inv s.
Proof.
  intros Hr.
  assert (G : forall s1, reachable (init a b c d e f g h) s1 ->
              reachable (init a b c d e f g h) s1 /\ success_final_inv s1).
  { apply invariant_reachable.
    - split; [apply reachable_refl|]. intros t c0 Hc. discriminate Hc.
    - intros s0 ev s1 [Hr0 I] H. split; [eapply reachable_step; eauto|]. eapply success_final_inv_step; eauto. }
  now apply G.
Qed.

(** a final task whose transfer is successful did not fail: set_result is the
    last statement of its main *)
Definition final_ok_inv (s : state) : Prop :=
  forall kf F co, find_task kf (tasks s) = Some F -> k_final F = true ->
    find_coord (k_t F) (coords s) = Some co -> c_status co = Success ->
    k_st F <> TFailed /\ (past_main (k_st F) = true -> k_main_ok F = true).

Lemma tstep_to_failed s x y : tstep s x y -> k_st y = TFailed ->
  k_st x = TFailed \/ (k_st x = TMain /\ (k_final x = true -> coord_success s (k_t x) = false)).
Proof.
  intros H Hy. destruct H; cbn in Hy; try discriminate; auto.
Qed.

Lemma final_ok_inv_step a b c d e0 f g h s e s' :
  reachable (init a b c d e0 f g h) s -> final_ok_inv s -> step s e = Some s' -> final_ok_inv s'.
Proof.
  intros Hr I H kf F' co' HF' Hfin Hco' Hs.
  pose proof (flags_reachable _ _ _ _ _ _ _ _ _ Hr) as Hfl.
  pose proof (plan_inv_reachable _ _ _ _ _ _ _ _ _ Hr) as [P1 _ _ _].
  pose proof (success_final_inv_reachable _ _ _ _ _ _ _ _ _ Hr) as Hsf.
  pose proof (step_evolve _ _ _ H) as Hev.
  pose proof (step_coords_step _ _ _ H) as [_ Hfresh].
  destruct (evolve_pred _ _ _ _ Hev HF') as [(F & HF & Hts & _)|(_ & a1 & t & g1 & fin & deps & kind & -> & _)].
  2: { cbn. destruct (stage_eqb g1 SInline); split; discriminate. }
  destruct (tstep_static _ _ _ Hts) as (_ & Et & _ & _ & Ef & _). rewrite Et in Hco'.
  assert (Hfin0 : k_final F = true) by congruence.
  destruct (find_coord (k_t F) (coords s)) as [c0|] eqn:Ec0.
  2: { rewrite (Hfresh _ _ Hco' Ec0) in Hs. discriminate Hs. }
  (* the case where the transfer was already successful before the step *)
  assert (Hold : c_status c0 = Success ->
            k_st F' <> TFailed /\ (past_main (k_st F') = true -> k_main_ok F' = true)).
  { intros Hs0. destruct (I kf F c0 HF Hfin0 Ec0 Hs0) as [I1 I2].
    assert (Hsucc : coord_success s (k_t F) = true) by (unfold coord_success; rewrite Ec0, Hs0; reflexivity).
    split.
    - intros Hc. destruct (tstep_to_failed _ _ _ Hts Hc) as [G|[_ G]]; [contradiction|].
      rewrite (G Hfin0) in Hsucc. discriminate.
    - intros Hp. destruct (past_main (k_st F)) eqn:Ep.
      + destruct (tstep_past_main _ _ _ Hts Ep) as (_ & E & _). rewrite E. now apply I2.
      + (* the final task ran its main, so it cannot have been skipped now *)
        destruct (Hsf _ _ Ec0 Hs0) as (kf2 & F2 & HF2 & Hfin2 & Ht2 & Hran2).
        assert (kf2 = kf).
        { assert (kf2 <= kf) by (eapply (P1 kf F kf2 F2); eauto).
          assert (kf <= kf2) by (eapply (P1 kf2 F2 kf F); eauto; congruence). lia. }
        subst kf2. rewrite HF in HF2. injection HF2 as <-.
        destruct (Hfl kf F HF) as (_ & _ & Fl3 & _). destruct (Fl3 Hran2) as [_ Hst].
        destruct Hts; cbn in Hp |- *; try reflexivity; try congruence;
          try (match goal with Hq : k_st _ = _ |- _ => rewrite Hq in Hst, Ep; cbn in *;
                 destruct Hst as [?|[?|?]]; discriminate end).
        destruct (k_final x); match goal with Hq : k_st _ = _ |- _ => rewrite Hq in Ep; discriminate end. }
  destruct (success_only_by_set_result _ _ _ H) as [Hnn|(k & x & -> & Hb & Hx & Hst & Hfinx & Htasks & Hcase)].
  - apply Hold. eapply Hnn; eauto.
  - destruct (Hcase _ _ _ Ec0 Hco' Hs) as [Hs0|Ekt]; [now apply Hold|].
    rewrite Htasks in HF'. rewrite HF in HF'. injection HF' as <-.
    assert (k = kf).
    { assert (k <= kf) by (eapply (P1 kf F k x); eauto).
      assert (kf <= k) by (eapply (P1 k x kf F); eauto). lia. }
    subst k. rewrite HF in Hx. injection Hx as <-. rewrite Hst. split; discriminate.
Qed.

Lemma final_ok_inv_reachable a b c d e f g h s : reachable (init a b c d e f g h) s -> final_ok_inv s.
Proof.
  intros Hr.
  assert (G : forall s1, reachable (init a b c d e f g h) s1 ->
              reachable (init a b c d e f g h) s1 /\ final_ok_inv s1).
  { apply invariant_reachable.
    - split; [apply reachable_refl|]. intros kf F co HF. discriminate HF.
    - intros s0 ev s1 [Hr0 I] H. split; [eapply reachable_step; eauto|]. eapply final_ok_inv_step; eauto. }
  now apply G.
Qed.

(** ** The C03 statements *)
Theorem failed_implies_done a b c d e f g h s k x :
  reachable (init a b c d e f g h) s -> find_task k (tasks s) = Some x ->
  past_main (k_st x) = true -> k_main_ok x = false ->
  exists co, find_coord (k_t x) (coords s) = Some co /\ is_done (c_status co) = true.
Proof.
  intros Hr Hx Hp Hok. pose proof (failed_done_inv_reachable _ _ _ _ _ _ _ _ _ Hr k x Hx Hp Hok) as Hd.
  unfold coord_done in Hd. destruct (find_coord (k_t x) (coords s)) as [co|]; [eauto|discriminate].
Qed.

(** the only position where a failure is not yet recorded is TFailed; a task
    that is skipped, or whose main did not return normally, and that is past
    TFailed has main_ok = false *)
Theorem recorded_or_ok a b c d e f g h s k x :
  reachable (init a b c d e f g h) s -> find_task k (tasks s) = Some x ->
  (k_skipped x = true -> past_main (k_st x) = true /\ k_main_ok x = false /\ k_ran_main x = false) /\
  (k_main_ok x = true -> k_ran_main x = true /\ k_skipped x = false /\ past_main (k_st x) = true).
Proof.
  intros Hr Hx. destruct (flags_reachable _ _ _ _ _ _ _ _ _ Hr k x Hx) as (F1 & F2 & F3 & F4).
  split; [exact F1|]. intros Hok. destruct (F4 Hok) as [G1 G2]. destruct (F3 G1) as [G3 _]. auto.
Qed.

(** a done-check that answers "not done": at that moment no task of the
    transfer had failed (with the failure recorded) or been skipped, and the
    transfer was neither failed nor cancelled *)
Theorem no_skip_before_nondone_check a b c d e f g h s k s' x :
  reachable (init a b c d e f g h) s -> step s (EDoneCheck k false) = Some s' ->
  find_task k (tasks s) = Some x ->
  (exists co, find_coord (k_t x) (coords s) = Some co /\ is_done (c_status co) = false) /\
  forall ky y, find_task ky (tasks s) = Some y -> k_t y = k_t x ->
    k_skipped y = false /\ (past_main (k_st y) = true -> k_main_ok y = true /\ k_ran_main y = true).
Proof.
  intros Hr H Hx. cbn [step] in H. rewrite Hx in H.
  destruct (find_coord (k_t x) (coords s)) as [co|] eqn:Eco; [|discriminate].
  destruct (tst_eqb (k_st x) TDeps && eqb false (is_done (c_status co))) eqn:Eg; [|discriminate].
  apply andb_prop in Eg as [_ Eg]. apply eqb_prop in Eg.
  split; [exists co; auto|]. intros ky y Hy Ht.
  pose proof (failed_done_inv_reachable _ _ _ _ _ _ _ _ _ Hr ky y Hy) as Hfd.
  destruct (flags_reachable _ _ _ _ _ _ _ _ _ Hr ky y Hy) as (F1 & _ & _ & F4).
  assert (Hnd : coord_done s (k_t y) = false) by (unfold coord_done; rewrite Ht, Eco; auto).
  assert (Hpm : past_main (k_st y) = true -> k_main_ok y = true).
  { intros Hp. destruct (k_main_ok y) eqn:E; [reflexivity|]. rewrite (Hfd Hp eq_refl) in Hnd. discriminate. }
  split.
  - destruct (k_skipped y) eqn:E; [|reflexivity]. destruct (F1 eq_refl) as (G1 & G2 & _).
    rewrite (Hpm G1) in G2. discriminate.
  - intros Hp. split; [now apply Hpm|]. now destruct (F4 (Hpm Hp)).
Qed.

(** success: the final task ran its main after a done-check that answered
    "not done"; its dependencies have ended; and every other task of the
    transfer (the submission task and, for an IO final task, IO tasks that are
    not its dependencies excepted) ran its main to normal completion and was
    not skipped *)
Theorem success_implies_all_ok a b c d e f g h s t co :
  0 <= a -> 0 <= b -> 0 <= c ->
  reachable (init a b c d e f g h) s -> find_coord t (coords s) = Some co -> c_status co = Success ->
  exists kf F, find_task kf (tasks s) = Some F /\ k_final F = true /\ k_t F = t /\
    k_ran_main F = true /\ k_skipped F = false /\ k_st F <> TFailed /\
    (past_main (k_st F) = true -> k_main_ok F = true) /\
    (forall kf' F', find_task kf' (tasks s) = Some F' -> k_final F' = true -> k_t F' = t -> kf' = kf) /\
    (forall dd, In dd (k_deps F) -> exists x, find_task dd (tasks s) = Some x /\ k_t x = t /\ k_st x = TEnded) /\
    (forall kx x, find_task kx (tasks s) = Some x -> k_t x = t -> kx <> kf ->
       kx < kf /\
       (k_kind x <> KSubmission ->
        In kx (k_deps F) \/ ~ (k_stage x = SIO /\ k_stage F = SIO) \/ c = 1 ->
        past_main (k_st x) = true /\ k_main_ok x = true /\ k_skipped x = false /\ k_ran_main x = true)).
Proof.
  intros Ha0 Hb0 Hc0 Hr Hc Hs.
  destruct (success_final_inv_reachable _ _ _ _ _ _ _ _ _ Hr t co Hc Hs) as (kf & F & HF & Hfin & Ht & Hran).
  pose proof (plan_inv_reachable _ _ _ _ _ _ _ _ _ Hr) as [P1 P2 P3 P4].
  destruct (flags_reachable _ _ _ _ _ _ _ _ _ Hr kf F HF) as (_ & _ & Fl3 & _).
  destruct (Fl3 Hran) as [Hnsk Hst].
  rewrite <- Ht in Hc.
  destruct (final_ok_inv_reachable _ _ _ _ _ _ _ _ _ Hr kf F co HF Hfin Hc Hs) as [Hnf Hok].
  exists kf, F. split; [exact HF|]. split; [exact Hfin|]. split; [exact Ht|]. split; [exact Hran|].
  split; [exact Hnsk|]. split; [exact Hnf|]. split; [exact Hok|]. split; [|split].
  - intros kf' F' HF' Hfin' Ht'.
    assert (kf' <= kf) by (eapply (P1 kf F kf' F'); eauto; congruence).
    assert (kf <= kf') by (eapply (P1 kf' F' kf F); eauto; congruence). lia.
  - intros dd Hd. destruct (P4 kf F dd HF Hd) as (x & Hx & Hxt & _).
    destruct (P3 kf F dd HF) as (x0 & Hx0 & He); [|exact Hd|].
    + destruct Hst as [-> |[-> |Hp]]; try reflexivity. destruct (k_st F); try discriminate; reflexivity.
    + rewrite Hx in Hx0. injection Hx0 as <-. exists x. repeat split; congruence.
  - intros kx x Hx Hxt Hne. split.
    + assert (kx <= kf) by (eapply (P1 kf F kx x); eauto; congruence). lia.
    + intros Hk Hcv.
      eapply (good_inv_reachable a b c d e f g h s Ha0 Hb0 Hc0 Hr kf F kx x); eauto; try congruence.
      * right. exact Hran.
      * split; assumption.
Qed.

(** * Part 13 (C18): the shutdown phase and the ghost counter *)
Definition bump_cause (s : state) : Prop :=
  (exists a x, find_task a (tasks s) = Some x /\ k_st x = TMain) \/
  (exists t c a, find_coord t (coords s) = Some c /\ (c_cl_runner c = Some a \/ c_cb_runner c = Some a)).

Inductive shstep (s s' : state) : Prop :=
  | sh_same : shutdown_phase s' = shutdown_phase s -> after_shutdown_events s' = after_shutdown_events s -> shstep s s'
  | sh_bump : shutdown_phase s' = shutdown_phase s ->
      (after_shutdown_events s' = after_shutdown_events s \/ shutdown_phase s = 2) ->
      bump_cause s -> shstep s s'
  | sh_begin : shutdown_phase s = 0 -> shutdown_phase s' = 1 ->
      after_shutdown_events s' = after_shutdown_events s -> shstep s s'
  | sh_return : shutdown_phase s = 1 -> shutdown_phase s' = 2 ->
      after_shutdown_events s' = after_shutdown_events s ->
      g_joined (st_sub s) = true -> g_joined (st_req s) = true -> g_joined (st_io s) = true -> shstep s s'.

Lemma bump_after s : after_shutdown_events (bump_after_shutdown s) = after_shutdown_events s \/ shutdown_phase s = 2.
Proof. unfold bump_after_shutdown. destruct (shutdown_phase s =? 2) eqn:E; [right; lia|now left]. Qed.

Ltac sh_simpl :=
  repeat first [ rewrite set_stage_shutdown_phase | rewrite set_stage_after | rewrite bump_shutdown_phase
               | progress cbn [shutdown_phase after_shutdown_events set_tasks set_sems set_reqs set_uploads
                               set_shutdown set_coords set_files] ].

Ltac sh_same_tac := apply sh_same; sh_simpl; reflexivity.

(** after the guards have been destructed: a step whose result is built on
    [bump_after_shutdown s] *)
Ltac sh_bump_tac Hcause :=
  apply sh_bump; [sh_simpl; reflexivity|sh_simpl; apply bump_after|exact Hcause].

Lemma cause_task s a t kd :
  match find_task a (tasks s) with
  | Some x => (k_t x =? t) && tst_eqb (k_st x) TMain && (k_kind x =? kd) | None => false end = true ->
  bump_cause s.
Proof.
  destruct (find_task a (tasks s)) as [x|] eqn:Ex; [|discriminate]. intros Hb. left. exists a, x.
  split; [exact Ex|]. split_ands. now apply tst_eqb_true.
Qed.

Lemma cause_cleaner s a t :
  match find_coord t (coords s) with
  | Some c => match c_cl_runner c with Some b => b =? a | None => false end | None => false end = true ->
  bump_cause s.
Proof.
  destruct (find_coord t (coords s)) as [c0|] eqn:Ec; [|discriminate].
  destruct (c_cl_runner c0) as [b|] eqn:Er; [|discriminate]. intros _. right. exists t, c0, b. auto.
Qed.

Lemma step_shstep s e s' : step s e = Some s' -> shstep s s'.
Proof.
  intros H. destruct e; cbn [step] in H.
  18: { (* EOnProgress *)
    destruct (find_task a (tasks s)) as [x|] eqn:Ex; [|discriminate].
    destruct ((k_t x =? t) && tst_eqb (k_st x) TMain && negb (k_kind x =? KSubmission)) eqn:Eg; [|discriminate].
    assert (Hc : bump_cause s).
    { left. exists a, x. split; [exact Ex|]. split_ands. now apply tst_eqb_true. }
    unfold on_coord in H. destr H. injection H as <-. sh_bump_tac Hc. }
  21: { (* ECleanup *)
    destruct (busy s a); [discriminate|]. unfold on_coord in H. rewrite bump_coords in H.
    destruct (find_coord t (coords s)) as [c0|] eqn:Ec; [|discriminate].
    destruct (c_cl_runner c0) as [b|] eqn:Er; [|discriminate].
    assert (Hc : bump_cause s) by (right; exists t, c0, b; auto).
    destr H. injection H as <-. sh_bump_tac Hc. }
  24: { (* ECallback *)
    destruct (busy s a); [discriminate|]. unfold on_coord in H. rewrite bump_coords in H.
    destruct (find_coord t (coords s)) as [c0|] eqn:Ec; [|discriminate].
    destruct (c_cb_runner c0) as [b|] eqn:Er; [|discriminate].
    assert (Hc : bump_cause s) by (right; exists t, c0, b; auto).
    destr H. injection H as <-. sh_bump_tac Hc. }
  30: { (* ES3Begin *)
    destruct (busy s a); [discriminate|].
    destruct (find_req r (reqs s)); [discriminate|]. cbn [andb] in H.
    match type of H with (if ?b then _ else _) = _ => destruct b eqn:Ewho; [|discriminate] end.
    assert (Hc : bump_cause s).
    { destruct (s3op_eqb op OpAbort).
      - destruct (find_coord t (coords s)) as [c0|] eqn:Ec; [|discriminate].
        destruct (c_cl_runner c0) as [b|] eqn:Er; [|discriminate]. right. exists t, c0, b. auto.
      - destruct (find_task a (tasks s)) as [x|] eqn:Ex; [|discriminate]. left. exists a, x.
        split; [exact Ex|]. split_ands. now apply tst_eqb_true. }
    destruct op; destr H; injection H as <-; sh_bump_tac Hc. }
  33: { (* EFs *)
    destruct (busy s a); [discriminate|].
    destruct op; destruct (find_file t (files s)); try discriminate; destr H; injection H as <-;
      apply sh_bump; try (sh_simpl; reflexivity); try (sh_simpl; apply bump_after);
      try (match goal with Hb : _ || _ = true |- _ => apply orb_prop in Hb as [Hb|Hb] end);
      try (match goal with Hb : _ && _ = true |- _ => apply andb_prop in Hb as [Hb _] end);
      try (match goal with Hb : _ && _ = true |- _ => apply andb_prop in Hb as [Hb _] end);
      first [ eapply cause_task; eassumption | eapply cause_cleaner; eassumption ]. }
  33: { (* EShutdownBegin *) destr H. injection H as <-. apply sh_begin; [lia|reflexivity|reflexivity]. }
  35: { (* EShutdownReturn *)
    destr H. injection H as <-. split_ands. apply sh_return; try reflexivity; try assumption; lia. }
  all: unfold on_task, on_coord, bind in H; destr H; injection H as <-; try sh_same_tac.
  all: match goal with Hq : _ = Some ?s0 |- _ => destr Hq; injection Hq as <-; sh_same_tac end.
Qed.

(** a joined stage is shut, idle and empty -- and stays so *)
Definition joined_inv (s : state) : Prop :=
  forall g, g <> SInline -> g_joined (get_stage s g) = true ->
    g_shut (get_stage s g) = true /\ g_running (get_stage s g) = 0 /\ g_queue (get_stage s g) = [].


Lemma joined_inv_step s e s' :
  run_inv s -> joined_inv s -> step s e = Some s' ->
  joined_inv s' /\ (forall g, g <> SInline -> g_joined (get_stage s g) = true -> g_joined (get_stage s' g) = true).
Proof.
  intros Irun I H. apply step_sstep in H.
  assert (Hsame : same_stages s s' -> joined_inv s' /\
            (forall g, g <> SInline -> g_joined (get_stage s g) = true -> g_joined (get_stage s' g) = true)).
  { intros Hs. split; [intros g Hg; rewrite (Hs g); now apply I|intros g Hg; now rewrite (Hs g)]. }
  destruct H as [Ht Hs _|k t g0 a final deps kind Hn _ Ht _ Hs _|k x f Hf Hid Hts Hio Ht Hs _
                |k x sem v Hf _ _ _ _ _ Ht _ Hs _|k x Hf Hst _ Hni Hsh Ht Hs _ _|k x rest Hf Hst Hni Hq _ Ht Hs _ _
                |k x Hf Hni Hst _ Ht Hs _ _|k x Hf _ _ _ Ht _ Hs _|g0 Hg0 Ht _ _ _ Hs|g0 Hg0 Ht _ _ Hsh Hrun Hq Hs];
    try (now apply Hsame).
  - (* enqueue: the stage is not shut, hence not joined *)
    split; intros g Hg; destruct (stage_set_cases _ _ _ _ g Hs) as [[-> E]|[Hne E]]; rewrite E; cbn;
      try (now apply I); try tauto.
    intros Hj. destruct (I _ Hg Hj) as [Hc _]. congruence.
  - (* start: the queue is not empty *)
    split; intros g Hg; destruct (stage_set_cases _ _ _ _ g Hs) as [[-> E]|[Hne E]]; rewrite E; cbn;
      try (now apply I); try tauto.
    intros Hj. destruct (I _ Hg Hj) as (_ & _ & Hc). congruence.
  - (* end: a task is running *)
    split; intros g Hg; destruct (stage_set_cases _ _ _ _ g Hs) as [[-> E]|[Hne E]]; rewrite E; cbn;
      try (now apply I); try tauto.
    intros Hj. destruct (I _ Hg Hj) as (_ & Hc & _). exfalso.
    rewrite (Irun _ Hg) in Hc. destruct (find_task_in _ _ _ Hf) as [Hin _].
    assert (1 <= count (runs_in (k_stage x)) (tasks s)); [|lia].
    apply (count_pos _ _ x Hin). unfold runs_in. rewrite stage_eqb_refl.
    destruct (k_final x); rewrite Hst; reflexivity.
  - (* shut *)
    split; intros g Hg; destruct (stage_set_cases _ _ _ _ g Hs) as [[-> E]|[Hne E]]; rewrite E; cbn;
      try (now apply I); try tauto.
    intros Hj. destruct (I _ Hg Hj) as (_ & H1 & H2). auto.
  - (* join *)
    split; intros g Hg; destruct (stage_set_cases _ _ _ _ g Hs) as [[-> E]|[Hne E]]; rewrite E; cbn;
      try (now apply I); try tauto.
Qed.

Definition shutdown_inv (s : state) : Prop :=
  joined_inv s /\
  (shutdown_phase s = 2 ->
   g_joined (st_sub s) = true /\ g_joined (st_req s) = true /\ g_joined (st_io s) = true) /\
  0 <= shutdown_phase s <= 2.

Lemma shutdown_inv_step s e s' : run_inv s -> shutdown_inv s -> step s e = Some s' -> shutdown_inv s'.
Proof.
  intros Irun (I1 & I2 & I3) H. destruct (joined_inv_step _ _ _ Irun I1 H) as [J1 J2].
  split; [exact J1|].
  assert (Hkeep : g_joined (st_sub s) = true /\ g_joined (st_req s) = true /\ g_joined (st_io s) = true ->
                  g_joined (st_sub s') = true /\ g_joined (st_req s') = true /\ g_joined (st_io s') = true).
  { intros (A & B & C). repeat split.
    - apply (J2 SSub); [discriminate|exact A].
    - apply (J2 SReq); [discriminate|exact B].
    - apply (J2 SIO); [discriminate|exact C]. }
  apply step_shstep in H. destruct H as [Hp _|Hp _ _|Hp0 Hp1 _|Hp0 Hp1 _ A B C].
  - rewrite Hp. split; [intros E; apply Hkeep; auto|exact I3].
  - rewrite Hp. split; [intros E; apply Hkeep; auto|exact I3].
  - rewrite Hp1. split; [discriminate|lia].
  - rewrite Hp1. split; [intros _; apply Hkeep; auto|lia].
Qed.

Lemma shutdown_inv_reachable a b c d e f g h s : reachable (init a b c d e f g h) s -> shutdown_inv s.
Proof.
  apply invariant_reachable2 with (Q := run_inv); [apply run_inv_reachable| |].
  - split; [|split; [discriminate|cbn; lia]]. intros g0 Hg. destruct g0; cbn; discriminate.
  - intros s0 ev s1 Q I H. eapply shutdown_inv_step; eauto.
Qed.

(** * Part 14 (C18): after shutdown returned no task is started-and-not-ended *)
Lemma static_reachable a b c d e f g h s :
  reachable (init a b c d e f g h) s ->
  forall k x, find_task k (tasks s) = Some x ->
    0 <= k_id x /\ (k_kind x = KSubmission \/ k_parent x < k_id x) /\
    (k_stage x = SInline -> k_kind x <> KSubmission).
Proof.
  intros Hr. apply (task_inv_reachable (fun x =>
    0 <= k_id x /\ (k_kind x = KSubmission \/ k_parent x < k_id x) /\
    (k_stage x = SInline -> k_kind x <> KSubmission)) (init a b c d e f g h)); [reflexivity| | |exact Hr].
  - intros s0 a0 k t g0 final deps kind Hso. cbn [fresh_task k_id k_kind k_parent k_stage].
    split; [exact (so_nonneg _ _ _ _ _ _ _ _ Hso)|]. split.
    + pose proof (so_who _ _ _ _ _ _ _ _ Hso) as Hw. destruct (kind =? KSubmission) eqn:Ek; [left; lia|right].
      apply andb_prop in Hw as [_ Hw]. unfold acting_task in Hw.
      destruct (find_task a0 (tasks s0)) as [p|] eqn:Ep; [|discriminate].
      destruct (find_task_in _ _ _ Ep) as [Hin Hid].
      pose proof (so_ids _ _ _ _ _ _ _ _ Hso) as Hids. rewrite forallb_forall in Hids.
      specialize (Hids p Hin). lia.
    + intros -> Hk. pose proof (so_kind _ _ _ _ _ _ _ _ Hso) as Hks. unfold kind_stage_ok in Hks.
      rewrite Hk in Hks. cbn in Hks. discriminate.
  - intros s0 x y Hts Hx. destruct (tstep_static _ _ _ Hts) as (E1 & _ & E3 & E4 & _ & _ & E7).
    now rewrite E1, E3, E4, E7.
Qed.

Lemma task_eq_dec (x y : task) : {x = y} + {x <> y}.
Proof.
  decide equality; try apply Z.eq_dec; try apply bool_dec;
    try (apply list_eq_dec; apply Z.eq_dec); decide equality.
Qed.

Lemma busy_child s k x :
  find_task k (tasks s) = Some x -> k_stage x = SInline -> running_st (k_st x) = true ->
  busy s (k_parent x) = true.
Proof.
  intros Hx Hs Hr. unfold busy. apply orb_true_iff. right. apply existsb_exists.
  exists x. destruct (find_task_in _ _ _ Hx) as [Hin _]. split; [exact Hin|].
  rewrite Z.eqb_refl, Hs. cbn. destruct (k_st x); try discriminate; reflexivity.
Qed.

Lemma tstep_becomes_running s x y :
  tstep s x y -> running_st (k_st x) = false -> running_st (k_st y) = true -> k_st x = TQueued.
Proof.
  intros H H1 H2. destruct H; cbn in H2; try congruence;
    try (match goal with Hst : k_st _ = _ |- _ => rewrite Hst in H1; discriminate end).
Qed.

Lemma acting_running v : acting_st v = true -> running_st v = true.
Proof. destruct v; cbn; congruence. Qed.

Definition inline_inv (s : state) : Prop :=
  forall k x, find_task k (tasks s) = Some x -> k_stage x = SInline -> running_st (k_st x) = true ->
    exists p, find_task (k_parent x) (tasks s) = Some p /\ acting_st (k_st p) = true.

Lemma inline_inv_step a b c d e0 f g h s e s' :
  reachable (init a b c d e0 f g h) s -> inline_inv s -> step s e = Some s' -> inline_inv s'.
Proof.
  intros Hr I H k x' Hx' Hinl Hrun. pose proof (step_evolve _ _ _ H) as Hev.
  destruct (evolve_pred _ _ _ _ Hev Hx') as [(x & Hx & Hts & Hl)|(_ & a1 & t & g1 & fin & deps & kind & -> & _)].
  2: { cbn in Hrun. destruct (stage_eqb g1 SInline); discriminate. }
  destruct (tstep_static _ _ _ Hts) as (_ & _ & E3 & E4 & _). rewrite E3 in Hinl. rewrite E4.
  destruct Hev as (Hold & _ & _ & Hone).
  destruct (running_st (k_st x)) eqn:Erx.
  - destruct (I k x Hx Hinl Erx) as (p & Hp & Hact).
    destruct (Hold _ _ Hp) as (p' & Hp' & Htsp & Hlp). exists p'. split; [exact Hp'|].
    destruct (acting_st (k_st p')) eqn:Eap; [reflexivity|exfalso].
    pose proof (lo_act _ _ _ _ _ Hlp Hact Eap) as Hb.
    rewrite (busy_child _ _ _ Hx Hinl Erx) in Hb. discriminate.
  - pose proof (tstep_becomes_running _ _ _ Hts Erx Hrun) as Hq.
    assert (Hnq : k_st x' <> TQueued) by (intros Hc; rewrite Hc in Hrun; discriminate).
    destruct (lo_inl _ _ _ _ _ Hl Hinl Hq Hnq) as [_ Hact]. unfold acting_task in Hact.
    destruct (find_task (k_parent x) (tasks s)) as [p|] eqn:Ep; [|discriminate].
    destruct (Hold _ _ Ep) as (p' & Hp' & Htsp & _). exists p'. split; [exact Hp'|].
    assert (p' = p).
    { destruct (task_eq_dec p' p) as [E|N]; [exact E|exfalso].
      assert (Nx : x' <> x) by (intros Hc; rewrite Hc in Hrun; congruence).
      pose proof (Hone _ _ _ _ _ _ Ep Hx Hp' Hx' N Nx) as Hk.
      destruct (static_reachable _ _ _ _ _ _ _ _ _ Hr k x Hx) as (_ & [Hs|Hs] & Hs2).
      - now apply Hs2.
      - apply find_task_some_id in Hx. lia. }
    subst p'. apply andb_prop in Hact as [_ Hact]. apply orb_prop in Hact as [Hact|Hact];
      apply tst_eqb_true in Hact; now rewrite Hact.
Qed.

Lemma inline_inv_reachable a b c d e f g h s : reachable (init a b c d e f g h) s -> inline_inv s.
Proof.
  intros Hr.
  assert (G : forall s1, reachable (init a b c d e f g h) s1 ->
              reachable (init a b c d e f g h) s1 /\ inline_inv s1).
  { apply invariant_reachable.
    - split; [apply reachable_refl|]. intros k x Hx. discriminate Hx.
    - intros s0 ev s1 [Hr0 I] H. split; [eapply reachable_step; eauto|]. eapply inline_inv_step; eauto. }
  now apply G.
Qed.

(** every executor joined: no task at all is started-and-not-ended *)
Lemma joined_no_running a b c d e f g h s :
  reachable (init a b c d e f g h) s ->
  g_joined (st_sub s) = true -> g_joined (st_req s) = true -> g_joined (st_io s) = true ->
  forall k x, find_task k (tasks s) = Some x -> running_st (k_st x) = false.
Proof.
  intros Hr J1 J2 J3.
  destruct (shutdown_inv_reachable _ _ _ _ _ _ _ _ _ Hr) as (Hj & _ & _).
  pose proof (run_inv_reachable _ _ _ _ _ _ _ _ _ Hr) as Hrun.
  pose proof (inline_inv_reachable _ _ _ _ _ _ _ _ _ Hr) as Hinl.
  pose proof (static_reachable _ _ _ _ _ _ _ _ _ Hr) as Hstat.
  assert (Hstage : forall k x, find_task k (tasks s) = Some x -> k_stage x <> SInline ->
                               running_st (k_st x) = false).
  { intros k x Hx Hs. destruct (find_task_in _ _ _ Hx) as [Hin _].
    assert (Hj0 : g_joined (get_stage s (k_stage x)) = true) by (destruct (k_stage x); auto; congruence).
    destruct (Hj _ Hs Hj0) as (_ & H0 & _). rewrite (Hrun _ Hs) in H0.
    pose proof (count_zero_inv _ _ x H0 Hin) as Hc. unfold runs_in in Hc.
    now rewrite stage_eqb_refl in Hc. }
  intros k. pattern k. apply (well_founded_induction (Z.lt_wf 0)). clear k.
  intros k IH x Hx. destruct (stage_dec (k_stage x) SInline) as [Hs|Hs]; [|eapply Hstage; eauto].
  destruct (running_st (k_st x)) eqn:Er; [exfalso|reflexivity].
  destruct (Hinl k x Hx Hs Er) as (p & Hp & Hact).
  destruct (Hstat k x Hx) as (_ & Hpar & Hnk). destruct (Hstat _ _ Hp) as (Hp0 & _ & _).
  pose proof (find_task_some_id _ _ _ Hx) as Hid. pose proof (find_task_some_id _ _ _ Hp) as Hidp.
  destruct Hpar as [Hpar|Hpar]; [now apply Hnk|].
  assert (Hlt : 0 <= k_parent x < k) by lia.
  pose proof (IH _ Hlt p Hp) as Hnr. apply acting_running in Hact. congruence.
Qed.

Theorem all_done_at_shutdown_return_partial a b c d e f g h s :
  reachable (init a b c d e f g h) s -> shutdown_phase s = 2 ->
  (forall g0, g0 <> SInline ->
     g_joined (get_stage s g0) = true /\ g_shut (get_stage s g0) = true /\
     g_running (get_stage s g0) = 0 /\ g_queue (get_stage s g0) = []) /\
  (forall k x, find_task k (tasks s) = Some x ->
     running_st (k_st x) = false /\
     (k_stage x <> SInline -> k_st x = TSubmitting \/ k_st x = TEnded) /\
     (k_stage x = SInline -> k_st x = TQueued \/ k_st x = TEnded)) /\
  (forall q, In q (reqs s) -> r_op q <> OpAbort -> r_ended q = true).
Proof.
  intros Hr Hp. destruct (shutdown_inv_reachable _ _ _ _ _ _ _ _ _ Hr) as (Hj & Hp2 & _).
  destruct (Hp2 Hp) as (J1 & J2 & J3).
  pose proof (joined_no_running _ _ _ _ _ _ _ _ _ Hr J1 J2 J3) as Hnr.
  split; [|split].
  - intros g0 Hg. assert (Hj0 : g_joined (get_stage s g0) = true) by (destruct g0; auto; congruence).
    split; [exact Hj0|]. now apply Hj.
  - intros k x Hx. pose proof (Hnr k x Hx) as Hn. split; [exact Hn|]. split.
    + intros Hs. destruct (k_st x) eqn:Est; try discriminate; auto. exfalso.
      (* queued in a stage: it would be in the (empty) queue *)
      destruct (queue_inv_reachable _ _ _ _ _ _ _ _ _ Hr _ Hs) as [_ _ _ Q4].
      assert (Hj0 : g_joined (get_stage s (k_stage x)) = true) by (destruct (k_stage x); auto; congruence).
      destruct (Hj _ Hs Hj0) as (_ & _ & Hq).
      assert (Hin : In k (g_queue (get_stage s (k_stage x)))) by (apply Q4; exists x; auto).
      rewrite Hq in Hin. contradiction.
    + intros Hs. destruct (k_st x) eqn:Est; try discriminate; auto. exfalso.
      (* an inline task is never TSubmitting *)
      clear Hn. revert Hs Est. revert k x Hx.
      apply (task_inv_reachable (fun x => k_stage x = SInline -> k_st x = TSubmitting -> False)
               (init a b c d e f g h)); [reflexivity| | |exact Hr].
      * intros s0 a0 k t g1 fin deps kind _ Hs Hst. cbn in Hs, Hst. subst g1. discriminate.
      * intros s0 x y Hts Hx Hs Hst. destruct (tstep_static _ _ _ Hts) as (_ & _ & E3 & _).
        rewrite E3 in Hs. destruct Hts; cbn in Hst; try discriminate; auto; try congruence.
  - intros q Hq Hop. destruct (r_ended q) eqn:Ee; [reflexivity|exfalso].
    destruct (req_inv_reachable _ _ _ _ _ _ _ _ _ Hr) as [R1 _].
    destruct (R1 q Hq Ee Hop) as (x & Hx & Hst & _). pose proof (Hnr _ _ Hx) as Hn.
    rewrite Hst in Hn. discriminate.
Qed.

(** * Part 15 (C18): who can announce *)
Lemma cstep_not_started c c' : cstep c c' -> c_status c' = NotStarted -> c_status c = NotStarted.
Proof.
  intros H Hs. destruct H; cbn in Hs; try exact Hs; try discriminate.
  destruct H0 as [-> | ->]; discriminate.
Qed.

Definition early_st (v : tst) : bool :=
  match v with TSubmitting | TQueued | TStarted | TDeps | TReady | TMain => true | _ => false end.

(** while a transfer is not started its only task is the submission task,
    which has not yet changed the status *)
Definition ns_inv (s : state) : Prop :=
  forall t c, find_coord t (coords s) = Some c -> c_status c = NotStarted ->
    forall k x, find_task k (tasks s) = Some x -> k_t x = t ->
      k_kind x = KSubmission /\ k_phase x = 0 /\ early_st (k_st x) = true.

Lemma ns_inv_step s e s' : task_coord_inv s -> ns_inv s -> step s e = Some s' -> ns_inv s'.
Proof.
  intros Itc I H t c' Hc' Hns k x' Hx' Ht.
  pose proof (step_evolve _ _ _ H) as Hev.
  pose proof (step_coords_step _ _ _ H) as [Hcold Hcfresh].
  destruct (find_coord t (coords s)) as [c|] eqn:Ec.
  2: { (* no coordinator before: the transfer had no task, and none can be submitted *)
    exfalso. destruct (evolve_pred _ _ _ _ Hev Hx') as [(x & Hx & Hts & _)|(_ & a1 & t1 & g1 & fin & deps & kind & -> & Hso)].
    - destruct (tstep_static _ _ _ Hts) as (_ & E & _). destruct (Itc _ _ Hx) as (c0 & Hc0). congruence.
    - cbn in Ht. subst t1. destruct (so_coord _ _ _ _ _ _ _ _ Hso) as (c0 & Hc0). congruence. }
  destruct (Hcold t c Ec) as (c'' & Hc'' & Hcs). rewrite Hc' in Hc''. injection Hc'' as <-.
  pose proof (cstep_not_started _ _ Hcs Hns) as Hns0.
  destruct (evolve_pred _ _ _ _ Hev Hx') as [(x & Hx & Hts & Hl)|(_ & a1 & t1 & g1 & fin & deps & kind & -> & Hso)].
  - destruct (tstep_static _ _ _ Hts) as (_ & E & _). rewrite E in Ht.
    destruct (I t c Ec Hns0 k x Hx Ht) as (Hk & Hp & He).
    assert (Hnd : coord_done s (k_t x) = false) by (unfold coord_done; rewrite Ht, Ec, Hns0; reflexivity).
    assert (Hnd' : coord_done s' (k_t x) = false) by (unfold coord_done; rewrite Ht, Hc', Hns; reflexivity).
    destruct Hts; cbn [k_kind k_phase k_st with_st with_flags with_phase with_assoc with_permit with_released];
      try (repeat split; assumption);
      try (match goal with Hst : k_st _ = _ |- _ => rewrite Hst in He; cbn in He; try discriminate He end);
      try (repeat split; try assumption; reflexivity);
      try congruence; try lia.
    + (* submission exception *)
      exfalso. rewrite (lo_exc _ _ _ _ _ Hl) in Hnd'; [discriminate|]. right. cbn. split; [lia|reflexivity].
    + (* status *)
      exfalso. destruct (lo_status _ _ _ _ _ Hl) as (c1 & Hc1 & Hs1); [cbn; lia|lia|].
      rewrite Ht, Hc' in Hc1. injection Hc1 as <-. destruct Hs1; congruence.
    + exfalso. destruct (k_final x); match goal with Hst : k_st _ = _ |- _ => rewrite Hst in He; discriminate He end.
  - cbn [k_t k_kind k_phase k_st fresh_task] in *. subst t1.
    pose proof (so_who _ _ _ _ _ _ _ _ Hso) as Hw. destruct (kind =? KSubmission) eqn:Ek.
    + split; [lia|]. split; [reflexivity|]. split_ands.
      match goal with Hg : stage_eqb g1 SSub = true |- _ => apply stage_eqb_eq in Hg; subst g1 end. reflexivity.
    + exfalso. apply andb_prop in Hw as [_ Hw]. unfold acting_task in Hw.
      destruct (find_task a1 (tasks s)) as [p|] eqn:Ep; [|discriminate].
      apply andb_prop in Hw as [Hw1 Hw2].
      destruct (I t c Ec Hns0 a1 p Ep ltac:(lia)) as (Hk & Hp & _).
      pose proof (so_phase _ _ _ _ _ _ _ _ Hso) as Hph. rewrite Ep in Hph.
      assert (Ek2 : k_kind p =? KSubmission = true) by lia. rewrite Ek2 in Hph. lia.
Qed.

Lemma ns_inv_reachable a b c d e f g h s : reachable (init a b c d e f g h) s -> ns_inv s.
Proof.
  apply invariant_reachable2 with (Q := task_coord_inv); [apply task_coord_inv_reachable| |].
  - intros t c0 Hc. discriminate Hc.
  - intros s0 ev s1 Q I H. eapply ns_inv_step; eauto.
Qed.

Definition is_ann (a : actor) (c : coord) : Prop := ann_phase a (c_announcers c) <> None.
Definition asub (y c : coord) : Prop :=
  (forall a, In a (c_owing y) -> In a (c_owing c)) /\ (forall a, is_ann a y -> is_ann a c).

Lemma asub_refl c : asub c c.
Proof. split; auto. Qed.

Lemma ann_set_sub a0 p l b :
  ann_phase a0 l <> None -> ann_phase b (ann_set a0 p l) <> None -> ann_phase b l <> None.
Proof.
  intros H0 Hb. destruct (Z.eq_dec a0 b) as [->|Hne]; [exact H0|].
  now rewrite ann_phase_set_other in Hb by exact Hne.
Qed.

Lemma ann_del_sub a0 l b : ann_phase b (ann_del a0 l) <> None -> ann_phase b l <> None.
Proof.
  intros Hb. destruct (Z.eq_dec a0 b) as [->|Hne]; [now rewrite ann_phase_del_same in Hb|].
  now rewrite ann_phase_del_other in Hb by exact Hne.
Qed.

Lemma remove_z_sub a0 l b : In b (remove_z a0 l) -> In b l.
Proof. unfold remove_z. intros H. now apply filter_In in H. Qed.

Lemma on_coord_at s t f s' t0 c0 c0' :
  on_coord s t f = Some s' -> (forall c y, f c = Some y -> c_id y = c_id c) ->
  find_coord t0 (coords s) = Some c0 -> find_coord t0 (coords s') = Some c0' ->
  (t0 <> t /\ c0' = c0) \/ (t0 = t /\ f c0 = Some c0').
Proof.
  intros H Hid H0 H0'. apply on_coord_inv in H as (c & y & Hc & Hy & ->). cbn [coords set_coords] in H0'.
  pose proof (find_coord_some_id _ _ _ Hc) as Hcid. pose proof (Hid c y Hy) as Hyid.
  rewrite (find_coord_upd_const_gen t t0 _ c y Hc) in H0' by lia.
  destruct (t0 =? t) eqn:E.
  - right. assert (t0 = t) by lia. subst t0. split; [reflexivity|]. rewrite Hc in H0. injection H0 as <-.
    now injection H0' as <-.
  - left. split; [lia|congruence].
Qed.

Inductive ann_change (s s' : state) (t : Z) (c c' : coord) : Prop :=
  | ac_sub : asub c' c -> ann_change s s' t c c'
  | ac_cancel a0 :
      c_owing c' = a0 :: c_owing c -> c_announcers c' = c_announcers c -> c_status c = NotStarted ->
      is_done (c_status c') = true ->
      is_user a0 = true \/ in_callback s a0 t = true \/ acting_task s a0 t = true ->
      tasks s' = tasks s -> ann_change s s' t c c'
  | ac_owing a0 :
      c_owing c' = remove_z a0 (c_owing c) -> c_announcers c' = ann_set a0 0 (c_announcers c) ->
      mem_z a0 (c_owing c) = true -> ann_phase a0 (c_announcers c) = None -> ann_change s s' t c c'
  | ac_begin a0 x :
      c_owing c' = c_owing c -> c_announcers c' = ann_set a0 0 (c_announcers c) ->
      mem_z a0 (c_owing c) = false -> ann_phase a0 (c_announcers c) = None ->
      find_task a0 (tasks s) = Some x -> k_t x = t ->
      (k_kind x = KSubmission /\ k_st x = TMain /\ k_phase x = 4 /\ tasks s' = tasks s) \/
      (k_kind x <> KSubmission /\ k_final x = true /\ k_st x = TPost /\
       find_task a0 (tasks s') = Some (with_st x TAnn)) ->
      ann_change s s' t c c'.

Ltac asub_tac :=
  cbn; split;
  [ intros ?b ?Hb; first [ exact Hb | eapply remove_z_sub; exact Hb | idtac ]
  | unfold is_ann; cbn; intros ?b ?Hb;
    first [ exact Hb
          | eapply ann_del_sub; exact Hb
          | eapply ann_set_sub; [|exact Hb]; congruence
          | idtac ] ].

Ltac ac_oc H H0 H0' :=
  let Hf := fresh "Hf" in
  destruct (on_coord_at _ _ _ _ _ _ _ H
              ltac:(let c := fresh "c" in let y := fresh "y" in let Hq := fresh "Hq" in
                    intros c y Hq; cbv beta in Hq; destr Hq; injection Hq as <-; reflexivity)
              H0 H0') as [[_ ->]|[-> Hf]];
  [ apply ac_sub, asub_refl
  | cbv beta in Hf; destr Hf; injection Hf as <-; apply ac_sub; asub_tac ].

Ltac ac_fin H H0 H0' :=
  first
    [ injection H as <-;
      first [ rewrite H0 in H0'; injection H0' as <-; apply ac_sub, asub_refl
            | match type of H0 with find_coord _ (coords ?s0) = _ =>
              match type of H0' with find_coord _ (coords ?s1) = _ =>
                let E := fresh in assert (E : coords s1 = coords s0) by coords_eq;
                rewrite E, H0 in H0'; injection H0' as <-; apply ac_sub, asub_refl end end ]
    | match type of H with on_task _ _ _ = Some _ =>
        rewrite (on_task_coords _ _ _ _ H), H0 in H0'; injection H0' as <-; apply ac_sub, asub_refl end
    | match type of H with on_coord (bump_after_shutdown ?s) _ _ = Some _ =>
        rewrite <- (bump_coords s) in H0; ac_oc H H0 H0' end
    | ac_oc H H0 H0'
    | match type of H with bind _ _ = Some _ =>
        unfold bind in H;
        match type of H with match ?o with _ => _ end = _ =>
          let E1 := fresh "E1" in destruct o eqn:E1; [|discriminate H];
          rewrite (on_task_coords _ _ _ _ H) in H0'; ac_oc E1 H0 H0' end end ].

Lemma step_ann_change s e s' t c c' :
  step s e = Some s' -> find_coord t (coords s) = Some c -> find_coord t (coords s') = Some c' ->
  ann_change s s' t c c'.
Proof.
  intros H H0 H0'. destruct e; cbn [step] in H.
  15: { (* ECancel *)
    destruct (busy s a); [discriminate|].
    destruct (is_user a || in_callback s a t0 || acting_task s a t0) eqn:Eal; [|discriminate].
    pose proof (on_coord_tasks _ _ _ _ H) as Htasks.
    destruct (on_coord_at _ _ _ _ _ _ _ H
                ltac:(intros c1 y Hq; cbv beta in Hq; destr Hq; injection Hq as <-; reflexivity)
                H0 H0') as [[_ ->]|[-> Hf]]; [apply ac_sub, asub_refl|].
    cbv beta in Hf. destruct (is_done (c_status c)) eqn:Ed.
    - injection Hf as <-. apply ac_sub, asub_refl.
    - destruct (status_eqb (c_status c) NotStarted) eqn:En; injection Hf as <-.
      + apply status_eqb_eq in En. apply ac_cancel with (a0 := a); try reflexivity; try assumption.
        apply orb_prop in Eal as [Eal|Eal]; [|auto]. apply orb_prop in Eal as [Eal|Eal]; auto.
      + apply ac_sub. asub_tac. }
  19: { (* EAnnBegin *)
    destruct (busy s a); [discriminate|].
    destruct (find_coord t0 (coords s)) as [c0|] eqn:Ec0; [|discriminate].
    destruct (ann_phase a (c_announcers c0)) eqn:Eap; [discriminate|].
    destruct (mem_z a (c_owing c0)) eqn:Eow.
    - destruct (on_coord_at _ _ _ _ _ _ _ H
                ltac:(intros c1 y Hq; cbv beta in Hq; injection Hq as <-; reflexivity)
                H0 H0') as [[_ ->]|[-> Hf]]; [apply ac_sub, asub_refl|].
      cbv beta in Hf. injection Hf as <-. rewrite Ec0 in H0. injection H0 as <-.
      apply ac_owing with (a0 := a); try reflexivity; assumption.
    - destruct (find_task a (tasks s)) as [x|] eqn:Ex; [|discriminate].
      destruct (k_t x =? t0) eqn:Et; cbn [negb] in H; [|discriminate].
      destruct (k_kind x =? KSubmission) eqn:Ek.
      + destruct (tst_eqb (k_st x) TMain && (k_phase x =? 4)) eqn:Eg; [|discriminate].
        pose proof (on_coord_tasks _ _ _ _ H) as Htasks.
        destruct (on_coord_at _ _ _ _ _ _ _ H
                ltac:(intros c1 y Hq; cbv beta in Hq; injection Hq as <-; reflexivity)
                H0 H0') as [[_ ->]|[-> Hf]]; [apply ac_sub, asub_refl|].
        cbv beta in Hf. injection Hf as <-. rewrite Ec0 in H0. injection H0 as <-.
        apply andb_prop in Eg as [Eg1 Eg2].
        apply ac_begin with (a0 := a) (x := x); try reflexivity; try assumption; [lia|].
        left. repeat split; [lia|now apply tst_eqb_true|lia|exact Htasks].
      + destruct (tst_eqb (k_st x) TPost && k_final x) eqn:Eg; [|discriminate].
        unfold bind in H. destruct (on_coord s t0 _) as [s1|] eqn:E1; [|discriminate].
        pose proof (on_coord_tasks _ _ _ _ E1) as Htasks.
        rewrite (on_task_coords _ _ _ _ H) in H0'.
        destruct (on_coord_at _ _ _ _ _ _ _ E1
                ltac:(intros c1 y Hq; cbv beta in Hq; injection Hq as <-; reflexivity)
                H0 H0') as [[_ ->]|[-> Hf]]; [apply ac_sub, asub_refl|].
        cbv beta in Hf. injection Hf as <-. rewrite Ec0 in H0. injection H0 as <-.
        apply andb_prop in Eg as [Eg1 Eg2].
        apply ac_begin with (a0 := a) (x := x); try reflexivity; try assumption; [lia|].
        right. repeat split; [lia|exact Eg2|now apply tst_eqb_true|].
        apply on_task_inv in H as (x1 & y1 & Hx1 & Hy1 & ->). rewrite Htasks, Ex in Hx1.
        injection Hx1 as <-. injection Hy1 as <-. cbn [tasks set_tasks]. rewrite Htasks.
        rewrite find_task_upd' by (intros z _; cbn; now apply find_task_some_id in Ex).
        rewrite Z.eqb_refl, Ex. reflexivity. }
  1: { destr_to H. injection H as <-. cbn [coords set_coords] in H0'. rewrite find_coord_app, H0 in H0'.
       injection H0' as <-. apply ac_sub, asub_refl. }
  25: { (* EAnnEnd *)
    destruct (busy s a); [discriminate|].
    destruct (find_coord t0 (coords s)) as [c0|] eqn:Ec0; [|discriminate].
    assert (G : forall s2, coords s2 = upd_coord t0 (fun c1 => c_with_ann c1 (c_owing c1) (ann_del a (c_announcers c1))) (coords s) ->
                find_coord t (coords s2) = Some c' -> ann_change s s2 t c c').
    { intros s2 E2 H2. rewrite E2, find_coord_upd in H2 by reflexivity.
      destruct (t =? t0); [|rewrite H0 in H2; injection H2 as <-; apply ac_sub, asub_refl].
      rewrite H0 in H2. cbn in H2. injection H2 as <-. apply ac_sub. asub_tac. }
    destr_to H;
      first [ injection H as <-; apply G; [reflexivity|exact H0']
            | apply G; [rewrite (on_task_coords _ _ _ _ H); reflexivity|exact H0'] ]. }
  all: try (timeout 20 (destr_to H; ac_fin H H0 H0')).
Qed.


(** * Part 16 (C18): a task that owes or runs an announce is inside its main / its announce *)
Definition member (a : actor) (c : coord) : Prop := In a (c_owing c) \/ is_ann a c.

Definition live_sub (x : task) (c : coord) : Prop :=
  k_kind x = KSubmission /\ k_st x = TMain /\
  (k_phase x = 3 \/ k_phase x = 4 \/ (k_phase x = 0 /\ is_done (c_status c) = true)).
Definition live_fin (x : task) : Prop :=
  k_kind x <> KSubmission /\ k_final x = true /\ k_st x = TAnn.

Lemma live_sub_step s s' k x x' c c' :
  live_sub x c -> tstep s x x' -> leave_ok s s' k x x' ->
  find_coord (k_t x) (coords s) = Some c ->
  (is_done (c_status c) = true -> is_done (c_status c') = true) ->
  live_sub x' c' \/ (k_phase x = 4 /\ k_phase x' = 5).
Proof.
  intros (Hk & Hst & Hp) Hts Hl Hc Hd.
  assert (Hcd : is_done (c_status c) = true -> coord_done s (k_t x) = true)
    by (intros E; unfold coord_done; now rewrite Hc).
  unfold live_sub.
  destruct Hts; cbn [k_kind k_st k_phase with_st with_flags with_phase with_assoc with_permit with_released];
    try congruence;
    try (left; repeat split; try assumption; destruct Hp as [Hp|[Hp|[Hp Hp2]]]; auto; fail).
  all: try solve [left; repeat split; auto].
  all: try solve [right; split; [assumption|reflexivity]].
  - exfalso. destruct (H1 Hk); destruct Hp as [Hp|[Hp|[Hp _]]]; lia.
  - exfalso. destruct Hp as [Hp|[Hp|[Hp Hp2]]]; try lia. rewrite (Hcd Hp2) in H3. discriminate.
  - exfalso. destruct (k_final x); congruence.
Qed.

Lemma live_fin_step s x x' :
  live_fin x -> tstep s x x' -> live_fin x' \/ k_st x' = TAnnDone.
Proof.
  intros (Hk & Hf & Hst) Hts. unfold live_fin.
  destruct Hts; cbn [k_kind k_st k_final k_phase with_st with_flags with_phase with_assoc with_permit with_released];
    try congruence; try (left; repeat split; assumption); try (right; reflexivity).
  exfalso. destruct (k_final x); congruence.
Qed.

Definition ann_inv (s : state) : Prop :=
  forall t c a, find_coord t (coords s) = Some c -> is_user a = false -> member a c ->
    ~ (In a (c_owing c) /\ is_ann a c) /\
    exists x, find_task a (tasks s) = Some x /\ k_t x = t /\
              (live_sub x c \/ (live_fin x /\ is_ann a c)).

Lemma remove_z_neq a0 l b : In b (remove_z a0 l) -> b <> a0.
Proof. unfold remove_z. intros H. apply filter_In in H as [_ H]. intros ->. rewrite Z.eqb_refl in H. discriminate. Qed.

Lemma ann_inv_step s e s' :
  coords_inv s -> ns_inv s -> ann_inv s -> step s e = Some s' -> ann_inv s'.
Proof.
  intros Icv Ins I H t c' a Hc' Hu Hm.
  pose proof (step_coords_step _ _ _ H) as [Hcold Hcfresh].
  pose proof (step_evolve _ _ _ H) as (Hold & _ & _ & _).
  destruct (find_coord t (coords s)) as [c|] eqn:Ec.
  2: { exfalso. rewrite (Hcfresh t c' Hc' Ec) in Hm. destruct Hm as [[]|Hm]. now apply Hm. }
  destruct (Hcold t c Ec) as (c'' & Hc'' & Hcs). rewrite Hc' in Hc''. injection Hc'' as <-.
  pose proof (done_monotone_cstep _ _ Hcs) as Hdone.
  (* an announce that ended removed [a] from the announcers of its transfer *)
  assert (Hdel : forall t1 c1, find_coord t1 (coords s) = Some c1 -> ann_phase a (c_announcers c1) = Some 5 ->
            coords s' = upd_coord t1 (fun c0 => c_with_ann c0 (c_owing c0) (ann_del a (c_announcers c0))) (coords s) ->
            False).
  { intros t1 c1 Hc1 Hph Hco.
    assert (Hm1 : member a c1) by (right; unfold is_ann; rewrite Hph; discriminate).
    destruct (I t1 c1 a Hc1 Hu Hm1) as (Hex1 & x1 & Hx1 & Hkt1 & _).
    assert (Et : t1 = t).
    { destruct Hm as [Hm|Hm].
      - (* owing unchanged by the update *)
        rewrite Hco, find_coord_upd in Hc' by reflexivity. destruct (t =? t1) eqn:E; [lia|].
        rewrite Ec in Hc'. injection Hc' as <-.
        destruct (I t c a Ec Hu (or_introl Hm)) as (_ & x2 & Hx2 & Hkt2 & _). congruence.
      - rewrite Hco, find_coord_upd in Hc' by reflexivity. destruct (t =? t1) eqn:E; [lia|].
        rewrite Ec in Hc'. injection Hc' as <-.
        destruct (I t c a Ec Hu (or_intror Hm)) as (_ & x2 & Hx2 & Hkt2 & _). congruence. }
    clear Hkt1. subst t1. rewrite Ec in Hc1. injection Hc1 as <-.
    rewrite Hco, find_coord_upd, Z.eqb_refl, Ec in Hc' by reflexivity. cbn in Hc'. injection Hc' as <-.
    destruct Hm as [Hm|Hm]; cbn in Hm.
    - apply Hex1. split; [exact Hm|]. unfold is_ann. rewrite Hph. discriminate.
    - unfold is_ann in Hm. cbn in Hm. now rewrite ann_phase_del_same in Hm. }
  (* an old member stays live *)
  assert (Gold : member a c -> (In a (c_owing c') -> In a (c_owing c)) ->
            exists x', find_task a (tasks s') = Some x' /\ k_t x' = t /\
                       (live_sub x' c' \/ (live_fin x' /\ is_ann a c'))).
  { intros Hmo Hsub. destruct (I t c a Ec Hu Hmo) as (Hex & x & Hx & Hkt & Hlive).
    destruct (Hold a x Hx) as (x' & Hx' & Hts & Hl). exists x'. split; [exact Hx'|].
    destruct (tstep_static _ _ _ Hts) as (_ & E & _). split; [congruence|].
    destruct Hlive as [Hls|[Hlf Hia]].
    - rewrite <- Hkt in Ec.
      destruct (live_sub_step _ _ _ _ _ _ c' Hls Hts Hl Ec Hdone) as [Hok|[P4 P5]]; [now left|exfalso].
      destruct (lo_annend _ _ _ _ _ Hl (or_intror (conj P4 P5))) as (t1 & c1 & Hc1 & Hph & Hco).
      eapply Hdel; eauto.
    - destruct (live_fin_step _ _ _ Hlf Hts) as [Hok|Hend].
      + right. split; [exact Hok|]. destruct Hm as [Hm|Hm]; [|exact Hm].
        exfalso. apply Hex. split; [now apply Hsub|exact Hia].
      + exfalso. destruct Hlf as (_ & _ & Hst).
        destruct (lo_annend _ _ _ _ _ Hl (or_introl (conj Hst Hend))) as (t1 & c1 & Hc1 & Hph & Hco).
        eapply Hdel; eauto. }
  destruct (step_ann_change _ _ _ _ _ _ H Ec Hc')
    as [[S1 S2]|a0 Eo Ea Hns Hd' Hal Htasks|a0 Eo Ea Hmem Hnone|a0 x0 Eo Ea Hmem Hnone Hx0 Hkt0 Hcase].
  - (* no new member *)
    assert (Hmo : member a c) by (destruct Hm as [Hm|Hm]; [left; auto|right; auto]).
    split; [|apply Gold; [exact Hmo|exact (S1 a)]].
    intros [X Y]. destruct (I t c a Ec Hu Hmo) as (Hex & _). apply Hex. split; [exact (S1 a X)|exact (S2 a Y)].
  - (* cancel of a transfer that is not started *)
    assert (Hno : ~ member a c).
    { intros Hmo. destruct (I t c a Ec Hu Hmo) as (_ & x & Hx & Hkt & Hlive).
      destruct (Ins t c Ec Hns a x Hx Hkt) as (Nk & Np & Ne).
      destruct Hlive as [(_ & _ & [P|[P|[_ P]]])|[(Nk2 & _) _]]; try lia; try congruence.
      rewrite Hns in P. discriminate. }
    assert (Ha : a = a0).
    { destruct Hm as [Hm|Hm].
      - rewrite Eo in Hm. destruct Hm as [->|Hm]; [reflexivity|]. exfalso. apply Hno. now left.
      - exfalso. apply Hno. right. unfold is_ann in *. now rewrite Ea in Hm. }
    subst a0. split.
    + intros [_ Y]. apply Hno. right. unfold is_ann in *. now rewrite Ea in Y.
    + destruct Hal as [Hal|[Hal|Hal]]; [congruence| |].
      * exfalso. apply Hno. right. unfold in_callback in Hal. rewrite Ec in Hal.
        destruct (Icv t c Ec) as [_ _ Icl Icb _ _ _]. unfold is_ann.
        apply orb_prop in Hal as [Hal|Hal].
        -- destruct (c_cl_runner c) as [b|] eqn:Er; [|discriminate]. assert (b = a) by lia. subst b.
           rewrite (proj1 (Icl a) eq_refl). discriminate.
        -- destruct (c_cb_runner c) as [b|] eqn:Er; [|discriminate]. assert (b = a) by lia. subst b.
           rewrite (proj1 (Icb a) eq_refl). discriminate.
      * unfold acting_task in Hal. destruct (find_task a (tasks s)) as [x|] eqn:Ex; [|discriminate].
        apply andb_prop in Hal as [Hkt Hst]. assert (Hkt' : k_t x = t) by lia.
        destruct (Ins t c Ec Hns a x Ex Hkt') as (Nk & Np & Ne).
        exists x. rewrite Htasks. split; [exact Ex|]. split; [exact Hkt'|]. left.
        split; [exact Nk|]. split; [|right; right; auto].
        apply orb_prop in Hst as [Hst|Hst]; apply tst_eqb_true in Hst; [exact Hst|].
        rewrite Hst in Ne. discriminate.
  - (* the canceller starts the announce it owes *)
    assert (Hmo : member a c).
    { destruct Hm as [Hm|Hm]; [left; rewrite Eo in Hm; now apply remove_z_sub in Hm|].
      destruct (Z.eq_dec a0 a) as [->|Hne]; [left; now apply mem_z_true|].
      right. unfold is_ann in *. now rewrite Ea, ann_phase_set_other in Hm by exact Hne. }
    split.
    + intros [X Y]. rewrite Eo in X. pose proof (remove_z_neq _ _ _ X) as Hne. apply remove_z_sub in X.
      destruct (I t c a Ec Hu Hmo) as (Hex & _). apply Hex. split; [exact X|].
      unfold is_ann in *. rewrite Ea, ann_phase_set_other in Y by congruence. exact Y.
    + apply Gold; [exact Hmo|]. intros X. rewrite Eo in X. now apply remove_z_sub in X.
  - (* the submission task / the final task starts its announce *)
    destruct (Z.eq_dec a a0) as [->|Hne].
    + split.
      * intros [X _]. rewrite Eo in X. apply mem_z_true in X. congruence.
      * assert (Hia : is_ann a0 c') by (unfold is_ann; rewrite Ea, ann_phase_set_same; discriminate).
        destruct Hcase as [(Nk & Nst & Np & Htasks)|(Nk & Nf & Nst & Hx0')].
        -- exists x0. rewrite Htasks. split; [exact Hx0|]. split; [exact Hkt0|]. left.
           split; [exact Nk|]. split; [exact Nst|]. auto.
        -- exists (with_st x0 TAnn). split; [exact Hx0'|]. split; [exact Hkt0|]. right.
           split; [|exact Hia]. repeat split; assumption.
    + assert (Hmo : member a c).
      { destruct Hm as [Hm|Hm]; [left; now rewrite Eo in Hm|].
        right. unfold is_ann in *. now rewrite Ea, ann_phase_set_other in Hm by congruence. }
      split.
      * intros [X Y]. destruct (I t c a Ec Hu Hmo) as (Hex & _). apply Hex. split; [now rewrite Eo in X|].
        unfold is_ann in *. now rewrite Ea, ann_phase_set_other in Y by congruence.
      * apply Gold; [exact Hmo|]. intros X. now rewrite Eo in X.
Qed.

Lemma ann_inv_reachable a b c d e f g h s : reachable (init a b c d e f g h) s -> ann_inv s.
Proof.
  apply invariant_reachable2 with (Q := fun s => coords_inv s /\ ns_inv s).
  - intros s0 Hr. split; [eapply coords_inv_reachable; eauto|eapply ns_inv_reachable; eauto].
  - intros t c0 a0 Hc. discriminate Hc.
  - intros s0 ev s1 [Q1 Q2] I H. eapply ann_inv_step; eauto.
Qed.

(** * Part 17 (C18): the barrier *)
Lemma runner_is_running a b c d e f g h s t co r :
  reachable (init a b c d e f g h) s -> find_coord t (coords s) = Some co ->
  c_cl_runner co = Some r \/ c_cb_runner co = Some r -> is_user r = false ->
  exists x, find_task r (tasks s) = Some x /\ k_t x = t /\ (k_st x = TMain \/ k_st x = TAnn).
Proof.
  intros Hr Hc Hrun Hu.
  destruct (coords_inv_reachable _ _ _ _ _ _ _ _ _ Hr t co Hc) as [_ _ Icl Icb _ _ _].
  assert (Hm : member r co).
  { right. unfold is_ann. destruct Hrun as [E|E]; [apply Icl in E|apply Icb in E]; rewrite E; discriminate. }
  destruct (ann_inv_reachable _ _ _ _ _ _ _ _ _ Hr t co r Hc Hu Hm) as (_ & x & Hx & Hkt & Hlive).
  exists x. split; [exact Hx|]. split; [exact Hkt|].
  destruct Hlive as [(_ & Hst & _)|[(_ & _ & Hst) _]]; auto.
Qed.

Definition user_quiet (s : state) : Prop :=
  forall t co r, find_coord t (coords s) = Some co ->
    c_cl_runner co = Some r \/ c_cb_runner co = Some r -> is_user r = false.

Lemma barrier_step a b c d e0 f g h s e s' :
  reachable (init a b c d e0 f g h) s -> after_shutdown_events s = 0 ->
  (shutdown_phase s = 2 -> user_quiet s) -> step s e = Some s' -> after_shutdown_events s' = 0.
Proof.
  intros Hr H0 Hq H. apply step_shstep in H.
  destruct H as [_ Ha|Hp [Ha|Hp2] Hc|_ _ Ha|_ _ Ha _ _ _]; try congruence.
  exfalso.
  destruct (shutdown_inv_reachable _ _ _ _ _ _ _ _ _ Hr) as (_ & Hj & _). destruct (Hj Hp2) as (J1 & J2 & J3).
  pose proof (joined_no_running _ _ _ _ _ _ _ _ _ Hr J1 J2 J3) as Hnr.
  destruct Hc as [(r & x & Hx & Hst)|(t & co & r & Hco & Hrun)].
  - pose proof (Hnr r x Hx) as Hn. rewrite Hst in Hn. discriminate.
  - pose proof (Hq Hp2 t co r Hco Hrun) as Hu.
    destruct (runner_is_running _ _ _ _ _ _ _ _ _ _ _ _ Hr Hco Hrun Hu) as (x & Hx & _ & Hst).
    pose proof (Hnr r x Hx) as Hn. destruct Hst as [Hst|Hst]; rewrite Hst in Hn; discriminate.
Qed.

(** shutdown is a barrier: if no *user thread* is running cleanups or done
    callbacks while shutdown has returned (the real cancel() announces
    synchronously, so only a different user thread cancelling concurrently
    with shutdown can do that), nothing happens after shutdown returned *)
Theorem shutdown_barrier a b c d e f g h tr : forall s,
  run (init a b c d e f g h) tr = Some s ->
  (forall n s1, run (init a b c d e f g h) (firstn n tr) = Some s1 ->
                shutdown_phase s1 = 2 -> user_quiet s1) ->
  after_shutdown_events s = 0.
Proof.
  assert (G : forall tr s0 s, reachable (init a b c d e f g h) s0 -> after_shutdown_events s0 = 0 ->
            run s0 tr = Some s ->
            (forall n s1, run s0 (firstn n tr) = Some s1 -> shutdown_phase s1 = 2 -> user_quiet s1) ->
            after_shutdown_events s = 0).
  { clear tr. induction tr as [|ev r IH]; intros s0 s Hr H0 Hrun Hq; cbn [run] in Hrun.
    - now injection Hrun as <-.
    - destruct (step s0 ev) as [s1|] eqn:E; [|discriminate].
      apply (IH s1 s); [eapply reachable_step; eauto| |exact Hrun|].
      + eapply barrier_step; eauto. intros Hp. apply (Hq 0%nat s0); [reflexivity|exact Hp].
      + intros n s2 Hn Hp. apply (Hq (S n) s2); [|exact Hp]. cbn [firstn run]. now rewrite E. }
  intros s Hrun Hq. eapply G; eauto; [apply reachable_refl|reflexivity].
Qed.

(** without the hypothesis the barrier does not hold in the model: a user
    thread may cancel a not-started transfer after shutdown returned and run
    its done callbacks *)
Definition barrier_counterexample : list event :=
  [ ENewTransfer (-1) 0; EAddCallback (-1) 0 7;
    EShutdownBegin; EStageShutdown SSub; EStageShutdown SReq; EStageShutdown SIO;
    EStageJoined SSub; EStageJoined SReq; EStageJoined SIO; EShutdownReturn;
    ECancel (-2) 0 9; EAnnBegin (-2) 0; ECleanupsBegin (-2) 0; ECleanupsEnd (-2) 0; EEventSet (-2) 0;
    ECallbacksBegin (-2) 0; ECallback (-2) 0 7 ].

Theorem shutdown_barrier_unconditional_refuted :
  exists s, run (init 1 2 1 10 10 10 2 2) barrier_counterexample = Some s /\
            shutdown_phase s = 2 /\ after_shutdown_events s = 1.
Proof. eexists. split; [vm_compute; reflexivity|]. split; reflexivity. Qed.

(** * Part 18 (C10): which permit a task holds; exact executor occupancy *)
Lemma permit_kind_reachable a b c d e f g h s :
  reachable (init a b c d e f g h) s ->
  forall k x, find_task k (tasks s) = Some x ->
    k_permit x = -1 \/ permit_ok (k_permit x) (k_stage x) = true.
Proof.
  apply (invariant_reachable (fun s => forall k x, find_task k (tasks s) = Some x ->
           k_permit x = -1 \/ permit_ok (k_permit x) (k_stage x) = true)).
  - intros k x Hx. discriminate Hx.
  - intros s0 ev s1 I H k y Hy. pose proof (step_evolve _ _ _ H) as Hev.
    destruct (evolve_pred _ _ _ _ Hev Hy) as [(x & Hx & Hts & Hl)|(_ & a1 & t & g1 & fin & deps & kind & -> & _)];
      [|now left].
    destruct (Z.eq_dec (k_permit y) (k_permit x)) as [E|N]; [|right; exact (lo_permit _ _ _ _ _ Hl N)].
    destruct (tstep_static _ _ _ Hts) as (_ & _ & Es & _). rewrite E, Es. eauto.
Qed.

(** queued-or-running tasks of the submission and IO executors never exceed
    the executor's queue size (tag semaphores exist only on the request
    executor, whose tasks hold either the executor's permit or a tag permit) *)
Theorem stage_occupancy_exact a b c d e f g h s st cap :
  1 <= d -> 1 <= e -> 1 <= f -> 1 <= g -> 1 <= h ->
  reachable (init a b c d e f g h) s -> st = SSub \/ st = SIO ->
  caps d e f g h (sem_of_stage st) = Some cap ->
  count (fun x => stage_eqb (k_stage x) st && occupying (k_st x)) (tasks s) <= cap.
Proof.
  intros Hd He Hf Hg Hh Hr Hst Hcap.
  assert (Hi : 0 <= sem_of_stage st) by (destruct Hst as [-> | ->]; cbn; unfold SEM_SUB, SEM_IO; lia).
  destruct (permit_conservation a b c d e f g h s _ cap Hd He Hf Hg Hh Hr Hi Hcap) as (v & _ & Hv & Hs).
  assert (count (fun x => stage_eqb (k_stage x) st && occupying (k_st x)) (tasks s)
          <= count (holds (sem_of_stage st)) (tasks s)); [|lia].
  apply count_le. intros x Hin Hx. apply andb_prop in Hx as [Hx1 Hx2]. apply stage_eqb_eq in Hx1.
  pose proof (ids_inv_reachable _ _ _ _ _ _ _ _ _ Hr) as Hids.
  pose proof (in_find_task _ _ Hids Hin) as Hfx.
  assert (Hni : k_stage x <> SInline) by (destruct Hst; congruence).
  destruct (occupying_holds_permit _ _ _ _ _ _ _ _ _ _ _ Hr Hfx Hni Hx2) as [Hp Hrel].
  destruct (permit_kind_reachable _ _ _ _ _ _ _ _ _ Hr _ _ Hfx) as [Hk|Hk]; [lia|].
  unfold holds. rewrite Hrel, Bool.andb_true_r. unfold permit_ok in Hk. rewrite Hx1 in *.
  apply orb_prop in Hk as [Hk|Hk]; [exact Hk|].
  apply andb_prop in Hk as [_ Hk]. destruct Hst as [-> | ->]; discriminate.
Qed.
