(** The per-task step relation [tstep]: what one step of the system can do to
    one task, with the facts about the *pre-state* its guard established.
    Task-level invariants are then case analyses over [tstep]. *)
From Coq Require Import ZArith List Bool Lia.
From S3V Require Import model.Sys proofs.SysBase.
Import ListNotations.
Open Scope Z_scope.

Definition coord_done (s : state) (t : Z) : bool :=
  match find_coord t (coords s) with Some c => is_done (c_status c) | None => false end.
Definition coord_success (s : state) (t : Z) : bool :=
  match find_coord t (coords s) with Some c => status_eqb (c_status c) Success | None => false end.

Inductive tstep (s : state) : task -> task -> Prop :=
  | ts_refl x : tstep s x x
  | ts_permit x sem : k_st x = TSubmitting -> k_permit x = -1 -> tstep s x (with_permit x sem)
  | ts_enqueue x : k_st x = TSubmitting -> 0 <= k_permit x -> k_stage x <> SInline -> tstep s x (with_st x TQueued)
  | ts_assoc x : k_assoc x = 0 -> k_st x <> TSubmitting -> k_kind x <> KSubmission -> k_stage x <> SInline -> tstep s x (with_assoc x 1)
  | ts_start x : k_st x = TQueued -> tstep s x (with_st x TStarted)
  | ts_deps x : k_st x = TStarted -> forallb (dep_done s) (k_deps x) = true -> tstep s x (with_st x TDeps)
  | ts_skip x : k_st x = TDeps -> coord_done s (k_t x) = true ->
      tstep s x (with_st (with_flags x false false true) TPost)
  | ts_ready x : k_st x = TDeps -> coord_done s (k_t x) = false -> tstep s x (with_st x TReady)
  | ts_main_begin x : k_st x = TReady -> tstep s x (with_st (with_flags x true false false) TMain)
  | ts_main_ok x : k_st x = TMain ->
      (k_final x = true -> coord_success s (k_t x) = true) ->
      (k_kind x = KSubmission -> k_phase x = 2 \/ k_phase x = 5) ->
      tstep s x (with_st (with_flags x true true false) TPost)
  | ts_main_fail x : k_st x = TMain -> k_kind x <> KSubmission ->
      (k_final x = true -> coord_success s (k_t x) = false) -> tstep s x (with_st x TFailed)
  | ts_exc_failed x : k_st x = TFailed -> tstep s x (with_st x TPost)
  | ts_sub_exc x : k_st x = TMain -> k_kind x = KSubmission -> k_phase x < 3 -> tstep s x (with_phase x 3)
  | ts_status x p : k_st x = TMain -> k_kind x = KSubmission -> k_phase x = p -> (p = 0 \/ p = 1) ->
      coord_done s (k_t x) = false -> tstep s x (with_phase x (p + 1))
  | ts_waitall x : k_st x = TMain -> k_kind x = KSubmission -> k_phase x = 3 ->
      all_assoc_done s (k_t x) = true -> tstep s x (with_phase x 4)
  | ts_ann_begin x : k_st x = TPost -> k_final x = true -> k_kind x <> KSubmission -> tstep s x (with_st x TAnn)
  | ts_ann_end x : k_st x = TAnn -> tstep s x (with_st x TAnnDone)
  | ts_sub_ann_end x : k_kind x = KSubmission -> k_phase x = 4 -> tstep s x (with_phase x 5)
  | ts_end x : (if k_final x then k_st x = TAnnDone else k_st x = TPost) -> tstep s x (with_st x TEnded)
  | ts_release x : k_st x = TEnded -> k_released x = false -> tstep s x (with_released x)
  | ts_dissoc x : k_st x = TEnded -> k_assoc x = 1 -> tstep s x (with_assoc x 2).

(** a freshly submitted task *)
Definition fresh_task (k t : Z) (g : stage) (a : actor) (final : bool) (deps : list Z) (kind : Z) : task :=
  mkTask k t g a final deps kind (if stage_eqb g SInline then TQueued else TSubmitting)
         false false false 0 (-1) 0 false.

Definition tasks_step (s : state) (l l' : list task) : Prop :=
  (forall k x, find_task k l = Some x -> exists x', find_task k l' = Some x' /\ tstep s x x') /\
  (forall k x', find_task k l' = Some x' -> find_task k l = None ->
     exists t g a final deps kind, x' = fresh_task k t g a final deps kind).

Lemma tasks_step_refl s l : tasks_step s l l.
Proof.
  split; [intros k x H; exists x; split; [exact H|constructor]|].
  intros k x' H1 H2; congruence.
Qed.

Lemma tasks_step_upd_f s l k x f :
  find_task k l = Some x -> tstep s x (f x) -> (forall y, k_id (f y) = k_id y) ->
  tasks_step s l (upd_task k f l).
Proof.
  intros Hf Hc Hid. split.
  - intros k0 x0 H0. rewrite (find_task_upd k0 k f l Hid). destruct (k0 =? k) eqn:E.
    + assert (k0 = k) by lia. subst k0. rewrite Hf in H0. injection H0 as <-.
      rewrite Hf. exists (f x). split; [reflexivity|exact Hc].
    + exists x0. split; [exact H0|constructor].
  - intros k0 x' H1 H2. rewrite (find_task_upd k0 k f l Hid) in H1. destruct (k0 =? k) eqn:E.
    + rewrite H2 in H1. discriminate.
    + congruence.
Qed.

(** updating with a constant: only sound when ids are unique; we go through
    [on_task]'s shape [fun _ => y] with y built from the found task *)
Lemma tasks_step_upd_const s l k x y :
  find_task k l = Some x -> tstep s x y -> k_id y = k_id x ->
  tasks_step s l (upd_task k (fun _ => y) l).
Proof.
  intros Hf Hc Hid. pose proof (find_task_some_id _ _ _ Hf) as Hxid.
  assert (Hfind : forall k0, find_task k0 (upd_task k (fun _ => y) l) =
                            if k0 =? k then Some y else find_task k0 l).
  { intros k0. revert Hf. induction l as [|z r IH]; intros Hf; cbn [upd_task map find_task] in *.
    - discriminate Hf.
    - change (map _ r) with (upd_task k (fun _ => y) r).
      destruct (k_id z =? k) eqn:E1.
      + injection Hf as ->. destruct (k_id y =? k0) eqn:E2.
        * assert (k0 =? k = true) by lia. now rewrite H.
        * assert (k0 =? k = false) by lia. rewrite H.
          assert (Hc0 : k_id x =? k0 = false) by lia. rewrite Hc0.
          clear IH. induction r as [|w r' IHr]; cbn [upd_task map find_task]; [reflexivity|].
          change (map _ r') with (upd_task k (fun _ => y) r').
          destruct (k_id w =? k) eqn:E3.
          -- rewrite E2. destruct (k_id w =? k0) eqn:E5; [lia|]. exact IHr.
          -- destruct (k_id w =? k0) eqn:E5; [reflexivity|]. exact IHr.
      + destruct (k_id z =? k0) eqn:E2.
        * assert (k0 =? k = false) by lia. now rewrite H.
        * apply IH. exact Hf. }
  split.
  - intros k0 x0 H0. rewrite Hfind. destruct (k0 =? k) eqn:E.
    + assert (k0 = k) by lia. subst k0. rewrite Hf in H0. injection H0 as <-.
      exists y. split; [reflexivity|exact Hc].
    + exists x0. split; [exact H0|constructor].
  - intros k0 x' H1 H2. rewrite Hfind in H1. destruct (k0 =? k) eqn:E.
    + assert (k0 = k) by lia. subst k0. congruence.
    + congruence.
Qed.

Ltac tasks_same :=
  match goal with
  | |- tasks_step ?s0 (tasks ?s) (tasks ?s') =>
      let H := fresh in
      assert (H : tasks s' = tasks s)
        by (repeat first [ rewrite set_stage_tasks | rewrite bump_tasks | reflexivity
                         | progress cbn [tasks set_tasks set_sems set_reqs set_uploads set_shutdown set_coords set_files] ]);
      rewrite H; apply tasks_step_refl
  end.

Ltac sub_on_task H :=
  let x := fresh "x" in let y := fresh "y" in
  let H1 := fresh "Hft" in let H2 := fresh "Hf" in
  apply on_task_inv in H; destruct H as (x & y & H1 & H2 & ->).

Ltac sub_on_coord H :=
  let c := fresh "c" in let y := fresh "y" in
  let H1 := fresh "Hfc" in let H2 := fresh "Hf" in
  apply on_coord_inv in H; destruct H as (c & y & H1 & H2 & ->).

Lemma upd_task_by_tstep s0 s k x y :
  find_task k (tasks s) = Some x -> tstep s0 x y -> k_id y = k_id x ->
  tasks_step s0 (tasks s) (tasks (set_tasks s (upd_task k (fun _ => y) (tasks s)))).
Proof. intros. cbn [tasks set_tasks]. eapply tasks_step_upd_const; eauto. Qed.

Lemma upd_task_by_tstep_f s0 s k x f :
  find_task k (tasks s) = Some x -> tstep s0 x (f x) -> (forall y, k_id (f y) = k_id y) ->
  tasks_step s0 (tasks s) (tasks (set_tasks s (upd_task k f (tasks s)))).
Proof. intros. cbn [tasks set_tasks]. eapply tasks_step_upd_f; eauto. Qed.

Lemma on_coord_then_tasks s t f s1 : on_coord s t f = Some s1 -> tasks s1 = tasks s.
Proof. apply on_coord_tasks. Qed.

Lemma tst_eqb_true a b : tst_eqb a b = true -> a = b.
Proof. apply tst_eqb_eq. Qed.

Lemma andb_true_l a b : a && b = true -> a = true. Proof. now destruct a. Qed.
Lemma andb_true_r a b : a && b = true -> b = true. Proof. destruct a; [auto|discriminate]. Qed.

Ltac split_ands :=
  repeat match goal with
         | H : _ && _ = true |- _ => apply andb_prop in H; destruct H
         end.

Lemma step_tasks_step s e s' : step s e = Some s' -> tasks_step s (tasks s) (tasks s').
Proof.
  intros H. destruct e; cbn [step] in H.
  - (* ENewTransfer *) inv H. injection H as <-. tasks_same.
  - (* EAddCallback *) inv H. sub_on_coord H. tasks_same.
  - (* EAddCleanup *) inv H. sub_on_coord H. tasks_same.
  - (* ESubmit *)
    inv H. injection H as <-. cbn [tasks set_tasks]. split_ands.
    destruct (find_task k (tasks s)) eqn:Efk; [discriminate|].
    split.
    + intros k0 x0 Hk0. rewrite find_task_app, Hk0. exists x0. split; [reflexivity|constructor].
    + intros k0 x' Hk1 Hk2. rewrite find_task_app, Hk2 in Hk1. cbn [k_id] in Hk1.
      destruct (k =? k0) eqn:E2; [|discriminate]. injection Hk1 as <-.
      assert (k = k0) by lia. subst. unfold fresh_task. eauto 10.
  - (* EAcquire *)
    destruct (find_task k (tasks s)) eqn:Eft; [|discriminate].
    destruct (find_sem sem (sems s)) eqn:Efs; [|discriminate].
    inv H. injection H as <-. split_ands. cbn [tasks set_sems].
    eapply upd_task_by_tstep_f; [exact Eft| |reflexivity].
    apply ts_permit; [now apply tst_eqb_true|lia].
  - (* EEnqueue *)
    destruct (find_task k (tasks s)) eqn:Eft; [|discriminate].
    inv H. injection H as <-. split_ands. rewrite set_stage_tasks.
    eapply upd_task_by_tstep_f; [exact Eft| |reflexivity].
    apply ts_enqueue; [now apply tst_eqb_true|lia|].
    intros Hs. rewrite Hs in *. discriminate.
  - (* EAssoc *)
    inv H. sub_on_task H. inv Hf. injection Hf as <-. split_ands.
    eapply upd_task_by_tstep; [exact Hft| |reflexivity].
    apply ts_assoc; [lia| |unfold KSubmission in *; lia|].
    + intros Hs. rewrite Hs in *. discriminate.
    + intros Hs. rewrite Hs in *. discriminate.
  - (* ETaskStart *)
    destruct (find_task k (tasks s)) eqn:Eft; [|discriminate].
    destruct (stage_eqb (k_stage t) SInline).
    + inv H. injection H as <-. split_ands.
      eapply upd_task_by_tstep_f; [exact Eft| |reflexivity].
      apply ts_start. now apply tst_eqb_true.
    + destruct (g_queue (get_stage s (k_stage t))); [discriminate|].
      inv H. injection H as <-. split_ands. rewrite set_stage_tasks.
      eapply upd_task_by_tstep_f; [exact Eft| |reflexivity].
      apply ts_start. now apply tst_eqb_true.
  - (* EDepsDone *)
    sub_on_task H. inv Hf. injection Hf as <-. split_ands.
    eapply upd_task_by_tstep; [exact Hft| |reflexivity].
    apply ts_deps; [now apply tst_eqb_true|assumption].
  - (* EDoneCheck *)
    destruct (find_task k (tasks s)) eqn:Eft; [|discriminate].
    destruct (find_coord (k_t t) (coords s)) eqn:Efc; [|discriminate].
    inv H. injection H as <-. split_ands.
    eapply upd_task_by_tstep_f; [exact Eft| |intros y; now destruct b].
    match goal with Hb : eqb b _ = true |- _ => apply eqb_prop in Hb end.
    destruct b.
    + apply ts_skip; [now apply tst_eqb_true|]. unfold coord_done. now rewrite Efc.
    + apply ts_ready; [now apply tst_eqb_true|]. unfold coord_done. now rewrite Efc.
  - (* EMainBegin *)
    sub_on_task H. inv Hf. injection Hf as <-.
    eapply upd_task_by_tstep; [exact Hft| |reflexivity].
    apply ts_main_begin. now apply tst_eqb_true.
  - (* EMainEnd *)
    inv H. destruct (find_task k (tasks s)) eqn:Eft; [|discriminate].
    destruct (find_coord (k_t t) (coords s)) eqn:Efc; [|discriminate].
    inv H. injection H as <-. split_ands.
    eapply upd_task_by_tstep_f; [exact Eft| |intros y; now destruct ok].
    destruct ok.
    + apply ts_main_ok; [now apply tst_eqb_true| |].
      * intros Hfin. rewrite Hfin in *. unfold coord_success. rewrite Efc.
        match goal with Hb : eqb true (status_eqb _ Success) = true |- _ => apply eqb_prop in Hb; now rewrite <- Hb end.
      * intros Hk. unfold KSubmission in *.
        destruct (k_kind t =? 0) eqn:Ek; [|lia].
        match goal with Hs : true && _ = true |- _ => cbn in Hs; apply orb_prop in Hs as [Hs|Hs]; lia end.
    + apply ts_main_fail; [now apply tst_eqb_true| |].
      * intros Hk. unfold KSubmission in *. destruct (k_kind t =? 0) eqn:Ek; [|lia].
        match goal with Hs : false && _ = true |- _ => discriminate Hs end.
      * intros Hfin. rewrite Hfin in *. unfold coord_success. rewrite Efc.
        match goal with Hb : eqb false (status_eqb _ Success) = true |- _ => apply eqb_prop in Hb; now rewrite <- Hb end.
  - (* ESetResult *)
    inv H. destruct (find_task k (tasks s)); [|discriminate]. inv H. sub_on_coord H. tasks_same.
  - (* ESetException *)
    inv H.
    destruct (is_user a).
    + destruct (find_coord t (coords s)); [|discriminate]. inv H. sub_on_coord H. tasks_same.
    + destruct (find_task a (tasks s)) eqn:Eft; [|discriminate].
      destruct (negb (k_t t0 =? t)); [discriminate|].
      destruct override.
      * destruct (find_coord t (coords s)); [|discriminate]. inv H. sub_on_coord H. tasks_same.
      * destruct (tst_eqb (k_st t0) TFailed) eqn:Est.
        { unfold bind in H. destruct (on_coord s t _) as [s1|] eqn:E1; [|discriminate].
          pose proof (on_coord_tasks _ _ _ _ E1) as Ht. sub_on_task H. injection Hf as <-.
          rewrite Ht in *. rewrite Eft in Hft. injection Hft as <-.
          cbn [tasks set_tasks]. rewrite ?Ht.
          eapply tasks_step_upd_const; [exact Eft| |reflexivity].
          apply ts_exc_failed. now apply tst_eqb_true. }
        destruct (tst_eqb (k_st t0) TMain && (k_kind t0 =? KSubmission) && (k_phase t0 <? 3)) eqn:Eg; [|discriminate].
        unfold bind in H. destruct (on_coord s t _) as [s1|] eqn:E1; [|discriminate].
        pose proof (on_coord_tasks _ _ _ _ E1) as Ht. sub_on_task H. injection Hf as <-.
        rewrite Ht in *. rewrite Eft in Hft. injection Hft as <-.
        cbn [tasks set_tasks]. rewrite ?Ht. split_ands.
        eapply tasks_step_upd_const; [exact Eft| |reflexivity].
        apply ts_sub_exc; [now apply tst_eqb_true|unfold KSubmission in *; lia|lia].
  - (* ECancel *) inv H. sub_on_coord H. tasks_same.
  - (* EStatus *)
    inv H. destruct (find_task k (tasks s)) eqn:Eft; [|discriminate].
    destruct (find_coord (k_t t) (coords s)) eqn:Efc; [|discriminate]. inv H.
    destruct ok.
    + unfold bind in H. destruct (on_coord s (k_t t) _) as [s1|] eqn:E1; [|discriminate].
      pose proof (on_coord_tasks _ _ _ _ E1) as Ht. sub_on_task H. injection Hf as <-.
      rewrite Ht in *. rewrite Eft in Hft. injection Hft as <-.
      cbn [tasks set_tasks]. rewrite ?Ht. split_ands.
      eapply tasks_step_upd_const; [exact Eft| |reflexivity].
      match goal with Hb : eqb true _ = true |- _ => apply eqb_prop in Hb end.
      apply ts_status; [now apply tst_eqb_true|unfold KSubmission in *; lia|lia|destruct to_running; lia|].
      unfold coord_done. rewrite Efc. now destruct (is_done (c_status c)).
    + injection H as <-. apply tasks_step_refl.
  - (* EOnQueued *)
    inv H. destruct (find_task k (tasks s)); [|discriminate]. inv H. sub_on_coord H. tasks_same.
  - (* EOnProgress *)
    inv H. sub_on_coord H. cbn [tasks set_coords]. rewrite bump_tasks. apply tasks_step_refl.
  - (* EWaitAll *)
    inv H. destruct (find_task k (tasks s)) eqn:Eft; [|discriminate]. inv H.
    sub_on_task H. injection Hf as <-. rewrite Eft in Hft. injection Hft as <-. split_ands.
    eapply upd_task_by_tstep; [exact Eft| |reflexivity].
    apply ts_waitall; [now apply tst_eqb_true|unfold KSubmission in *; lia|lia|assumption].
  - (* EAnnBegin *)
    inv H. destruct (find_coord t (coords s)) eqn:Efc; [|discriminate]. clean_but H.
    destruct (ann_phase a (c_announcers c)); [discriminate|].
    destruct (mem_z a (c_owing c)).
    + sub_on_coord H. tasks_same.
    + destruct (find_task a (tasks s)) eqn:Eft; [|discriminate].
      destruct (negb (k_t t0 =? t)); [discriminate|].
      destruct (k_kind t0 =? KSubmission) eqn:Ek.
      * inv H. sub_on_coord H. tasks_same.
      * inv H. unfold bind in H. destruct (on_coord s t _) as [s1|] eqn:E1; [|discriminate].
        pose proof (on_coord_tasks _ _ _ _ E1) as Ht. sub_on_task H. injection Hf as <-.
        rewrite Ht in *. rewrite Eft in Hft. injection Hft as <-.
        cbn [tasks set_tasks]. rewrite ?Ht. split_ands.
        eapply tasks_step_upd_const; [exact Eft| |reflexivity].
        apply ts_ann_begin; [now apply tst_eqb_true|assumption|unfold KSubmission in *; lia].
  - (* ECleanupsBegin *) inv H. sub_on_coord H. tasks_same.
  - (* ECleanup *) inv H. sub_on_coord H. cbn [tasks set_coords]. rewrite bump_tasks. apply tasks_step_refl.
  - (* ECleanupsEnd *) inv H. sub_on_coord H. tasks_same.
  - (* EEventSet *) inv H. sub_on_coord H. tasks_same.
  - (* ECallbacksBegin *) inv H. sub_on_coord H. tasks_same.
  - (* ECallback *) inv H. sub_on_coord H. cbn [tasks set_coords]. rewrite bump_tasks. apply tasks_step_refl.
  - (* ECallbacksEnd *) inv H. sub_on_coord H. tasks_same.
  - (* EAnnEnd *)
    destruct (busy s a); [discriminate|].
    destruct (find_coord t (coords s)) eqn:Efc; [|discriminate].
    destruct (ann_phase a (c_announcers c)) as [p|]; [|discriminate].
    destruct p as [|p|p]; try discriminate. destruct p as [p|p|]; try discriminate.
    destruct p as [p|p|]; try discriminate. destruct p; try discriminate.
    destruct (find_task a (tasks s)) eqn:Eft.
    + destruct (is_user a); [injection H as <-; tasks_same|].
      destruct (tst_eqb (k_st t0) TAnn) eqn:Est.
      { sub_on_task H. injection Hf as <-. cbn [tasks set_coords] in *. rewrite Eft in Hft. injection Hft as <-.
        eapply tasks_step_upd_const; [exact Eft| |reflexivity].
        apply ts_ann_end. now apply tst_eqb_true. }
      destruct ((k_kind t0 =? KSubmission) && (k_phase t0 =? 4)) eqn:Eg.
      { sub_on_task H. injection Hf as <-. cbn [tasks set_coords] in *. rewrite Eft in Hft. injection Hft as <-.
        split_ands. eapply tasks_step_upd_const; [exact Eft| |reflexivity].
        apply ts_sub_ann_end; unfold KSubmission in *; lia. }
      injection H as <-; tasks_same.
    + injection H as <-; tasks_same.
  - (* ETaskEnd *)
    inv H. destruct (find_task k (tasks s)) eqn:Eft; [|discriminate]. inv H.
    assert (G : tasks_step s (tasks s) (upd_task k (fun y => with_st y TEnded) (tasks s))).
    { eapply tasks_step_upd_f; [exact Eft| |reflexivity].
      apply ts_end. destruct (k_final t); now apply tst_eqb_true. }
    destruct (stage_eqb (k_stage t) SInline); injection H as <-.
    + exact G.
    + rewrite set_stage_tasks. exact G.
  - (* ERelease *)
    destruct (find_task k (tasks s)) eqn:Eft; [|discriminate]. inv H. injection H as <-. split_ands.
    cbn [tasks set_sems].
    eapply upd_task_by_tstep_f; [exact Eft| |reflexivity].
    apply ts_release; [now apply tst_eqb_true|now destruct (k_released t)].
  - (* EDissoc *)
    sub_on_task H. inv Hf. injection Hf as <-. split_ands.
    eapply upd_task_by_tstep; [exact Hft| |reflexivity].
    apply ts_dissoc; [now apply tst_eqb_true|lia].
  - (* ECount *) inv H. sub_on_coord H. tasks_same.
  - (* ES3Begin *)
    inv H.
    destruct op; try (injection H as <-; cbn [tasks set_reqs]; rewrite bump_tasks; apply tasks_step_refl);
      (destruct (find_upload uid _); [|discriminate]; inv H; injection H as <-;
       cbn [tasks set_uploads set_reqs]; rewrite bump_tasks; apply tasks_step_refl).
  - (* ES3Effect *)
    destruct (find_req r (reqs s)); [|discriminate]. inv H.
    destruct (s3op_eqb (r_op r0) OpCreate).
    + destruct (find_upload uid _); [discriminate|]. injection H as <-. tasks_same.
    + injection H as <-. tasks_same.
  - (* ES3End *)
    destruct (find_req r (reqs s)); [|discriminate]. inv H.
    destruct (r_op r0); injection H as <-; tasks_same.
  - (* EResult *)
    destruct (find_coord t (coords s)); [|discriminate]. inv H. injection H as <-. apply tasks_step_refl.
  - (* EFs *)
    inv H. destruct op; destruct (find_file t (files s)); try discriminate;
      inv H; injection H as <-; cbn [tasks set_files]; rewrite ?bump_tasks; apply tasks_step_refl.
  - (* EShutdownBegin *) inv H. injection H as <-. tasks_same.
  - (* EStageShutdown *) inv H. injection H as <-. tasks_same.
  - (* EStageJoined *) inv H. injection H as <-. tasks_same.
  - (* EShutdownReturn *) inv H. injection H as <-. tasks_same.
Qed.
