(** Invariants of the process-pool protocol model (model/Pool.v). *)
From Coq Require Import ZArith List Bool Arith Lia.
From S3V Require Import gen.Tables model.Pool.
Import ListNotations.

(** * Views of the program counters *)

Definition holds (p : wpc) : option (nat * nat) :=
  match p with
  | WGot t i | WRun t i _ | WRaised t i | WCount t i => Some (t, i)
  | _ => None
  end.

Definition fins (p : wpc) : option nat :=
  match p with
  | WFinCheck t | WFinRemove t | WFinRename t | WRenFailed t | WRenCleanup t
  | WNotifyDone t => Some t
  | _ => None
  end.

Definition sub_on (p : spc) : option nat :=
  match p with
  | SubGotReq t | SubSized t | SubAllocated t | SubEnq t _ _ | SubRaised t
  | SubFailing t => Some t
  | _ => None
  end.

(** number of job indices below [k] that were counted down *)
Fixpoint ccount (f : nat -> jstatus) (k : nat) : nat :=
  match k with
  | O => O
  | S k' => ccount f k' + match f k' with JCounted => 1 | _ => 0 end
  end.

Lemma ccount_le : forall f n, ccount f n <= n.
Proof.
  induction n as [|n IH]; cbn [ccount]; [lia|]. destruct (f n); lia.
Qed.

Lemma ccount_upd_ge : forall f k v n, n <= k -> ccount (upd f k v) n = ccount f n.
Proof.
  induction n as [|n IH]; intros Hk; cbn [ccount]; [reflexivity|].
  rewrite IH by lia. unfold upd.
  destruct (Nat.eqb n k) eqn:E; [apply Nat.eqb_eq in E; lia|reflexivity].
Qed.

Lemma ccount_upd_other : forall f k v n,
  f k <> JCounted -> v <> JCounted -> ccount (upd f k v) n = ccount f n.
Proof.
  induction n as [|n IH]; intros Hf Hv; cbn [ccount]; [reflexivity|].
  rewrite IH by assumption. unfold upd.
  destruct (Nat.eqb n k) eqn:E; [|reflexivity].
  apply Nat.eqb_eq in E; subst n.
  destruct v; try congruence; destruct (f k); try congruence; reflexivity.
Qed.

Lemma ccount_upd_counted : forall f k n,
  k < n -> f k <> JCounted -> ccount (upd f k JCounted) n = S (ccount f n).
Proof.
  induction n as [|n IH]; intros Hk Hf; [lia|]. cbn [ccount].
  destruct (Nat.eq_dec k n) as [->|Hne].
  - rewrite ccount_upd_ge by lia. unfold upd. rewrite Nat.eqb_refl.
    destruct (f n); try congruence; lia.
  - rewrite IH by (assumption || lia). unfold upd.
    destruct (Nat.eqb n k) eqn:E; [apply Nat.eqb_eq in E; lia|]. lia.
Qed.

Lemma ccount_full : forall f n, ccount f n = n -> forall i, i < n -> f i = JCounted.
Proof.
  induction n as [|n IH]; intros H i Hi; [lia|]. cbn [ccount] in H.
  pose proof (ccount_le f n) as Hle.
  destruct (f n) eqn:E; try lia.
  destruct (Nat.eq_dec i n) as [->|Hne]; [exact E|]. apply IH; lia.
Qed.

Lemma ccount_all : forall f n, (forall i, i < n -> f i = JCounted) -> ccount f n = n.
Proof.
  induction n as [|n IH]; intros H; [reflexivity|]. cbn [ccount].
  rewrite IH by (intros; apply H; lia). rewrite (H n) by lia. lia.
Qed.

Lemma all_exited_spec : forall f n,
  all_exited f n = true <-> forall w, w < n -> f w = WExited.
Proof.
  induction n as [|n IH]; cbn [all_exited].
  - split; [intros _ w Hw; lia|reflexivity].
  - destruct (f n) eqn:E;
      try (split; [discriminate|intros H; specialize (H n ltac:(lia)); congruence]).
    rewrite IH. split.
    + intros H w Hw. destruct (Nat.eq_dec w n) as [->|Hne]; [exact E|apply H; lia].
    + intros H w Hw. apply H; lia.
Qed.

Lemma upd_same : forall (A : Type) (f : nat -> A) k v, upd f k v k = v.
Proof. intros. unfold upd. now rewrite Nat.eqb_refl. Qed.

Lemma upd_other : forall (A : Type) (f : nat -> A) k v k', k' <> k -> upd f k v k' = f k'.
Proof.
  intros. unfold upd. destruct (Nat.eqb k' k) eqn:E; [apply Nat.eqb_eq in E; congruence|reflexivity].
Qed.

(** * The invariant *)

(** Facts about one transfer's record alone. *)
Record tr_ok (r : trec) : Prop := mkTrOk {
  t_enq : forall i, jst r i <> JNone <-> i < enq r;
  t_cnt : ncounted r = ccount (jst r) (enq r);
  t_unann : announced r = None ->
            enq r = 0 /\ jtc r = 0%Z /\ fin_owner r = None /\ dest r = false /\
            fin_saw r = None;
  t_ann : forall n, announced r = Some n ->
            enq r <= n /\ jtc r = (Z.of_nat n - Z.of_nat (ncounted r))%Z /\
            (sst r = SActive \/ sst r = SFinished);
  t_nfin : nfin r = match fin_owner r with Some _ => 1 | None => 0 end;
  t_fin_iff : fin_owner r <> None <->
              exists n, announced r = Some n /\ 1 <= n /\ ncounted r = n;
  t_early : sst r = SNone \/ sst r = SQueued ->
            announced r = None /\ temp r = false /\ done r = false;
  t_finished : sst r = SFinished ->
            (announced r = None /\ done r = true /\ exc r <> None /\ temp r = false) \/
            (exists n, announced r = Some n /\ enq r = n);
  t_done_unann : announced r = None -> done r = true -> sst r = SFinished;
  t_prefin : forall n, announced r = Some n -> fin_owner r = None ->
            temp r = true /\ dest r = false /\ done r = false /\ fin_saw r = None;
  t_done_ann : forall n, announced r = Some n -> done r = true ->
            fin_owner r <> None /\ temp r = false /\
            ((dest r = true /\ fin_saw r = Some false) \/ (dest r = false /\ exc r <> None));
  t_saw_written : forall n, fin_saw r = Some false -> announced r = Some n ->
            forall i, i < n -> written r i = true;
  t_dest : dest r = true ->
            fin_saw r = Some false /\ temp r = false /\
            (exc r = None \/ exc r = Some ECancel);
  t_written : exc r = None -> forall i, jst r i = JCounted -> written r i = true;
  t_uai : uai r = true -> exc r <> None
}.

(** Facts about a worker's program counter. *)
Definition wk_ok (s : state) (w : nat) (p : wpc) : Prop :=
  (p <> WIdle -> w < nw s) /\
  (forall t i, holds p = Some (t, i) -> jst (tr s t) i = JHeld w) /\
  (forall t, fins p = Some t -> fin_owner (tr s t) = Some w /\ done (tr s t) = false) /\
  match p with
  | WCount t i => exc (tr s t) = None -> written (tr s t) i = true
  | WFinCheck t =>
      temp (tr s t) = true /\ dest (tr s t) = false /\ fin_saw (tr s t) = None
  | WFinRemove t =>
      temp (tr s t) = true /\ dest (tr s t) = false /\ exc (tr s t) <> None
  | WFinRename t =>
      temp (tr s t) = true /\ dest (tr s t) = false /\ fin_saw (tr s t) = Some false /\
      (exc (tr s t) = None \/ exc (tr s t) = Some ECancel)
  | WRenFailed t =>
      temp (tr s t) = true /\ dest (tr s t) = false
  | WRenCleanup t =>
      temp (tr s t) = true /\ dest (tr s t) = false /\ exc (tr s t) <> None
  | WNotifyDone t =>
      temp (tr s t) = false /\
      ((dest (tr s t) = true /\ fin_saw (tr s t) = Some false) \/
       (dest (tr s t) = false /\ exc (tr s t) <> None))
  | WExited => jobq s = [] /\ sub s = SubExited
  | _ => True
  end.

(** Facts about the submitter's program counter. *)
Definition sub_ok (s : state) (p : spc) : Prop :=
  (forall t, sub_on p = Some t -> sst (tr s t) = SActive) /\
  match p with
  | SubGotReq t | SubSized t | SubRaised t =>
      announced (tr s t) = None /\ temp (tr s t) = false /\ done (tr s t) = false
  | SubAllocated t =>
      announced (tr s t) = None /\ temp (tr s t) = true /\ done (tr s t) = false
  | SubFailing t =>
      announced (tr s t) = None /\ temp (tr s t) = false /\ done (tr s t) = false /\
      exc (tr s t) <> None
  | SubEnq t n k =>
      announced (tr s t) = Some n /\ enq (tr s t) = k /\ k < n
  | SubExited => reqq s = [] /\ req_shut s = false /\ ush s <> URun
  | SubIdle => True
  end.

Record Inv (s : state) : Prop := mkInv {
  i_tr : forall t, tr_ok (tr s t);
  i_wk : forall w, wk_ok s w (wk s w);
  i_sub : sub_ok s (sub s);
  i_jobq : forall t i, In (t, i) (jobq s) <-> jst (tr s t) i = JQueued;
  i_jobq_nodup : NoDup (jobq s);
  i_held : forall t i w, jst (tr s t) i = JHeld w -> holds (wk s w) = Some (t, i);
  i_fin : forall t w, fin_owner (tr s t) = Some w ->
            done (tr s t) = true \/ fins (wk s w) = Some t;
  i_reqq : forall t, In t (reqq s) <-> sst (tr s t) = SQueued;
  i_reqq_nodup : NoDup (reqq s);
  i_active : forall t, sst (tr s t) = SActive -> sub_on (sub s) = Some t;
  i_fresh : forall t, ntr s <= t -> tr s t = tr0;
  i_run : ush s = URun -> req_shut s = false;
  i_sent : wsent s <> 0 -> sub s = SubExited;
  i_late : ush s = UWrk \/ ush s = URet -> sub s = SubExited;
  i_ret : ush s = URet -> forall w, w < nw s -> wk s w = WExited
}.

Lemma tr0_ok : tr_ok tr0.
Proof.
  constructor; cbn; try tauto; try congruence; try discriminate.
  - intros i. split; [congruence|lia].
  - split; [congruence|]. intros (n & H & _). discriminate.
Qed.

Lemma init_inv : forall n, Inv (init n).
Proof.
  intros n. constructor; cbn; try tauto; try congruence; try discriminate.
  - intros. apply tr0_ok.
  - intros w. unfold wk_ok. cbn. repeat split; try congruence; discriminate.
  - unfold sub_ok. cbn. split; [discriminate|exact I].
  - intros. split; [tauto|discriminate].
  - constructor.
  - intros. split; [tauto|discriminate].
  - constructor.
  - intros [H|H]; discriminate.
Qed.

Ltac clear_refl := repeat match goal with H : ?x = ?x |- _ => clear H end.

Ltac eqb_split :=
  repeat match goal with
  | |- context [Nat.eqb ?a ?a] => rewrite (Nat.eqb_refl a)
  | H : context [Nat.eqb ?a ?a] |- _ => rewrite (Nat.eqb_refl a) in H
  | |- context [Nat.eqb ?a ?b] => destruct (Nat.eqb_spec a b); try subst; clear_refl; try congruence
  | H : context [Nat.eqb ?a ?b] |- _ => destruct (Nat.eqb_spec a b); try subst; clear_refl; try congruence
  end.

Ltac rw_eqs :=
  repeat match goal with
  | E : jobq ?s = _, H : context [jobq ?s] |- _ =>
      tryif constr_eq H E then fail else rewrite E in H
  | E : reqq ?s = _, H : context [reqq ?s] |- _ =>
      tryif constr_eq H E then fail else rewrite E in H
  | E : sub ?s = _, H : context [sub ?s] |- _ =>
      tryif constr_eq H E then fail else rewrite E in H
  | E : ush ?s = _, H : context [ush ?s] |- _ =>
      tryif constr_eq H E then fail else rewrite E in H
  | E : wsent ?s = _, H : context [wsent ?s] |- _ =>
      tryif constr_eq H E then fail else rewrite E in H
  end.

Ltac simp := cbn in *; unfold upd in *; cbn in *; rw_eqs; cbn in *.

Ltac dsome :=
  repeat match goal with
  | H : context [is_some ?x] |- _ => destruct x eqn:?; cbn in H
  | |- context [is_some ?x] => destruct x eqn:?; cbn
  end.


Ltac fin := solve [ congruence | lia | intuition (eauto; try congruence; try lia)
                  | progress dsome; intuition (eauto; try congruence; try lia) ].

Ltac inj :=
  repeat match goal with
  | H : Some _ = Some _ |- _ => injection H as ?; subst
  | H : (_, _) = (_, _) |- _ => injection H as ?; subst
  | H : None = Some _ |- _ => discriminate H
  | H : Some _ = None |- _ => discriminate H
  end.

Ltac ci_split :=
  repeat match goal with
  | |- context [if ?b then cancel_if_undone _ else _] => destruct b eqn:?
  | H : context [if ?b then cancel_if_undone _ else _] |- _ => destruct b eqn:?
  | |- context [if done ?r then _ else _] => destruct (done r) eqn:?
  | H : context [if done ?r then _ else _] |- _ => destruct (done r) eqn:?
  end.

Ltac norm := repeat (progress (simp; inj; eqb_split; ci_split; unfold cancel_if_undone in *; ci_split)).

Ltac spec_hyps :=
  repeat match goal with
  | H : forall t, Some ?x = Some t -> _ |- _ => specialize (H x eq_refl)
  | H : forall t i, Some (?x, ?y) = Some (t, i) -> _ |- _ => specialize (H x y eq_refl)
  | H : forall t, None = Some t -> _ |- _ => clear H
  | H : forall t i, None = Some (t, i) -> _ |- _ => clear H
  | H : _ /\ _ |- _ => destruct H
  end.

Ltac fwd :=
  repeat match goal with
  | H : forall n : nat, announced ?r = Some n -> _, H' : announced ?r = Some ?m |- _ =>
      specialize (H m H')
  | H : forall n : nat, fin_saw ?r = Some false -> announced ?r = Some n -> _,
    H' : announced ?r = Some ?m |- _ => specialize (fun h => H m h H')
  | H : ?A -> _, H' : ?A |- _ =>
      match type of A with Prop => specialize (H H') end
  end.

Ltac crush :=
  simp; spec_hyps;
  repeat (first [ progress intros | split ]); repeat (progress (norm; fwd; spec_hyps)); try fin.

Ltac tr_same HT :=
  first [ exact (t_enq _ HT) | exact (t_cnt _ HT) | exact (t_unann _ HT) | exact (t_ann _ HT)
        | exact (t_nfin _ HT) | exact (t_fin_iff _ HT) | exact (t_early _ HT)
        | exact (t_finished _ HT) | exact (t_done_unann _ HT) | exact (t_prefin _ HT)
        | exact (t_done_ann _ HT) | exact (t_saw_written _ HT) | exact (t_dest _ HT)
        | exact (t_written _ HT) | exact (t_uai _ HT) ].

(* i_tr: transfer t's record changed (or none) *)
Ltac b_tr HI t HT :=
  let t0 := fresh "t0" in
  intros t0;
  first [ apply (i_tr _ HI)
        | cbn; unfold upd; destruct (Nat.eqb_spec t0 t);
          [ subst t0; constructor; try (tr_same HT); cbn; try solve [destruct HT as [q1 q2 q3 q4 q5 q6 q7 q8 q9 q10 q11 q12 q13 q14 q15]; crush]
          | apply (i_tr _ HI) ] ].

(* i_wk: worker w's pc changed (Ew : wk s w = old pc), records may have changed *)
Ltac b_wk HI w Ew :=
  let w0 := fresh "w0" in let Hw0 := fresh "Hw0" in let Ew0 := fresh "Ew0" in
  intros w0; pose proof (i_wk _ HI w0) as Hw0; unfold wk_ok in *; cbn; unfold upd;
  destruct (Nat.eqb_spec w0 w);
  [ subst w0; rewrite Ew in Hw0 | destruct (wk _ w0) eqn:Ew0 ];
  try solve [crush].

(* i_wk when no worker pc changed *)
Ltac b_wk0 HI :=
  let w0 := fresh "w0" in let Hw0 := fresh "Hw0" in let Ew0 := fresh "Ew0" in
  intros w0; pose proof (i_wk _ HI w0) as Hw0; unfold wk_ok in *; cbn;
  destruct (wk _ w0) eqn:Ew0; try solve [crush].

Ltac b_sub HI :=
  let Hs := fresh "Hs" in let Es := fresh "Es" in
  pose proof (i_sub _ HI) as Hs; unfold sub_ok in *; simp;
  try (destruct (sub _) eqn:Es); try solve [crush].

Ltac b_jobq HI :=
  let t0 := fresh "t0" in let i0 := fresh "i0" in let Ho := fresh "Hold" in
  intros t0 i0; pose proof (i_jobq _ HI t0 i0) as Ho; norm; try fin.

Ltac b_held HI Ew :=
  let t0 := fresh "t0" in let i0 := fresh "i0" in let w0 := fresh "w0" in let Ho := fresh "Hold" in
  intros t0 i0 w0; pose proof (i_held _ HI t0 i0 w0) as Ho; norm; try rewrite Ew in *; norm; try fin.

Ltac b_fin HI Ew :=
  let t0 := fresh "t0" in let w0 := fresh "w0" in let Ho := fresh "Hold" in
  intros t0 w0; pose proof (i_fin _ HI t0 w0) as Ho; norm; try rewrite Ew in *; norm; try fin.

Ltac b_reqq HI :=
  let t0 := fresh "t0" in let Ho := fresh "Hold" in
  intros t0; pose proof (i_reqq _ HI t0) as Ho; norm; try fin.

Ltac b_active HI :=
  let t0 := fresh "t0" in let Ho := fresh "Hold" in
  intros t0; pose proof (i_active _ HI t0) as Ho; norm; try fin.

Ltac b_fresh HI :=
  let t0 := fresh "t0" in let Ht0 := fresh "Ht0" in let Ho := fresh "Hold" in
  intros t0 Ht0; pose proof (i_fresh _ HI t0) as Ho; norm; try fin;
  try (specialize (Ho Ht0); rewrite Ho in *; simp; congruence).

Ltac b_ret HI :=
  let Hu := fresh "Hu" in let w0 := fresh "w0" in let Hw0 := fresh "Hw0" in
  pose proof (i_ret _ HI) as Hu; pose proof (i_late _ HI); pose proof (i_sent _ HI); pose proof (i_run _ HI);
  simp; try (intros ? w0 Hw0; specialize (Hu ltac:(assumption) w0 Hw0)); eqb_split; try fin.

Ltac b_misc HI :=
  pose proof (i_late _ HI); pose proof (i_sent _ HI); pose proof (i_run _ HI);
  pose proof (i_jobq_nodup _ HI); pose proof (i_reqq_nodup _ HI);
  simp; try fin.

Lemma fin_all_counted : forall r, tr_ok r -> fin_owner r <> None ->
  exists n, announced r = Some n /\ 1 <= n /\ enq r = n /\ forall i, i < n -> jst r i = JCounted.
Proof.
  intros r HT Hf. apply (t_fin_iff _ HT) in Hf. destruct Hf as (n & Ha & Hn & Hc).
  destruct (t_ann _ HT n Ha) as (Hle & _). pose proof (t_cnt _ HT) as Hcc.
  pose proof (ccount_le (jst r) (enq r)). assert (enq r = n) by lia.
  exists n. repeat split; try assumption. intros i Hi. apply (ccount_full (jst r) n); [congruence|exact Hi].
Qed.

Lemma fin_no_held : forall r, tr_ok r -> fin_owner r <> None -> forall i w, jst r i <> JHeld w.
Proof.
  intros r HT Hf i w Hh. destruct (fin_all_counted r HT Hf) as (n & Ha & Hn & He & Hall).
  assert (i < enq r) by (apply (t_enq _ HT); congruence).
  rewrite Hall in Hh by lia. discriminate.
Qed.

Lemma fin_no_queued : forall r, tr_ok r -> fin_owner r <> None -> forall i, jst r i <> JQueued.
Proof.
  intros r HT Hf i Hh. destruct (fin_all_counted r HT Hf) as (n & Ha & Hn & He & Hall).
  assert (i < enq r) by (apply (t_enq _ HT); congruence).
  rewrite Hall in Hh by lia. discriminate.
Qed.

Lemma saw_fin : forall r, tr_ok r -> fin_saw r <> None -> fin_owner r <> None.
Proof.
  intros r HT Hs Hf. destruct (announced r) as [n|] eqn:Ea.
  - destruct (t_prefin _ HT n Ea Hf) as (_ & _ & _ & H). congruence.
  - destruct (t_unann _ HT Ea) as (_ & _ & _ & _ & H). congruence.
Qed.

Lemma dest_fin : forall r, tr_ok r -> dest r = true -> fin_owner r <> None.
Proof.
  intros r HT Hd. apply (saw_fin r HT). destruct (t_dest _ HT Hd) as (H & _). congruence.
Qed.


Ltac frame_w HI t HT w Ew :=
  constructor;
  [ b_tr HI t HT | b_wk HI w Ew | b_sub HI | b_jobq HI | b_misc HI | b_held HI Ew | b_fin HI Ew
  | b_reqq HI | b_misc HI | b_active HI | b_fresh HI | b_misc HI | b_misc HI | b_misc HI | b_ret HI ].

Ltac wstart Hs Ew := unfold step_worker in Hs; rewrite Ew in Hs; cbv beta iota in Hs.

Ltac wpre HI w Ew :=
  let Hme := fresh "Hme" in
  pose proof (i_wk _ HI w) as Hme; rewrite Ew in Hme; unfold wk_ok in Hme; simp; spec_hyps.

Lemma holder_not_fin : forall s t i w, Inv s -> jst (tr s t) i = JHeld w ->
  fin_owner (tr s t) = None /\ dest (tr s t) = false.
Proof.
  intros s t i w HI Hh. pose proof (i_tr s HI t) as HT.
  assert (Hnf : fin_owner (tr s t) = None).
  { destruct (fin_owner (tr s t)) eqn:E; [|reflexivity].
    exfalso. apply (fin_no_held _ HT ltac:(congruence) i w Hh). }
  split; [exact Hnf|]. destruct (dest (tr s t)) eqn:Ed; [|reflexivity].
  exfalso. apply (dest_fin _ HT Ed Hnf).
Qed.

Lemma inv_WCheck : forall s w t i b s', Inv s -> w < nw s -> wk s w = WGot t i ->
  step_worker s w (WCheck b) = Some s' -> Inv s'.
Proof.
  intros s w t i b s' HI Hw Ew Hs. wstart Hs Ew.
  destruct (Bool.eqb b (is_some (exc (tr s t)))) eqn:Eb; [|discriminate].
  apply eqb_prop in Eb. injection Hs as <-.
  pose proof (i_tr s HI t) as HT. wpre HI w Ew.
  destruct b; frame_w HI t HT w Ew.
Qed.

Lemma inv_WAttempt : forall s w t i k o s', Inv s -> w < nw s -> wk s w = WRun t i k ->
  step_worker s w (WAttempt o) = Some s' -> Inv s'.
Proof.
  intros s w t i k o s' HI Hw Ew Hs. wstart Hs Ew.
  pose proof (i_tr s HI t) as HT.
  destruct o; [| destruct (S k <? max_attempts) eqn:Ek |]; injection Hs as <-; wpre HI w Ew;
    frame_w HI t HT w Ew.
Qed.

Lemma inv_WNotifyExc : forall s w t i s', Inv s -> w < nw s -> wk s w = WRaised t i ->
  step_worker s w WNotifyExc = Some s' -> Inv s'.
Proof.
  intros s w t i s' HI Hw Ew Hs. wstart Hs Ew.
  pose proof (i_tr s HI t) as HT. wpre HI w Ew.
  injection Hs as <-. destruct (holder_not_fin s t i w HI ltac:(assumption)) as (Hnf & Hnd).
  frame_w HI t HT w Ew.
Qed.


Ltac finpre HI t :=
  let n := fresh "nn" in let Ha := fresh "Hann" in let Hall := fresh "Hall" in
  let Hq := fresh "Henq" in let Hn := fresh "Hn1" in
  destruct (fin_all_counted _ (i_tr _ HI t) ltac:(congruence)) as (n & Ha & Hn & Hq & Hall).

Lemma inv_WFinChk : forall s w t b s', Inv s -> w < nw s -> wk s w = WFinCheck t ->
  step_worker s w (WFinChk b) = Some s' -> Inv s'.
Proof.
  intros s w t b s' HI Hw Ew Hs. wstart Hs Ew.
  destruct (Bool.eqb b (is_some (exc (tr s t)))) eqn:Eb; [|discriminate].
  apply eqb_prop in Eb. injection Hs as <-.
  pose proof (i_tr s HI t) as HT. wpre HI w Ew.
  destruct b; frame_w HI t HT w Ew.
  intros n _ Han i Hi.
  destruct (fin_all_counted _ HT ltac:(congruence)) as (n' & Ha' & _ & _ & Hall).
  apply (t_written _ HT); [destruct (exc (tr s t)); [discriminate|reflexivity]|].
  apply Hall. congruence.
Qed.

Lemma inv_WRemove : forall s w t s', Inv s -> w < nw s -> wk s w = WFinRemove t ->
  step_worker s w WRemove = Some s' -> Inv s'.
Proof.
  intros s w t s' HI Hw Ew Hs. wstart Hs Ew. injection Hs as <-.
  pose proof (i_tr s HI t) as HT. wpre HI w Ew. finpre HI t.
  frame_w HI t HT w Ew.
Qed.

Lemma inv_WRename : forall s w t ok s', Inv s -> w < nw s -> wk s w = WFinRename t ->
  step_worker s w (WRename ok) = Some s' -> Inv s'.
Proof.
  intros s w t ok s' HI Hw Ew Hs. wstart Hs Ew.
  pose proof (i_tr s HI t) as HT.
  destruct ok; [destruct (temp (tr s t)) eqn:Et; [|discriminate]|]; injection Hs as <-; wpre HI w Ew; finpre HI t;
  frame_w HI t HT w Ew.
Qed.

Lemma inv_WRenExc : forall s w t s', Inv s -> w < nw s -> wk s w = WRenFailed t ->
  step_worker s w WRenExc = Some s' -> Inv s'.
Proof.
  intros s w t s' HI Hw Ew Hs. wstart Hs Ew. injection Hs as <-.
  pose proof (i_tr s HI t) as HT. wpre HI w Ew. finpre HI t.
  frame_w HI t HT w Ew.
Qed.

Lemma inv_WRenRemove : forall s w t s', Inv s -> w < nw s -> wk s w = WRenCleanup t ->
  step_worker s w WRenRemove = Some s' -> Inv s'.
Proof.
  intros s w t s' HI Hw Ew Hs. wstart Hs Ew. injection Hs as <-.
  pose proof (i_tr s HI t) as HT. wpre HI w Ew. finpre HI t.
  frame_w HI t HT w Ew.
Qed.

Lemma inv_WDone : forall s w t s', Inv s -> w < nw s -> wk s w = WNotifyDone t ->
  step_worker s w WDone = Some s' -> Inv s'.
Proof.
  intros s w t s' HI Hw Ew Hs. wstart Hs Ew. injection Hs as <-.
  pose proof (i_tr s HI t) as HT. wpre HI w Ew. finpre HI t.
  frame_w HI t HT w Ew.
Qed.


Lemma inv_WGetNone : forall s w s', Inv s -> w < nw s -> wk s w = WIdle ->
  step_worker s w (WGet None) = Some s' -> Inv s'.
Proof.
  intros s w s' HI Hw Ew Hs. wstart Hs Ew.
  destruct (jobq s) eqn:Ej; [|discriminate]. destruct (wsent s) eqn:Es; [discriminate|].
  injection Hs as <-. pose proof (i_sent s HI ltac:(lia)) as Hse.
  pose proof (i_tr s HI 0) as HT.
  frame_w HI 0 HT w Ew.
  Qed.

Lemma inv_WGetSome : forall s w t i s', Inv s -> w < nw s -> wk s w = WIdle ->
  step_worker s w (WGet (Some (t, i))) = Some s' -> Inv s'.
Proof.
  intros s w t i s' HI Hw Ew Hs. wstart Hs Ew.
  destruct (jobq s) as [|[t' i'] q] eqn:Ej; [discriminate|].
  destruct (Nat.eqb_spec t t'); [subst t'|discriminate].
  destruct (Nat.eqb_spec i i'); [subst i'|discriminate]. cbn in Hs.
  injection Hs as <-.
  pose proof (i_tr s HI t) as HT.
  assert (Hq : jst (tr s t) i = JQueued) by (apply (i_jobq s HI); rewrite Ej; left; reflexivity).
  pose proof (i_jobq_nodup s HI) as Hnd. rewrite Ej in Hnd. inversion Hnd as [|x l Hni Hnd']; subst.
  frame_w HI t HT w Ew.
  - intros i0. pose proof (t_enq _ HT i0) as H1. pose proof (t_enq _ HT i) as H2.
    destruct (Nat.eqb_spec i0 i); [subst i0|exact H1].
    split; [intros _; apply H2; congruence|intros _; discriminate].
  - rewrite (t_cnt _ HT). symmetry.
    apply (ccount_upd_other (jst (tr s t)) i (JHeld w)); congruence.
Qed.


Lemma inv_WDecr : forall s w t i r s', Inv s -> w < nw s -> wk s w = WCount t i ->
  step_worker s w (WDecr r) = Some s' -> Inv s'.
Proof.
  intros s w t i r s' HI Hw Ew Hs. wstart Hs Ew.
  destruct (Z.eqb_spec r (jtc (tr s t) - 1)); [subst r|discriminate].
  pose proof (i_tr s HI t) as HT. wpre HI w Ew.
  destruct (holder_not_fin s t i w HI ltac:(assumption)) as (Hnf & Hnd).
  assert (Hie : i < enq (tr s t)) by (apply (t_enq _ HT); congruence).
  assert (Hnc : jst (tr s t) i <> JCounted) by congruence.
  pose proof (ccount_upd_counted (jst (tr s t)) i (enq (tr s t)) Hie Hnc) as Hcc.
  pose proof (t_cnt _ HT) as Hcnt.
  assert (Henq' : forall i0 : nat,
            (if i0 =? i then JCounted else jst (tr s t) i0) <> JNone <-> i0 < enq (tr s t)).
  { intros i0. pose proof (t_enq _ HT i0) as Hy.
    destruct (Nat.eqb_spec i0 i); [subst i0|exact Hy].
    split; [intros _; exact Hie|intros _; discriminate]. }
  assert (Hjq : forall i0, In (t, i0) (jobq s) <->
            (if i0 =? i then JCounted else jst (tr s t) i0) = JQueued).
  { intros i0. pose proof (i_jobq s HI t i0) as Hy.
    destruct (Nat.eqb_spec i0 i); [subst i0|exact Hy].
    split; [intros Hx; apply Hy in Hx; congruence|discriminate]. }
  assert (Hheld : forall i0 w0, (if i0 =? i then JCounted else jst (tr s t) i0) = JHeld w0 ->
            w0 <> w /\ holds (wk s w0) = Some (t, i0)).
  { intros i0 w0. destruct (Nat.eqb_spec i0 i); [discriminate|]. intros Hx.
    pose proof (i_held s HI t i0 w0 Hx) as Hy. split; [|exact Hy].
    intros ->. rewrite Ew in Hy. cbn in Hy. congruence. }
  destruct (Z.eqb_spec (jtc (tr s t) - 1) 0) as [Hz|Hz]; injection Hs as <-.
  - destruct (announced (tr s t)) as [n|] eqn:Ea;
      [|exfalso; destruct (t_unann _ HT Ea) as (_ & Hj & _); lia].
    destruct (t_ann _ HT n Ea) as (Hle & Hjtc & _).
    destruct (t_prefin _ HT n Ea Hnf) as (Htemp & _ & Hdone & Hsaw).
    frame_w HI t HT w Ew.
    all: try exact Henq'.
    all: try apply Hjq.
    all: try (intros Hx; destruct (Hheld _ _ Hx) as (Hy & Hy2); first [congruence | exact Hy2]).
    all: try (rewrite (t_nfin _ HT), Hnf; reflexivity).
    all: split; [intros _|congruence]; exists n; split; [exact Ea|split; lia].
  - frame_w HI t HT w Ew.
    all: try exact Henq'.
    all: try apply Hjq.
    all: try (intros Hx; destruct (Hheld _ _ Hx) as (Hy & Hy2); first [congruence | exact Hy2]).
    all: split; [congruence|]; intros (n & Ea & Hn & Hc); exfalso;
      destruct (t_ann _ HT n Ea) as (_ & Hjtc & _); lia.
Qed.


Lemma step_worker_inv : forall s w a s', Inv s -> w < nw s ->
  step_worker s w a = Some s' -> Inv s'.
Proof.
  intros s w a s' HI Hw Hs.
  destruct a as [[[t i]|]|b|o| |r|b| |ok| | | ]; destruct (wk s w) eqn:Ew;
    try (unfold step_worker in Hs; rewrite Ew in Hs;
         first [ discriminate Hs | destruct o; discriminate Hs | destruct ok; discriminate Hs ]).
  - eapply inv_WGetSome; eassumption.
  - eapply inv_WGetNone; eassumption.
  - eapply inv_WCheck; eassumption.
  - eapply inv_WAttempt; eassumption.
  - eapply inv_WNotifyExc; eassumption.
  - eapply inv_WDecr; eassumption.
  - eapply inv_WFinChk; eassumption.
  - eapply inv_WRemove; eassumption.
  - eapply inv_WRename; eassumption.
  - eapply inv_WRenExc; eassumption.
  - eapply inv_WRenRemove; eassumption.
  - eapply inv_WDone; eassumption.
Qed.


(** submitter and user events: no worker program counter changes *)
Ltac b_held0 HI :=
  let t0 := fresh "t0" in let i0 := fresh "i0" in let w0 := fresh "w0" in let Ho := fresh "Hold" in
  intros t0 i0 w0; pose proof (i_held _ HI t0 i0 w0) as Ho; norm; try fin.

Ltac b_fin0 HI :=
  let t0 := fresh "t0" in let w0 := fresh "w0" in let Ho := fresh "Hold" in
  intros t0 w0; pose proof (i_fin _ HI t0 w0) as Ho; norm; try fin.

Ltac frame_s HI t HT :=
  constructor;
  [ b_tr HI t HT | b_wk0 HI | b_sub HI | b_jobq HI | b_misc HI | b_held0 HI | b_fin0 HI
  | b_reqq HI | b_misc HI | b_active HI | b_fresh HI | b_misc HI | b_misc HI | b_misc HI | b_ret HI ].

Ltac sstart Hs Es := unfold step_sub in Hs; rewrite Es in Hs; cbv beta iota in Hs.

Ltac spre HI Es :=
  let Hme := fresh "Hme" in
  pose proof (i_sub _ HI) as Hme; rewrite Es in Hme; unfold sub_ok in Hme; simp; spec_hyps.

(* the transfer the submitter works on has not been announced yet *)
Ltac unann HT :=
  let H1 := fresh "Henq0" in let H2 := fresh "Hjtc0" in let H3 := fresh "Hnf" in
  let H4 := fresh "Hnd" in let H5 := fresh "Hsaw" in
  destruct (t_unann _ HT ltac:(assumption)) as (H1 & H2 & H3 & H4 & H5).

Lemma inv_SSize : forall s t ok s', Inv s -> sub s = SubGotReq t ->
  step_sub s (SSize ok) = Some s' -> Inv s'.
Proof.
  intros s t ok s' HI Es Hs. sstart Hs Es. injection Hs as <-.
  pose proof (i_tr s HI t) as HT. spre HI Es. unann HT.
  destruct ok; frame_s HI t HT.
Qed.

Lemma inv_SAlloc : forall s t ok s', Inv s -> sub s = SubSized t ->
  step_sub s (SAlloc ok) = Some s' -> Inv s'.
Proof.
  intros s t ok s' HI Es Hs. sstart Hs Es.
  pose proof (i_tr s HI t) as HT. spre HI Es. unann HT.
  destruct ok; injection Hs as <-; frame_s HI t HT.
Qed.

Lemma inv_SNotifyExc : forall s t s', Inv s -> sub s = SubRaised t ->
  step_sub s SNotifyExc = Some s' -> Inv s'.
Proof.
  intros s t s' HI Es Hs. sstart Hs Es. injection Hs as <-.
  pose proof (i_tr s HI t) as HT. spre HI Es. unann HT.
  frame_s HI t HT.
Qed.

Lemma inv_SNotifyDone : forall s t s', Inv s -> sub s = SubFailing t ->
  step_sub s SNotifyDone = Some s' -> Inv s'.
Proof.
  intros s t s' HI Es Hs. sstart Hs Es. injection Hs as <-.
  pose proof (i_tr s HI t) as HT. spre HI Es. unann HT.
  frame_s HI t HT.
Qed.


Lemma inv_SGetNone : forall s s', Inv s -> sub s = SubIdle ->
  step_sub s (SGet None) = Some s' -> Inv s'.
Proof.
  intros s s' HI Es Hs. sstart Hs Es.
  destruct (reqq s) eqn:Eq; [|discriminate]. destruct (req_shut s) eqn:Er; [|discriminate].
  injection Hs as <-. pose proof (i_tr s HI 0) as HT.
  assert (Hu : ush s <> URun) by (intros Hu; pose proof (i_run s HI Hu); congruence).
  frame_s HI 0 HT.
Qed.

Lemma inv_SGetSome : forall s t s', Inv s -> sub s = SubIdle ->
  step_sub s (SGet (Some t)) = Some s' -> Inv s'.
Proof.
  intros s t s' HI Es Hs. sstart Hs Es.
  destruct (reqq s) as [|t' q] eqn:Eq; [discriminate|].
  destruct (Nat.eqb_spec t t'); [subst t'|discriminate].
  injection Hs as <-. pose proof (i_tr s HI t) as HT.
  assert (Hq : sst (tr s t) = SQueued) by (apply (i_reqq s HI); rewrite Eq; left; reflexivity).
  pose proof (i_reqq_nodup s HI) as Hnd. rewrite Eq in Hnd. inversion Hnd as [|x l Hni Hnd']; subst.
  destruct (t_early _ HT (or_intror Hq)) as (Hann & Htemp & Hdone).
  unann HT.
  frame_s HI t HT.
Qed.

Lemma inv_SAnnounce : forall s t n s', Inv s -> sub s = SubAllocated t ->
  step_sub s (SAnnounce n) = Some s' -> Inv s'.
Proof.
  intros s t n s' HI Es Hs. sstart Hs Es.
  pose proof (i_tr s HI t) as HT. spre HI Es. unann HT.
  assert (Hc0 : ncounted (tr s t) = 0) by (rewrite (t_cnt _ HT), Henq0; reflexivity).
  destruct n as [|n]; injection Hs as <-; frame_s HI t HT.
  - split; [congruence|]. intros (n0 & [= <-] & Hn & _). lia.
  - intros n0 [= <-]. split; [lia|]. split; [rewrite Hc0; lia|]. left; assumption.
  - split; [congruence|]. intros (n0 & [= <-] & Hn & Hc). lia.
Qed.

Lemma NoDup_snoc : forall (A : Type) (l : list A) x, NoDup l -> ~ In x l -> NoDup (l ++ [x]).
Proof.
  induction l as [|a l IH]; intros x Hnd Hni; cbn.
  - constructor; [tauto|constructor].
  - inversion Hnd as [|? ? Ha Hl]; subst. constructor.
    + rewrite in_app_iff. cbn. intros [H|[H|[]]]; [tauto|]. subst. apply Hni. left; reflexivity.
    + apply IH; [exact Hl|]. intros H; apply Hni; right; exact H.
Qed.

Lemma enq_fresh : forall r, tr_ok r -> jst r (enq r) = JNone.
Proof.
  intros r HT. destruct (jst r (enq r)) eqn:E; try reflexivity; exfalso;
    assert (enq r < enq r) by (apply (t_enq _ HT); congruence); lia.
Qed.

Lemma enq_upd_enq : forall r, tr_ok r -> forall i0,
  (if i0 =? enq r then JQueued else jst r i0) <> JNone <-> i0 < S (enq r).
Proof.
  intros r HT i0. pose proof (t_enq _ HT i0) as Hy.
  destruct (Nat.eqb_spec i0 (enq r)) as [->|Hne]; [split; [lia|discriminate]|].
  rewrite Hy. lia.
Qed.

Lemma enq_upd_cnt : forall r, tr_ok r ->
  ncounted r = ccount (fun k' : nat => if k' =? enq r then JQueued else jst r k') (S (enq r)).
Proof.
  intros r HT.
  change (fun k' : nat => if k' =? enq r then JQueued else jst r k')
    with (upd (jst r) (enq r) JQueued).
  pose proof (enq_fresh r HT) as Hjn.
  rewrite ccount_upd_other by congruence. cbn [ccount]. rewrite Hjn.
  rewrite (t_cnt _ HT). lia.
Qed.

Lemma inv_SEnq : forall s t n k t1 i1 s', Inv s -> sub s = SubEnq t n k ->
  step_sub s (SEnq t1 i1) = Some s' -> Inv s'.
Proof.
  intros s t n k t1 i1 s' HI Es Hs. sstart Hs Es.
  destruct (Nat.eqb_spec t1 t); [subst t1|discriminate].
  destruct (Nat.eqb_spec i1 k); [subst i1|discriminate]. cbn [andb] in Hs. cbv zeta in Hs.
  pose proof (i_tr s HI t) as HT.
  assert (Hek : enq (tr s t) = k).
  { pose proof (i_sub s HI) as Hme. rewrite Es in Hme. apply Hme. }
  subst k.
  pose proof (enq_fresh _ HT) as Hjn. pose proof (enq_upd_enq _ HT) as Henq'.
  pose proof (enq_upd_cnt _ HT) as Hcc.
  assert (Hnq : ~ In (t, enq (tr s t)) (jobq s)).
  { intros Hx. apply (i_jobq s HI) in Hx. congruence. }
  assert (Hnf : fin_owner (tr s t) = None).
  { destruct (fin_owner (tr s t)) eqn:E; [|reflexivity]. exfalso.
    destruct (fin_all_counted _ HT ltac:(congruence)) as (n' & Ha' & _ & He' & _).
    pose proof (i_sub s HI) as Hme. rewrite Es in Hme. destruct Hme as (_ & Hme1 & _ & Hme3).
    assert (n' = n) by congruence. lia. }
  destruct (Nat.eqb_spec (S (enq (tr s t))) n) as [Hk|Hk]; injection Hs as <-;
    spre HI Es; frame_s HI t HT.
  all: try exact Henq'.
  all: try (apply NoDup_snoc; [apply (i_jobq_nodup s HI)|exact Hnq]).
  all: try (rewrite in_app_iff; cbn [In];
            match goal with |- In (?a, ?b) _ \/ _ <-> _ => pose proof (i_jobq s HI a b) end;
            intuition congruence).
  all: intros n0 Hn0; destruct (t_ann _ HT n0 Hn0) as (Hle & Hj & Hss);
    assert (n0 = n) by congruence; subst n0;
    split; [lia|split; [exact Hj|auto]].
Qed.


Lemma step_sub_inv : forall s e s', Inv s -> step_sub s e = Some s' -> Inv s'.
Proof.
  intros s e s' HI Hs.
  destruct e as [ | | | | | | | |[t|]|ok|ok|n|t i| | |]; try discriminate Hs;
    destruct (sub s) eqn:Es;
    try (unfold step_sub in Hs; rewrite Es in Hs;
         first [ discriminate Hs | destruct ok; discriminate Hs ]).
  - eapply inv_SGetSome; eassumption.
  - eapply inv_SGetNone; eassumption.
  - eapply inv_SSize; eassumption.
  - eapply inv_SAlloc; eassumption.
  - eapply inv_SAnnounce; eassumption.
  - eapply inv_SEnq; eassumption.
  - eapply inv_SNotifyExc; eassumption.
  - eapply inv_SNotifyDone; eassumption.
Qed.

(** user events *)
Lemma ushut_eqb_spec : forall a b, ushut_eqb a b = true <-> a = b.
Proof. intros [] []; cbn; split; congruence. Qed.

Lemma inv_UNew : forall s t s', Inv s -> step_user s (UNew t) = Some s' -> Inv s'.
Proof.
  intros s t s' HI Hs. unfold step_user in Hs.
  destruct (Nat.eqb_spec t (ntr s)); [subst t|discriminate]. cbn [andb] in Hs.
  destruct (ushut_eqb (ush s) URun) eqn:Eu; [|discriminate]. apply ushut_eqb_spec in Eu.
  destruct (intr s); [discriminate|]. injection Hs as <-.
  pose proof (i_tr s HI 0) as HT.
  frame_s HI 0 HT.
  apply (i_fresh s HI). lia.
Qed.

Lemma inv_UPut : forall s t s', Inv s -> step_user s (UPut t) = Some s' -> Inv s'.
Proof.
  intros s t s' HI Hs. unfold step_user in Hs.
  destruct (Nat.ltb_spec t (ntr s)) as [Ht|]; [|discriminate]. cbn [andb] in Hs.
  destruct (ushut_eqb (ush s) URun) eqn:Eu; [|discriminate]. apply ushut_eqb_spec in Eu.
  destruct (intr s); [discriminate|]. cbn [andb negb] in Hs.
  destruct (sst (tr s t)) eqn:Est; try discriminate. injection Hs as <-.
  pose proof (i_tr s HI t) as HT.
  destruct (t_early _ HT (or_introl Est)) as (Hann & Htemp & Hdone). unann HT.
  assert (Hni : ~ In t (reqq s)) by (intros Hx; apply (i_reqq s HI) in Hx; congruence).
  frame_s HI t HT.
  all: try (apply NoDup_snoc; [apply (i_reqq_nodup s HI)|exact Hni]).
  all: rewrite in_app_iff; cbn [In];
    match goal with |- In ?a _ \/ _ <-> _ => pose proof (i_reqq s HI a) end;
    intuition congruence.
Qed.

Lemma inv_UCancel : forall s t s', Inv s -> step_user s (UCancel t) = Some s' -> Inv s'.
Proof.
  intros s t s' HI Hs. unfold step_user in Hs.
  destruct (Nat.ltb_spec t (ntr s)) as [Ht|]; [|discriminate]. injection Hs as <-.
  pose proof (i_tr s HI t) as HT.
  frame_s HI t HT.
Qed.

Lemma inv_UResult : forall s t b s', Inv s -> step_user s (UResult t b) = Some s' -> Inv s'.
Proof.
  intros s t b s' HI Hs. unfold step_user in Hs.
  destruct (_ && _); [|discriminate]. injection Hs as <-. exact HI.
Qed.

Lemma inv_UShutSub : forall s s', Inv s -> step_user s UShutSub = Some s' -> Inv s'.
Proof.
  intros s s' HI Hs. unfold step_user in Hs.
  destruct (ush s) eqn:Eu; try discriminate. injection Hs as <-.
  pose proof (i_tr s HI 0) as HT.
  assert (Hse : sub s <> SubExited).
  { intros Hx. pose proof (i_sub s HI) as Hme. rewrite Hx in Hme. destruct Hme as (_ & _ & _ & Hy). congruence. }
  frame_s HI 0 HT.
Qed.

Lemma inv_UShutWorkers : forall s s', Inv s -> step_user s UShutWorkers = Some s' -> Inv s'.
Proof.
  intros s s' HI Hs. unfold step_user in Hs.
  destruct (ush s) eqn:Eu; try discriminate. destruct (sub s) eqn:Es; try discriminate.
  injection Hs as <-.
  pose proof (i_tr s HI 0) as HT.
  frame_s HI 0 HT.
Qed.

Lemma inv_UShutReturn : forall s s', Inv s -> step_user s UShutReturn = Some s' -> Inv s'.
Proof.
  intros s s' HI Hs. unfold step_user in Hs.
  destruct (ush s) eqn:Eu; try discriminate.
  destruct (all_exited (wk s) (nw s)) eqn:Ea; [|discriminate]. injection Hs as <-.
  pose proof (proj1 (all_exited_spec _ _) Ea) as Hall.
  pose proof (i_tr s HI 0) as HT.
  frame_s HI 0 HT.
Qed.

Lemma cancel_ok : forall r, tr_ok r -> tr_ok (cancel_if_undone r).
Proof.
  intros r HT. unfold cancel_if_undone. destruct (done r) eqn:Ed; [exact HT|].
  constructor; try (tr_same HT); cbn;
    try solve [destruct HT as [q1 q2 q3 q4 q5 q6 q7 q8 q9 q10 q11 q12 q13 q14 q15]; crush].
Qed.

Lemma inv_cancel_some : forall s (P : nat -> bool) (b : bool), Inv s ->
  (forall t, ntr s <= t -> P t = false) ->
  Inv (mkS (ntr s) (fun t => if P t then cancel_if_undone (tr s t) else tr s t)
           (reqq s) (req_shut s) (jobq s) (wsent s) (sub s) (nw s) (wk s) (ush s) b).
Proof.
  intros s P b HI HP.
  constructor;
  [ | b_wk0 HI | b_sub HI | b_jobq HI | b_misc HI | b_held0 HI | b_fin0 HI
  | b_reqq HI | b_misc HI | b_active HI | | b_misc HI | b_misc HI | b_misc HI | b_ret HI ].
  - intros t. cbn. destruct (P t); [apply cancel_ok|]; apply (i_tr s HI).
  - intros t Ht. cbn in *. rewrite (HP t Ht). apply (i_fresh s HI t Ht).
Qed.

Lemma inv_UInterrupt : forall s s', Inv s -> step_user s UInterrupt = Some s' -> Inv s'.
Proof.
  intros s s' HI Hs. unfold step_user in Hs.
  destruct (ushut_eqb (ush s) URun && negb (intr s)); [|discriminate]. injection Hs as <-.
  apply (inv_cancel_some s (fun t => Nat.ltb t (ntr s)) true HI).
  intros t Ht. apply Nat.ltb_ge. exact Ht.
Qed.

Lemma step_user_inv : forall s e s', Inv s -> step_user s e = Some s' -> Inv s'.
Proof.
  intros s e s' HI Hs. destruct e; try discriminate Hs.
  - eapply inv_UNew; eassumption.
  - eapply inv_UPut; eassumption.
  - eapply inv_UCancel; eassumption.
  - eapply inv_UInterrupt; eassumption.
  - eapply inv_UResult; eassumption.
  - eapply inv_UShutSub; eassumption.
  - eapply inv_UShutWorkers; eassumption.
  - eapply inv_UShutReturn; eassumption.
Qed.

Theorem step_inv : forall s e s', Inv s -> step s e = Some s' -> Inv s'.
Proof.
  intros s e s' HI Hs. unfold step in Hs. destruct e;
    try (eapply step_user_inv; eassumption); try (eapply step_sub_inv; eassumption).
  destruct (Nat.ltb_spec w (nw s)); [|discriminate]. eapply step_worker_inv; eassumption.
Qed.

(** Reachability *)
Inductive reachable (n : nat) : state -> Prop :=
| reach_init : reachable n (init n)
| reach_step : forall s e s', reachable n s -> step s e = Some s' -> reachable n s'.

Theorem reachable_inv : forall n s, reachable n s -> Inv s.
Proof.
  induction 1 as [|s e s' _ IH Hs]; [apply init_inv|eapply step_inv; eassumption].
Qed.



(** * Consequences *)

Lemma ccount_lt : forall f n i, i < n -> f i <> JCounted -> ccount f n < n.
Proof.
  intros f n i Hi Hf. pose proof (ccount_le f n) as Hle.
  destruct (Nat.eq_dec (ccount f n) n) as [E|E]; [|lia].
  exfalso. apply Hf. apply (ccount_full f n E i Hi).
Qed.

(** A job that is queued or being worked on was announced before. *)
Lemma job_live_announced : forall s t i, Inv s ->
  (In (t, i) (jobq s) \/ exists w, holds (wk s w) = Some (t, i)) ->
  exists k, announced (tr s t) = Some k /\ i < k /\
            jtc (tr s t) = (Z.of_nat k - Z.of_nat (ncounted (tr s t)))%Z /\
            ncounted (tr s t) < k /\ (1 <= jtc (tr s t))%Z.
Proof.
  intros s t i HI Hlive. pose proof (i_tr s HI t) as HT.
  assert (Hj : jst (tr s t) i <> JNone /\ jst (tr s t) i <> JCounted).
  { destruct Hlive as [Hq|(w & Hh)].
    - apply (i_jobq s HI) in Hq. rewrite Hq. split; discriminate.
    - pose proof (i_wk s HI w) as (_ & Hw & _). rewrite (Hw t i Hh). split; discriminate. }
  destruct Hj as (Hn & Hc). apply (t_enq _ HT) in Hn.
  destruct (announced (tr s t)) as [k|] eqn:Ea.
  - destruct (t_ann _ HT k Ea) as (Hle & Hjtc & _).
    pose proof (ccount_lt (jst (tr s t)) (enq (tr s t)) i Hn Hc) as Hlt.
    rewrite <- (t_cnt _ HT) in Hlt.
    exists k. repeat split; try assumption; lia.
  - destruct (t_unann _ HT Ea) as (H0 & _). lia.
Qed.

Lemma done_accounted : forall s t, Inv s -> done (tr s t) = true ->
  (announced (tr s t) = None /\ enq (tr s t) = 0 /\ exc (tr s t) <> None /\
   (forall i, jst (tr s t) i = JNone)) \/
  (exists k, announced (tr s t) = Some k /\ 1 <= k /\ enq (tr s t) = k /\
             ncounted (tr s t) = k /\ jtc (tr s t) = 0%Z /\
             (forall i, i < k -> jst (tr s t) i = JCounted)) /\
  (forall i, ~ In (t, i) (jobq s)) /\ (forall w i, holds (wk s w) <> Some (t, i)).
Proof.
  intros s t HI Hd. pose proof (i_tr s HI t) as HT.
  destruct (announced (tr s t)) as [k|] eqn:Ea.
  - right. destruct (t_done_ann _ HT k Ea Hd) as (Hf & _).
    destruct (fin_all_counted _ HT Hf) as (k' & Ha' & Hk1 & He & Hall).
    assert (k' = k) as -> by congruence.
    assert (Hc : ncounted (tr s t) = k).
    { rewrite (t_cnt _ HT), He. apply ccount_all. exact Hall. }
    split; [|split].
    + exists k. destruct (t_ann _ HT k Ea) as (_ & Hj & _).
      repeat split; try assumption; try reflexivity. lia.
    + intros i Hq. apply (i_jobq s HI) in Hq. apply (fin_no_queued _ HT Hf i Hq).
    + intros w i Hh. pose proof (i_wk s HI w) as (_ & Hw & _).
      apply (fin_no_held _ HT Hf i w (Hw t i Hh)).
  - left. pose proof (t_done_unann _ HT Ea Hd) as Hs.
    destruct (t_unann _ HT Ea) as (H0 & _).
    destruct (t_finished _ HT Hs) as [(_ & _ & He & _)|(k & Hk & _)]; [|congruence].
    repeat split; try assumption.
    intros i. destruct (jst (tr s t) i) eqn:E; try reflexivity; exfalso;
      assert (i < enq (tr s t)) by (apply (t_enq _ HT); congruence); lia.
Qed.

Lemma finaliser_unique_inv : forall s t, Inv s ->
  nfin (tr s t) <= 1 /\
  (nfin (tr s t) = 1 <->
   exists k, announced (tr s t) = Some k /\ 1 <= k /\ ncounted (tr s t) = k) /\
  (forall w1 w2, fins (wk s w1) = Some t -> fins (wk s w2) = Some t -> w1 = w2) /\
  (done (tr s t) = true -> announced (tr s t) <> None -> nfin (tr s t) = 1).
Proof.
  intros s t HI. pose proof (i_tr s HI t) as HT.
  pose proof (t_nfin _ HT) as Hn. pose proof (t_fin_iff _ HT) as Hiff.
  split; [destruct (fin_owner (tr s t)); lia|]. split; [|split].
  - rewrite <- Hiff. destruct (fin_owner (tr s t)); split; try congruence; try lia; discriminate.
  - intros w1 w2 H1 H2.
    pose proof (i_wk s HI w1) as (_ & _ & F1 & _). pose proof (i_wk s HI w2) as (_ & _ & F2 & _).
    destruct (F1 t H1) as (E1 & _). destruct (F2 t H2) as (E2 & _). congruence.
  - intros Hd Ha. destruct (announced (tr s t)) as [k|] eqn:Ea; [|congruence].
    destruct (t_done_ann _ HT k Ea Hd) as (Hf & _).
    destruct (fin_owner (tr s t)); [exact Hn|congruence].
Qed.

Lemma done_success : forall s t, Inv s -> done (tr s t) = true -> exc (tr s t) = None ->
  exists k, announced (tr s t) = Some k /\ 1 <= k /\ dest (tr s t) = true /\
            temp (tr s t) = false /\ forall i, i < k -> written (tr s t) i = true.
Proof.
  intros s t HI Hd He. pose proof (i_tr s HI t) as HT.
  destruct (announced (tr s t)) as [k|] eqn:Ea.
  - destruct (t_done_ann _ HT k Ea Hd) as (Hf & Ht & [(Hdst & Hsaw)|(_ & Hx)]); [|congruence].
    destruct (fin_all_counted _ HT Hf) as (k' & Ha' & Hk1 & _).
    exists k. repeat split; try assumption; [congruence|].
    apply (t_saw_written _ HT k Hsaw Ea).
  - pose proof (t_done_unann _ HT Ea Hd) as Hs.
    destruct (t_finished _ HT Hs) as [(_ & _ & Hx & _)|(k & Hk & _)]; congruence.
Qed.

Lemma done_failure : forall s t, Inv s -> done (tr s t) = true ->
  fin_saw (tr s t) <> Some false ->
  temp (tr s t) = false /\ dest (tr s t) = false /\ exc (tr s t) <> None.
Proof.
  intros s t HI Hd Hs. pose proof (i_tr s HI t) as HT.
  destruct (announced (tr s t)) as [k|] eqn:Ea.
  - destruct (t_done_ann _ HT k Ea Hd) as (_ & Ht & [(_ & Hsaw)|(Hdst & Hx)]); [congruence|].
    repeat split; assumption.
  - pose proof (t_done_unann _ HT Ea Hd) as Hf.
    destruct (t_unann _ HT Ea) as (_ & _ & _ & Hdst & _).
    destruct (t_finished _ HT Hf) as [(_ & _ & Hx & Ht)|(k & Hk & _)]; [|congruence].
    repeat split; assumption.
Qed.

Lemma done_exception_states : forall s t, Inv s -> done (tr s t) = true ->
  exc (tr s t) <> None ->
  temp (tr s t) = false /\
  (dest (tr s t) = false \/
   (dest (tr s t) = true /\ fin_saw (tr s t) = Some false /\ exc (tr s t) = Some ECancel /\
    exists k, announced (tr s t) = Some k /\ forall i, i < k -> written (tr s t) i = true)).
Proof.
  intros s t HI Hd He. pose proof (i_tr s HI t) as HT.
  destruct (dest (tr s t)) eqn:Edst.
  - destruct (t_dest _ HT Edst) as (Hsaw & Ht & [Hx|Hx]); [congruence|].
    split; [exact Ht|right]. repeat split; try assumption.
    destruct (announced (tr s t)) as [k|] eqn:Ea.
    + exists k. split; [reflexivity|]. apply (t_saw_written _ HT k Hsaw Ea).
    + destruct (t_unann _ HT Ea) as (_ & _ & _ & _ & Hy). congruence.
  - split; [|left; reflexivity].
    destruct (announced (tr s t)) as [k|] eqn:Ea.
    + destruct (t_done_ann _ HT k Ea Hd) as (_ & Ht & _). exact Ht.
    + pose proof (t_done_unann _ HT Ea Hd) as Hf.
      destruct (t_finished _ HT Hf) as [(_ & _ & _ & Ht)|(k & Hk & _)]; [exact Ht|congruence].
Qed.

Lemma shutdown_waits : forall s, Inv s -> ush s = URet -> 1 <= nw s ->
  forall t, sst (tr s t) <> SNone ->
  (forall k, announced (tr s t) = Some k -> 1 <= k) ->
  done (tr s t) = true.
Proof.
  intros s HI Hu Hnw t Hst Hk. pose proof (i_tr s HI t) as HT.
  pose proof (i_ret s HI Hu) as Hall.
  pose proof (i_late s HI (or_intror Hu)) as Hsub.
  pose proof (i_sub s HI) as Hsok. rewrite Hsub in Hsok. destruct Hsok as (_ & Hrq & _).
  assert (Hjq : jobq s = []).
  { pose proof (i_wk s HI 0) as Hw0. rewrite (Hall 0 ltac:(lia)) in Hw0.
    destruct Hw0 as (_ & _ & _ & Hj & _). exact Hj. }
  assert (Hfin : sst (tr s t) = SFinished).
  { destruct (sst (tr s t)) eqn:E; try congruence.
    - apply (i_reqq s HI) in E. rewrite Hrq in E. destruct E.
    - apply (i_active s HI) in E. rewrite Hsub in E. discriminate. }
  destruct (t_finished _ HT Hfin) as [(_ & Hd & _)|(k & Ea & He)]; [exact Hd|].
  assert (Hallc : forall i, i < k -> jst (tr s t) i = JCounted).
  { intros i Hi. destruct (jst (tr s t) i) eqn:E; try reflexivity; exfalso.
    - assert (i < enq (tr s t)) by lia. apply (t_enq _ HT) in H. congruence.
    - apply (i_jobq s HI) in E. rewrite Hjq in E. destruct E.
    - pose proof (i_held s HI t i w E) as Hh.
      destruct (Nat.lt_ge_cases w (nw s)) as [Hlt|Hge].
      + rewrite (Hall w Hlt) in Hh. discriminate.
      + pose proof (i_wk s HI w) as (Hb & _).
        destruct (wk s w) eqn:Ew; try discriminate Hh; (assert (w < nw s) by (apply Hb; discriminate)); lia. }
  assert (Hc : ncounted (tr s t) = k).
  { rewrite (t_cnt _ HT), He. apply ccount_all. exact Hallc. }
  assert (Hf : fin_owner (tr s t) <> None).
  { apply (t_fin_iff _ HT). exists k. repeat split; try assumption. apply Hk. exact Ea. }
  destruct (fin_owner (tr s t)) as [w|] eqn:Ef; [|congruence].
  destruct (i_fin s HI t w Ef) as [Hd|Hfw]; [exact Hd|exfalso].
  destruct (Nat.lt_ge_cases w (nw s)) as [Hlt|Hge].
  - rewrite (Hall w Hlt) in Hfw. discriminate.
  - pose proof (i_wk s HI w) as (Hb & _).
    destruct (wk s w) eqn:Ew; try discriminate Hfw; (assert (w < nw s) by (apply Hb; discriminate)); lia.
Qed.

(** exceptions are never cleared, done is never reset *)
Ltac step_cases Hs :=
  repeat (match type of Hs with
          | context [match ?x with _ => _ end] => destruct x eqn:?
          end; try discriminate Hs).

Lemma step_mono : forall s e s' t, step s e = Some s' ->
  (exc (tr s t) <> None -> exc (tr s' t) <> None) /\
  (done (tr s t) = true -> done (tr s' t) = true).
Proof.
  intros s e s' t Hs. unfold step, step_user, step_sub, step_worker in Hs.
  step_cases Hs; injection Hs as <-; norm; split; congruence.
Qed.

Inductive steps : state -> list event -> state -> Prop :=
| steps_nil : forall s, steps s [] s
| steps_cons : forall s e s' l s'',
    step s e = Some s' -> steps s' l s'' -> steps s (e :: l) s''.

Lemma steps_inv : forall s l s', steps s l s' -> Inv s -> Inv s'.
Proof.
  induction 1 as [|s e s' l s'' Hs _ IH]; intros HI; [exact HI|].
  apply IH. eapply step_inv; eassumption.
Qed.

Lemma steps_reachable : forall n s l s', steps s l s' -> reachable n s -> reachable n s'.
Proof.
  induction 1 as [|s e s' l s'' Hs _ IH]; intros HR; [exact HR|].
  apply IH. eapply reach_step; eassumption.
Qed.

Lemma steps_mono : forall s l s' t, steps s l s' ->
  (exc (tr s t) <> None -> exc (tr s' t) <> None) /\
  (done (tr s t) = true -> done (tr s' t) = true).
Proof.
  induction 1 as [|s e s' l s'' Hs _ IH]; [tauto|].
  destruct (step_mono s e s' t Hs). tauto.
Qed.

Lemma run_from_steps : forall l s i s', run_from s l i = (s', None) -> steps s l s'.
Proof.
  induction l as [|e l IH]; intros s i s' H; cbn in H.
  - injection H as <-. constructor.
  - destruct (step s e) as [s1|] eqn:E; [|discriminate].
    econstructor; [exact E|]. eapply IH; exact H.
Qed.

Lemma run_reachable : forall n l s', run n l = (s', None) -> reachable n s'.
Proof.
  intros n l s' H. eapply steps_reachable; [eapply run_from_steps; exact H|constructor].
Qed.

Lemma interrupt_step : forall s s', step s UInterrupt = Some s' ->
  forall t, t < ntr s -> done (tr s t) = false ->
  exc (tr s' t) = Some ECancel /\ uai (tr s' t) = true.
Proof.
  intros s s' Hs t Ht Hd. cbv beta iota delta [step step_user] in Hs.
  destruct (ushut_eqb (ush s) URun && negb (intr s)); [|discriminate].
  injection Hs as <-. cbn [tr]. apply Nat.ltb_lt in Ht. rewrite Ht.
  unfold cancel_if_undone. rewrite Hd. cbn. split; reflexivity.
Qed.

Lemma interrupt_cancels : forall s1 s2 l s3 t, Inv s1 ->
  step s1 UInterrupt = Some s2 -> steps s2 l s3 ->
  t < ntr s1 -> done (tr s1 t) = false ->
  exc (tr s3 t) <> None /\
  (done (tr s3 t) = true ->
   temp (tr s3 t) = false /\
   (dest (tr s3 t) = false \/
    (dest (tr s3 t) = true /\ fin_saw (tr s3 t) = Some false /\
     exc (tr s3 t) = Some ECancel))).
Proof.
  intros s1 s2 l s3 t HI Hs Hl Ht Hd.
  destruct (interrupt_step s1 s2 Hs t Ht Hd) as (He & _).
  assert (He3 : exc (tr s3 t) <> None).
  { apply (steps_mono s2 l s3 t Hl). congruence. }
  split; [exact He3|]. intros Hd3.
  assert (HI3 : Inv s3) by (eapply steps_inv; [exact Hl|eapply step_inv; eassumption]).
  destruct (done_exception_states s3 t HI3 Hd3 He3) as (Ht3 & [Hx|(Hx & Hy & Hz & _)]).
  - split; [exact Ht3|left; exact Hx].
  - split; [exact Ht3|right]. repeat split; assumption.
Qed.

