(** No lost wake-up for the sliding-window semaphore with waiters
    (model/SemaConc.v): inductive invariant over arbitrary schedules. *)
From Coq Require Import ZArith List Bool Lia ZifyBool.
From S3V Require Import model.Sema model.SemaConc proofs.SemaProofs.
Import ListNotations.
Open Scope Z_scope.

(** A waiter asleep implies: somebody is notified, or a token is outstanding
    (window not fully drained), or there is no permit to take anyway. *)
Definition NL (c : cstate) : Prop :=
  c_wait c = [] \/ c_noti c <> [] \/ 0 < sum_out (sw_tags (c_sw c)) \/ sw_count (c_sw c) = 0.

Lemma NL_init cap : NL (cinit cap).
Proof. now left. Qed.

Lemma acquire_grant_sum s t b : basic s -> sw_count s <> 0 ->
  sum_out (sw_tags (snd (sw_acquire s t b))) = sum_out (sw_tags s) + 1.
Proof.
  intros Hb Hc.
  pose proof (step_bal (sw_count s + sum_out (sw_tags s)) s (OAcq t b) Hb) as H.
  unfold bal in H. cbn [step] in H.
  destruct (acquire_nonzero_grants s t b Hc) as (s' & E & Hc'). rewrite E in *. cbn [snd] in *.
  specialize (H ltac:(lia)). lia.
Qed.

Lemma release_not_lowest_keeps s t k : rel_branch s t k <> BLowest ->
  sw_count (snd (sw_release s t k)) = sw_count s /\
  sum_out (sw_tags (snd (sw_release s t k))) = sum_out (sw_tags s).
Proof.
  intros Hne. unfold sw_release, sw_release_with. destruct (rel_branch s t k) eqn:E; cbn [snd]; try (split; reflexivity).
  - contradiction.
  - cbn [sw_count sw_tags]. split; [reflexivity|].
    rewrite sum_out_upd, lookup_contrib. cbn [t_next t_low]. lia.
Qed.

(** The sequential effect of a concurrent step is the step of its projection. *)
Lemma cstep_proj c l c' o : cstep c l = Some (c', o) ->
  c_sw c' = match o with Some p => snd (step (c_sw c) p) | None => c_sw c end.
Proof.
  destruct l as [tid t b|tid|tid|t k w]; cbn [cstep].
  - destruct (has_tid tid (c_wait c) || has_tid tid (c_noti c)); [discriminate|].
    destruct (sw_acquire (c_sw c) t b) as [x s'] eqn:E.
    destruct x; intros [= <- <-]; cbn [c_sw step]; now rewrite E.
  - destruct (find_tid tid (c_noti c)) as [t|]; [|discriminate].
    destruct (sw_acquire (c_sw c) t true) as [x s'] eqn:E.
    destruct x; intros [= <- <-]; cbn [c_sw step]; now rewrite E.
  - destruct (find_tid tid (c_wait c)) as [t|]; [|discriminate]. now intros [= <- <-].
  - destruct (sw_release (c_sw c) t k) as [x s'] eqn:E.
    destruct (rel_branch (c_sw c) t k); destruct w as [tid|];
      try discriminate; try (intros [= <- <-]; cbn [c_sw step]; now rewrite E).
    + destruct (find_tid tid (c_wait c)) as [tg|]; [|discriminate].
      intros [= <- <-]; cbn [c_sw step]; now rewrite E.
    + destruct (is_nil (c_wait c)); [|discriminate].
      intros [= <- <-]; cbn [c_sw step]; now rewrite E.
Qed.

Lemma is_nil_true {A} (l : list A) : is_nil l = true -> l = [].
Proof. destruct l; [reflexivity|discriminate]. Qed.

Lemma cstep_NL c l c' o : basic (c_sw c) -> 0 <= sum_out (sw_tags (c_sw c)) ->
  NL c -> cstep c l = Some (c', o) -> NL c'.
Proof.
  intros Hb Hs Hn. unfold NL in *.
  destruct l as [tid t b|tid|tid|t k w]; cbn [cstep].
  - destruct (has_tid tid (c_wait c) || has_tid tid (c_noti c)); [discriminate|].
    destruct (Z.eq_dec (sw_count (c_sw c)) 0) as [Hz|Hnz].
    + rewrite (acquire_at_zero _ t b Hz). destruct b; intros [= <- <-]; cbn [c_sw c_wait c_noti].
      * right; right; now right.
      * exact Hn.
    + pose proof (acquire_grant_sum (c_sw c) t b Hb Hnz) as Hsum.
      destruct (acquire_nonzero_grants (c_sw c) t b Hnz) as (s' & E & _). rewrite E in *.
      cbn [snd] in Hsum. intros [= <- <-]; cbn [c_sw c_wait c_noti]. right; right; left. lia.
  - destruct (find_tid tid (c_noti c)) as [t|]; [|discriminate].
    destruct (Z.eq_dec (sw_count (c_sw c)) 0) as [Hz|Hnz].
    + rewrite (acquire_at_zero _ t true Hz). intros [= <- <-]; cbn [c_sw c_wait c_noti].
      right; right; now right.
    + pose proof (acquire_grant_sum (c_sw c) t true Hb Hnz) as Hsum.
      destruct (acquire_nonzero_grants (c_sw c) t true Hnz) as (s' & E & _). rewrite E in *.
      cbn [snd] in Hsum. intros [= <- <-]; cbn [c_sw c_wait c_noti]. right; right; left. lia.
  - destruct (find_tid tid (c_wait c)) as [t|]; [|discriminate].
    intros [= <- <-]; cbn [c_sw c_wait c_noti]. right; left. discriminate.
  - pose proof (release_not_lowest_keeps (c_sw c) t k) as Hk.
    destruct (sw_release (c_sw c) t k) as [x s'] eqn:E. cbn [snd] in Hk.
    destruct (rel_branch (c_sw c) t k) eqn:Ebr; destruct w as [tid|]; try discriminate.
    + intros [= <- <-]; cbn [c_sw c_wait c_noti].
      destruct Hk as [-> ->]; [discriminate|]. exact Hn.
    + destruct (find_tid tid (c_wait c)) as [tg|]; [|discriminate].
      intros [= <- <-]; cbn [c_sw c_wait c_noti]. right; left. discriminate.
    + destruct (is_nil (c_wait c)) eqn:En; [|discriminate].
      intros [= <- <-]; cbn [c_sw c_wait c_noti]. left. now apply is_nil_true.
    + intros [= <- <-]; cbn [c_sw c_wait c_noti].
      destruct Hk as [-> ->]; [discriminate|]. exact Hn.
    + intros [= <- <-]; cbn [c_sw c_wait c_noti].
      destruct Hk as [-> ->]; [discriminate|]. exact Hn.
Qed.

(** Along any schedule whose projected history is well-formed: the window
    invariant holds of the sequential part, it is the state the history
    produces, and NL holds. *)
Lemma crun_inv : forall ls c g c' ops,
  Inv (c_sw c) g -> NL c -> crun c ls = Some (c', ops) ->
  wf_from (c_sw c) g ops = true ->
  Inv (c_sw c') (snd (grun (c_sw c) g ops)) /\ NL c' /\ c_sw c' = fst (grun (c_sw c) g ops).
Proof.
  induction ls as [|l ls IH]; intros c g c' ops Hi Hn Hr Hw; cbn [crun] in Hr.
  - injection Hr as <- <-. cbn [grun fst snd]. auto.
  - destruct (cstep c l) as [[c1 o]|] eqn:Es; [|discriminate].
    destruct (crun c1 ls) as [[c2 os]|] eqn:Er; [|discriminate].
    injection Hr as <- <-.
    pose proof (cstep_proj c l c1 o Es) as Hp.
    assert (Hn1 : NL c1).
    { apply (cstep_NL c l c1 o); [apply Hi|now apply (inv_sum_nonneg _ g)|exact Hn|exact Es]. }
    destruct o as [p|]; cbn [opt_list app] in *.
    + cbn [wf_from grun] in *. pose proof (step_inv (c_sw c) g p Hi) as Hs.
      destruct (step (c_sw c) p) as [x s1]. cbn [fst snd] in *.
      apply andb_true_iff in Hw. destruct Hw as [Hok Hw]. subst s1.
      apply (IH c1 _ c2 os); [now apply Hs|exact Hn1|exact Er|exact Hw].
    + rewrite <- Hp. rewrite <- Hp in Hw, Hi. now apply (IH c1 g c2 os).
Qed.

Lemma crun_wf_inv cap ls c ops :
  crun (cinit cap) ls = Some (c, ops) -> wf cap ops = true ->
  Inv (c_sw c) (snd (grun (sw_init cap) ghost0 ops)) /\ NL c /\
  c_sw c = fst (grun (sw_init cap) ghost0 ops) /\ bal cap (c_sw c).
Proof.
  intros Hr Hw.
  destruct (crun_inv ls (cinit cap) ghost0 c ops (inv_init cap) (NL_init cap) Hr Hw) as (H1 & H2 & H3).
  cbn [cinit c_sw] in *. split; [exact H1|]. split; [exact H2|]. split; [exact H3|].
  rewrite H3, grun_is_run. apply run_basic_bal; [apply basic_init|apply bal_init].
Qed.

(** A sleeping waiter always has a waker: a notified thread, or an
    outstanding lowest token (granted, not released) of some tag. *)
Lemma waiter_has_waker cap ls c ops : 0 < cap ->
  crun (cinit cap) ls = Some (c, ops) -> wf cap ops = true ->
  c_wait c <> [] ->
  c_noti c <> [] \/
  exists t, let lo := t_low (get (c_sw c) t) in
    lo < t_next (get (c_sw c) t) /\
    In (t, lo) (g_granted (snd (grun (sw_init cap) ghost0 ops))) /\
    ~ In (t, lo) (g_released (snd (grun (sw_init cap) ghost0 ops))).
Proof.
  intros Hcap Hr Hw Hne. destruct (crun_wf_inv cap ls c ops Hr Hw) as (Hi & Hn & _ & Hb).
  destruct Hn as [Hn|[Hn|Hn]]; [contradiction|now left|right].
  assert (Hpos : 0 < sum_out (sw_tags (c_sw c))).
  { destruct Hn as [Hn|Hn]; [exact Hn|]. unfold bal in Hb. lia. }
  destruct (sum_out_pos_ex _ Hpos) as (t & r & Hin & Hlt).
  pose proof (inv_entries _ _ t r Hi Hin) as Hg. exists t. cbn zeta. rewrite Hg.
  split; [exact Hlt|]. pose proof (inv_lowest_least _ _ t Hi) as (_ & _ & Hnr). rewrite Hg in Hnr.
  split; [|exact Hnr]. destruct Hi as [_ Ht]. destruct (Ht t) as (H1 & _ & _ & H4 & _).
  rewrite Hg in *. apply H4. lia.
Qed.

Lemma lowest_branch s t : t_low (get s t) < t_next (get s t) ->
  rel_branch s t (t_low (get s t)) = BLowest.
Proof.
  unfold rel_branch, get. destruct (lookup (sw_tags s) t) as [r|]; [|cbn; lia].
  intros H. rewrite Z.eqb_refl. destruct (t_low r <? t_next r) eqn:E; [reflexivity|lia].
Qed.

(** Releasing the lowest outstanding token of a tag notifies: with a waiter
    asleep the step is enabled exactly with a chosen waiter, who becomes
    notified. *)
Lemma release_lowest_notifies c t w c' o :
  t_low (get (c_sw c) t) < t_next (get (c_sw c) t) -> c_wait c <> [] ->
  cstep c (LRel t (t_low (get (c_sw c) t)) w) = Some (c', o) ->
  exists tid tg, w = Some tid /\ find_tid tid (c_wait c) = Some tg /\
    c_noti c' = (tid, tg) :: c_noti c /\ c_wait c' = remove_tid tid (c_wait c).
Proof.
  intros Hk Hne. cbn [cstep]. rewrite (lowest_branch _ _ Hk).
  destruct (sw_release _ _ _) as [x s']. destruct w as [tid|].
  - destruct (find_tid tid (c_wait c)) as [tg|] eqn:Ef; [|discriminate].
    intros [= <- <-]. exists tid, tg. cbn [c_noti c_wait]. auto.
  - destruct (c_wait c); [contradiction|discriminate].
Qed.

Lemma release_lowest_enabled c t tid tg :
  t_low (get (c_sw c) t) < t_next (get (c_sw c) t) -> find_tid tid (c_wait c) = Some tg ->
  cstep c (LRel t (t_low (get (c_sw c) t)) (Some tid)) <> None.
Proof.
  intros Hk Hf. cbn [cstep]. rewrite (lowest_branch _ _ Hk), Hf.
  destruct (sw_release _ _ _). discriminate.
Qed.

(** A notified thread that runs while a permit is there takes it. *)
Lemma notified_takes_permit c tid t :
  find_tid tid (c_noti c) = Some t -> sw_count (c_sw c) <> 0 ->
  exists s',
    cstep c (LWake tid) =
      Some (mkC s' (c_wait c) (remove_tid tid (c_noti c)), Some (OAcq t true)) /\
    sw_acquire (c_sw c) t true = (RTok (t_next (get (c_sw c) t)), s').
Proof.
  intros Hf Hc. cbn [cstep]. rewrite Hf.
  destruct (acquire_nonzero_grants (c_sw c) t true Hc) as (s' & E & _). rewrite E.
  exists s'. split; reflexivity.
Qed.

(** A thread goes to sleep only after seeing count = 0 under the lock. *)
Lemma sleeps_only_at_zero c l c' o :
  cstep c l = Some (c', o) -> (length (c_wait c) < length (c_wait c'))%nat ->
  sw_count (c_sw c) = 0 /\ c_sw c' = c_sw c.
Proof.
  destruct l as [tid t b|tid|tid|t k w]; cbn [cstep].
  - destruct (has_tid tid (c_wait c) || has_tid tid (c_noti c)); [discriminate|].
    unfold sw_acquire. destruct (sw_count (c_sw c) =? 0) eqn:E.
    + destruct b; intros [= <- <-]; cbn [c_wait c_sw]; intros; split; (lia || reflexivity).
    + intros [= <- <-]; cbn [c_wait]. lia.
  - destruct (find_tid tid (c_noti c)) as [t|]; [|discriminate].
    unfold sw_acquire. destruct (sw_count (c_sw c) =? 0) eqn:E.
    + intros [= <- <-]; cbn [c_wait c_sw]; intros; split; (lia || reflexivity).
    + intros [= <- <-]; cbn [c_wait]. lia.
  - destruct (find_tid tid (c_wait c)) as [t|] eqn:Ef; [|discriminate].
    intros [= <- <-]; cbn [c_wait]. intros H. exfalso. revert H.
    assert (G : forall l, (length (remove_tid tid l) <= length l)%nat).
    { induction l as [|[i x] l IH]; cbn [remove_tid length]; [lia|].
      destruct (i =? tid); cbn [length]; lia. }
    specialize (G (c_wait c)). lia.
  - assert (G : forall i l, (length (remove_tid i l) <= length l)%nat).
    { intros i. induction l as [|[j x] l IH]; cbn [remove_tid length]; [lia|].
      destruct (j =? i); cbn [length]; lia. }
    destruct (sw_release (c_sw c) t k) as [x s'].
    destruct (rel_branch (c_sw c) t k); destruct w as [tid|]; try discriminate;
      try (intros [= <- <-]; cbn [c_wait]; lia).
    + destruct (find_tid tid (c_wait c)); [|discriminate].
      intros [= <- <-]; cbn [c_wait]. specialize (G tid (c_wait c)). lia.
    + destruct (is_nil (c_wait c)); [|discriminate]. intros [= <- <-]; cbn [c_wait]. lia.
Qed.

(** No reachable stuck state: everything granted has been released, nobody
    is notified (nothing is runnable inside acquire) -- then nobody sleeps. *)
Lemma no_lost_wakeup cap ls c ops : 0 < cap ->
  crun (cinit cap) ls = Some (c, ops) -> wf cap ops = true ->
  quiescent (snd (grun (sw_init cap) ghost0 ops)) = true ->
  c_noti c = [] -> c_wait c = [].
Proof.
  intros Hcap Hr Hw Hq Hnn. destruct (crun_wf_inv cap ls c ops Hr Hw) as (Hi & Hn & _ & Hb).
  destruct (inv_quiescent _ _ cap Hi Hb Hq) as [Hc Hall].
  destruct Hn as [Hn|[Hn|[Hn|Hn]]]; [exact Hn|contradiction| |lia].
  exfalso. destruct (sum_out_pos_ex _ Hn) as (t & r & Hin & Hlt).
  pose proof (inv_entries _ _ t r Hi Hin) as Hg. destruct (Hall t) as [_ He].
  rewrite Hg in He. lia.
Qed.
