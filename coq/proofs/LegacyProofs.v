From Coq Require Import ZArith List Bool Lia ZifyBool Arith Permutation.
From S3V Require Import gen.Tables model.Plan proofs.PlanProofs model.Legacy.
Import ListNotations.
Open Scope Z_scope.
Ltac Zify.zify_post_hook ::= Z.to_euclidean_division_equations.

(** * Part 1: upload (C05) *)

Definition is_part (e : uev) : bool := match e with UPart _ _ => true | _ => false end.
Definition is_complete (e : uev) : bool := match e with UComplete _ => true | _ => false end.
Definition is_abort (e : uev) : bool := match e with UAbort _ => true | _ => false end.
Definition part_no (e : uev) : Z := match e with UPart n _ => n | _ => 0 end.
Definition part_ok (e : uev) : bool := match e with UPart _ ok => ok | _ => false end.
Definition raising (o : uout) : Prop := o <> USuccess.

Lemma first_fail_none l : first_fail l = None -> Forall (fun b => b = true) l.
Proof.
  induction l as [|b l IH]; intros H; [constructor|].
  destruct b; cbn in H; [|discriminate].
  destruct (first_fail l); [discriminate|]. constructor; auto.
Qed.

Lemma first_fail_some l f : first_fail l = Some f ->
  (f < length l)%nat /\ nth f l true = false /\ forall j, (j < f)%nat -> nth j l true = true.
Proof.
  revert f; induction l as [|b l IH]; intros f H; [discriminate|].
  destruct b; cbn in H.
  - destruct (first_fail l) as [k|] eqn:E; [|discriminate]. injection H as <-.
    destruct (IH k eq_refl) as (A & B & C). cbn [length nth]. split; [lia|]. split; [exact B|].
    intros j Hj. destruct j; [reflexivity|]. apply C. lia.
  - injection H as <-. cbn. split; [lia|]. split; [reflexivity|]. intros j Hj; lia.
Qed.

Lemma parts_run_le parts_ok started : (parts_run parts_ok started <= length parts_ok)%nat.
Proof.
  unfold parts_run. destruct (first_fail parts_ok) as [f|] eqn:E; [|lia].
  apply first_fail_some in E. lia.
Qed.

(** every part up to and including the first failing one has run *)
Lemma parts_run_covers_first_fail parts_ok started f :
  first_fail parts_ok = Some f -> (f < parts_run parts_ok started)%nat.
Proof. intros E. unfold parts_run. rewrite E. lia. Qed.

Lemma parts_run_all_ok parts_ok started :
  first_fail parts_ok = None -> parts_run parts_ok started = length parts_ok.
Proof. intros E. unfold parts_run. now rewrite E. Qed.

Lemma part_events_length k oks : length (part_events k oks) = length oks.
Proof. revert k; induction oks as [|b r IH]; intros k; cbn; [reflexivity|now rewrite IH]. Qed.

Lemma part_events_parts k oks : forallb is_part (part_events k oks) = true.
Proof. revert k; induction oks as [|b r IH]; intros k; cbn; [reflexivity|apply IH]. Qed.

Lemma part_events_numbers k oks :
  map part_no (part_events k oks) = map (fun i => Z.of_nat (S i)) (seq k (length oks)).
Proof. revert k; induction oks as [|b r IH]; intros k; cbn [part_events map length seq part_no]; [reflexivity|now rewrite IH]. Qed.

Lemma part_events_oks k oks : map part_ok (part_events k oks) = oks.
Proof. revert k; induction oks as [|b r IH]; intros k; cbn [part_events map part_ok]; [reflexivity|now rewrite IH]. Qed.

Lemma canonical_length parts_ok started :
  length (canonical_parts parts_ok started) = parts_run parts_ok started.
Proof.
  unfold canonical_parts. rewrite part_events_length, firstn_length.
  pose proof (parts_run_le parts_ok started). lia.
Qed.

(** the parts issued are numbered 1..m, each once, in the canonical order *)
Lemma canonical_numbers parts_ok started :
  map part_no (canonical_parts parts_ok started) =
  map (fun i => Z.of_nat (S i)) (seq 0 (parts_run parts_ok started)).
Proof.
  unfold canonical_parts. rewrite part_events_numbers, firstn_length.
  pose proof (parts_run_le parts_ok started).
  now replace (Nat.min (parts_run parts_ok started) (length parts_ok)) with (parts_run parts_ok started) by lia.
Qed.

Lemma map_nth_seq {A} (d : A) (l : list A) : map (fun i => nth i l d) (seq 0 (length l)) = l.
Proof.
  induction l as [|x l IH]; [reflexivity|].
  cbn [length seq map nth]. f_equal. rewrite <- seq_shift, map_map. exact IH.
Qed.

Lemma permute_perm {A} (d : A) order (l : list A) :
  Permutation order (seq 0 (length l)) -> Permutation (permute d order l) l.
Proof.
  intros H. unfold permute.
  eapply Permutation_trans; [apply Permutation_map; exact H|].
  rewrite map_nth_seq. apply Permutation_refl.
Qed.

Lemma permute_parts order l :
  forallb is_part l = true -> forallb is_part (permute (UPart 0 true) order l) = true.
Proof.
  intros H. unfold permute. apply forallb_forall. intros x Hx.
  apply in_map_iff in Hx. destruct Hx as (i & <- & _).
  destruct (nth_in_or_default i l (UPart 0 true)) as [Hin| ->]; [|reflexivity].
  rewrite forallb_forall in H. now apply H.
Qed.

(** The shape of a legacy multipart upload's request log. *)
Inductive c05_shape (n : nat) : list uev -> uout -> Prop :=
| shape_ok ps :
    forallb is_part ps = true -> length ps = n -> forallb part_ok ps = true ->
    c05_shape n (UCreate true :: ps ++ [UComplete true]) USuccess
| shape_fail ps mid b :
    forallb is_part ps = true -> (length ps <= n)%nat ->
    mid = [] \/ mid = [UComplete false] ->
    c05_shape n (UCreate true :: ps ++ mid ++ [UAbort b]) (if b then UFailed else UAbortErr)
| shape_nocreate : c05_shape n [UCreate false] UCreateErr.

Lemma In_firstn_incl {A} (x : A) n l : In x (firstn n l) -> In x l.
Proof.
  revert l; induction n as [|n IH]; intros l H; [destruct H|].
  destruct l as [|y l]; [destruct H|]. destruct H as [->|H]; [now left|right; now apply IH].
Qed.

Lemma forallb_perm {A} (f : A -> bool) l l' : Permutation l l' -> forallb f l = true -> forallb f l' = true.
Proof.
  intros P H. apply forallb_forall. intros x Hx. rewrite forallb_forall in H.
  apply H. eapply Permutation_in; [apply Permutation_sym; exact P|exact Hx].
Qed.

Lemma upload_shape create_ok parts_ok started order complete_ok abort_ok :
  Permutation order (seq 0 (length (canonical_parts parts_ok started))) ->
  let (log, out) := legacy_multipart_upload create_ok parts_ok started order complete_ok abort_ok in
  c05_shape (length parts_ok) log out /\
  (create_ok = true ->
   exists ps, Permutation ps (canonical_parts parts_ok started) /\
              exists tl, log = UCreate true :: ps ++ tl /\
                (tl = [UComplete true] \/ tl = [UAbort abort_ok] \/
                 tl = [UComplete false; UAbort abort_ok])).
Proof.
  intros P. unfold legacy_multipart_upload.
  set (canon := canonical_parts parts_ok started) in *.
  pose proof (permute_perm (UPart 0 true) order canon P) as PP.
  assert (Hparts : forallb is_part (permute (UPart 0 true) order canon) = true).
  { apply permute_parts. apply part_events_parts. }
  assert (Hlen : length (permute (UPart 0 true) order canon) = parts_run parts_ok started).
  { rewrite (Permutation_length PP). apply canonical_length. }
  destruct create_ok; cbn [negb].
  2:{ split; [constructor|discriminate]. }
  unfold parts_all_ok. destruct (first_fail parts_ok) as [f|] eqn:E.
  - split.
    + change (UCreate true :: permute (UPart 0 true) order canon ++ [UAbort abort_ok])
        with (UCreate true :: permute (UPart 0 true) order canon ++ [] ++ [UAbort abort_ok]).
      apply shape_fail; [exact Hparts| |now left].
      rewrite Hlen. apply parts_run_le.
    + intros _. exists (permute (UPart 0 true) order canon). split; [exact PP|].
      exists [UAbort abort_ok]. split; [reflexivity|]. right; left; reflexivity.
  - assert (Hall : forallb part_ok (permute (UPart 0 true) order canon) = true).
    { apply (forallb_perm part_ok canon); [now apply Permutation_sym|].
      apply forallb_forall. intros x Hx.
      assert (In (part_ok x) (map part_ok canon)) as Hin by now apply in_map.
      unfold canon, canonical_parts in Hin. rewrite part_events_oks in Hin.
      apply first_fail_none in E. rewrite Forall_forall in E.
      apply E. eapply In_firstn_incl; exact Hin. }
    destruct complete_ok.
    + split.
      * apply shape_ok; [exact Hparts| |exact Hall].
        rewrite Hlen. now apply parts_run_all_ok.
      * intros _. exists (permute (UPart 0 true) order canon). split; [exact PP|].
        exists [UComplete true]. split; [reflexivity|]. left; reflexivity.
    + split.
      * change (UCreate true :: permute (UPart 0 true) order canon ++ UComplete false :: [UAbort abort_ok])
          with (UCreate true :: permute (UPart 0 true) order canon ++ [UComplete false] ++ [UAbort abort_ok]).
        apply shape_fail; [exact Hparts| |now right].
        rewrite Hlen. apply parts_run_le.
      * intros _. exists (permute (UPart 0 true) order canon). split; [exact PP|].
        exists [UComplete false; UAbort abort_ok]. split; [reflexivity|]. right; right; reflexivity.
Qed.

Lemma parts_not_other ps e : forallb is_part ps = true -> In e ps -> is_part e = true.
Proof. intros H Hin. rewrite forallb_forall in H. now apply H. Qed.

Lemma shape_success_iff n log out : c05_shape n log out ->
  (out = USuccess <-> In (UComplete true) log).
Proof.
  intros S. destruct S as [ps Hp _ _|ps mid b Hp _ Hmid|].
  - split; [intros _|reflexivity]. right. apply in_or_app. right. now left.
  - split; [destruct b; discriminate|]. intros [H|H]; [discriminate|].
    apply in_app_or in H. destruct H as [H|H].
    + apply (parts_not_other ps _ Hp) in H. discriminate.
    + apply in_app_or in H. destruct H as [H|[H|[]]]; [|discriminate].
      destruct Hmid as [-> | ->]; [destruct H|]. destruct H as [H|[]]; discriminate.
  - split; [discriminate|]. intros [H|[]]; discriminate.
Qed.

(** never both a successful complete and an abort *)
Lemma shape_not_both n log out : c05_shape n log out ->
  ~ (In (UComplete true) log /\ exists b, In (UAbort b) log).
Proof.
  intros S [Hc [b Ha]]. pose proof (proj2 (shape_success_iff n log out S) Hc) as ->.
  inversion S as [ps Hp _ _ E|ps mid b' _ _ _ E Eo|]; subst.
  - destruct Ha as [H|H]; [discriminate|]. apply in_app_or in H. destruct H as [H|[H|[]]]; [|discriminate].
    apply (parts_not_other ps _ Hp) in H. discriminate.
  - destruct b'; discriminate.
Qed.

(** at most one complete, at most one abort *)
Lemma filter_parts_nil f ps : forallb is_part ps = true ->
  (forall e, is_part e = true -> f e = false) -> filter f ps = [].
Proof.
  intros H Hf. induction ps as [|e ps IH]; [reflexivity|].
  cbn in H. apply andb_prop in H. destruct H as [He Hps]. cbn. rewrite (Hf e He). now apply IH.
Qed.

Lemma shape_counts n log out : c05_shape n log out ->
  (length (filter is_complete log) <= 1)%nat /\ (length (filter is_abort log) <= 1)%nat.
Proof.
  intros S. destruct S as [ps Hp _ _|ps mid b Hp _ Hmid|]; cbn [filter is_complete is_abort].
  - rewrite !filter_app, !(filter_parts_nil _ ps Hp) by (intros [] ?; try discriminate; reflexivity).
    cbn. lia.
  - rewrite !filter_app, !(filter_parts_nil _ ps Hp) by (intros [] ?; try discriminate; reflexivity).
    destruct Hmid as [-> | ->]; cbn; lia.
  - cbn. lia.
Qed.

(** the abort is the last request: after every part and after the complete *)
Lemma shape_abort_last n log out : c05_shape n log out ->
  forall b, In (UAbort b) log ->
  exists pre, log = pre ++ [UAbort b] /\ forallb (fun e => negb (is_abort e)) pre = true.
Proof.
  intros S b Hin. destruct S as [ps Hp _ _|ps mid b' Hp _ Hmid|].
  - exfalso. destruct Hin as [H|H]; [discriminate|]. apply in_app_or in H.
    destruct H as [H|[H|[]]]; [|discriminate]. apply (parts_not_other ps _ Hp) in H. discriminate.
  - assert (Hpre : forallb (fun e => negb (is_abort e)) (UCreate true :: ps ++ mid) = true).
    { cbn [forallb is_abort negb andb]. rewrite forallb_app. apply andb_true_intro. split.
      - apply forallb_forall. intros e He. apply (parts_not_other ps _ Hp) in He. now destruct e.
      - destruct Hmid as [-> | ->]; reflexivity. }
    assert (b = b').
    { destruct Hin as [H|H]; [discriminate|]. apply in_app_or in H. destruct H as [H|H].
      - apply (parts_not_other ps _ Hp) in H. discriminate.
      - apply in_app_or in H. destruct H as [H|[H|[]]]; [|now injection H].
        destruct Hmid as [-> | ->]; [destruct H|]. destruct H as [H|[]]; discriminate. }
    subst b'. exists (UCreate true :: ps ++ mid). split; [|exact Hpre].
    cbn [app]. now rewrite app_assoc.
  - destruct Hin as [H|[]]; discriminate.
Qed.

(** the id was received and the call raised: an abort was issued *)
Lemma shape_failure_aborts n log out : c05_shape n log out ->
  In (UCreate true) log -> out <> USuccess -> exists b, In (UAbort b) log.
Proof.
  intros S Hc Ho. destruct S as [ps _ _ _|ps mid b _ _ _|].
  - now elim Ho.
  - exists b. right. apply in_or_app. right. apply in_or_app. right. now left.
  - destruct Hc as [H|[]]; discriminate.
Qed.

(** no request at all after a failed create, and the create is first *)
Lemma shape_create_first n log out : c05_shape n log out ->
  exists ok rest, log = UCreate ok :: rest /\ (ok = false -> rest = [] /\ out = UCreateErr).
Proof.
  intros S. destruct S; eexists; eexists; (split; [reflexivity|]); try discriminate. auto.
Qed.

(** The variant with the complete after the try/except does not abort when
    the complete fails: the upload stays open. *)
Lemma unrepaired_leaks :
  let (log, out) := legacy_multipart_upload_unrepaired true [true; true] 2 [1%nat; 0%nat] false true in
  In (UCreate true) log /\ out <> USuccess /\ forall b, ~ In (UAbort b) log.
Proof.
  vm_compute. split; [now left|]. split; [discriminate|].
  intros b H. repeat (destruct H as [H|H]; [discriminate|]). exact H.
Qed.

(** upload_file picks the path by the threshold and the part count from Plan *)
Lemma legacy_upload_multipart size thr chunk c p s o co ao po :
  thr <= size ->
  legacy_upload size thr chunk c p s o co ao po =
  legacy_multipart_upload c (firstn (Z.to_nat (num_parts size chunk))
                               (p ++ repeat true (Z.to_nat (num_parts size chunk)))) s o co ao.
Proof. intros H. unfold legacy_upload, is_multipart. destruct (thr <=? size) eqn:E; [reflexivity|lia]. Qed.

Lemma legacy_upload_single size thr chunk c p s o co ao po :
  size < thr ->
  legacy_upload size thr chunk c p s o co ao po = ([UPut po], if po then USuccess else UPutErr).
Proof. intros H. unfold legacy_upload, is_multipart. destruct (thr <=? size) eqn:E; [lia|reflexivity]. Qed.

(** * Part 2: download (C02, C06) *)

(** ** seek + write on a byte list *)

Lemma write_at_length off d f :
  length (write_at off d f) = Nat.max (length f) (off + length d).
Proof. unfold write_at. now rewrite map_length, seq_length. Qed.

Lemma write_at_nth off d f p : (p < Nat.max (length f) (off + length d))%nat ->
  nth p (write_at off d f) 0 =
  if (p <? off)%nat then nth p f 0
  else if (p <? off + length d)%nat then nth (p - off)%nat d 0 else nth p f 0.
Proof.
  intros Hp. unfold write_at.
  set (g := fun q : nat => if (q <? off)%nat then nth q f 0
                           else if (q <? off + length d)%nat then nth (q - off) d 0 else nth q f 0).
  rewrite (nth_indep _ 0 (g 0%nat)) by (now rewrite map_length, seq_length).
  rewrite map_nth. rewrite seq_nth by exact Hp. reflexivity.
Qed.

(** ** what the streaming loop yields *)

Definition read_limit (delivered : Z) (reads : list Z) (buf : Z) (fa : option Z) : option Z :=
  let n0 := match reads with [] => buf | r :: _ => Z.min buf (Z.max 1 r) end in
  match fa with
  | Some k => if k <=? delivered then None else Some (Z.min n0 (k - delivered))
  | None => Some n0
  end.

Lemma stream_chunks_step f rest delivered reads buf fa :
  stream_chunks (S f) rest delivered reads buf fa =
  match read_limit delivered reads buf fa with
  | None => ([], true)
  | Some n =>
      match firstn (Z.to_nat n) rest with
      | [] => ([], false)
      | _ :: _ =>
          let (cs, flt) := stream_chunks f (skipn (Z.to_nat n) rest)
                             (delivered + Z.of_nat (length (firstn (Z.to_nat n) rest)))
                             (tl reads) buf fa in
          (firstn (Z.to_nat n) rest :: cs, flt)
      end
  end.
Proof. reflexivity. Qed.

Lemma read_limit_pos delivered reads buf fa n :
  1 <= buf -> read_limit delivered reads buf fa = Some n -> 1 <= n.
Proof.
  intros Hb. unfold read_limit. destruct fa as [k|].
  - destruct (k <=? delivered) eqn:E; [discriminate|]. intros [= <-].
    destruct reads as [|r rs]; lia.
  - intros [= <-]. destruct reads as [|r rs]; lia.
Qed.

Lemma stream_chunks_prefix fuel : forall rest delivered reads buf fa cs flt,
  stream_chunks fuel rest delivered reads buf fa = (cs, flt) ->
  exists tail, rest = concat cs ++ tail.
Proof.
  induction fuel as [|f IH]; intros rest delivered reads buf fa cs flt H.
  - cbn in H. injection H as <- <-. now exists rest.
  - rewrite stream_chunks_step in H.
    destruct (read_limit delivered reads buf fa) as [n|]; [|injection H as <- <-; now exists rest].
    destruct (firstn (Z.to_nat n) rest) as [|x d'] eqn:Ed; [injection H as <- <-; now exists rest|].
    destruct (stream_chunks f _ _ _ _ _) as [cs' flt'] eqn:Er. injection H as <- <-.
    apply IH in Er. destruct Er as [tail Ht]. exists tail.
    cbn [concat]. rewrite <- app_assoc, <- Ht, <- Ed. symmetry. apply firstn_skipn.
Qed.

Lemma stream_chunks_nonempty fuel : forall rest delivered reads buf fa cs flt,
  stream_chunks fuel rest delivered reads buf fa = (cs, flt) -> Forall (fun c => c <> []) cs.
Proof.
  induction fuel as [|f IH]; intros rest delivered reads buf fa cs flt H.
  - cbn in H. injection H as <- <-. constructor.
  - rewrite stream_chunks_step in H.
    destruct (read_limit delivered reads buf fa) as [n|]; [|injection H as <- <-; constructor].
    destruct (firstn (Z.to_nat n) rest) as [|x d'] eqn:Ed; [injection H as <- <-; constructor|].
    destruct (stream_chunks f _ _ _ _ _) as [cs' flt'] eqn:Er. injection H as <- <-.
    constructor; [discriminate|]. eapply IH; exact Er.
Qed.

(** no stream fault: the chunks are the whole body, whatever the read sizes *)
Lemma stream_chunks_complete fuel : forall rest delivered reads buf fa cs,
  1 <= buf -> (length rest < fuel)%nat ->
  stream_chunks fuel rest delivered reads buf fa = (cs, false) -> concat cs = rest.
Proof.
  induction fuel as [|f IH]; intros rest delivered reads buf fa cs Hb Hf H; [lia|].
  rewrite stream_chunks_step in H.
  destruct (read_limit delivered reads buf fa) as [n|] eqn:En; [|discriminate].
  pose proof (read_limit_pos _ _ _ _ _ Hb En) as Hn.
  destruct (firstn (Z.to_nat n) rest) as [|x d'] eqn:Ed.
  - injection H as <-. destruct rest as [|y rest]; [reflexivity|].
    destruct (Z.to_nat n) eqn:Ez; [lia|]. discriminate Ed.
  - destruct (stream_chunks f _ _ _ _ _) as [cs' flt'] eqn:Er. injection H as <- ->.
    apply IH in Er; [|exact Hb|].
    + cbn [concat]. rewrite Er, <- Ed. apply firstn_skipn.
    + rewrite skipn_length. destruct rest as [|y rest]; [now rewrite firstn_nil in Ed|].
      cbn [length] in *. lia.
Qed.

(** ** every write carries the object's own bytes to the object's own offset *)

Definition consistent (obj : bytes) (w : Z * bytes) : Prop :=
  0 <= fst w /\ fst w + Z.of_nat (length (snd w)) <= Z.of_nat (length obj) /\
  forall j, (j < length (snd w))%nat -> nth j (snd w) 0 = nth (Z.to_nat (fst w) + j) obj 0.

Definition covers (w : Z * bytes) (p : nat) : Prop :=
  (Z.to_nat (fst w) <= p < Z.to_nat (fst w) + length (snd w))%nat.

Lemma nth_skipn_add {A} (d : A) n : forall l j, nth j (skipn n l) d = nth (n + j) l d.
Proof.
  induction n as [|n IH]; intros l j; [reflexivity|].
  destruct l as [|x l]; [now destruct j|]. cbn [skipn Nat.add nth]. apply IH.
Qed.

Lemma writes_from_consistent obj : forall cs off tail,
  0 <= off -> (Z.to_nat off <= length obj)%nat ->
  skipn (Z.to_nat off) obj = concat cs ++ tail ->
  Forall (consistent obj) (writes_from off cs).
Proof.
  induction cs as [|c r IH]; intros off tail H0 Hle Hsk; cbn [writes_from]; [constructor|].
  cbn [concat] in Hsk. rewrite <- app_assoc in Hsk.
  assert (Hlen : (length c <= length obj - Z.to_nat off)%nat).
  { rewrite <- skipn_length, Hsk, app_length. lia. }
  constructor.
  - unfold consistent; cbn [fst snd]. split; [exact H0|]. split; [lia|].
    intros j Hj. rewrite <- nth_skipn_add, Hsk. now rewrite app_nth1.
  - apply (IH _ tail); [lia|lia|].
    replace (Z.to_nat (off + Z.of_nat (length c))) with (Z.to_nat off + length c)%nat by lia.
    rewrite <- skipn_add, Hsk. rewrite skipn_app, skipn_all, Nat.sub_diag. reflexivity.
Qed.

Lemma writes_from_covers : forall cs off p, 0 <= off ->
  (Z.to_nat off <= p < Z.to_nat off + length (concat cs))%nat ->
  exists w, In w (writes_from off cs) /\ covers w p.
Proof.
  induction cs as [|c r IH]; intros off p H0 Hp; cbn [concat length] in Hp; [lia|].
  rewrite app_length in Hp. cbn [writes_from].
  destruct (Nat.lt_ge_cases p (Z.to_nat off + length c)) as [Hlt|Hge].
  - exists (off, c). split; [now left|]. unfold covers; cbn [fst snd]. lia.
  - destruct (IH (off + Z.of_nat (length c)) p ltac:(lia) ltac:(lia)) as (w & Hin & Hc).
    exists w. split; [now right|exact Hc].
Qed.

Definition apply_writes (ws : list (Z * bytes)) (f : bytes) : bytes :=
  fold_left (fun f w => write_at (Z.to_nat (fst w)) (snd w) f) ws f.

(** Applying consistent writes in ANY order keeps every position some write
    has covered equal to the object's byte there. *)
Lemma apply_writes_inv obj : forall ws f (P : nat -> Prop),
  Forall (consistent obj) ws -> (length f <= length obj)%nat ->
  (forall p, P p -> (p < length f)%nat /\ nth p f 0 = nth p obj 0) ->
  (length (apply_writes ws f) <= length obj)%nat /\
  forall p, (P p \/ exists w, In w ws /\ covers w p) ->
            (p < length (apply_writes ws f))%nat /\ nth p (apply_writes ws f) 0 = nth p obj 0.
Proof.
  induction ws as [|w ws IH]; intros f P Hc Hlen HP; cbn [apply_writes fold_left].
  - split; [exact Hlen|]. intros p [Hp|(w & [] & _)]. now apply HP.
  - inversion Hc as [|? ? Hw Hws]; subst.
    destruct Hw as (Hw0 & Hw1 & Hw2).
    set (f1 := write_at (Z.to_nat (fst w)) (snd w) f).
    assert (Hl1 : length f1 = Nat.max (length f) (Z.to_nat (fst w) + length (snd w))) by apply write_at_length.
    specialize (IH f1 (fun p => P p \/ covers w p) Hws ltac:(lia)).
    destruct IH as [IHa IHb].
    { intros p Hp. assert (Hlt : (p < length f1)%nat).
      { destruct Hp as [Hp|Hp]; [apply HP in Hp; lia|unfold covers in Hp; lia]. }
      split; [exact Hlt|]. unfold f1. rewrite write_at_nth by lia.
      destruct (p <? Z.to_nat (fst w))%nat eqn:E1.
      - destruct Hp as [Hp|Hp]; [now apply HP|unfold covers in Hp; lia].
      - destruct (p <? Z.to_nat (fst w) + length (snd w))%nat eqn:E2.
        + rewrite Hw2 by lia. f_equal. lia.
        + destruct Hp as [Hp|Hp]; [now apply HP|unfold covers in Hp; lia]. }
    split; [exact IHa|]. intros p Hp. apply IHb.
    destruct Hp as [Hp|(w' & [<-|Hin] & Hcv)]; [now left; left|now left; right|].
    right. now exists w'.
Qed.

(** all positions covered: the file IS the object *)
Lemma apply_writes_all obj ws :
  Forall (consistent obj) ws ->
  (forall p, (p < length obj)%nat -> exists w, In w ws /\ covers w p) ->
  apply_writes ws [] = obj.
Proof.
  intros Hc Hcov.
  destruct (apply_writes_inv obj ws [] (fun _ => False) Hc (Nat.le_0_l _)) as [Ha Hb]; [intros p []|].
  assert (Hlen : length (apply_writes ws []) = length obj).
  { destruct (length obj) as [|n] eqn:E; [lia|].
    destruct (Hb n) as [Hlt _]; [right; apply Hcov; lia|]. lia. }
  apply (nth_ext _ _ 0 0); [exact Hlen|].
  intros p Hp. apply Hb. right. apply Hcov. lia.
Qed.
